// C14 (stage 2): ephemeral records live and die with their session — under concurrency.
// Real leader controller (RF=1) with real session manager on virtual time; session close /
// expiry racing with plain puts, ephemeral puts, heartbeats and a re-election.
package main

import (
	"context"
	"flag"
	"fmt"
	"os"
	"strings"
	"time"

	"github.com/oxia-db/oxia/proto"
	"github.com/oxia-db/oxia/server"
	"github.com/oxia-db/oxia/zzverif/vsched"

	"verif/lib/oxc"
	"verif/lib/oxh"
	"verif/lib/sched"
)

type env struct {
	s  *vsched.Sched
	lc server.LeaderController
}

func setup(s *vsched.Sched) *env {
	s.Explore(false)
	e := oxc.NewEnv(s)
	kvf := oxc.NewObsFactory(e.Dir)
	lc, err := server.NewLeaderController(server.Config{NotificationsRetentionTime: time.Hour}, "ns", 1, oxc.NewNet(), e.WalFactory("n1", 64*1024, true), kvf)
	if err == nil {
		_, err = lc.NewTerm(&proto.NewTermRequest{Namespace: "ns", Shard: 1, Term: 1, Options: &proto.NewTermOptions{EnableNotifications: true}})
	}
	if err == nil {
		_, err = lc.BecomeLeader(context.Background(), &proto.BecomeLeaderRequest{Namespace: "ns", Shard: 1, Term: 1, ReplicationFactor: 1, FollowerMaps: map[string]*proto.EntryId{}})
	}
	if err != nil {
		s.Fail("harness-setup", err.Error())
		return nil
	}
	return &env{s: s, lc: lc}
}

func (e *env) session(timeoutMs uint32) int64 {
	r, err := e.lc.CreateSession(&proto.CreateSessionRequest{Shard: 1, SessionTimeoutMs: timeoutMs, ClientIdentity: "c"})
	if err != nil {
		e.s.Fail("harness-setup", "create session: "+err.Error())
		return -1
	}
	return r.SessionId
}

func (e *env) put(key, val string, sess *int64) (proto.Status, error) {
	r, err := e.lc.WriteBlock(context.Background(), &proto.WriteRequest{Shard: oxh.I64(1), Puts: []*proto.PutRequest{{Key: key, Value: []byte(val), SessionId: sess}}})
	if err != nil {
		return 0, err
	}
	return r.Puts[0].Status, nil
}

func (e *env) get(key string) *proto.GetResponse {
	g, err := server.VerifLeaderDB(e.lc).Get(&proto.GetRequest{Key: key, IncludeValue: true})
	if err != nil {
		return nil
	}
	return g
}

// residue lists what is left of a session in the database.
func (e *env) residue(sid int64) []string {
	var out []string
	for _, l := range oxh.DumpDB(server.VerifLeaderDB(e.lc), oxh.DumpOpts{SkipTerm: true, SkipNotifications: true}) {
		if strings.Contains(l, fmt.Sprintf("sess=%d ", sid)) || strings.Contains(l, fmt.Sprintf("__oxia/session/%016x", sid)) {
			out = append(out, l)
		}
	}
	return out
}

// closeVsNewTerm: the leader is fenced while it closes a session. Whatever part of the close reached the log
// is what the next term starts from: the session record and the records the session owns must both be there
// or both be gone ("removed atomically with the session itself").
func closeVsNewTerm() func(s *vsched.Sched) {
	return func(s *vsched.Sched) {
		e := setup(s)
		if e == nil {
			return
		}
		sid := e.session(20000)
		if st, err := e.put("k1", "eph", &sid); err != nil || st != proto.Status_OK {
			s.Fail("harness-setup", fmt.Sprint(st, err))
			return
		}
		s.Settle()
		s.Explore(true)
		var cerr error
		vsched.Go(func() {
			_, cerr = e.lc.CloseSession(&proto.CloseSessionRequest{Shard: 1, SessionId: sid})
		})
		var nerr error
		vsched.Go(func() {
			_, nerr = e.lc.NewTerm(&proto.NewTermRequest{Namespace: "ns", Shard: 1, Term: 2, Options: &proto.NewTermOptions{EnableNotifications: true}})
		})
		s.Settle()
		s.Explore(false)
		if nerr != nil {
			s.Fail("harness-setup", "NewTerm(2): "+nerr.Error())
			return
		}
		if _, err := e.lc.BecomeLeader(context.Background(), &proto.BecomeLeaderRequest{Namespace: "ns", Shard: 1, Term: 2, ReplicationFactor: 1, FollowerMaps: map[string]*proto.EntryId{}}); err != nil {
			s.Fail("reelection-failed", err.Error())
			return
		}
		s.Settle()
		sessionRecord, owned := false, false
		for _, l := range e.residue(sid) {
			if strings.HasPrefix(strings.TrimLeft(l, "\""), fmt.Sprintf("__oxia/session/%016x\"", sid)) {
				sessionRecord = true
			}
			if strings.Contains(l, fmt.Sprintf("sess=%d ", sid)) {
				owned = true
			}
		}
		if owned && !sessionRecord {
			s.Fail("records-outlive-interrupted-close", fmt.Sprintf("CloseSession (result: %v) was interrupted by NewTerm(2); in term 2 the session record is gone but a record owned by session %d is still there, and nothing will ever remove it: %v", cerr, sid, e.residue(sid)))
		}
		s.Data = fmt.Sprintf("session=%v owned=%v close=%v", sessionRecord, owned, cerr)
		_ = e.lc.Close()
	}
}

// A: session close races with a plain put that takes the key over.
func closeVsTakeover(expire bool) func(s *vsched.Sched) {
	return func(s *vsched.Sched) {
		e := setup(s)
		if e == nil {
			return
		}
		sid := e.session(2000)
		if st, err := e.put("k1", "eph", &sid); err != nil || st != proto.Status_OK {
			s.Fail("harness-setup", fmt.Sprint(st, err))
			return
		}
		s.Settle()
		s.Explore(true)
		var pst proto.Status
		var perr error
		pdone := false
		vsched.Go(func() { pst, perr = e.put("k1", "plain", nil); pdone = true })
		if expire {
			s.Sleep(3 * time.Second) // no heartbeats: the session expires meanwhile
		} else {
			vsched.Go(func() { _, _ = e.lc.CloseSession(&proto.CloseSessionRequest{Shard: 1, SessionId: sid}) })
		}
		s.Settle()
		s.Explore(false)
		if pdone && perr == nil && pst == proto.Status_OK {
			g := e.get("k1")
			if g == nil || g.Status != proto.Status_OK || string(g.Value) != "plain" {
				s.Fail("session-end-removed-foreign-record", fmt.Sprintf("a plain put of k1 was acknowledged while session %d ended; afterwards k1 is %v", sid, g))
			}
		}
		if r := e.residue(sid); len(r) > 0 {
			s.Fail("session-residue", fmt.Sprintf("session %d ended but left %v", sid, r))
		}
		s.Data = fmt.Sprint(pst, perr != nil)
		_ = e.lc.Close()
	}
}

// B: session close races with an ephemeral put under the same session.
func closeVsOwnPut() func(s *vsched.Sched) {
	return func(s *vsched.Sched) {
		e := setup(s)
		if e == nil {
			return
		}
		sid := e.session(2000)
		s.Settle()
		s.Explore(true)
		var pst proto.Status
		var perr error
		vsched.Go(func() { pst, perr = e.put("k2", "eph", &sid) })
		vsched.Go(func() { _, _ = e.lc.CloseSession(&proto.CloseSessionRequest{Shard: 1, SessionId: sid}) })
		s.Settle()
		s.Explore(false)
		if r := e.residue(sid); len(r) > 0 {
			s.Fail("orphan-ephemeral-record", fmt.Sprintf("session %d was closed but the database still holds %v (put status %v err %v)", sid, r, pst, perr))
		}
		// a put naming the dead session is rejected
		if st, err := e.put("k3", "late", &sid); err == nil && st == proto.Status_OK {
			s.Fail("put-on-dead-session-accepted", "ephemeral put under a closed session succeeded")
		}
		s.Data = fmt.Sprint(pst, perr != nil)
		_ = e.lc.Close()
	}
}

// C: expiry only after a full timeout without heartbeats.
func expiryVsHeartbeat() func(s *vsched.Sched) {
	return func(s *vsched.Sched) {
		e := setup(s)
		if e == nil {
			return
		}
		sid := e.session(2000)
		if st, err := e.put("k1", "eph", &sid); err != nil || st != proto.Status_OK {
			s.Fail("harness-setup", fmt.Sprint(st, err))
			return
		}
		s.Settle()
		s.Explore(true)
		var hbs []int64 // virtual ms at which an acknowledged heartbeat returned
		vsched.Go(func() {
			for i := 0; i < 2; i++ {
				s.Sleep(1500 * time.Millisecond)
				if err := e.lc.KeepAlive(sid); err == nil {
					hbs = append(hbs, s.NowNanos()/1e6)
				}
			}
		})
		s.Sleep(8 * time.Second)
		s.Settle()
		s.Explore(false)
		// the moment of expiry is the timestamp of the clean-up request in the log
		expiredAt := int64(-1)
		w := server.VerifLeaderWal(e.lc)
		if r, err := w.NewReader(-1); err == nil {
			for r.HasNext() {
				le, err := r.ReadNext()
				if err != nil {
					break
				}
				lev := &proto.LogEntryValue{}
				if lev.UnmarshalVT(le.Value) != nil {
					continue
				}
				for _, wr := range lev.GetRequests().GetWrites() {
					for _, d := range wr.Deletes {
						if d.Key == server.SessionKey(server.SessionId(sid)) {
							expiredAt = int64(le.Timestamp)
						}
					}
				}
			}
			_ = r.Close()
		}
		if expiredAt < 0 {
			s.Fail("session-never-expired", "no heartbeat for more than twice the timeout but the session was never cleaned up")
		}
		for _, hb := range hbs {
			// a heartbeat that was acknowledged strictly before the expiry must have bought a full timeout
			if hb < expiredAt && expiredAt-hb < 2000 {
				s.Fail("session-expired-early", fmt.Sprintf("session expired at t=%d ms, only %d ms after a heartbeat acknowledged at t=%d ms (timeout 2000 ms)", expiredAt%100000, expiredAt-hb, hb%100000))
			}
		}
		if r := e.residue(sid); len(r) > 0 {
			s.Fail("session-residue", fmt.Sprintf("session %d expired but left %v", sid, r))
		}
		s.Data = fmt.Sprint(len(hbs), expiredAt%100000)
		_ = e.lc.Close()
	}
}

// E: heartbeats that arrive right after the session was created must not wedge it.
func earlyHeartbeats() func(s *vsched.Sched) {
	return func(s *vsched.Sched) {
		e := setup(s)
		if e == nil {
			return
		}
		s.Explore(true)
		sid := e.session(2000)
		done := 0
		for i := 0; i < 2; i++ {
			vsched.Go(func() {
				if err := e.lc.KeepAlive(sid); err == nil {
					done++
				}
			})
		}
		s.Settle()
		s.Explore(false)
		if done != 2 {
			s.Fail("heartbeat-wedged", fmt.Sprintf("%d of 2 heartbeats sent right after the session was created never returned; blocked: %v", 2-done, s.Blocked()))
			return
		}
		s.Sleep(3 * time.Second)
		s.Settle()
		if r := e.residue(sid); len(r) > 0 {
			s.Fail("session-never-expired", fmt.Sprintf("no heartbeat for more than the timeout but session %d is still there: %v", sid, r))
		}
		_ = e.lc.Close()
	}
}

// D: sessions and their records survive a re-election on the same node, with a fresh timeout.
func reelection() func(s *vsched.Sched) {
	return func(s *vsched.Sched) {
		e := setup(s)
		if e == nil {
			return
		}
		sid := e.session(2000)
		if st, err := e.put("k1", "eph", &sid); err != nil || st != proto.Status_OK {
			s.Fail("harness-setup", fmt.Sprint(st, err))
			return
		}
		s.Settle()
		s.Explore(true)
		s.Sleep(1500 * time.Millisecond)
		_, err := e.lc.NewTerm(&proto.NewTermRequest{Namespace: "ns", Shard: 1, Term: 2, Options: &proto.NewTermOptions{EnableNotifications: true}})
		if err == nil {
			_, err = e.lc.BecomeLeader(context.Background(), &proto.BecomeLeaderRequest{Namespace: "ns", Shard: 1, Term: 2, ReplicationFactor: 1, FollowerMaps: map[string]*proto.EntryId{}})
		}
		if err != nil {
			s.Fail("reelection-failed", err.Error())
			return
		}
		t0 := s.NowNanos()
		s.Sleep(1000 * time.Millisecond) // 2.5 s after creation, 1 s after the election: must still be alive
		if g := e.get("k1"); g == nil || g.Status != proto.Status_OK {
			s.Fail("session-lost-on-leader-change", fmt.Sprintf("ephemeral record gone %d ms after the re-election", (s.NowNanos()-t0)/1e6))
		}
		if err := e.lc.KeepAlive(sid); err != nil {
			s.Fail("session-lost-on-leader-change", "heartbeat refused after re-election: "+err.Error())
		}
		s.Sleep(3 * time.Second)
		s.Settle()
		s.Explore(false)
		if r := e.residue(sid); len(r) > 0 {
			s.Fail("session-residue", fmt.Sprintf("session %d did not expire after the re-election: %v", sid, r))
		}
		_ = e.lc.Close()
	}
}

// Two sessions with different timeouts, then a leader change: each keeps its own timeout.
func reelectionTwoSessions() func(s *vsched.Sched) {
	return func(s *vsched.Sched) {
		e := setup(s)
		if e == nil {
			return
		}
		long := e.session(20000)
		short := e.session(2000)
		if st, err := e.put("kl", "eph", &long); err != nil || st != proto.Status_OK {
			s.Fail("harness-setup", fmt.Sprint(st, err))
			return
		}
		if st, err := e.put("ks", "eph", &short); err != nil || st != proto.Status_OK {
			s.Fail("harness-setup", fmt.Sprint(st, err))
			return
		}
		s.Settle()
		s.Explore(true)
		_, err := e.lc.NewTerm(&proto.NewTermRequest{Namespace: "ns", Shard: 1, Term: 2, Options: &proto.NewTermOptions{EnableNotifications: true}})
		if err == nil {
			_, err = e.lc.BecomeLeader(context.Background(), &proto.BecomeLeaderRequest{Namespace: "ns", Shard: 1, Term: 2, ReplicationFactor: 1, FollowerMaps: map[string]*proto.EntryId{}})
		}
		if err != nil {
			s.Fail("reelection-failed", err.Error())
			return
		}
		s.Sleep(5 * time.Second) // beyond the short timeout, far below the long one; no heartbeats
		s.Settle()
		if g := e.get("kl"); g == nil || g.Status != proto.Status_OK {
			s.Fail("session-expired-early", "a session with a 20 s timeout lost its record 5 s after a leader change (no heartbeat needed yet)")
		}
		if st, err := e.put("kl2", "eph", &long); err != nil || st != proto.Status_OK {
			s.Fail("session-expired-early", fmt.Sprintf("a put naming the 20 s session 5 s after the leader change: status %v err %v", st, err))
		}
		if r := e.residue(short); len(r) > 0 {
			s.Fail("session-residue", fmt.Sprintf("the 2 s session did not expire within 5 s of the leader change: %v", r))
		}
		s.Explore(false)
		_ = e.lc.Close()
	}
}

// A replica whose log holds a session (and a record of it) in the part it has not applied yet
// becomes leader: the session must be alive on it (heartbeats accepted, record present) and
// must expire, with its record, after a full timeout without heartbeats.
func electionWithSessionInUnappliedTail() func(s *vsched.Sched) {
	return func(s *vsched.Sched) {
		e := setup(s)
		if e == nil {
			return
		}
		if st, err := e.put("plain", "x", nil); err != nil || st != proto.Status_OK {
			s.Fail("harness-setup", fmt.Sprint(st, err))
			return
		}
		sid := e.session(2000)
		if st, err := e.put("k1", "eph", &sid); err != nil || st != proto.Status_OK {
			s.Fail("harness-setup", fmt.Sprint(st, err))
			return
		}
		s.Settle()
		// the old leader's log, replicated to a follower that is told nothing is committed yet
		var entries []*proto.LogEntry
		rd, err := server.VerifLeaderWal(e.lc).NewReader(-1)
		if err != nil {
			s.Fail("harness-setup", err.Error())
			return
		}
		for rd.HasNext() {
			le, err := rd.ReadNext()
			if err != nil {
				s.Fail("harness-setup", err.Error())
				return
			}
			entries = append(entries, le)
		}
		_ = rd.Close()
		env2 := oxc.NewEnv(s)
		net := oxc.NewNet()
		walf := env2.WalFactory("n2", 64*1024, true)
		kvf := oxc.NewObsFactory(env2.Dir)
		cfg := server.Config{NotificationsRetentionTime: time.Hour}
		fc, err := server.NewFollowerController(cfg, "ns", 1, walf, kvf)
		if err != nil {
			s.Fail("harness-setup", err.Error())
			return
		}
		net.Peers["n2"] = fc
		if _, err := fc.NewTerm(&proto.NewTermRequest{Namespace: "ns", Shard: 1, Term: 1, Options: &proto.NewTermOptions{EnableNotifications: true}}); err != nil {
			s.Fail("harness-setup", err.Error())
			return
		}
		st, err := net.GetReplicateStream(context.Background(), "n2", "ns", 1, 1)
		if err != nil {
			s.Fail("harness-setup", err.Error())
			return
		}
		nAck := 0
		vsched.Go(func() {
			for {
				if _, err := st.Recv(); err != nil {
					return
				}
				nAck++
			}
		})
		for _, le := range entries {
			_ = st.Send(&proto.Append{Term: 1, Entry: le, CommitOffset: -1})
		}
		s.Settle()
		if nAck != len(entries) {
			s.Fail("harness-setup", fmt.Sprintf("follower acknowledged %d of %d entries", nAck, len(entries)))
			return
		}
		_ = e.lc.Close()
		_ = fc.Close()
		s.Settle()
		s.Explore(true)
		lc, err := server.NewLeaderController(cfg, "ns", 1, net, walf, kvf)
		if err == nil {
			_, err = lc.NewTerm(&proto.NewTermRequest{Namespace: "ns", Shard: 1, Term: 2, Options: &proto.NewTermOptions{EnableNotifications: true}})
		}
		if err == nil {
			_, err = lc.BecomeLeader(context.Background(), &proto.BecomeLeaderRequest{Namespace: "ns", Shard: 1, Term: 2, ReplicationFactor: 1, FollowerMaps: map[string]*proto.EntryId{}})
		}
		if err != nil {
			s.Fail("election-failed", err.Error())
			return
		}
		e2 := &env{s: s, lc: lc}
		s.Sleep(1000 * time.Millisecond)
		if g := e2.get("k1"); g == nil || g.Status != proto.Status_OK {
			s.Fail("session-lost-on-leader-change", "ephemeral record of a session created in the unapplied tail is missing 1 s after the election")
		}
		if err := lc.KeepAlive(sid); err != nil {
			s.Fail("session-lost-on-leader-change", "heartbeat of a session created in the unapplied tail refused by the new leader: "+err.Error())
		}
		s.Sleep(3 * time.Second)
		s.Settle()
		s.Explore(false)
		if r := e2.residue(sid); len(r) > 0 {
			s.Fail("session-residue", fmt.Sprintf("session %d (created in the unapplied tail of the new leader's log) never expired: %v", sid, r))
		}
		_ = lc.Close()
	}
}

func scenarios(tier string) []sched.Scenario {
	cfg := vsched.Config{MaxSteps: 100000}
	race := cfg
	race.TimersRace = true
	race.RaceWindow = int64(time.Second)
	d := 2
	out := []sched.Scenario{
		{Name: "close-vs-plain-takeover", Cfg: cfg, MaxDev: d, Body: closeVsTakeover(false)},
		{Name: "expiry-vs-plain-takeover", Cfg: race, MaxDev: d, Body: closeVsTakeover(true)},
		{Name: "close-vs-own-ephemeral-put", Cfg: cfg, MaxDev: d, Body: closeVsOwnPut()},
		{Name: "expiry-vs-heartbeat", Cfg: race, MaxDev: 2, Body: expiryVsHeartbeat()},
		{Name: "close-vs-newterm", Cfg: cfg, MaxDev: d, Body: closeVsNewTerm()},
		{Name: "reelection", Cfg: cfg, MaxDev: 1, Body: reelection()},
		{Name: "reelection-two-sessions", Cfg: cfg, MaxDev: 1, Body: reelectionTwoSessions()},
		{Name: "election-with-session-in-unapplied-tail", Cfg: cfg, MaxDev: 1, Body: electionWithSessionInUnappliedTail()},
		{Name: "early-heartbeats", Cfg: cfg, MaxDev: 2, Body: earlyHeartbeats()},
	}
	if tier == "thorough" {
		out[0].MaxDev, out[2].MaxDev, out[3].MaxDev, out[4].MaxDev = 3, 3, 3, 2
	}
	return out
}

func main() {
	replay := flag.String("replay", "", "replay file")
	flag.Parse()
	oxh.Quiet()
	su := sched.Suite{Property: "C14", Scenarios: scenarios, Stage2: os.Getenv("VERIF_STAGE2") != "",
		Budget: func(tier string) time.Duration {
			if tier == "thorough" {
				return 20 * time.Minute
			}
			return 80 * time.Second
		},
		Rule:   "every schedule with at most max_dev non-default scheduling choices (timer expiry is a scheduler alternative where noted) of session close / expiry racing with plain puts, ephemeral puts under the same session, heartbeats and a re-election on a real RF=1 leader with virtual time",
		Assume: []string{"sequentially consistent memory", "deviation-bounded schedules", "virtual clock: timers fire at quiescence or as an explicit alternative"}}
	os.Exit(sched.Main(su, *replay))
}
