// C10, WAL sync stage: what the WAL reports as synced is covered by a completed flush (lib/walh).
package main

import (
	"os"

	"verif/lib/walh"
)

func main() { os.Exit(walh.Main("C10")) }
