// C07, protocol-event stage: a follower's database is the fold of the log entries 0..c for the commit offset
// c it records, for every sequence of follower protocol events (lib/ffsm) from a non-initial state: the
// follower already holds two entries and has applied one, so that interrupted snapshot transfers, new terms,
// restarts and crashes meet a node whose in-memory cursors are not at their initial values.
package main

import (
	"os"

	"verif/lib/ffsm"
)

func main() {
	ffsm.Prefix = ffsm.Preloaded()
	ffsm.QuickDepth, ffsm.ThoroughDepth = 4, 6
	os.Exit(ffsm.Main("C07", map[string]bool{"state-not-fold-of-log": true, "commit-offset-ahead-of-log": true, "harness-setup": true, "panic": true},
		"every sequence of follower protocol events (14-event alphabet) up to max_depth from a preloaded start state (NewTerm, two appends, the first applied), replayed from scratch on a real follower controller; after every event the database must equal the fold of the entries the node holds up to the commit offset stored in it, and must not be ahead of log and snapshot"))
}
