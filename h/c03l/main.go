// C03, leader-conformance stage: checking followers verify every truncation, append and snapshot the real leader controller sends them, for every sequence of leader protocol events up to a depth (lib/lfsm).
package main

import (
	"os"

	"verif/lib/lfsm"
)

func main() {
	os.Exit(lfsm.Main("C03", map[string]bool{"truncate-with-wrong-term": true, "truncate-to-entry-follower-does-not-hold": true, "truncate-to-entry-follower-does-not-hold:entry-of-a-term-the-leader-sat-out": true, "append-with-wrong-term": true, "resent-entry-differs": true, "append-gap": true, "snapshot-with-wrong-term": true, "snapshot-unusable": true, "follower-not-caught-up": true, "follower-log-diverges": true, "become-leader-stuck": true, "become-leader-failed": true, "harness-setup": true, "panic": true}))
}
