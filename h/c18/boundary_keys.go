package main

// Keys whose common/hash.Xxh332 value is a shard-range boundary (or a neighbour) of
// GenerateShards(_, n) for n = 1..4. Found by ./keysearch (exhaustive scan of "k"+base36
// counters); verified against the real hash function at every harness start.
var boundaryKeys = []struct {
	Hash uint32
	Key  string
}{
	{0, "klrhczcu"},
	{1, "kpr0nhtc"},
	{1073741822, "knpnw8cn"},
	{1073741823, "kht1x5ow"},
	{1073741824, "kdw1ffpo"},
	{1073741825, "klrcc68g"},
	{1431655764, "ke06hi0b"},
	{1431655765, "kht4mnhe"},
	{1431655766, "kbyevl1y"},
	{1431655767, "k87pdhwp"},
	{2147483646, "k613xoa9"},
	{2147483647, "k1zb0m4z"},
	{2147483648, "k273s2y4"},
	{2147483649, "k5yzr6tp"},
	{2863311530, "k3ybegfs"},
	{2863311531, "k223c85e"},
	{2863311532, "k5xysqtx"},
	{2863311533, "k226zpo9"},
	{3221225470, "k2g7cg9"},
	{3221225471, "kc5ucwdf"},
	{3221225472, "kbxnav13"},
	{3221225473, "k7zbzlub"},
	{4294967294, "k60adw33"},
	{4294967295, "kpqsoz48"},
}
