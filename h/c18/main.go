// C18: the shard map always partitions the hash space and routes every key to one shard.
//
// E1 explicit-state search (lib/seqx) over sequences of cluster-config changes applied to the
// REAL coordinator logic (utils.ApplyClusterChanges, coordinator.selectNewEnsemble with the real
// ensemble selector, the real StatusResource, coordinator.computeNewAssignments / ShardDeleted),
// published through the REAL server-side shardAssignmentDispatcher (updateShardAssignment,
// RegisterForUpdates, filterByNamespace) and consumed by REAL client shardManagerImpl values
// (receive-loop body, update with overlap replacement, Get with the real xxh3 shard strategy).
// Plus: GenerateShards(base,n) alone for every n, the standalone dispatcher for small n, and an
// exhaustive enumeration of load-ratio tie orders for the creation of a namespace with
// anti-affinity policies (hole hypothesis).
package main

import (
	"cmp"
	"errors"
	"flag"
	"fmt"
	"io"
	"log/slog"
	"math"
	"os"
	"runtime"
	"runtime/pprof"
	"sort"
	"strings"
	"sync"
	"sync/atomic"
	"time"

	"github.com/emirpasic/gods/v2/lists/arraylist"

	"github.com/oxia-db/oxia/common/constant"
	"github.com/oxia-db/oxia/common/hash"
	"github.com/oxia-db/oxia/common/sharding"
	"github.com/oxia-db/oxia/coordinator"
	"github.com/oxia-db/oxia/coordinator/metadata"
	"github.com/oxia-db/oxia/coordinator/model"
	"github.com/oxia-db/oxia/coordinator/policies"
	"github.com/oxia-db/oxia/coordinator/selectors/single"
	"github.com/oxia-db/oxia/oxia"
	"github.com/oxia-db/oxia/proto"
	"github.com/oxia-db/oxia/server"

	"verif/lib/ev"
	"verif/lib/oxh"
	"verif/lib/seqx"
)

// ---------------------------------------------------------------- universe

var nsNames = []string{"n1", "n2", "n3"}

const nServers = 4

var srvNames = []string{"s1", "s2", "s3", "s4"}

// fixed labels: two zones, two racks, so that zone+rack anti-affinity with RF=2 can dead-end
// depending on the first pick (s2 first => no server with another zone AND another rack in {s1,s2,s3}).
var srvLabels = []map[string]string{
	{"zone": "a", "rack": "x"},
	{"zone": "b", "rack": "x"},
	{"zone": "b", "rack": "y"},
	{"zone": "a", "rack": "y"},
}

func srv(i int) model.Server {
	n := srvNames[i]
	return model.Server{Name: &n, Public: n + ":6648", Internal: n + ":6649"}
}

var n3Policies = &policies.Policies{AntiAffinities: []policies.AntiAffinity{
	{Labels: []string{"zone"}, Mode: policies.Strict},
	{Labels: []string{"rack"}, Mode: policies.Strict},
}}

type nsParam struct{ count, rf uint32 }

const (
	kAddNS = iota
	kRmNS
	kAddSrv
	kRmSrv
	kDelDone
	kDelAll
	kElect
	kDeliverB
)

type opDef struct {
	kind  int
	ns    string
	count uint32
	rf    uint32
	srv   int
	name  string
}

var quickAlphabet bool

func buildOps(counts []uint32, nsNames []string, elect bool, srvs []int, delOne, delAll bool) []opDef {
	var ops []opDef
	for _, ns := range nsNames {
		rfs := []uint32{1, 3}
		if ns == "n3" {
			rfs = []uint32{1, 2} // n3 carries strict zone+rack anti-affinity; only two zones exist
		}
		for _, c := range counts {
			for _, rf := range rfs {
				if quickAlphabet {
					// quick tier: n1 keeps every (shards, rf); n2 (symmetric to n1) only (2,1),(3,1); n3 every shard count with rf=2 plus (1,1)
					if ns == "n2" && !(rf == 1 && (c == 2 || c == 3)) {
						continue
					}
					if ns == "n3" && !(rf == 2 || c == 1) {
						continue
					}
				}
				ops = append(ops, opDef{kind: kAddNS, ns: ns, count: c, rf: rf, name: fmt.Sprintf("AddNamespace(%s,shards=%d,rf=%d)", ns, c, rf)})
			}
		}
	}
	for _, ns := range nsNames {
		ops = append(ops, opDef{kind: kRmNS, ns: ns, name: "RemoveNamespace(" + ns + ")"})
	}
	for _, i := range srvs {
		ops = append(ops, opDef{kind: kAddSrv, srv: i, name: "AddServer(" + srvNames[i] + ")"})
	}
	for _, i := range srvs {
		ops = append(ops, opDef{kind: kRmSrv, srv: i, name: "RemoveServer(" + srvNames[i] + ")"})
	}
	for _, ns := range nsNames {
		if delOne {
			ops = append(ops, opDef{kind: kDelDone, ns: ns, name: "ShardDeletionCompleted(lowest deleting shard of " + ns + ")"})
		}
		if delAll {
			ops = append(ops, opDef{kind: kDelAll, ns: ns, name: "ShardDeletionCompleted(every deleting shard of " + ns + ", ascending id)"})
		}
	}
	for _, ns := range nsNames {
		if elect {
			ops = append(ops, opDef{kind: kElect, ns: ns, name: "LeaderElected(lowest leaderless shard of " + ns + ")"})
		}
	}
	ops = append(ops, opDef{kind: kDeliverB, name: "DeliverCurrentAssignmentsToSkippingClient"})
	return ops
}

// ---------------------------------------------------------------- violation aggregation

// Violations are aggregated by key here (not returned to seqx) so that the search continues past
// states that exhibit an already classified defect; the shortest history per key is reported.
type aggEntry struct {
	count int64
	first ev.Violation
	hlen  int
	hstr  string
}

type aggT struct {
	mu sync.Mutex
	m  map[string]*aggEntry
}

var agg = &aggT{m: map[string]*aggEntry{}}

func (a *aggT) add(key, harness, msg string, replay map[string]any, hlen int, hstr string) {
	a.mu.Lock()
	defer a.mu.Unlock()
	e := a.m[key]
	if e == nil {
		e = &aggEntry{hlen: 1 << 30}
		a.m[key] = e
	}
	e.count++
	if hlen < e.hlen || (hlen == e.hlen && hstr < e.hstr) {
		e.hlen, e.hstr = hlen, hstr
		e.first = ev.Violation{Key: key, Harness: harness, Message: msg, Replay: replay}
	}
}

func (a *aggT) flush(run *ev.Run) {
	a.mu.Lock()
	defer a.mu.Unlock()
	var keys []string
	for k := range a.m {
		keys = append(keys, k)
	}
	sort.Strings(keys)
	occ := map[string]int64{}
	for _, k := range keys {
		run.Violate(a.m[k].first)
		occ[k] = a.m[k].count
	}
	run.Coverage["violation_occurrences_by_key"] = occ
}

// ---------------------------------------------------------------- counters

var (
	cPublications, cPartitionChecks, cClientChecks, cGetCalls, cHashOwnerChecks atomic.Int64
	cCoordPanics, cUnpublished, cSupplierErrors, cSupplierCalls, cFreshClients   atomic.Int64
	cIdChecks, cEmptyReaddStates                                                  atomic.Int64
)

var fixedKeys []string

// seqx reaches a state by replaying its whole history on a fresh instance and then applies one
// more operation. The (read-only) oracles of the prefix steps were already evaluated at the level
// where that prefix was the new step, so they are skipped during prefix replay: a step is a
// prefix step iff its index is smaller than the longest history the search has produced so far.
type levelMark struct{ max atomic.Int32 }

// ---------------------------------------------------------------- tie-order seam

// reorderTies returns the ratio computed by the real algorithm with the nodes of equal ratio
// ordered by prio (DefaultShardsRank builds the list by ranging over a Go map and sorts by ratio
// only, so the order among equal ratios is unspecified in the real system).
func reorderTies(r *model.Ratio, prio func(nodeID string) int) *model.Ratio {
	var nodes []*model.NodeLoadRatio
	for it := r.NodeIterator(); it.Next(); {
		nodes = append(nodes, it.Value())
	}
	sort.SliceStable(nodes, func(i, j int) bool {
		if c := cmp.Compare(nodes[i].Ratio, nodes[j].Ratio); c != 0 {
			return c < 0
		}
		return prio(nodes[i].NodeID) < prio(nodes[j].NodeID)
	})
	return model.NewRatio(r.MaxNodeLoadRatio(), r.MinNodeLoadRatio(), r.AvgShardLoadRatio(), arraylist.New(nodes...))
}

func srvIndex(id string) int {
	for i, n := range srvNames {
		if n == id {
			return i
		}
	}
	return 99
}

// ---------------------------------------------------------------- instance

type issuedInfo struct {
	ns       string
	min, max uint32
}

type inst struct {
	spec    string
	ops     []opDef
	servers [nServers]bool
	ns      map[string]nsParam

	meta metadata.Provider
	vc   *coordinator.VerifCoordinator
	disp server.ShardAssignmentsDispatcher
	cA   map[string]*oxia.VerifC18ShardManager
	cB   map[string]*oxia.VerifC18ShardManager

	issued     map[int64]issuedInfo
	selFailed  map[string]bool   // namespace was created while some ensemble selection failed
	lastPub    map[string]string // canonical publication per namespace as last delivered to client A
	lastPubB   map[string]string
	inCfgPrev  map[string]bool
	applyCalls int
	hist       []int

	level       *levelMark // E1 search only
	weight      int        // 0 for E1 instances, 100 for the one-shot enumerations
	skipOracles bool

	// tie mode: nil => rotation by persisted ServerIdx + call index; else permutation per shard index
	permPerShard [][]int
	realAlgo     bool
}

func newInst(spec string, ops []opDef, initialServers int) *inst {
	in := &inst{spec: spec, ops: ops, ns: map[string]nsParam{}, issued: map[int64]issuedInfo{}, selFailed: map[string]bool{},
		lastPub: map[string]string{}, lastPubB: map[string]string{}, inCfgPrev: map[string]bool{},
		cA: map[string]*oxia.VerifC18ShardManager{}, cB: map[string]*oxia.VerifC18ShardManager{}}
	for i := 0; i < initialServers; i++ {
		in.servers[i] = true
	}
	in.meta = metadata.NewMetadataProviderMemory()
	in.vc = coordinator.VerifNewCoordinator(in.meta, in.algo)
	in.disp = server.VerifC18NewDispatcher()
	for _, n := range nsNames {
		in.cA[n] = oxia.VerifC18NewShardManager(n)
		in.cB[n] = oxia.VerifC18NewShardManager(n)
	}
	// coordinator start with the initial (namespace-less) config
	if _, _, p := in.vc.VerifConfigChanged(in.buildConfig()); p != nil {
		panic(fmt.Sprint("initial config panicked: ", p))
	}
	in.afterPublish()
	return in
}

func (in *inst) algo(params *model.RatioParams) *model.Ratio {
	if in.realAlgo {
		return single.DefaultShardsRank(params)
	}
	r := single.DefaultShardsRank(params)
	call := in.applyCalls
	in.applyCalls++
	if in.permPerShard != nil {
		shard := in.vc.SupplierCalls - 1
		if shard < 0 {
			shard = 0
		}
		perm := in.permPerShard[shard%len(in.permPerShard)]
		return reorderTies(r, func(id string) int {
			for p, s := range perm {
				if srvNames[s] == id {
					return p
				}
			}
			return 99
		})
	}
	rot := int(in.vc.StatusResource().Load().ServerIdx) + call
	return reorderTies(r, func(id string) int { return ((srvIndex(id)-rot)%nServers + nServers) % nServers })
}

func (in *inst) Close() {
	in.vc.Close()
	server.VerifC18CloseDispatcher(in.disp)
	for _, n := range nsNames {
		in.cA[n].Close()
		in.cB[n].Close()
	}
}

func (in *inst) buildConfig() model.ClusterConfig {
	cfg := model.ClusterConfig{ServerMetadata: map[string]model.ServerMetadata{}}
	for _, n := range nsNames {
		if p, ok := in.ns[n]; ok {
			nc := model.NamespaceConfig{Name: n, InitialShardCount: p.count, ReplicationFactor: p.rf}
			if n == "n3" {
				nc.Policies = n3Policies
			}
			cfg.Namespaces = append(cfg.Namespaces, nc)
		}
	}
	for i := 0; i < nServers; i++ {
		if in.servers[i] {
			cfg.Servers = append(cfg.Servers, srv(i))
			cfg.ServerMetadata[srvNames[i]] = model.ServerMetadata{Labels: srvLabels[i]}
		}
	}
	return cfg
}

func (in *inst) nServers() int {
	c := 0
	for _, b := range in.servers {
		if b {
			c++
		}
	}
	return c
}

func (in *inst) violate(key, msg string) {
	if in.skipOracles {
		return
	}
	names := make([]string, len(in.hist))
	var sb strings.Builder
	for i, o := range in.hist {
		names[i] = in.ops[o].name
		fmt.Fprintf(&sb, "%03d,", o)
	}
	// histories of the E1 search (replayable with --replay) are preferred as the reported example
	agg.add(key, "shardmap-seq", msg, map[string]any{"config": in.spec, "ops": names, "indices": append([]int{}, in.hist...)}, len(in.hist)+in.weight, sb.String())
}

func (in *inst) Step(op int) (bool, *ev.Violation) {
	d := in.ops[op]
	in.hist = append(in.hist, op)
	in.skipOracles = false
	if in.level != nil {
		idx := int32(len(in.hist))
		for {
			m := in.level.max.Load()
			if idx < m {
				in.skipOracles = true
				break
			}
			if idx == m || in.level.max.CompareAndSwap(m, idx) {
				break
			}
		}
	}
	return in.step(d)
}

func (in *inst) step(d opDef) (bool, *ev.Violation) {
	switch d.kind {
	case kAddNS:
		if _, ok := in.ns[d.ns]; ok {
			return false, nil
		}
		in.ns[d.ns] = nsParam{d.count, d.rf}
		return in.apply(d.ns), nil
	case kRmNS:
		if _, ok := in.ns[d.ns]; !ok {
			return false, nil
		}
		delete(in.ns, d.ns)
		return in.apply(""), nil
	case kAddSrv:
		if in.servers[d.srv] {
			return false, nil
		}
		in.servers[d.srv] = true
		return in.apply(""), nil
	case kRmSrv:
		if !in.servers[d.srv] || in.nServers() == 1 {
			return false, nil
		}
		in.servers[d.srv] = false
		return in.apply(""), nil
	case kDelDone, kDelAll:
		did := false
		for {
			st := in.vc.StatusResource().Load()
			nss, ok := st.Namespaces[d.ns]
			if !ok {
				break
			}
			id := int64(-1)
			for sid, sm := range nss.Shards {
				if sm.Status == model.ShardStatusDeleting && (id == -1 || sid < id) {
					id = sid
				}
			}
			if id < 0 {
				break
			}
			in.vc.VerifShardDeleted(d.ns, id)
			in.checkIds(nil)
			in.afterPublish()
			did = true
			if d.kind == kDelDone {
				break
			}
		}
		return did, nil
	case kElect:
		st := in.vc.StatusResource().Load()
		nss, ok := st.Namespaces[d.ns]
		if !ok {
			return false, nil
		}
		id := int64(-1)
		for sid, sm := range nss.Shards {
			if sm.Status != model.ShardStatusDeleting && sm.Leader == nil && (id == -1 || sid < id) {
				id = sid
			}
		}
		if id < 0 {
			return false, nil
		}
		md := nss.Shards[id].Clone()
		md.Status = model.ShardStatusSteadyState
		md.Term++
		l := md.Ensemble[0]
		md.Leader = &l
		in.vc.VerifLeaderElected(d.ns, id, md)
		in.checkIds(nil)
		in.afterPublish()
		return true, nil
	case kDeliverB:
		stale := false
		for _, n := range nsNames {
			if in.lastPubB[n] != in.lastPub[n] {
				stale = true
			}
		}
		if !stale {
			return false, nil
		}
		for _, n := range nsNames {
			if in.lastPubB[n] == in.lastPub[n] {
				continue
			}
			resp, err := server.VerifC18Register(in.disp, n)
			if err != nil {
				// namespace not found: the real client keeps its shards and retries
				in.lastPubB[n] = in.lastPub[n]
				continue
			}
			in.cB[n].VerifReceive(resp)
			in.lastPubB[n] = in.lastPub[n]
			if _, inCfg := in.ns[n]; inCfg && !in.skipOracles {
				if ps, okp := parsePub(resp.Namespaces[n]); okp && partitionError(ps) == "" {
					in.checkClient(in.cB[n], n, ps, "client B (skips intermediate updates)")
				}
			}
		}
		return true, nil
	}
	panic("bad op")
}

// apply pushes the current config through the coordinator. newNS is the namespace added by this op ("" if none).
func (in *inst) apply(newNS string) bool {
	in.applyCalls = 0
	added, _, panicked := in.vc.VerifConfigChanged(in.buildConfig())
	cSupplierCalls.Add(int64(in.vc.SupplierCalls))
	cSupplierErrors.Add(int64(in.vc.SupplierErrors))
	if panicked != nil {
		// the real coordinator process dies here (and again at every restart with this config):
		// nothing is published. The history is not extended.
		cCoordPanics.Add(1)
		return false
	}
	// a namespace is (re-)created by whatever config change finds it missing from the status, not only by its own AddNamespace
	created := map[string]bool{}
	for _, ns := range added {
		created[ns] = true
	}
	for ns := range in.vc.SupplierErrNS {
		created[ns] = true
	}
	for ns := range created {
		in.selFailed[ns] = in.vc.SupplierErrNS[ns] > 0
	}
	_ = newNS
	in.checkIds(added)
	in.afterPublish()
	return true
}

// checkIds: ids unique across namespaces, never reused, identity (namespace, range) stable.
func (in *inst) checkIds(added map[int64]string) {
	st := in.vc.StatusResource().Load()
	cIdChecks.Add(1)
	for id, ns := range added {
		if old, dup := in.issued[id]; dup {
			in.violate("shard-id-reused", fmt.Sprintf("ApplyClusterChanges issued shard id %d for namespace %s but it was issued before (namespace %s range [%d,%d])", id, ns, old.ns, old.min, old.max))
		}
	}
	seen := map[int64]string{}
	for name, nss := range st.Namespaces {
		for id, sm := range nss.Shards {
			if other, dup := seen[id]; dup {
				in.violate("shard-id-in-two-namespaces", fmt.Sprintf("shard id %d is in namespaces %s and %s", id, other, name))
			}
			seen[id] = name
			info, known := in.issued[id]
			_, isNew := added[id]
			switch {
			case !known && !isNew:
				in.violate("shard-id-appeared-unannounced", fmt.Sprintf("shard %d of %s is in the status but was never returned in shardsToAdd", id, name))
				in.issued[id] = issuedInfo{name, sm.Int32HashRange.Min, sm.Int32HashRange.Max}
			case !known || isNew:
				in.issued[id] = issuedInfo{name, sm.Int32HashRange.Min, sm.Int32HashRange.Max}
			default:
				if info.ns != name || info.min != sm.Int32HashRange.Min || info.max != sm.Int32HashRange.Max {
					in.violate("shard-id-identity-changed", fmt.Sprintf("shard %d was %s[%d,%d], now %s[%d,%d]", id, info.ns, info.min, info.max, name, sm.Int32HashRange.Min, sm.Int32HashRange.Max))
				}
			}
		}
	}
	if st.ShardIdGenerator < int64(len(in.issued)) {
		in.violate("shard-id-generator-behind", fmt.Sprintf("ShardIdGenerator=%d but %d ids were issued", st.ShardIdGenerator, len(in.issued)))
	}
	for id := range in.issued {
		if id >= st.ShardIdGenerator {
			in.violate("shard-id-generator-behind", fmt.Sprintf("ShardIdGenerator=%d but id %d is already issued", st.ShardIdGenerator, id))
		}
	}
}

type pubShard struct {
	id       int64
	min, max uint32
	leader   string
}

func parsePub(a *proto.NamespaceShardsAssignment) ([]pubShard, bool) {
	if a == nil {
		return nil, false
	}
	out := make([]pubShard, 0, len(a.Assignments))
	for _, s := range a.Assignments {
		r := s.GetInt32HashRange()
		if r == nil {
			return nil, false
		}
		out = append(out, pubShard{s.Shard, r.MinHashInclusive, r.MaxHashInclusive, s.Leader})
	}
	sort.Slice(out, func(i, j int) bool {
		if out[i].min != out[j].min {
			return out[i].min < out[j].min
		}
		return out[i].id < out[j].id
	})
	return out, true
}

// partitionError decides "every 32-bit hash value is owned by exactly one shard" on ranges sorted by min.
func partitionError(ps []pubShard) string {
	if len(ps) == 0 {
		return "empty"
	}
	ids := map[int64]bool{}
	for _, p := range ps {
		if ids[p.id] {
			return "duplicate-id"
		}
		ids[p.id] = true
		if p.min > p.max {
			return "inverted-range"
		}
	}
	if ps[0].min != 0 {
		return "gap-at-0"
	}
	for i := 1; i < len(ps); i++ {
		prev := ps[i-1]
		if prev.max == math.MaxUint32 {
			return "overlap"
		}
		switch {
		case ps[i].min > prev.max+1:
			return "gap"
		case ps[i].min < prev.max+1:
			return "overlap"
		}
	}
	if ps[len(ps)-1].max != math.MaxUint32 {
		return "gap-at-top"
	}
	return ""
}

func pubString(ps []pubShard) string {
	var b strings.Builder
	for _, p := range ps {
		fmt.Fprintf(&b, "%d:%d-%d@%s;", p.id, p.min, p.max, p.leader)
	}
	return b.String()
}

func ownerOf(ps []pubShard, h uint32) int64 {
	for _, p := range ps {
		if p.min <= h && h <= p.max {
			return p.id
		}
	}
	return -1
}

// afterPublish pushes the coordinator's assignments through the dispatcher, runs the partition
// oracle for every namespace of the config, and updates / checks the clients.
func (in *inst) afterPublish() {
	pub := in.vc.VerifAssignments()
	if pub == nil {
		return
	}
	cPublications.Add(1)
	if err := server.VerifC18Push(in.disp, pub); err != nil {
		in.violate("dispatcher-update-failed", err.Error())
		return
	}
	st := in.vc.StatusResource().Load()
	for _, n := range nsNames {
		_, inCfg := in.ns[n]
		resp, err := server.VerifC18Register(in.disp, n)
		cur := "<absent>"
		var ps []pubShard
		if err == nil {
			var ok bool
			ps, ok = parsePub(resp.Namespaces[n])
			if !ok {
				in.violate("dispatcher-dropped-namespace", fmt.Sprintf("RegisterForUpdates(%s) succeeded but the message lacks the namespace", n))
				continue
			}
			if len(resp.Namespaces) != 1 {
				in.violate("dispatcher-filter", fmt.Sprintf("RegisterForUpdates(%s) sent %d namespaces", n, len(resp.Namespaces)))
			}
			cur = pubString(ps)
		} else if !errors.Is(err, constant.ErrNamespaceNotFound) {
			in.violate("dispatcher-register-failed", err.Error())
			continue
		} else if _, has := pub.Namespaces[n]; has {
			in.violate("dispatcher-lost-namespace", fmt.Sprintf("coordinator published %s but the dispatcher reports namespace-not-found", n))
		}
		// coordinator vs dispatcher: same content
		if a, has := pub.Namespaces[n]; has && err == nil {
			if cs, _ := parsePub(a); pubString(cs) != cur {
				in.violate("dispatcher-altered-assignments", fmt.Sprintf("%s: coordinator %s dispatcher %s", n, pubString(cs), cur))
			}
		}
		changed := cur != in.lastPub[n] || inCfg != in.inCfgPrev[n]
		if err == nil && cur != in.lastPub[n] {
			in.cA[n].VerifReceive(resp)
		}
		in.lastPub[n] = cur
		in.inCfgPrev[n] = inCfg
		if inCfg && in.skipOracles && err == nil {
			// replayed prefix: nothing is judged, but the long-lived client is used as an application uses it
			// (a lookup between two updates is what fills whatever the client caches)
			for _, bk := range boundaryKeys {
				_, _ = in.cA[n].Get(bk.Key)
			}
			for _, k := range fixedKeys {
				_, _ = in.cA[n].Get(k)
			}
		}
		if !inCfg || in.skipOracles {
			continue
		}
		if err != nil {
			cUnpublished.Add(1) // namespace of the config that is not published: outside the oracle
			continue
		}
		// ---- oracle 1: published ranges partition the hash space
		cPartitionChecks.Add(1)
		if pe := partitionError(ps); pe != "" {
			nss := st.Namespaces[n]
			deleting := 0
			for _, sm := range nss.Shards {
				if sm.Status == model.ShardStatusDeleting {
					deleting++
				}
			}
			switch {
			case deleting > 0 && deleting == len(nss.Shards) && len(ps) == 0:
				cEmptyReaddStates.Add(1)
				in.violate("published-hole:namespace-readded-while-old-shards-deleting",
					fmt.Sprintf("namespace %s is in the config and published with assignments {%s} (%s): %d old shard(s) still Deleting, ApplyClusterChanges treats the namespace as existing and creates no new shards", n, cur, pe, deleting))
			case in.selFailed[n]:
				in.violate("published-hole:ensemble-selection-failed-at-creation",
					fmt.Sprintf("namespace %s (config %+v, servers %v) is published with assignments {%s} (%s): ensemble selection failed for some shard(s) at creation and ApplyClusterChanges skipped them with `continue`", n, in.ns[n], in.serverList(), cur, pe))
			default:
				in.violate("published-not-a-partition:"+pe, fmt.Sprintf("namespace %s published {%s}", n, cur))
			}
			continue
		}
		// every published shard must be a non-deleting shard of that namespace in the status
		for _, p := range ps {
			sm, ok := st.Namespaces[n].Shards[p.id]
			if !ok || sm.Status == model.ShardStatusDeleting || sm.Int32HashRange.Min != p.min || sm.Int32HashRange.Max != p.max {
				in.violate("published-shard-not-in-status", fmt.Sprintf("namespace %s publishes shard %d [%d,%d] which the status does not hold as a live shard", n, p.id, p.min, p.max))
			}
		}
		if !changed {
			continue
		}
		// ---- oracle 2: clients route like the publication
		in.checkClient(in.cA[n], n, ps, "client A (receives every update)")
		fresh := oxia.VerifC18NewShardManager(n)
		fresh.VerifReceive(resp)
		cFreshClients.Add(1)
		in.checkClient(fresh, n, ps, "fresh client")
		fresh.Close()
	}
}

func (in *inst) serverList() []string {
	var o []string
	for i, b := range in.servers {
		if b {
			o = append(o, srvNames[i])
		}
	}
	return o
}

func breakpoints(add func(uint32), min, max uint32) {
	for _, h := range []uint32{min, max} {
		add(h)
		if h > 0 {
			add(h - 1)
		}
		if h < math.MaxUint32 {
			add(h + 1)
		}
	}
}

// checkClient: the client's ownership function and the published one are piecewise constant with
// breakpoints at range boundaries only, so agreement on every boundary (±1) of both sides decides
// agreement for every hash value. Then the real Get(key) on boundary keys and fixed keys.
func (in *inst) checkClient(sm *oxia.VerifC18ShardManager, ns string, ps []pubShard, who string) {
	cClientChecks.Add(1)
	hs := map[uint32]struct{}{0: {}, math.MaxUint32: {}}
	add := func(h uint32) { hs[h] = struct{}{} }
	for _, p := range ps {
		breakpoints(add, p.min, p.max)
	}
	held := sm.Shards()
	for _, s := range held {
		breakpoints(add, s.Min, s.Max)
	}
	for h := range hs {
		cHashOwnerChecks.Add(1)
		want := ownerOf(ps, h)
		got := sm.OwnersOfHash(h)
		if len(got) != 1 || got[0] != want {
			class := "wrong-shard"
			if len(got) == 0 {
				class = "no-shard"
			} else if len(got) > 1 {
				class = "several-shards"
			}
			in.violate("client-routing-disagrees:"+class, fmt.Sprintf("%s of %s: hash %d is owned by shard %d in the published assignments {%s} but the client's shards %v match %v", who, ns, h, want, pubString(ps), held, got))
			return
		}
	}
	check := func(key string, h uint32) bool {
		cGetCalls.Add(1)
		id, ok := sm.Get(key)
		want := ownerOf(ps, h)
		if !ok || id != want {
			in.violate("client-get-disagrees", fmt.Sprintf("%s of %s: Get(%q) (hash %d) = %d ok=%v, published owner %d", who, ns, key, h, id, ok, want))
			return false
		}
		return true
	}
	for _, bk := range boundaryKeys {
		if !check(bk.Key, bk.Hash) {
			return
		}
	}
	for _, k := range fixedKeys {
		if !check(k, hash.Xxh332(k)) {
			return
		}
	}
	// a partition key maps to exactly one shard: what is written under it (routed per record) is where a list,
	// range scan or range delete with that partition key looks for it
	for _, pk := range []string{"", "x", "a/b"} {
		want := ownerOf(ps, hash.Xxh332(pk))
		rng, ok := oxia.VerifC18RangeRoute(sm, pk)
		if !ok || rng != want {
			in.violate("partition-key-range-route-disagrees", fmt.Sprintf("%s of %s: List/RangeScan/DeleteRange with partition key %q go to shard %d (ok=%v), the published owner of its hash is %d", who, ns, pk, rng, ok, want))
			return
		}
		for _, k := range fixedKeys[:3] {
			cGetCalls.Add(1)
			rec, ok := oxia.VerifC18RecordRoute(sm, k, pk)
			if !ok || rec != rng {
				in.violate("partition-key-record-route-disagrees", fmt.Sprintf("%s of %s: a put/get/delete of %q with partition key %q goes to shard %d (ok=%v), a list with that partition key to shard %d", who, ns, k, pk, rec, ok, rng))
				return
			}
		}
	}
}

func (in *inst) Key() string {
	var b strings.Builder
	for _, n := range nsNames {
		if p, ok := in.ns[n]; ok {
			fmt.Fprintf(&b, "%s=%d/%d,", n, p.count, p.rf)
		}
	}
	fmt.Fprintf(&b, "|%v|", in.servers)
	st := in.vc.StatusResource().Load()
	fmt.Fprintf(&b, "g=%d i=%d|", st.ShardIdGenerator, st.ServerIdx)
	for _, n := range nsNames {
		nss, ok := st.Namespaces[n]
		if !ok {
			continue
		}
		fmt.Fprintf(&b, "%s/%d{", n, nss.ReplicationFactor)
		ids := make([]int64, 0, len(nss.Shards))
		for id := range nss.Shards {
			ids = append(ids, id)
		}
		sort.Slice(ids, func(i, j int) bool { return ids[i] < ids[j] })
		for _, id := range ids {
			sm := nss.Shards[id]
			fmt.Fprintf(&b, "%d:%d:%d-%d:t%d:", id, sm.Status, sm.Int32HashRange.Min, sm.Int32HashRange.Max, sm.Term)
			if sm.Leader != nil {
				b.WriteString(sm.Leader.GetIdentifier())
			}
			b.WriteByte('[')
			for _, e := range sm.Ensemble {
				b.WriteString(e.GetIdentifier())
				b.WriteByte(',')
			}
			b.WriteString("];")
		}
		b.WriteString("}")
	}
	for _, n := range nsNames {
		fmt.Fprintf(&b, "|A%s:", n)
		for _, s := range in.cA[n].Shards() {
			fmt.Fprintf(&b, "%d:%d-%d@%s,", s.Id, s.Min, s.Max, s.Leader)
		}
		fmt.Fprintf(&b, "|B%s:", n)
		for _, s := range in.cB[n].Shards() {
			fmt.Fprintf(&b, "%d:%d-%d@%s,", s.Id, s.Min, s.Max, s.Leader)
		}
		fmt.Fprintf(&b, "|f%v|%v", in.selFailed[n], in.lastPubB[n] == in.lastPub[n])
	}
	fmt.Fprintf(&b, "|iss=%d", len(in.issued))
	return b.String()
}

// ---------------------------------------------------------------- GenerateShards alone

type shardSweep struct {
	mu       sync.Mutex
	badN     map[string][]uint32 // key -> failing n (first few)
	badCount map[string]int64
}

func checkGenerated(base int64, n uint32) string {
	sh := sharding.GenerateShards(base, n)
	if uint32(len(sh)) != n {
		return fmt.Sprintf("returned %d shards", len(sh))
	}
	ps := make([]pubShard, n)
	for i, s := range sh {
		if s.Id != base+int64(i) {
			return fmt.Sprintf("shard %d has id %d, want %d", i, s.Id, base+int64(i))
		}
		ps[i] = pubShard{id: s.Id, min: s.Min, max: s.Max}
	}
	// the function must return them in hash order too (the standalone dispatcher relies on nothing, but check)
	sorted := sort.SliceIsSorted(ps, func(i, j int) bool { return ps[i].min < ps[j].min })
	if !sorted {
		sort.Slice(ps, func(i, j int) bool {
			if ps[i].min != ps[j].min {
				return ps[i].min < ps[j].min
			}
			return ps[i].id < ps[j].id
		})
	}
	if pe := partitionError(ps); pe != "" {
		return "ranges are not a partition of [0,2^32): " + pe
	}
	return ""
}

func sweepGenerate(run *ev.Run, maxN uint32, deadline time.Time) {
	var cut atomic.Bool
	bases := []int64{0, 7, 1 << 40}
	var next atomic.Uint32
	var evals, ranges atomic.Int64
	sw := &shardSweep{badN: map[string][]uint32{}, badCount: map[string]int64{}}
	var wg sync.WaitGroup
	for w := 0; w < runtime.NumCPU(); w++ {
		wg.Add(1)
		go func() {
			defer wg.Done()
			for {
								k := next.Add(1)
				if k > maxN {
					return
				}
				if time.Now().After(deadline) {
					cut.Store(true)
					return
				}
				n := k // ascending: a deadline cut loses the largest n only
				bs := bases[:1]
				if n <= 4096 || n%97 == 0 {
					bs = bases
				}
				for _, base := range bs {
					evals.Add(1)
					ranges.Add(int64(n))
					if msg := checkGenerated(base, n); msg != "" {
						key := "generate-shards:not-a-partition"
						if n > 65536 {
							key = "generate-shards:uint32-overflow-above-65536-shards"
						}
						sw.mu.Lock()
						sw.badCount[key]++
						sw.badN[key] = append(sw.badN[key], n)
						sw.mu.Unlock()
						_ = msg
					}
				}
			}
		}()
	}
	wg.Wait()
	run.Add("generate_shards_calls", evals.Load())
	run.Add("generate_shards_ranges_checked", ranges.Load())
	run.Add("evaluations", evals.Load())
	run.Coverage["generate_shards_max_n"] = maxN
	if cut.Load() {
		run.NotExhaustive("GenerateShards sweep cut by its deadline (n is handed out in ascending order; generate_shards_ranges_checked tells how far it got: about sqrt(2*ranges))")
	}
	for key, ns := range sw.badN {
		sort.Slice(ns, func(i, j int) bool { return ns[i] < ns[j] })
		first := ns[0]
		msg := checkGenerated(0, first)
		distinctN := map[uint32]bool{}
		for _, n := range ns {
			distinctN[n] = true
		}
		show := ns
		if len(show) > 8 {
			show = show[:8]
		}
		agg.add(key, "generate-shards", fmt.Sprintf("GenerateShards(0,%d): %s; %d distinct n in 1..%d fail (first: %v)", first, msg, len(distinctN), maxN, show),
			map[string]any{"base": 0, "n": first}, 0, fmt.Sprint(first))
		run.Coverage["generate_shards_failing_n:"+key] = len(distinctN)
	}
}

// big shard counts through the coordinator (publication oracle only; the client's update is O(n^2)).
func bigNamespaces(run *ev.Run, counts []uint32, withClientUpTo uint32) {
	for _, c := range counts {
		in := newInst(fmt.Sprintf("big-namespace shards=%d", c), []opDef{{kind: kAddNS, ns: "n1", count: c, rf: 1, name: fmt.Sprintf("AddNamespace(n1,shards=%d,rf=1)", c)}}, 3)
		in.hist = []int{0}
		in.weight = 100
		in.ns["n1"] = nsParam{c, 1}
		added, _, p := in.vc.VerifConfigChanged(in.buildConfig())
		if p != nil {
			in.violate("coordinator-panic-on-valid-config", fmt.Sprint(p))
			in.Close()
			continue
		}
		in.checkIds(added)
		pub := in.vc.VerifAssignments()
		ps, _ := parsePub(pub.Namespaces["n1"])
		run.Add("evaluations", 1)
		run.Add("big_namespace_publications", 1)
		if pe := partitionError(ps); pe != "" {
			key := "published-not-a-partition:" + pe
			if c > 65536 {
				key = "generate-shards:uint32-overflow-above-65536-shards"
			}
			in.violate(key, fmt.Sprintf("namespace n1 with initialShardCount=%d is published with %d ranges that are not a partition (%s)", c, len(ps), pe))
		} else if c <= withClientUpTo {
			fresh := oxia.VerifC18NewShardManager("n1")
			fresh.VerifReceive(pub)
			in.checkClient(fresh, "n1", ps, "fresh client")
			fresh.Close()
		}
		in.Close()
	}
}

// standalone dispatcher: GenerateShards(0,n) published by NewStandaloneShardAssignmentDispatcher.
func standalone(run *ev.Run, maxN uint32) {
	for n := uint32(1); n <= maxN; n++ {
		d := server.NewStandaloneShardAssignmentDispatcher(n)
		resp, err := server.VerifC18Register(d, constant.DefaultNamespace)
		run.Add("evaluations", 1)
		run.Add("standalone_dispatchers", 1)
		tmp := &inst{weight: 100, spec: fmt.Sprintf("standalone shards=%d", n), ops: []opDef{{name: fmt.Sprintf("NewStandaloneShardAssignmentDispatcher(%d)", n)}}, hist: []int{0}}
		if err != nil {
			tmp.violate("standalone-register-failed", err.Error())
			_ = d.Close()
			continue
		}
		ps, ok := parsePub(resp.Namespaces[constant.DefaultNamespace])
		if !ok {
			tmp.violate("standalone-no-default-namespace", "no default namespace")
			_ = d.Close()
			continue
		}
		if pe := partitionError(ps); pe != "" {
			tmp.violate("standalone-not-a-partition:"+pe, pubString(ps))
		} else {
			for _, p := range ps {
				if p.leader != server.VerifC18Authority {
					tmp.violate("standalone-leader-not-authority", pubString(ps))
					break
				}
			}
			sm := oxia.VerifC18NewShardManager(constant.DefaultNamespace)
			sm.VerifReceive(resp)
			tmp.checkClient(sm, constant.DefaultNamespace, ps, "standalone client")
			sm.Close()
		}
		_ = d.Close()
	}
}

// ---------------------------------------------------------------- hole hypothesis: all tie orders

func permutations(items []int) [][]int {
	if len(items) <= 1 {
		return [][]int{append([]int{}, items...)}
	}
	var out [][]int
	for i := range items {
		rest := append(append([]int{}, items[:i]...), items[i+1:]...)
		for _, p := range permutations(rest) {
			out = append(out, append([]int{items[i]}, p...))
		}
	}
	return out
}

// tieEnumeration: creation of the policy namespace n3 (strict zone + strict rack) on every server
// subset, for every (count, rf) and every assignment of a load-ratio tie order to each shard
// (the real DefaultShardsRank orders equal ratios by Go map iteration, i.e. arbitrarily per call).
func pow(b, e int) int {
	r := 1
	for i := 0; i < e; i++ {
		r *= b
	}
	return r
}

func tieEnumeration(run *ev.Run, maxCount uint32, slotCap int, deadline time.Time) {
	type job struct {
		mask  int
		count uint32
		rf    uint32
	}
	var jobs []job
	for mask := 1; mask < 1<<nServers; mask++ {
		for c := uint32(1); c <= maxCount; c++ {
			for _, rf := range []uint32{1, 2, 3} {
				jobs = append(jobs, job{mask, c, rf})
			}
		}
	}
	var next atomic.Int64
	next.Store(-1)
	var evals, holes, partial, refused atomic.Int64
	var cut atomic.Bool
	var wg sync.WaitGroup
	outcomes := sync.Map{}
	for w := 0; w < runtime.NumCPU(); w++ {
		wg.Add(1)
		go func() {
			defer wg.Done()
			for {
				j := int(next.Add(1))
				if j >= len(jobs) {
					return
				}
				jb := jobs[j]
				var members []int
				for i := 0; i < nServers; i++ {
					if jb.mask&(1<<i) != 0 {
						members = append(members, i)
					}
				}
				perms := permutations(members)
				// one tie order per shard; when perms^count exceeds the cap the last shards re-use the
				// tie orders of the first ones (cyclically)
				nslots := int(jb.count)
				for pow(len(perms), nslots) > slotCap {
					nslots--
				}
				idx := make([]int, nslots)
				for {
					if time.Now().After(deadline) {
						cut.Store(true)
						return
					}
					pp := make([][]int, nslots)
					for i := range idx {
						pp[i] = perms[idx[i]]
					}
					ops := []opDef{{kind: kAddNS, ns: "n3", count: jb.count, rf: jb.rf, name: fmt.Sprintf("AddNamespace(n3,shards=%d,rf=%d) on servers mask=%04b tie-orders=%v", jb.count, jb.rf, jb.mask, pp)}}
					in := newInstMask(fmt.Sprintf("tie-enum mask=%04b", jb.mask), ops, jb.mask)
					in.permPerShard = pp
					before := cEmptyReaddStates.Load()
					_ = before
					in.hist = []int{0}
					in.ns["n3"] = nsParam{jb.count, jb.rf}
					ok := in.apply("n3")
					evals.Add(1)
					if !ok {
						refused.Add(1)
					} else {
						pub := in.vc.VerifAssignments()
						ps, _ := parsePub(pub.Namespaces["n3"])
						outcomes.Store(fmt.Sprintf("%04b/%d/%d/%d", jb.mask, jb.count, jb.rf, len(ps)), true)
						if partitionError(ps) != "" {
							holes.Add(1)
							if len(ps) > 0 {
								partial.Add(1)
							}
						}
					}
					in.Close()
					// next index vector
					k := 0
					for k < nslots {
						idx[k]++
						if idx[k] < len(perms) {
							break
						}
						idx[k] = 0
						k++
					}
					if k == nslots {
						break
					}
				}
			}
		}()
	}
	wg.Wait()
	nOut := 0
	outcomes.Range(func(_, _ any) bool { nOut++; return true })
	run.Add("evaluations", evals.Load())
	run.Add("tie_enum_applies", evals.Load())
	run.Add("tie_enum_holes", holes.Load())
	run.Add("tie_enum_partial_holes", partial.Load())
	run.Add("tie_enum_refused_by_panic", refused.Load())
	for i := 0; i < nOut; i++ {
		run.Distinct(fmt.Sprintf("tie-outcome-%d", i))
	}
	if cut.Load() {
		run.NotExhaustive("tie-order enumeration cut by deadline")
	}
}

func newInstMask(spec string, ops []opDef, mask int) *inst {
	// like newInst but with an arbitrary initial server subset
	in := &inst{weight: 100, spec: spec, ops: ops, ns: map[string]nsParam{}, issued: map[int64]issuedInfo{}, selFailed: map[string]bool{},
		lastPub: map[string]string{}, lastPubB: map[string]string{}, inCfgPrev: map[string]bool{},
		cA: map[string]*oxia.VerifC18ShardManager{}, cB: map[string]*oxia.VerifC18ShardManager{}}
	for i := 0; i < nServers; i++ {
		in.servers[i] = mask&(1<<i) != 0
	}
	in.meta = metadata.NewMetadataProviderMemory()
	in.vc = coordinator.VerifNewCoordinator(in.meta, in.algo)
	in.disp = server.VerifC18NewDispatcher()
	for _, n := range nsNames {
		in.cA[n] = oxia.VerifC18NewShardManager(n)
		in.cB[n] = oxia.VerifC18NewShardManager(n)
	}
	if _, _, p := in.vc.VerifConfigChanged(in.buildConfig()); p != nil {
		panic(fmt.Sprint("initial config panicked: ", p))
	}
	in.afterPublish()
	return in
}

// realTieRuns: the same creation with the UNMODIFIED load-ratio algorithm (real map-order ties),
// repeated; confirms that the partial hole is reachable without the tie seam.
func realTieRuns(run *ev.Run, reps int) {
	holes, partial := 0, 0
	for i := 0; i < reps; i++ {
		ops := []opDef{{kind: kAddNS, ns: "n3", count: 4, rf: 2, name: "AddNamespace(n3,shards=4,rf=2) on servers {s1,s2,s3}, unmodified DefaultShardsRank"}}
		in := newInstMask("real-ties mask=0111", ops, 0b0111)
		in.realAlgo = true
		in.hist = []int{0}
		in.ns["n3"] = nsParam{4, 2}
		if in.apply("n3") {
			ps, _ := parsePub(in.vc.VerifAssignments().Namespaces["n3"])
			if partitionError(ps) != "" {
				holes++
				if len(ps) > 0 {
					partial++
				}
			}
		}
		in.Close()
	}
	run.Add("real_tie_runs", int64(reps))
	run.Add("real_tie_runs_with_hole", int64(holes))
	run.Add("real_tie_runs_with_partial_hole", int64(partial))
	run.Add("evaluations", int64(reps))
}

// ---------------------------------------------------------------- main

func main() {
	replay := flag.String("replay", "", "replay file")
	flag.Parse()
	oxh.Quiet()
	slog.SetDefault(slog.New(slog.NewTextHandler(io.Discard, &slog.HandlerOptions{Level: slog.Level(100)})))
	for _, bk := range boundaryKeys {
		if hash.Xxh332(bk.Key) != bk.Hash {
			fmt.Fprintf(os.Stderr, "boundary key %q no longer hashes to %d (hash function changed): re-run h/c18/keysearch\n", bk.Key, bk.Hash)
			os.Exit(2)
		}
	}
	for i := 0; i < 64; i++ {
		fixedKeys = append(fixedKeys, fmt.Sprintf("/fixed/key-%d", i*7919))
	}
	if pf := os.Getenv("VERIF_CPUPROFILE"); pf != "" {
		f, _ := os.Create(pf)
		_ = pprof.StartCPUProfile(f)
		defer pprof.StopCPUProfile()
	}
	run := ev.NewRun("C18", "model_checking")
	counts := []uint32{1, 2, 3, 4}
	depth := 4
	budget := 55 * time.Second
	maxN := uint32(4096)
	standaloneN := uint32(64)
	big := []uint32{5, 7, 64, 1000, 4096}
	tieCount := uint32(3)
	slotCap := 600
	realReps := 300
	if run.Tier == "thorough" {
		depth = 6
		budget = 18 * time.Minute
		maxN = 1 << 17
		standaloneN = 512
		big = append(big, 65536, 65537, 70000, 100000)
		tieCount = 4
		slotCap = 14000
		realReps = 3000
	}
	if b := os.Getenv("VERIF_BUDGET_S"); b != "" {
		var sec int
		fmt.Sscanf(b, "%d", &sec)
		budget = time.Duration(sec) * time.Second
	}
	if d := os.Getenv("VERIF_DEPTH"); d != "" {
		fmt.Sscanf(d, "%d", &depth)
	}
	type e1 struct {
		alphabet string
		servers  int
		depth    int
	}
	alphabets := map[string][]opDef{
		"full":    buildOps(counts, nsNames, true, []int{0, 1, 2, 3}, true, true),
		"quick":   func() []opDef { quickAlphabet = true; defer func() { quickAlphabet = false }(); return buildOps(counts, nsNames, false, []int{0, 1, 2, 3}, false, true) }(),
		// reduced alphabet for the deepest search: two namespaces (one with anti-affinity), two shard counts, servers s3/s4 only
		"reduced": buildOps([]uint32{2, 3}, []string{"n1", "n3"}, false, []int{2, 3}, true, true),
	}
	var plan []e1
	if run.Tier == "thorough" {
		// cheapest first; the last one takes whatever time is left
		plan = []e1{{"reduced", 3, depth}, {"reduced", 2, depth}, {"full", 1, depth - 2}, {"full", 2, depth - 2}, {"full", 4, depth - 2}, {"full", 3, depth - 1}}
	} else {
		plan = []e1{{"quick", 3, depth}, {"quick", 1, depth}}
	}
	specFor := func(e e1) seqx.Spec {
		ops := alphabets[e.alphabet]
		name := fmt.Sprintf("initial-servers=%d alphabet=%s", e.servers, e.alphabet)
		lm := &levelMark{}
		return seqx.Spec{Name: "shardmap-seq", Config: name, NOps: len(ops), OpName: func(i int) string { return ops[i].name },
			New: func(int) seqx.Instance { i := newInst(name, ops, e.servers); i.level = lm; return i }, MaxDepth: e.depth, MaxViolations: 1 << 30}
	}
	if *replay != "" {
		os.Exit(doReplay(*replay, func(servers int, alphabet string) seqx.Spec {
			return specFor(e1{alphabet, servers, 0})
		}))
	}
	start := time.Now()
	standalone(run, standaloneN)
	bigNamespaces(run, big, 4096)
	realTieRuns(run, realReps)
	tieEnumeration(run, tieCount, slotCap, time.Now().Add(budget/8))
	sweepGenerate(run, maxN, time.Now().Add(budget/4))
	pre := time.Since(start)
	// E1 searches share the remaining budget
	totalStates := int64(0)
	var planDesc []string
	for i, e := range plan {
		spec := specFor(e)
		remaining := budget - time.Since(start)
		if remaining < time.Second {
			remaining = time.Second
		}
		spec.Deadline = time.Now().Add(remaining / time.Duration(len(plan)-i))
		res := seqx.Explore(spec)
		seqx.Report(run, spec, res)
		totalStates += res.States
		planDesc = append(planDesc, fmt.Sprintf("%s depth<=%d (%d ops)", spec.Config, e.depth, spec.NOps))
	}
	run.Coverage["e1_searches"] = planDesc
	ops := alphabets["full"]
	run.DistinctN(totalStates)
	agg.flush(run)
	run.Coverage["max_depth"] = depth
	run.Coverage["alphabet_size_full"] = len(ops)
	run.Coverage["pre_e1_seconds"] = pre.Seconds()
	run.Add("publications_pushed_through_dispatcher", cPublications.Load())
	run.Add("partition_oracle_evaluations", cPartitionChecks.Load())
	run.Add("client_checks", cClientChecks.Load())
	run.Add("client_get_calls", cGetCalls.Load())
	run.Add("client_hash_owner_checks", cHashOwnerChecks.Load())
	run.Add("fresh_clients", cFreshClients.Load())
	run.Add("id_checks", cIdChecks.Load())
	run.Add("config_changes_refused_by_coordinator_panic", cCoordPanics.Load())
	run.Add("config_namespace_not_published_states", cUnpublished.Load())
	run.Add("ensemble_supplier_calls", cSupplierCalls.Load())
	run.Add("ensemble_supplier_errors", cSupplierErrors.Load())
	run.Sample(map[string]any{"config": "initial-servers=3", "ops": []string{ops[0].name, "RemoveNamespace(n1)", "AddNamespace(n1,shards=3,rf=1)", "ShardDeletionCompleted(lowest deleting shard of n1)", "DeliverCurrentAssignmentsToSkippingClient"}})
	run.Sample(map[string]any{"generate_shards": "every n in 1..max_n, bases {0,7,2^40} for n<=4096 and every 97th n, base 0 otherwise"})
	run.Assume = []string{
		"node/shard controllers, RPC and leader election are not run: the shard map is decided by ApplyClusterChanges, selectNewEnsemble, StatusResource and computeNewAssignments only; an election is modelled by the metadata write a shard controller performs (UpdateShardMetadata + LeaderElected)",
		"the order of nodes with equal load ratio (Go map iteration in DefaultShardsRank) is a deterministic rotation in the E1 search and is enumerated exhaustively per shard in the tie-order enumeration; the unmodified algorithm is additionally run repeatedly",
		"a config change on which the real code panics (RF > number of servers without policies) is treated as refused: nothing is published, the history is not extended",
		"a namespace of the config that is not published at all (after the last old shard of a re-added namespace is deleted) is outside the oracle (counted in config_namespace_not_published_states)",
		"InitialShardCount = 0 (division by zero in GenerateShards) is outside the quantifier (shard counts 1..N)",
	}
	pprof.StopCPUProfile()
	os.Exit(run.Finish("BFS (searches listed in e1_searches) over all sequences of config changes (add namespace n1..n3 x shards 1..4 x rf, remove namespace, add/remove server s1..s4, completion of one/all shard deletions, leader election metadata write, delivery of the current assignments to a client that skipped the intermediate ones) from initial clusters of 1..4 servers; after every step the published assignments of every configured namespace must partition [0,2^32), ids must be unique/never reused, and three real client shard managers (every update / skipping / fresh) must route all range-boundary hashes (+-1), 24 boundary keys and 64 fixed keys to the published owner. Plus GenerateShards(base,n) for every n up to generate_shards_max_n, the standalone dispatcher, large shard counts through the coordinator, and all load-ratio tie orders for the creation of an anti-affinity namespace."))
}

func doReplay(path string, specFor func(int, string) seqx.Spec) int {
	var doc struct {
		First struct {
			Key    string `json:"key"`
			Replay struct {
				Config  string `json:"config"`
				Indices []int  `json:"indices"`
			} `json:"replay"`
		} `json:"first"`
	}
	if err := ev.ReadJSON(path, &doc); err != nil {
		fmt.Println("cannot read replay:", err)
		return 2
	}
	var k int
	var alphabet string
	if _, err := fmt.Sscanf(doc.First.Replay.Config, "initial-servers=%d alphabet=%s", &k, &alphabet); err != nil {
		fmt.Println("replay of this harness part is not supported (only shardmap-seq histories):", doc.First.Replay.Config)
		return 2
	}
	spec := specFor(k, alphabet)
	if v := seqx.Replay(spec, doc.First.Replay.Indices); v != nil {
		fmt.Printf("VIOLATION property=C18 replay=%s\n  %s: %s\n", path, v.Key, v.Message)
		return 1
	}
	agg.mu.Lock()
	defer agg.mu.Unlock()
	if len(agg.m) > 0 {
		for k, e := range agg.m {
			fmt.Printf("VIOLATION property=C18 replay=%s\n  %s: %s\n", path, k, e.first.Message)
		}
		return 1
	}
	fmt.Println("replay passed")
	return 0
}
