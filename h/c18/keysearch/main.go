// One-off tool: searches keys whose xxh3 32-bit hash (common/hash.Xxh332) equals the
// shard-range boundary values (and their neighbours) of GenerateShards(_, n), n = 1..4.
// The result is embedded in ../boundary_keys.go and re-verified at harness start.
package main

import (
	"fmt"
	"math"
	"runtime"
	"sort"
	"strconv"
	"sync"

	"github.com/zeebo/xxh3"

	"github.com/oxia-db/oxia/common/sharding"
)

func main() {
	targets := map[uint32]struct{}{}
	for n := uint32(1); n <= 4; n++ {
		for _, s := range sharding.GenerateShards(0, n) {
			for _, h := range []uint32{s.Min, s.Min + 1, s.Max - 1, s.Max} {
				targets[h] = struct{}{}
			}
		}
	}
	targets[0], targets[1], targets[math.MaxUint32], targets[math.MaxUint32-1] = struct{}{}, struct{}{}, struct{}{}, struct{}{}
	found := map[uint32]string{}
	var mu sync.Mutex
	W := runtime.NumCPU()
	var wg sync.WaitGroup
	const per = uint64(1) << 32
	for w := 0; w < W; w++ {
		wg.Add(1)
		go func(w int) {
			defer wg.Done()
			buf := make([]byte, 0, 32)
			start := uint64(w) * per
			for i := start; i < start+per; i++ {
				if i&0xffffff == 0 {
					mu.Lock()
					d := len(found) == len(targets)
					mu.Unlock()
					if d {
						return
					}
				}
				buf = append(buf[:0], 'k')
				buf = strconv.AppendUint(buf, i, 36)
				h := uint32(xxh3.Hash(buf))
				if _, ok := targets[h]; ok {
					mu.Lock()
					if _, dup := found[h]; !dup {
						found[h] = string(buf)
					}
					mu.Unlock()
				}
			}
		}(w)
	}
	wg.Wait()
	var hs []uint32
	for h := range targets {
		hs = append(hs, h)
	}
	sort.Slice(hs, func(i, j int) bool { return hs[i] < hs[j] })
	for _, h := range hs {
		fmt.Printf("\t{%d, %q},\n", h, found[h])
	}
}
