// C17 (stage 1): notifications are a complete, ordered, resumable record of committed changes.
// E1 explicit-state search over write histories on a real kv.DB (notifications enabled) with a
// mocked clock. After every step a subscriber is simulated from every start offset on the DB
// itself and on a replica that replayed the same log; trimming rounds are interleaved as ops.
//
// Two alphabets are searched one after the other (two seqx specs):
//   - "db+replica": single/composite requests that are always applied, sessions, trimming rounds;
//   - "refusals": multi-operation requests including requests that ProcessWrite refuses as a whole
//     after some of their operations were processed (kv.IsInvalidRequestError: the leader has logged
//     the entry, every replica skips it), followed by further writes; checked on the live DB, on
//     a lock-step replica and on a replica that is reopened before every request and re-applies
//     the trailing refused entries of the log like the controllers do.
package main

import (
	"context"
	"errors"
	"flag"
	"fmt"
	"math"
	"os"
	"sort"
	"strconv"
	"strings"
	"sync"
	"sync/atomic"
	"time"

	"github.com/cockroachdb/pebble/vfs"

	time2 "github.com/oxia-db/oxia/common/time"
	"github.com/oxia-db/oxia/proto"
	"github.com/oxia-db/oxia/server"
	"github.com/oxia-db/oxia/server/kv"

	"verif/lib/ev"
	"verif/lib/oxh"
	"verif/lib/seqx"
)

const (
	shard       = int64(7)
	t0Millis    = int64(1_700_000_000_000)
	stepMillis  = int64(1000)
	retentionMs = int64(100_000)
	internalPfx = "__oxia/"
	ghostSess   = int64(4242) // a session id that is never created
)

// ---------------------------------------------------------------------------------------------
// key universe and ranges. Oxia orders keys hierarchically (fewer '/' segments first), hence
// a < b < c < a/ < a/b < a// ; the membership table below is written by hand from that rule.

var userKeys = []string{"a", "b", "a/b"}

type rng struct{ start, end string }

var (
	rAB   = rng{"a", "b"}    // {a}
	rAC   = rng{"a", "c"}    // {a, b}
	rASub = rng{"a/", "a//"} // {a/b}
	rST   = rng{"s", "t"}    // every key under the sequence prefix: s-<n>, s-<n>-<m>, s-$
	// "a/c" sorts after "b" in the store's hierarchical order (more path segments) and before it bytewise:
	// the range is wider than [a,b) although its end bound is the bytewise smaller one
	rADeep = rng{"a", "a/c"} // {a, b, a/b}
	// an empty end bound means no upper bound
	rAOpen = rng{"a", ""} // {a, b, a/b}
)

// sequence prefix of the "refusals" alphabet and a key under it that is no sequence number
// ('$' < '0': it is the last key below "s-<max>." only while no generated key exists)
const (
	seqPrefix  = "s"
	seqBadKey  = "s-$"
	seqMaxUint = uint64(math.MaxUint64)
)

func inRange(r rng, key string) bool {
	switch r {
	case rAB:
		return key == "a"
	case rAC:
		return key == "a" || key == "b"
	case rASub:
		return key == "a/b"
	case rADeep, rAOpen:
		return key == "a" || key == "b" || key == "a/b"
	case rST:
		return strings.HasPrefix(key, seqPrefix+"-")
	}
	return false // internal ranges never cover user keys
}

// ---------------------------------------------------------------------------------------------
// model

type rec struct {
	ver, mod int64
	owner    int64 // -1: not ephemeral
	cts, mts uint64
}

type config struct {
	name     string
	ops      []opDef
	lockstep bool // a replica that applies every request right after the primary and is never reopened
	cold     bool // a replica that is closed and reopened before every request
	hard     bool // reopening closes and reopens Pebble too (else only the kv.DB layer on the open engine)
	nQuick   int  // the quick tier searches the first nQuick operations of the alphabet (0 = all)
	// preload: operations applied before the search starts (a non-initial state: a longer history)
	preload []int
	// memo: histories whose last step has passed the stream oracles. seqx replays the (validated)
	// prefix on a fresh instance for every successor; the subscriber simulation and the model
	// guards are not repeated for those steps (same history, same verdict), only for the new one.
	memo     sync.Map
	memoUpTo int // histories shorter than this are remembered (max depth of the search)
}

func (in *inst) validated() bool {
	_, ok := in.cfg.memo.Load(fmt.Sprint(in.hist))
	return ok
}

// oracles runs the model guards (after a request) and the subscriber simulation for the step
// that was just applied, unless this very history has passed them before.
func (in *inst) oracles(withGuards bool) *ev.Violation {
	if in.validated() {
		return nil
	}
	if withGuards {
		if v := in.guards(); v != nil {
			return v
		}
	}
	if v := in.subscribers(); v != nil {
		return v
	}
	if len(in.hist) < in.cfg.memoUpTo {
		in.cfg.memo.Store(fmt.Sprint(in.hist), struct{}{})
	}
	return nil
}

type inst struct {
	pre    *ev.Violation // a violation met while building the preloaded start state
	cfg    *config
	db     kv.DB    // live leader (never reopened, trimmed)
	stores []*store // primary[, lock-step replica][, reopened replica]
	cold   *store
	clock  *time2.MockedClock
	now    int64

	// the log: every request handed to ProcessWrite, applied or refused
	log     []*proto.WriteRequest
	refused []error // per offset: nil = applied, else the sentinel the request was refused with
	// user keys the refused requests had written before they were refused
	leftover map[string]bool

	// model
	recs     map[string]rec
	verNext  int64
	sessLive bool
	sessId   int64    // last created session id, -1 if none
	batches  []string // validated rendering of the batch of every applied request ("REFUSED …" for a refused one)
	ts       []int64
	present  []bool // batch still stored on the primary (never for a refused request)
	everTrim bool
	hist     []int
}

var (
	nRefused, nRefusedAfterOps, nWritesAfterRefused, nReopens atomic.Int64
	nReplayedRefused, nTrimGap, nColdReads, nResumeInGap      atomic.Int64
	nRefusedKind                                              sync.Map // sentinel text -> *atomic.Int64
	nReads, nBatchesChecked, nReplicaReads                    atomic.Int64
	nTrims, nTrimsRemoving, nTrimmedBatches, nResumeAfterTrim atomic.Int64
	nEmptyBatches, nNonEmptyBatches, nInternalOnlyRequests    atomic.Int64
	nTypes                                                    [4]atomic.Int64
)

// A store is one replica's database on a private in-memory filesystem that survives Close, so
// that the database can be reopened (kv.VerifFSHook hands the registered filesystem to Pebble).
var (
	fsReg    sync.Map // dataDir -> vfs.FS
	storeCtr atomic.Int64
)

func init() {
	kv.VerifFSHook = func(dataDir string, _ bool, def vfs.FS) vfs.FS {
		if v, ok := fsReg.Load(dataDir); ok {
			return v.(vfs.FS)
		}
		return def
	}
}

type store struct {
	name  string
	dir   string
	f     kv.Factory
	db    kv.DB
	clock time2.Clock
}

// keepOpenFactory: the "refusals" alphabet restarts only the database layer (kv.DB with its
// in-memory state: version id counter, notification tracker, whatever a request leaves behind) on
// the storage engine that stays open; "refusals-hard" (thorough tier) closes and reopens Pebble as well.
type keepOpenFactory struct {
	kv.Factory
	cur *keepOpenKV
}

type keepOpenKV struct{ kv.KV }

func (*keepOpenKV) Close() error { return nil }

func (f *keepOpenFactory) NewKV(namespace string, shardId int64) (kv.KV, error) {
	if f.cur == nil {
		k, err := f.Factory.NewKV(namespace, shardId)
		if err != nil {
			return nil, err
		}
		f.cur = &keepOpenKV{k}
	}
	return f.cur, nil
}

func (f *keepOpenFactory) Close() error {
	if f.cur != nil {
		_ = f.cur.KV.Close()
	}
	return f.Factory.Close()
}

func newStore(name string, clock time2.Clock, hardReopen bool) *store {
	dir := fmt.Sprintf("/verifmem/c17-%d", storeCtr.Add(1))
	fsReg.Store(dir, vfs.NewMem())
	var f kv.Factory
	f, err := kv.NewPebbleKVFactory(&kv.FactoryOptions{DataDir: dir, CacheSizeMB: 1, InMemory: true})
	if err != nil {
		panic(err)
	}
	if !hardReopen {
		f = &keepOpenFactory{Factory: f}
	}
	s := &store{name: name, dir: dir, f: f, clock: clock}
	if s.db, err = kv.NewDB("ns", shard, f, time.Hour, clock); err != nil {
		panic(err)
	}
	return s
}

func (s *store) reopen() error {
	if err := s.db.Close(); err != nil {
		return err
	}
	d, err := kv.NewDB("ns", shard, s.f, time.Hour, s.clock)
	if err != nil {
		return err
	}
	s.db = d
	return nil
}

func (s *store) close() {
	_ = s.db.Close()
	_ = s.f.Close()
	fsReg.Delete(s.dir)
}

func newInst(cfg *config) *inst {
	in := &inst{cfg: cfg, clock: &time2.MockedClock{}, now: t0Millis, recs: map[string]rec{}, sessId: -1, leftover: map[string]bool{}}
	in.clock.Set(in.now)
	in.stores = []*store{newStore("primary", in.clock, true)}
	in.db = in.stores[0].db
	if cfg.lockstep {
		in.stores = append(in.stores, newStore("replica", &time2.MockedClock{}, true))
	}
	if cfg.cold {
		in.cold = newStore("reopened replica", &time2.MockedClock{}, cfg.hard)
		in.stores = append(in.stores, in.cold)
	}
	for _, op := range cfg.preload {
		if _, v := in.step(op); v != nil && in.pre == nil {
			v.Message = "while building the start state: " + v.Message
			in.pre = v
		}
	}
	return in
}

func (in *inst) Close() {
	for _, s := range in.stores {
		s.close()
	}
}

func viol(key, msg string) *ev.Violation { return &ev.Violation{Key: key, Message: msg} }

// ---------------------------------------------------------------------------------------------
// operations

type opDef struct {
	name string
	// build returns a fresh request (nil = not enabled); called once per DB.
	build func(in *inst, off int64) *proto.WriteRequest
	trim  int // 0: write op; 1: no clock advance; 2: expire oldest stored batch; 3: expire all but the last
}

func put(key string, sess *int64) *proto.PutRequest {
	return &proto.PutRequest{Key: key, Value: []byte("v"), SessionId: sess}
}
func del(key string) *proto.DeleteRequest { return &proto.DeleteRequest{Key: key} }
func dr(r rng) *proto.DeleteRangeRequest {
	return &proto.DeleteRangeRequest{StartInclusive: r.start, EndExclusive: r.end}
}

func (in *inst) sessForPut() int64 {
	if in.sessId < 0 {
		return ghostSess
	}
	return in.sessId // live or already closed
}

func buildOps() []opDef {
	var ops []opDef
	for _, k := range userKeys {
		k := k
		ops = append(ops, opDef{name: "put(" + k + ")", build: func(*inst, int64) *proto.WriteRequest {
			return &proto.WriteRequest{Puts: []*proto.PutRequest{put(k, nil)}}
		}})
	}
	for _, k := range userKeys {
		k := k
		ops = append(ops, opDef{name: "delete(" + k + ")", build: func(*inst, int64) *proto.WriteRequest {
			return &proto.WriteRequest{Deletes: []*proto.DeleteRequest{del(k)}}
		}})
	}
	for _, r := range []rng{rAB, rAC, rASub} {
		r := r
		ops = append(ops, opDef{name: fmt.Sprintf("deleteRange[%s,%s)", r.start, r.end), build: func(*inst, int64) *proto.WriteRequest {
			return &proto.WriteRequest{DeleteRanges: []*proto.DeleteRangeRequest{dr(r)}}
		}})
	}
	ops = append(ops,
		opDef{name: "put(a)+delete(b)", build: func(*inst, int64) *proto.WriteRequest {
			return &proto.WriteRequest{Puts: []*proto.PutRequest{put("a", nil)}, Deletes: []*proto.DeleteRequest{del("b")}}
		}},
		opDef{name: "put(b)+delete(b)", build: func(*inst, int64) *proto.WriteRequest {
			return &proto.WriteRequest{Puts: []*proto.PutRequest{put("b", nil)}, Deletes: []*proto.DeleteRequest{del("b")}}
		}},
		opDef{name: "deleteRange[a,c)+deleteRange[a,b)", build: func(*inst, int64) *proto.WriteRequest {
			return &proto.WriteRequest{DeleteRanges: []*proto.DeleteRangeRequest{dr(rAC), dr(rAB)}}
		}},
		opDef{name: "deleteRange[a,b)+deleteRange[a,a/c)", build: func(*inst, int64) *proto.WriteRequest {
			return &proto.WriteRequest{DeleteRanges: []*proto.DeleteRangeRequest{dr(rAB), dr(rADeep)}}
		}},
		opDef{name: "deleteRange[a,)+deleteRange[a,b)", build: func(*inst, int64) *proto.WriteRequest {
			return &proto.WriteRequest{DeleteRanges: []*proto.DeleteRangeRequest{dr(rAOpen), dr(rAB)}}
		}},
		opDef{name: "deleteRange[a,b)+deleteRange[a,)", build: func(*inst, int64) *proto.WriteRequest {
			return &proto.WriteRequest{DeleteRanges: []*proto.DeleteRangeRequest{dr(rAB), dr(rAOpen)}}
		}},
		opDef{name: "createSession", build: func(in *inst, off int64) *proto.WriteRequest {
			if in.sessLive {
				return nil
			}
			md, _ := (&proto.SessionMetadata{TimeoutMs: 5000, Identity: "c"}).MarshalVT()
			return &proto.WriteRequest{Puts: []*proto.PutRequest{{Key: server.SessionKey(server.SessionId(off)), Value: md}}}
		}},
		opDef{name: "ephemeralPut(a)", build: func(in *inst, _ int64) *proto.WriteRequest {
			return &proto.WriteRequest{Puts: []*proto.PutRequest{put("a", oxh.I64(in.sessForPut()))}}
		}},
		opDef{name: "ephemeralPut(a/b)", build: func(in *inst, _ int64) *proto.WriteRequest {
			return &proto.WriteRequest{Puts: []*proto.PutRequest{put("a/b", oxh.I64(in.sessForPut()))}}
		}},
		// the request the session manager sends when a session is closed or expires
		opDef{name: "sessionCleanup", build: func(in *inst, _ int64) *proto.WriteRequest {
			if !in.sessLive {
				return nil
			}
			sk := server.SessionKey(server.SessionId(in.sessId))
			w := &proto.WriteRequest{}
			for _, k := range userKeys {
				if r, ok := in.recs[k]; ok && r.owner == in.sessId {
					w.Deletes = append(w.Deletes, &proto.DeleteRequest{Key: k, ExpectedVersionId: oxh.I64(r.ver)})
				}
			}
			w.Deletes = append(w.Deletes, del(sk))
			w.DeleteRanges = []*proto.DeleteRangeRequest{{StartInclusive: sk + "/", EndExclusive: sk + "//"}}
			return w
		}},
		opDef{name: "trim(no clock advance)", trim: 1},
		opDef{name: "trim(oldest stored batch expires)", trim: 2},
		opDef{name: "trim(all but the last batch expire)", trim: 3},
	)
	return ops
}

func seqPut(deltas ...uint64) *proto.PutRequest {
	return &proto.PutRequest{Key: seqPrefix, Value: []byte("v"), PartitionKey: oxh.Str("p"), SequenceKeyDelta: deltas}
}

// buildRefusalOps: the "refusals" alphabet. Keys {a, b} and the sequence prefix s. A sequential
// put is refused (and with it the whole request, whatever was processed before) when the
// existing sequence has more suffixes than the request has deltas (ErrMissingSequenceDeltas),
// when the last key under the prefix is no sequence number (ErrInvalidSequenceKey: s-$), when
// the sum overflows (ErrSequenceOverflow) and when the first delta is 0 (ErrSequenceDeltaIsZero;
// the public RPC layer filters that one, the replicas treat it like the others). Which of the
// requests below are refused therefore depends on the history.
func buildRefusalOps() []opDef {
	wr := func(name string, f func() *proto.WriteRequest) opDef {
		return opDef{name: name, build: func(*inst, int64) *proto.WriteRequest { return f() }}
	}
	return []opDef{
		wr("put(a)", func() *proto.WriteRequest { return &proto.WriteRequest{Puts: []*proto.PutRequest{put("a", nil)}} }),
		wr("delete(a)", func() *proto.WriteRequest { return &proto.WriteRequest{Deletes: []*proto.DeleteRequest{del("a")}} }),
		wr("deleteRange[s,t)", func() *proto.WriteRequest {
			return &proto.WriteRequest{DeleteRanges: []*proto.DeleteRangeRequest{dr(rST)}}
		}),
		wr("put(a)+put(b)+delete(a)", func() *proto.WriteRequest {
			return &proto.WriteRequest{Puts: []*proto.PutRequest{put("a", nil), put("b", nil)}, Deletes: []*proto.DeleteRequest{del("a")}}
		}),
		wr("seqPut(s,[1])", func() *proto.WriteRequest { return &proto.WriteRequest{Puts: []*proto.PutRequest{seqPut(1)}} }),
		wr("seqPut(s,[1,1])", func() *proto.WriteRequest { return &proto.WriteRequest{Puts: []*proto.PutRequest{seqPut(1, 1)}} }),
		wr("put(a)+seqPut(s,[1])", func() *proto.WriteRequest {
			return &proto.WriteRequest{Puts: []*proto.PutRequest{put("a", nil), seqPut(1)}}
		}),
		wr("put(b)+seqPut(s,[max])+delete(a)", func() *proto.WriteRequest {
			return &proto.WriteRequest{Puts: []*proto.PutRequest{put("b", nil), seqPut(seqMaxUint)}, Deletes: []*proto.DeleteRequest{del("a")}}
		}),
		wr("put(a)+put(b)+seqPut(s,[0])+put(a)", func() *proto.WriteRequest {
			return &proto.WriteRequest{Puts: []*proto.PutRequest{put("a", nil), put("b", nil), seqPut(0), put("a", nil)}}
		}),
		wr("put(s-$)", func() *proto.WriteRequest { return &proto.WriteRequest{Puts: []*proto.PutRequest{put(seqBadKey, nil)}} }),
		{name: "trim(oldest stored batch expires)", trim: 2},
		// thorough tier only (see config.nQuick)
		wr("put(b)", func() *proto.WriteRequest { return &proto.WriteRequest{Puts: []*proto.PutRequest{put("b", nil)}} }),
		wr("deleteRange[a,c)", func() *proto.WriteRequest {
			return &proto.WriteRequest{DeleteRanges: []*proto.DeleteRangeRequest{dr(rAC)}}
		}),
		{name: "trim(all but the last batch expire)", trim: 3},
	}
}

var (
	cfgSeq     = &config{name: "db+replica", ops: buildOps(), lockstep: true}
	cfgRefusal = &config{name: "refusals", ops: buildRefusalOps(), cold: true, nQuick: 11}
	cfgRefHard = &config{name: "refusals-hard", ops: buildRefusalOps(), cold: true, hard: true} // thorough tier only
	// start state: five requests, the third refused as a whole (an offset without a batch in the middle of the
	// stored batches: where the trimmer's binary search probes first)
	cfgRefPre = &config{name: "refusals-preloaded", ops: buildRefusalOps(), cold: true, nQuick: 11, preload: []int{0, 0, 8, 0, 0}}
	configs   = []*config{cfgRefusal, cfgRefHard, cfgRefPre, cfgSeq}
)

// ---------------------------------------------------------------------------------------------

// last: offset of the last request of the log (applied or refused); lastOK: of the last applied one,
// i.e. the commit offset of the databases and the newest batch a subscriber can ask for.
func (in *inst) last() int64 { return int64(len(in.batches)) - 1 }

func (in *inst) lastOK() int64 {
	for i := in.last(); i >= 0; i-- {
		if in.refused[i] == nil {
			return i
		}
	}
	return -1
}

// a subscriber never waits in this harness: the context is already cancelled, a call that would
// block (start offset beyond the tracker's last offset) returns context.Canceled instead.
var noWait = func() context.Context {
	ctx, cancel := context.WithCancel(context.Background())
	cancel()
	return ctx
}()

// readAll simulates a subscriber that starts at offset start (inclusive) and keeps asking for
// the next batches until it has caught up with the last applied request. Never blocks: the
// tracker is only asked for offsets <= the last applied request (and with a cancelled context).
func (in *inst) readAll(d kv.DB, start int64) ([]*proto.NotificationBatch, error) {
	var out []*proto.NotificationBatch
	next := start
	for next <= in.lastOK() {
		res, err := d.ReadNextNotifications(noWait, next)
		if err != nil {
			return nil, err
		}
		if len(res) == 0 {
			break
		}
		out = append(out, res...)
		n := res[len(res)-1].Offset + 1
		if n <= next { // no progress: the ordering check below reports it
			break
		}
		next = n
	}
	return out, nil
}

func (in *inst) expired(i int64) bool { return in.ts[i] <= in.now-retentionMs }

// subscribers checks the streams returned from every start offset on the primary and on the replica(s).
func (in *inst) subscribers() *ev.Violation {
	last := in.lastOK() // a start offset beyond it would (rightly) wait for the next applied request
	for o := int64(0); o <= last; o++ {
		for which, st := range in.stores {
			d, name := st.db, st.name
			switch {
			case st == in.cold:
				nColdReads.Add(1)
			case which != 0:
				nReplicaReads.Add(1)
			}
			nReads.Add(1)
			if in.refused[o] != nil {
				nResumeInGap.Add(1) // the subscriber's last seen offset is right before a refused request
			}
			bs, err := in.readAll(d, o)
			if err != nil {
				key := "read-error"
				if errors.Is(err, context.Canceled) {
					key = "read-would-block"
				}
				return viol(key, fmt.Sprintf("%s: ReadNextNotifications(%d) with %d the last applied offset: %v", name, o, last, err))
			}
			prev := o - 1
			got := map[int64]bool{}
			for _, b := range bs {
				if b.Offset <= prev {
					return viol("stream-order", fmt.Sprintf("%s: stream from %d returned offset %d after %d (offsets %v)", name, o, b.Offset, prev, offsets(bs)))
				}
				prev = b.Offset
				if b.Offset > in.last() {
					return viol("stream-phantom", fmt.Sprintf("%s: stream from %d returned offset %d, but the log ends at %d", name, o, b.Offset, in.last()))
				}
				if in.refused[b.Offset] != nil {
					return viol("refused-request-notified", fmt.Sprintf("%s: stream from %d delivers batch %s for offset %d, whose request was refused as a whole (%v)", name, o, oxh.RenderNotificationBatch(b), b.Offset, in.refused[b.Offset]))
				}
				got[b.Offset] = true
				if r := oxh.RenderNotificationBatch(b); r != in.batches[b.Offset] {
					key := "batch-content-changed"
					if which != 0 {
						key = "replica-batch-differs" // the primary's copy was validated against the model
					}
					return viol(key, fmt.Sprintf("%s: stream from %d: batch %d is %s, but when the request was applied it was %s", name, o, b.Offset, r, in.batches[b.Offset]))
				}
				nBatchesChecked.Add(1)
			}
			for i := o; i <= last; i++ {
				required := in.refused[i] == nil
				if which == 0 && in.expired(i) {
					// older than the retention time: the primary may have trimmed it
					required = false
				}
				if required && !got[i] {
					key := "stream-loss"
					if which == 0 && in.everTrim {
						key = "stream-loss-after-trim"
					}
					return viol(key, fmt.Sprintf("%s: stream from %d lacks the batch of request %d (within retention; delivered offsets %v, last applied %d)", name, o, i, offsets(bs), last))
				}
			}
			if which == 0 && in.everTrim && !in.expired(o) {
				nResumeAfterTrim.Add(1)
			}
		}
	}
	return nil
}

func offsets(bs []*proto.NotificationBatch) []int64 {
	o := []int64{}
	for _, b := range bs {
		o = append(o, b.Offset)
	}
	return o
}

// ---------------------------------------------------------------------------------------------
// model application + the content oracle of one batch

type effect struct {
	before, after map[string]rec
	delOK         map[string]bool // keys a Delete of this request found and removed
	ranges        []rng
	putStatus     []proto.Status
	putVer        []int64
	putKey        []string // generated key of a sequential put, "" otherwise
	internalOnly  bool
	processed     int // refused request: operations processed before the refusing one
}

func copyRecs(m map[string]rec) map[string]rec {
	o := make(map[string]rec, len(m))
	for k, v := range m {
		o[k] = v
	}
	return o
}

// modelSeqKey: the key a sequential put generates, or the sentinel it is refused with
// (server/kv/db_sequences.go). recs is the state including the earlier operations of the request.
func modelSeqKey(recs map[string]rec, p *proto.PutRequest) (string, error) {
	if p.PartitionKey == nil {
		return "", kv.ErrMissingPartitionKey
	}
	// the greatest stored key below "<prefix>-<max>." ; keys with a '/' sort after all keys without one
	maxKey := fmt.Sprintf("%s-%020d.", p.Key, seqMaxUint)
	lastKey := ""
	for k := range recs {
		if !strings.Contains(k, "/") && k < maxKey && k > lastKey {
			lastKey = k
		}
	}
	var parts []string
	if lastKey != "" && strings.HasPrefix(lastKey, p.Key) {
		parts = strings.Split(strings.TrimPrefix(lastKey, p.Key), "-")[1:]
	}
	if len(parts) > len(p.SequenceKeyDelta) {
		return "", kv.ErrMissingSequenceDeltas
	}
	key := p.Key
	for i, delta := range p.SequenceKeyDelta {
		if i == 0 && delta == 0 {
			return "", kv.ErrSequenceDeltaIsZero
		}
		lastValue := uint64(0)
		if i < len(parts) {
			v, err := strconv.ParseUint(parts[i], 10, 64)
			if err != nil {
				return "", kv.ErrInvalidSequenceKey
			}
			lastValue = v
		}
		if lastValue > seqMaxUint-delta {
			return "", kv.ErrSequenceOverflow
		}
		key = fmt.Sprintf("%s-%020d", key, lastValue+delta)
	}
	return key, nil
}

// applyModel applies the request to the model. A refused request (non-nil error: the sentinel
// ProcessWrite must answer with) leaves the model untouched, whatever was processed before.
func (in *inst) applyModel(w *proto.WriteRequest, ts uint64) (effect, error) {
	e := effect{before: copyRecs(in.recs), delOK: map[string]bool{}, internalOnly: true}
	recs := copyRecs(in.recs)
	verNext, sessLive, sessId := in.verNext, in.sessLive, in.sessId
	for _, p := range w.Puts {
		if strings.HasPrefix(p.Key, internalPfx) { // session record
			verNext++
			sessLive = true
			fmt.Sscanf(p.Key, "__oxia/session/%016x", &sessId)
			e.putStatus = append(e.putStatus, proto.Status_OK)
			e.putVer = append(e.putVer, verNext-1)
			e.putKey = append(e.putKey, "")
			e.processed++
			continue
		}
		e.internalOnly = false
		key, genKey := p.Key, ""
		if len(p.SequenceKeyDelta) > 0 {
			k, err := modelSeqKey(recs, p)
			if err != nil {
				return e, err
			}
			key, genKey = k, k
		}
		e.processed++
		e.putKey = append(e.putKey, genKey)
		owner := int64(-1)
		if p.SessionId != nil {
			if !sessLive || *p.SessionId != sessId {
				e.putStatus = append(e.putStatus, proto.Status_SESSION_DOES_NOT_EXIST)
				e.putVer = append(e.putVer, -1)
				continue
			}
			owner = *p.SessionId
		}
		r, ok := recs[key]
		if ok {
			r.mod++
		} else {
			r = rec{cts: ts}
		}
		r.ver, r.owner, r.mts = verNext, owner, ts
		verNext++
		recs[key] = r
		e.putStatus = append(e.putStatus, proto.Status_OK)
		e.putVer = append(e.putVer, r.ver)
	}
	for _, d := range w.Deletes {
		if strings.HasPrefix(d.Key, internalPfx) {
			if d.Key == server.SessionKey(server.SessionId(sessId)) {
				sessLive = false
			}
			continue
		}
		e.internalOnly = false
		r, ok := recs[d.Key]
		if !ok || (d.ExpectedVersionId != nil && *d.ExpectedVersionId != r.ver) {
			continue
		}
		delete(recs, d.Key)
		e.delOK[d.Key] = true
	}
	for _, x := range w.DeleteRanges {
		r := rng{x.StartInclusive, x.EndExclusive}
		if strings.HasPrefix(r.start, internalPfx) {
			continue
		}
		e.internalOnly = false
		e.ranges = append(e.ranges, r)
		for k := range recs {
			if inRange(r, k) {
				delete(recs, k)
			}
		}
	}
	in.recs, in.verNext, in.sessLive, in.sessId = recs, verNext, sessLive, sessId
	e.after = copyRecs(in.recs)
	return e, nil
}

// checkBatch: the batch describes exactly what the request did to user keys.
// The second result names the key of an entry the request does not justify (part 3).
func checkBatch(b *proto.NotificationBatch, e effect, off int64, ts uint64) (*ev.Violation, string) {
	if b.Offset != off {
		return viol("batch-offset", fmt.Sprintf("the batch of the request applied at offset %d carries offset %d", off, b.Offset)), ""
	}
	if b.Timestamp != ts {
		return viol("batch-timestamp", fmt.Sprintf("batch %d carries timestamp %d, the request was applied with %d", off, b.Timestamp, ts)), ""
	}
	if b.Shard != shard {
		return viol("batch-shard", fmt.Sprintf("batch %d carries shard %d", off, b.Shard)), ""
	}
	desc := oxh.RenderNotificationBatch(b)
	for k, n := range b.Notifications {
		if strings.HasPrefix(k, internalPfx) {
			return viol("internal-key-notified", fmt.Sprintf("batch %d mentions internal key %q: %s", off, k, desc)), ""
		}
		if n.KeyRangeLast != nil && strings.HasPrefix(*n.KeyRangeLast, internalPfx) {
			return viol("internal-key-notified", fmt.Sprintf("batch %d mentions internal range end %q: %s", off, *n.KeyRangeLast, desc)), ""
		}
	}
	// (1) every key the request left behind with a new version is reported with type + version
	for k, a := range e.after {
		bf, existed := e.before[k]
		if existed && bf.ver == a.ver {
			continue
		}
		n := b.Notifications[k]
		want := proto.NotificationType_KEY_CREATED
		if existed {
			want = proto.NotificationType_KEY_MODIFIED
		}
		if n == nil {
			return viol("missing-notification:put", fmt.Sprintf("batch %d: key %q was written (version %d) but is not reported: %s", off, k, a.ver, desc)), ""
		}
		if n.Type != want {
			return viol("wrong-notification-type", fmt.Sprintf("batch %d: key %q existed-before=%v, reported as %v, expected %v: %s", off, k, existed, n.Type, want, desc)), ""
		}
		if n.VersionId == nil || *n.VersionId != a.ver {
			return viol("wrong-notification-version", fmt.Sprintf("batch %d: key %q now has version %d, notification says %s: %s", off, k, a.ver, fmtOpt(n.VersionId), desc)), ""
		}
	}
	// (2) every key the request removed is reported as deleted or lies in a reported range
	for k := range e.before {
		if _, still := e.after[k]; still {
			continue
		}
		if n := b.Notifications[k]; n != nil && n.Type == proto.NotificationType_KEY_DELETED {
			continue
		}
		covered := false
		for s, n := range b.Notifications {
			if n.Type == proto.NotificationType_KEY_RANGE_DELETED && n.KeyRangeLast != nil && inRange(rng{s, *n.KeyRangeLast}, k) {
				covered = true
			}
		}
		if !covered {
			key := "missing-notification:delete"
			if len(e.ranges) > 0 {
				key = "missing-notification:range-delete"
				for i := range e.ranges {
					for j := i + 1; j < len(e.ranges); j++ {
						if e.ranges[i].start == e.ranges[j].start && inRange(e.ranges[i], k) {
							key = keySameStart
						}
					}
				}
			}
			return viol(key, fmt.Sprintf("batch %d: key %q was removed by the request but the batch neither reports it deleted nor a range covering it: %s", off, k, desc)), ""
		}
	}
	// (3) nothing else
	for k, n := range b.Notifications {
		switch n.Type {
		case proto.NotificationType_KEY_CREATED, proto.NotificationType_KEY_MODIFIED:
			a, ok := e.after[k]
			if bf, existed := e.before[k]; !ok || (existed && bf.ver == a.ver) {
				return viol("spurious-notification:put", fmt.Sprintf("batch %d reports %q as %v but the request did not leave a new version of it: %s", off, k, n.Type, desc)), k
			}
		case proto.NotificationType_KEY_DELETED:
			if !e.delOK[k] {
				return viol("spurious-notification:delete", fmt.Sprintf("batch %d reports %q deleted but no delete of the request removed it: %s", off, k, desc)), k
			}
			if _, ok := e.after[k]; ok {
				return viol("spurious-notification:delete", fmt.Sprintf("batch %d reports %q deleted but it exists after the request: %s", off, k, desc)), k
			}
		case proto.NotificationType_KEY_RANGE_DELETED:
			ok := false
			for _, r := range e.ranges {
				if n.KeyRangeLast != nil && r.start == k && r.end == *n.KeyRangeLast {
					ok = true
				}
			}
			if !ok {
				return viol("spurious-notification:range-delete", fmt.Sprintf("batch %d reports range [%q,%s) which the request did not delete: %s", off, k, fmtStr(n.KeyRangeLast), desc)), k
			}
		default:
			return viol("unknown-notification-type", desc), k
		}
	}
	for _, n := range b.Notifications {
		nTypes[int(n.Type)%4].Add(1)
	}
	return nil, ""
}

func fmtOpt(p *int64) string {
	if p == nil {
		return "nil"
	}
	return fmt.Sprint(*p)
}
func fmtStr(p *string) string {
	if p == nil {
		return "nil"
	}
	return *p
}

// records compares the stored user records with the model (guards the model itself).
func (in *inst) records(d kv.DB, name string) *ev.Violation {
	it, err := kv.VerifKV(d).RangeScan("", "")
	if err != nil {
		return viol("scan-error", err.Error())
	}
	defer it.Close()
	seen := 0
	for ; it.Valid(); it.Next() {
		k := it.Key()
		if strings.HasPrefix(k, internalPfx) {
			continue
		}
		v, err := it.Value()
		if err != nil {
			return viol("scan-error", err.Error())
		}
		se := &proto.StorageEntry{}
		if err := se.UnmarshalVT(v); err != nil {
			return viol("scan-error", err.Error())
		}
		m, ok := in.recs[k]
		owner := int64(-1)
		if se.SessionId != nil {
			owner = *se.SessionId
		}
		if !ok || m.ver != se.VersionId || m.mod != se.ModificationsCount || m.owner != owner || m.cts != se.CreationTimestamp || m.mts != se.ModificationTimestamp {
			return viol("model-divergence:records", fmt.Sprintf("%s: stored %q = %s, model %+v (present=%v)", name, k, oxh.RenderStorageEntry(se), m, ok))
		}
		seen++
	}
	if seen != len(in.recs) {
		return viol("model-divergence:records", fmt.Sprintf("%s: %d user records stored, model has %d: %v", name, seen, len(in.recs), in.recs))
	}
	return nil
}

// keySameStart: two range deletes with the same start key in one request share one slot of
// the batch. The search goes on through such states (recorded once, with the shortest history).
const keySameStart = "missing-notification:range-deletes-with-same-start"

type softRec struct {
	v     ev.Violation
	hist  []int
	count int64
	seen  map[string]struct{} // distinct histories ending in the violating step
}

var (
	softMu sync.Mutex
	soft   = map[string]*softRec{}
)

func histLess(a, b []int) bool {
	if len(a) != len(b) {
		return len(a) < len(b)
	}
	for i := range a {
		if a[i] != b[i] {
			return a[i] < b[i]
		}
	}
	return false
}

func (in *inst) recordSoft(v *ev.Violation) {
	h := append([]int{}, in.hist...)
	softMu.Lock()
	defer softMu.Unlock()
	r := soft[v.Key]
	if r == nil {
		r = &softRec{seen: map[string]struct{}{}}
		soft[v.Key] = r
	}
	hk := fmt.Sprint(h)
	if _, dup := r.seen[hk]; dup {
		return
	}
	r.seen[hk] = struct{}{}
	r.count++
	if r.hist == nil || histLess(h, r.hist) {
		r.hist = h
		names := make([]string, len(h))
		for i, o := range h {
			names[i] = in.cfg.ops[o].name
		}
		r.v = ev.Violation{Key: v.Key, Harness: "notifications-seq", Message: v.Message,
			Replay: map[string]any{"config": in.cfg.name, "ops": names, "indices": h}}
	}
}

func (in *inst) Step(op int) (bool, *ev.Violation) {
	if in.pre != nil {
		// the start state itself already disagrees with the model: report it at the first step
		v := in.pre
		in.pre = nil
		return true, v
	}
	en, v := in.step(op)
	return en, v
}

func refusalKind(err error) string {
	for _, k := range []error{kv.ErrMissingPartitionKey, kv.ErrMissingSequenceDeltas, kv.ErrSequenceDeltaIsZero, kv.ErrInvalidSequenceKey, kv.ErrSequenceOverflow} {
		if errors.Is(err, k) {
			return k.Error()
		}
	}
	return "?"
}

func refusalSlug(err error) string {
	switch {
	case errors.Is(err, kv.ErrMissingPartitionKey):
		return "missing_partition_key"
	case errors.Is(err, kv.ErrMissingSequenceDeltas):
		return "missing_sequence_deltas"
	case errors.Is(err, kv.ErrSequenceDeltaIsZero):
		return "zero_first_delta"
	case errors.Is(err, kv.ErrInvalidSequenceKey):
		return "invalid_existing_sequence_key"
	case errors.Is(err, kv.ErrSequenceOverflow):
		return "sequence_overflow"
	}
	return "other"
}

// outcome compares what ProcessWrite answered with what the model expects (want = nil: applied,
// else the sentinel of the refusal).
func outcome(st *store, what string, off int64, err, want error) *ev.Violation {
	switch {
	case err == nil && want == nil:
		return nil
	case err == nil:
		return viol("model-divergence:refusal-expected", fmt.Sprintf("%s: %s at %d was applied, the model expects it to be refused with %q", st.name, what, off, want))
	case want == nil && kv.IsInvalidRequestError(err):
		return viol("model-divergence:unexpected-refusal", fmt.Sprintf("%s: %s at %d was refused (%v), the model expects it to be applied", st.name, what, off, err))
	case want == nil || !kv.IsInvalidRequestError(err):
		return viol("apply-error", fmt.Sprintf("%s: ProcessWrite(%s) at %d: %v", st.name, what, off, err))
	case !errors.Is(err, want):
		return viol("model-divergence:refusal-kind", fmt.Sprintf("%s: %s at %d was refused with %v, the model expects %q", st.name, what, off, err, want))
	}
	return nil
}

// restartCold: the third replica is closed and reopened before every request; like a controller
// that starts (leaderController.applyAllEntriesIntoDB, followerController.processCommittedEntries)
// it then applies again the entries of the log above the commit offset of its database, which can
// only be refused requests, and skips them.
func (in *inst) restartCold() *ev.Violation {
	if err := in.cold.reopen(); err != nil {
		return viol("reopen-error", err.Error())
	}
	nReopens.Add(1)
	co, err := in.cold.db.ReadCommitOffset()
	if err != nil {
		return viol("reopen-error", err.Error())
	}
	if co != in.lastOK() {
		return viol("model-divergence:commit-offset", fmt.Sprintf("reopened replica: commit offset %d, the last applied request is %d", co, in.lastOK()))
	}
	for j := co + 1; j <= in.last(); j++ {
		_, err := in.cold.db.ProcessWrite(in.log[j].CloneVT(), j, uint64(in.ts[j]), server.WrapperUpdateOperationCallback)
		if err == nil {
			return viol("refused-request-applied-on-replay", fmt.Sprintf("reopened replica: the request at offset %d (%s) was refused with %q by every replica when it was committed; applied again after a reopen it succeeds", j, in.batches[j], in.refused[j]))
		}
		if v := outcome(in.cold, "replay of "+in.batches[j], j, err, in.refused[j]); v != nil {
			return v
		}
		nReplayedRefused.Add(1)
	}
	return nil
}

// guards: commit offset, version id counter and user records of every database equal the model.
func (in *inst) guards() *ev.Violation {
	for _, st := range in.stores {
		co, err := st.db.ReadCommitOffset()
		if err != nil {
			return viol("read-error", err.Error())
		}
		if co != in.lastOK() {
			return viol("model-divergence:commit-offset", fmt.Sprintf("%s: commit offset %d, the last applied request is %d", st.name, co, in.lastOK()))
		}
		if t := kv.VerifVersionIdTracker(st.db); t != in.verNext-1 {
			return viol("model-divergence:version-id", fmt.Sprintf("%s: last version id %d, the model has %d", st.name, t, in.verNext-1))
		}
		if v := in.records(st.db, st.name); v != nil {
			return v
		}
	}
	return nil
}

func (in *inst) step(op int) (bool, *ev.Violation) {
	o := in.cfg.ops[op]
	in.hist = append(in.hist, op)
	if o.trim != 0 {
		return in.trimStep(o.trim)
	}
	off := in.last() + 1
	w := o.build(in, off)
	if w == nil {
		return false, nil
	}
	in.now += stepMillis
	in.clock.Set(in.now)
	ts := uint64(in.clock.Now().UnixMilli())
	if in.cold != nil && off > 0 {
		if v := in.restartCold(); v != nil {
			return true, v
		}
	}
	e, want := in.applyModel(w, ts)
	for _, st := range in.stores {
		// the request is modified while it is applied (generated keys): every replica gets its own copy
		resp, err := st.db.ProcessWrite(w.CloneVT(), off, ts, server.WrapperUpdateOperationCallback)
		if v := outcome(st, o.name, off, err, want); v != nil {
			return true, v
		}
		if want != nil {
			continue
		}
		for i, p := range resp.Puts {
			if p.Status != e.putStatus[i] || (p.Status == proto.Status_OK && (p.Version.VersionId != e.putVer[i] || p.GetKey() != e.putKey[i])) {
				return true, viol("model-divergence:put-response", fmt.Sprintf("%s: %s at %d: put %d answered %v, model expects %v version %d key %q", st.name, o.name, off, i, p, e.putStatus[i], e.putVer[i], e.putKey[i]))
			}
		}
	}
	in.log = append(in.log, w)
	in.refused = append(in.refused, want)
	in.ts = append(in.ts, int64(ts))
	if want != nil {
		// refused as a whole: no batch for this offset, now or later; nothing of it is visible
		in.present = append(in.present, false)
		in.batches = append(in.batches, fmt.Sprintf("REFUSED %s (%s)", o.name, refusalKind(want)))
		nRefused.Add(1)
		if e.processed > 0 {
			nRefusedAfterOps.Add(1)
		}
		for _, p := range w.Puts[:e.processed] {
			in.leftover[p.Key] = true
		}
		c, _ := nRefusedKind.LoadOrStore(refusalSlug(want), &atomic.Int64{})
		c.(*atomic.Int64).Add(1)
		return true, in.oracles(true)
	}
	in.present = append(in.present, true)
	in.batches = append(in.batches, "")
	if in.anyRefused() {
		nWritesAfterRefused.Add(1)
	}
	// the batch of this request, as a subscriber positioned right before it receives it
	bs, err := in.readAll(in.db, off)
	if err != nil {
		return true, viol("read-error", err.Error())
	}
	if len(bs) != 1 {
		key := "batch-count"
		if len(bs) == 0 {
			key = "batch-missing"
		}
		return true, viol(key, fmt.Sprintf("after applying %s at offset %d a subscriber starting there receives %d batches (offsets %v), expected exactly one", o.name, off, len(bs), offsets(bs)))
	}
	if v, culprit := checkBatch(bs[0], e, off, ts); v != nil {
		if v.Key != keySameStart {
			if in.leftover[culprit] && v.Key == "spurious-notification:put" {
				// the entry is what a request that was refused as a whole had done before it was refused
				// (only puts can precede the refusing operation)
				v.Key += ":left-by-refused-request"
			}
			if in.anyRefused() {
				v.Message += fmt.Sprintf(" [log before it: %s]", strings.Join(in.batches[:off], " | "))
			}
			return true, v
		}
		in.recordSoft(v)
	}
	in.batches[off] = oxh.RenderNotificationBatch(bs[0])
	if len(bs[0].Notifications) == 0 {
		nEmptyBatches.Add(1)
	} else {
		nNonEmptyBatches.Add(1)
	}
	if e.internalOnly {
		nInternalOnlyRequests.Add(1)
	}
	return true, in.oracles(true)
}

func (in *inst) anyRefused() bool {
	for _, r := range in.refused {
		if r != nil {
			return true
		}
	}
	return false
}

func (in *inst) trimStep(mode int) (bool, *ev.Violation) {
	var stored []int64
	for i, p := range in.present {
		if p {
			stored = append(stored, int64(i))
		}
	}
	if len(stored) < 2 {
		return false, nil
	}
	switch mode {
	case 2:
		if t := in.ts[stored[0]] + retentionMs + stepMillis/2; t > in.now {
			in.now = t
		}
	case 3:
		if t := in.ts[stored[len(stored)-2]] + retentionMs + stepMillis/2; t > in.now {
			in.now = t
		}
	}
	if in.expired(stored[len(stored)-1]) {
		return false, nil // not a strict prefix (cannot happen with the clock rules above)
	}
	in.clock.Set(in.now)
	if err := kv.VerifTrimNotifications(in.db, time.Duration(retentionMs)*time.Millisecond, in.clock); err != nil {
		// The trimmer's binary search reads the batch at the middle offset of [first stored, last stored]
		// and gives up with "key not found" when that offset belongs to a refused request (no batch).
		// The round then removes nothing, which the property allows (expired batches "may" go): it is
		// counted, the oracle below still checks that nothing was removed or lost. See NOTES.md.
		gap := false
		for i := stored[0]; i <= stored[len(stored)-1]; i++ {
			gap = gap || in.refused[i] != nil
		}
		if !gap || !errors.Is(err, kv.ErrKeyNotFound) {
			return true, viol("trim-error", err.Error())
		}
		nTrimGap.Add(1)
	} else {
		in.everTrim = true
	}
	nTrims.Add(1)
	bs, err := in.readAll(in.db, 0)
	if err != nil {
		return true, viol("read-error", err.Error())
	}
	got := map[int64]bool{}
	for _, b := range bs {
		got[b.Offset] = true
	}
	removed := 0
	for i := range in.present {
		if in.present[i] && !got[int64(i)] {
			if !in.expired(int64(i)) {
				return true, viol("trim-removed-unexpired", fmt.Sprintf("trimming at now=%d (cutoff %d) removed batch %d with timestamp %d; stored before %v, after %v", in.now, in.now-retentionMs, i, in.ts[i], stored, offsets(bs)))
			}
			in.present[i] = false
			removed++
		} else if !in.present[i] && got[int64(i)] {
			return true, viol("trim-resurrected", fmt.Sprintf("batch %d is stored again after a trimming round", i))
		}
	}
	if removed > 0 {
		nTrimsRemoving.Add(1)
		nTrimmedBatches.Add(int64(removed))
	}
	return true, in.oracles(false)
}

func (in *inst) Key() string {
	var b strings.Builder
	fmt.Fprintf(&b, "now=%d sess=%d/%v ver=%d trim=%v|", in.now-t0Millis, in.sessId, in.sessLive, in.verNext, in.everTrim)
	ks := make([]string, 0, len(in.recs))
	for k := range in.recs {
		ks = append(ks, k)
	}
	sort.Strings(ks)
	for _, k := range ks {
		fmt.Fprintf(&b, "%s=%+v,", k, in.recs[k])
	}
	b.WriteString("|")
	for i, s := range in.batches {
		fmt.Fprintf(&b, "%s%v;", s, in.present[i])
	}
	b.WriteString("|")
	b.WriteString(strings.Join(oxh.DumpDB(in.db, oxh.DumpOpts{}), "\n"))
	return b.String()
}

func spec(cfg *config, nOps, depth int, deadline time.Time) seqx.Spec {
	return seqx.Spec{Name: "notifications-seq", Config: cfg.name, NOps: nOps, OpName: func(i int) string { return cfg.ops[i].name },
		New: func(int) seqx.Instance { return newInst(cfg) }, MaxDepth: depth, Deadline: deadline}
}

func main() {
	replay := flag.String("replay", "", "replay file")
	flag.Parse()
	oxh.Quiet()
	kv.VerifMemTableSize = 1 << 20
	if *replay != "" {
		os.Exit(doReplay(*replay))
	}
	run := ev.NewRun("C17", "model_checking")
	// per alphabet: depth and the share of the wall-clock budget (the search that is cut says exhaustive:false)
	depth := map[*config]int{cfgRefusal: 4, cfgRefPre: 2, cfgSeq: 4}
	budget := map[*config]time.Duration{cfgRefusal: 30 * time.Second, cfgRefPre: 10 * time.Second, cfgSeq: 45 * time.Second}
	if run.Tier == "thorough" {
		depth = map[*config]int{cfgRefusal: 5, cfgRefHard: 4, cfgRefPre: 3, cfgSeq: 6}
		budget = map[*config]time.Duration{cfgRefusal: 5 * time.Minute, cfgRefHard: 2 * time.Minute, cfgRefPre: 2 * time.Minute, cfgSeq: 10 * time.Minute}
	}
	if d := os.Getenv("VERIF_DEPTH"); d != "" {
		var n int
		fmt.Sscanf(d, "%d", &n)
		for c := range depth {
			depth[c] = n
		}
	}
	only := os.Getenv("VERIF_C17_ONLY") // debugging: run one alphabet
	startAll, total := time.Now(), time.Duration(0)
	for _, b := range budget {
		total += b
	}
	var states int64
	for _, cfg := range configs {
		if depth[cfg] == 0 || (only != "" && only != cfg.name) {
			continue
		}
		cfg.memoUpTo = depth[cfg]
		nOps := len(cfg.ops)
		if run.Tier != "thorough" && cfg.nQuick > 0 && os.Getenv("VERIF_C17_ALLOPS") == "" {
			nOps = cfg.nQuick
		}
		deadline := time.Now().Add(budget[cfg])
		if cfg == configs[len(configs)-1] && only == "" {
			deadline = startAll.Add(total) // the last search also gets what the earlier ones did not use
		}
		sp := spec(cfg, nOps, depth[cfg], deadline)
		res := seqx.Explore(sp)
		seqx.Report(run, sp, res)
		states += res.States
		run.Add("states_"+cfg.name, res.States)
		run.Add("transitions_"+cfg.name, res.Transitions)
		var names []string
		for _, o := range cfg.ops[:nOps] {
			names = append(names, o.name)
		}
		run.Coverage["ops_"+cfg.name] = names
		run.Coverage["max_depth_"+cfg.name] = depth[cfg]
	}
	run.Add("distinct_states", states)
	run.DistinctN(states)
	var sk []string
	for k := range soft {
		sk = append(sk, k)
	}
	sort.Strings(sk)
	for _, k := range sk {
		r := soft[k]
		r.v.Message = fmt.Sprintf("%s [%d histories]", r.v.Message, r.count)
		run.Violate(r.v)
		run.Add("histories_with_"+k, r.count)
	}
	run.Add("subscriber_streams_read", nReads.Load())
	run.Add("replica_streams_read", nReplicaReads.Load())
	run.Add("reopened_replica_streams_read", nColdReads.Load())
	run.Add("batches_compared", nBatchesChecked.Load())
	run.Add("trim_rounds", nTrims.Load())
	run.Add("trim_rounds_removing_batches", nTrimsRemoving.Load())
	run.Add("batches_trimmed", nTrimmedBatches.Load())
	run.Add("resumptions_within_retention_after_trim", nResumeAfterTrim.Load())
	run.Add("empty_batches", nEmptyBatches.Load())
	run.Add("nonempty_batches", nNonEmptyBatches.Load())
	run.Add("requests_touching_only_internal_keys", nInternalOnlyRequests.Load())
	run.Add("notifications_key_created", nTypes[proto.NotificationType_KEY_CREATED].Load())
	run.Add("notifications_key_modified", nTypes[proto.NotificationType_KEY_MODIFIED].Load())
	run.Add("notifications_key_deleted", nTypes[proto.NotificationType_KEY_DELETED].Load())
	run.Add("notifications_key_range_deleted", nTypes[proto.NotificationType_KEY_RANGE_DELETED].Load())
	run.Add("refused_requests", nRefused.Load())
	run.Add("refused_requests_after_processed_operations", nRefusedAfterOps.Load())
	nRefusedKind.Range(func(k, v any) bool {
		run.Add("refused_requests_"+k.(string), v.(*atomic.Int64).Load())
		return true
	})
	run.Add("applied_requests_after_a_refused_one", nWritesAfterRefused.Load())
	run.Add("resumptions_right_before_a_refused_request", nResumeInGap.Load())
	run.Add("replica_reopens", nReopens.Load())
	run.Add("refused_entries_applied_again_after_reopen", nReplayedRefused.Load())
	run.Add("trim_rounds_failing_on_offset_gap", nTrimGap.Load())
	run.Sample(map[string]any{"history": []string{"createSession", "ephemeralPut(a)", "put(b)", "sessionCleanup"},
		"expected_batches": []string{"{}", "{a: KEY_CREATED v1}", "{b: KEY_CREATED v2}", "{a: KEY_DELETED}"}})
	run.Sample(map[string]any{"history": []string{"put(a)", "put(a)", "deleteRange[a,c)", "trim(oldest stored batch expires)"},
		"expected": "batch 0 may disappear, a subscriber resuming at 1 still gets 1 and 2: {a: KEY_MODIFIED v1}, {a: KEY_RANGE_DELETED last=c}"})
	run.Sample(map[string]any{"history": []string{"delete(b)"}, "expected_batches": []string{"{} (empty batch at offset 0)"}})
	run.Sample(map[string]any{"config": "refusals", "history": []string{"seqPut(s,[1,1])", "put(a)+seqPut(s,[1])", "delete(a)"},
		"expected_batches": []string{"{s-…01-…01: KEY_CREATED v0}", "none: refused as a whole (missing sequence deltas) after put(a) was processed", "{} (a was never written)"},
		"on":               "live DB and a replica reopened before every request that applies the refused entry again"})
	run.Assume = []string{
		"stage 1 is sequential: every request handed to ProcessWrite is in the committed log (uncommitted requests and subscriber/writer races are stage 2)",
		"a request that ProcessWrite refuses as a whole with an error for which kv.IsInvalidRequestError holds (the leader answers the client with the error, every replica skips the entry) is not a committed change: its offset has no batch and nothing of it may show up in a later batch",
		"notifications are enabled throughout",
		"request timestamps are taken from a monotone mocked clock (1 s per request, jumps at trimming rounds)",
		"a batch is 'within the retention time' while timestamp > now - retention; older batches may or may not still be delivered",
		"when one request writes and then removes the same key, or removes a key more than once, the batch must leave a consumer with the right final picture (removed keys reported deleted or covered by a reported range; surviving keys reported with their final version)",
	}
	os.Exit(run.Finish("two BFS searches over all histories up to max_depth. (1) alphabet 'db+replica': puts/deletes/range deletes on {a,b,a/b}, composite requests, session create / ephemeral put / session cleanup request, empty-effect requests, 3 kinds of trimming round. (2) alphabet 'refusals': multi-operation requests on {a,b} and the sequence prefix s, among them requests that are refused as a whole at apply time after some operations were processed (missing sequence deltas, invalid existing sequence key, sequence overflow, zero delta), range delete of the sequence, 2 kinds of trimming round; a third replica is reopened before every request and applies the trailing refused entries again. After every step: content oracle on the new batch against a map model (no batch for a refused request), then a subscriber from every start offset on every replica (order, completeness within retention, stable and identical content, no internal keys, nothing for refused requests)"))
}

func doReplay(path string) int {
	var doc struct {
		First struct {
			Replay struct {
				Config  string `json:"config"`
				Indices []int  `json:"indices"`
			} `json:"replay"`
		} `json:"first"`
	}
	if err := ev.ReadJSON(path, &doc); err != nil {
		fmt.Println("cannot read replay:", err)
		return 2
	}
	cfg := cfgSeq
	for _, c := range configs {
		if c.name == doc.First.Replay.Config {
			cfg = c
		}
	}
	v := seqx.Replay(spec(cfg, len(cfg.ops), 0, time.Time{}), doc.First.Replay.Indices)
	if v == nil { // violations the search walks through (see recordSoft)
		for _, r := range soft {
			v = &r.v
		}
	}
	if v != nil {
		fmt.Printf("VIOLATION property=C17 replay=%s\n  %s: %s\n", path, v.Key, v.Message)
		return 1
	}
	fmt.Println("replay passed")
	return 0
}
