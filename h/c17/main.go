// C17 (stage 1): notifications are a complete, ordered, resumable record of committed changes.
// E1 explicit-state search over write histories on a real kv.DB (notifications enabled) with a
// mocked clock. After every step a subscriber is simulated from every start offset on the DB
// itself and on a replica that replayed the same log; trimming rounds are interleaved as ops.
package main

import (
	"context"
	"flag"
	"fmt"
	"os"
	"sort"
	"strings"
	"sync"
	"sync/atomic"
	"time"

	time2 "github.com/oxia-db/oxia/common/time"
	"github.com/oxia-db/oxia/proto"
	"github.com/oxia-db/oxia/server"
	"github.com/oxia-db/oxia/server/kv"

	"verif/lib/ev"
	"verif/lib/oxh"
	"verif/lib/seqx"
)

const (
	shard       = int64(7)
	t0Millis    = int64(1_700_000_000_000)
	stepMillis  = int64(1000)
	retentionMs = int64(100_000)
	internalPfx = "__oxia/"
	ghostSess   = int64(4242) // a session id that is never created
)

// ---------------------------------------------------------------------------------------------
// key universe and ranges. Oxia orders keys hierarchically (fewer '/' segments first), hence
// a < b < c < a/ < a/b < a// ; the membership table below is written by hand from that rule.

var userKeys = []string{"a", "b", "a/b"}

type rng struct{ start, end string }

var (
	rAB   = rng{"a", "b"}    // {a}
	rAC   = rng{"a", "c"}    // {a, b}
	rASub = rng{"a/", "a//"} // {a/b}
)

func inRange(r rng, key string) bool {
	switch r {
	case rAB:
		return key == "a"
	case rAC:
		return key == "a" || key == "b"
	case rASub:
		return key == "a/b"
	}
	return false // internal ranges never cover user keys
}

// ---------------------------------------------------------------------------------------------
// model

type rec struct {
	ver, mod int64
	owner    int64 // -1: not ephemeral
	cts, mts uint64
}

type inst struct {
	db, replica kv.DB
	clock       *time2.MockedClock
	now         int64

	// model
	recs     map[string]rec
	verNext  int64
	sessLive bool
	sessId   int64 // last created session id, -1 if none
	batches  []string // validated rendering of the batch of every applied request
	ts       []int64
	present  []bool // batch still stored on the primary
	everTrim bool
	hist     []int
}

var (
	nReads, nBatchesChecked, nReplicaReads                    atomic.Int64
	nTrims, nTrimsRemoving, nTrimmedBatches, nResumeAfterTrim atomic.Int64
	nEmptyBatches, nNonEmptyBatches, nInternalOnlyRequests    atomic.Int64
	nTypes                                                    [4]atomic.Int64
)

func newDB() kv.DB {
	d, err := kv.NewDB("ns", shard, oxh.NewMemFactory(), time.Hour, &time2.MockedClock{})
	if err != nil {
		panic(err)
	}
	return d
}

func newInst() *inst {
	in := &inst{clock: &time2.MockedClock{}, now: t0Millis, recs: map[string]rec{}, sessId: -1}
	in.clock.Set(in.now)
	var err error
	if in.db, err = kv.NewDB("ns", shard, oxh.NewMemFactory(), time.Hour, in.clock); err != nil {
		panic(err)
	}
	in.replica = newDB()
	return in
}

func (in *inst) Close() {
	_ = in.db.Close()
	_ = in.replica.Close()
}

func viol(key, msg string) *ev.Violation { return &ev.Violation{Key: key, Message: msg} }

// ---------------------------------------------------------------------------------------------
// operations

type opDef struct {
	name string
	// build returns a fresh request (nil = not enabled); called once per DB.
	build func(in *inst, off int64) *proto.WriteRequest
	trim  int // 0: write op; 1: no clock advance; 2: expire oldest stored batch; 3: expire all but the last
}

func put(key string, sess *int64) *proto.PutRequest {
	return &proto.PutRequest{Key: key, Value: []byte("v"), SessionId: sess}
}
func del(key string) *proto.DeleteRequest { return &proto.DeleteRequest{Key: key} }
func dr(r rng) *proto.DeleteRangeRequest {
	return &proto.DeleteRangeRequest{StartInclusive: r.start, EndExclusive: r.end}
}

func (in *inst) sessForPut() int64 {
	if in.sessId < 0 {
		return ghostSess
	}
	return in.sessId // live or already closed
}

func buildOps() []opDef {
	var ops []opDef
	for _, k := range userKeys {
		k := k
		ops = append(ops, opDef{name: "put(" + k + ")", build: func(*inst, int64) *proto.WriteRequest {
			return &proto.WriteRequest{Puts: []*proto.PutRequest{put(k, nil)}}
		}})
	}
	for _, k := range userKeys {
		k := k
		ops = append(ops, opDef{name: "delete(" + k + ")", build: func(*inst, int64) *proto.WriteRequest {
			return &proto.WriteRequest{Deletes: []*proto.DeleteRequest{del(k)}}
		}})
	}
	for _, r := range []rng{rAB, rAC, rASub} {
		r := r
		ops = append(ops, opDef{name: fmt.Sprintf("deleteRange[%s,%s)", r.start, r.end), build: func(*inst, int64) *proto.WriteRequest {
			return &proto.WriteRequest{DeleteRanges: []*proto.DeleteRangeRequest{dr(r)}}
		}})
	}
	ops = append(ops,
		opDef{name: "put(a)+delete(b)", build: func(*inst, int64) *proto.WriteRequest {
			return &proto.WriteRequest{Puts: []*proto.PutRequest{put("a", nil)}, Deletes: []*proto.DeleteRequest{del("b")}}
		}},
		opDef{name: "put(b)+delete(b)", build: func(*inst, int64) *proto.WriteRequest {
			return &proto.WriteRequest{Puts: []*proto.PutRequest{put("b", nil)}, Deletes: []*proto.DeleteRequest{del("b")}}
		}},
		opDef{name: "deleteRange[a,c)+deleteRange[a,b)", build: func(*inst, int64) *proto.WriteRequest {
			return &proto.WriteRequest{DeleteRanges: []*proto.DeleteRangeRequest{dr(rAC), dr(rAB)}}
		}},
		opDef{name: "createSession", build: func(in *inst, off int64) *proto.WriteRequest {
			if in.sessLive {
				return nil
			}
			md, _ := (&proto.SessionMetadata{TimeoutMs: 5000, Identity: "c"}).MarshalVT()
			return &proto.WriteRequest{Puts: []*proto.PutRequest{{Key: server.SessionKey(server.SessionId(off)), Value: md}}}
		}},
		opDef{name: "ephemeralPut(a)", build: func(in *inst, _ int64) *proto.WriteRequest {
			return &proto.WriteRequest{Puts: []*proto.PutRequest{put("a", oxh.I64(in.sessForPut()))}}
		}},
		opDef{name: "ephemeralPut(a/b)", build: func(in *inst, _ int64) *proto.WriteRequest {
			return &proto.WriteRequest{Puts: []*proto.PutRequest{put("a/b", oxh.I64(in.sessForPut()))}}
		}},
		// the request the session manager sends when a session is closed or expires
		opDef{name: "sessionCleanup", build: func(in *inst, _ int64) *proto.WriteRequest {
			if !in.sessLive {
				return nil
			}
			sk := server.SessionKey(server.SessionId(in.sessId))
			w := &proto.WriteRequest{}
			for _, k := range userKeys {
				if r, ok := in.recs[k]; ok && r.owner == in.sessId {
					w.Deletes = append(w.Deletes, &proto.DeleteRequest{Key: k, ExpectedVersionId: oxh.I64(r.ver)})
				}
			}
			w.Deletes = append(w.Deletes, del(sk))
			w.DeleteRanges = []*proto.DeleteRangeRequest{{StartInclusive: sk + "/", EndExclusive: sk + "//"}}
			return w
		}},
		opDef{name: "trim(no clock advance)", trim: 1},
		opDef{name: "trim(oldest stored batch expires)", trim: 2},
		opDef{name: "trim(all but the last batch expire)", trim: 3},
	)
	return ops
}

var ops = buildOps()

// ---------------------------------------------------------------------------------------------

func (in *inst) last() int64 { return int64(len(in.batches)) - 1 }

// readAll simulates a subscriber that starts at offset start (inclusive) and keeps asking for
// the next batches until it has caught up with the last applied request. Never blocks: the
// tracker is only asked for offsets <= last.
func (in *inst) readAll(d kv.DB, start int64) ([]*proto.NotificationBatch, error) {
	var out []*proto.NotificationBatch
	next := start
	for next <= in.last() {
		res, err := d.ReadNextNotifications(context.Background(), next)
		if err != nil {
			return nil, err
		}
		if len(res) == 0 {
			break
		}
		out = append(out, res...)
		n := res[len(res)-1].Offset + 1
		if n <= next { // no progress: the ordering check below reports it
			break
		}
		next = n
	}
	return out, nil
}

func (in *inst) expired(i int64) bool { return in.ts[i] <= in.now-retentionMs }

// subscribers checks the streams returned from every start offset on the primary and on the replica.
func (in *inst) subscribers() *ev.Violation {
	last := in.last()
	for o := int64(0); o <= last; o++ {
		for which, d := range []kv.DB{in.db, in.replica} {
			name := "primary"
			if which == 1 {
				name = "replica"
				nReplicaReads.Add(1)
			}
			nReads.Add(1)
			bs, err := in.readAll(d, o)
			if err != nil {
				return viol("read-error", fmt.Sprintf("%s: ReadNextNotifications(%d): %v", name, o, err))
			}
			prev := o - 1
			got := map[int64]bool{}
			for _, b := range bs {
				if b.Offset <= prev {
					return viol("stream-order", fmt.Sprintf("%s: stream from %d returned offset %d after %d (offsets %v)", name, o, b.Offset, prev, offsets(bs)))
				}
				prev = b.Offset
				if b.Offset > last {
					return viol("stream-phantom", fmt.Sprintf("%s: stream from %d returned offset %d, but only %d requests were applied", name, o, b.Offset, last+1))
				}
				got[b.Offset] = true
				if r := oxh.RenderNotificationBatch(b); r != in.batches[b.Offset] {
					return viol("batch-content-changed", fmt.Sprintf("%s: stream from %d: batch %d is %s, but when the request was applied it was %s", name, o, b.Offset, r, in.batches[b.Offset]))
				}
				nBatchesChecked.Add(1)
			}
			for i := o; i <= last; i++ {
				required := true
				if which == 0 && in.expired(i) {
					// older than the retention time: the primary may have trimmed it
					required = false
				}
				if required && !got[i] {
					key := "stream-loss"
					if which == 0 && in.everTrim {
						key = "stream-loss-after-trim"
					}
					return viol(key, fmt.Sprintf("%s: stream from %d lacks the batch of request %d (within retention; delivered offsets %v, last applied %d)", name, o, i, offsets(bs), last))
				}
			}
			if which == 0 && in.everTrim && !in.expired(o) {
				nResumeAfterTrim.Add(1)
			}
		}
	}
	return nil
}

func offsets(bs []*proto.NotificationBatch) []int64 {
	o := []int64{}
	for _, b := range bs {
		o = append(o, b.Offset)
	}
	return o
}

// ---------------------------------------------------------------------------------------------
// model application + the content oracle of one batch

type effect struct {
	before, after map[string]rec
	delOK         map[string]bool // keys a Delete of this request found and removed
	ranges        []rng
	putStatus     []proto.Status
	putVer        []int64
	internalOnly  bool
}

func copyRecs(m map[string]rec) map[string]rec {
	o := make(map[string]rec, len(m))
	for k, v := range m {
		o[k] = v
	}
	return o
}

func (in *inst) applyModel(w *proto.WriteRequest, ts uint64) effect {
	e := effect{before: copyRecs(in.recs), delOK: map[string]bool{}, internalOnly: true}
	for _, p := range w.Puts {
		if strings.HasPrefix(p.Key, internalPfx) { // session record
			in.verNext++
			in.sessLive = true
			fmt.Sscanf(p.Key, "__oxia/session/%016x", &in.sessId)
			e.putStatus = append(e.putStatus, proto.Status_OK)
			e.putVer = append(e.putVer, in.verNext-1)
			continue
		}
		e.internalOnly = false
		owner := int64(-1)
		if p.SessionId != nil {
			if !in.sessLive || *p.SessionId != in.sessId {
				e.putStatus = append(e.putStatus, proto.Status_SESSION_DOES_NOT_EXIST)
				e.putVer = append(e.putVer, -1)
				continue
			}
			owner = *p.SessionId
		}
		r, ok := in.recs[p.Key]
		if ok {
			r.mod++
		} else {
			r = rec{cts: ts}
		}
		r.ver, r.owner, r.mts = in.verNext, owner, ts
		in.verNext++
		in.recs[p.Key] = r
		e.putStatus = append(e.putStatus, proto.Status_OK)
		e.putVer = append(e.putVer, r.ver)
	}
	for _, d := range w.Deletes {
		if strings.HasPrefix(d.Key, internalPfx) {
			if d.Key == server.SessionKey(server.SessionId(in.sessId)) {
				in.sessLive = false
			}
			continue
		}
		e.internalOnly = false
		r, ok := in.recs[d.Key]
		if !ok || (d.ExpectedVersionId != nil && *d.ExpectedVersionId != r.ver) {
			continue
		}
		delete(in.recs, d.Key)
		e.delOK[d.Key] = true
	}
	for _, x := range w.DeleteRanges {
		r := rng{x.StartInclusive, x.EndExclusive}
		if strings.HasPrefix(r.start, internalPfx) {
			continue
		}
		e.internalOnly = false
		e.ranges = append(e.ranges, r)
		for _, k := range userKeys {
			if inRange(r, k) {
				delete(in.recs, k)
			}
		}
	}
	e.after = copyRecs(in.recs)
	return e
}

// checkBatch: the batch describes exactly what the request did to user keys.
func checkBatch(b *proto.NotificationBatch, e effect, off int64, ts uint64) *ev.Violation {
	if b.Offset != off {
		return viol("batch-offset", fmt.Sprintf("the batch of the request applied at offset %d carries offset %d", off, b.Offset))
	}
	if b.Timestamp != ts {
		return viol("batch-timestamp", fmt.Sprintf("batch %d carries timestamp %d, the request was applied with %d", off, b.Timestamp, ts))
	}
	if b.Shard != shard {
		return viol("batch-shard", fmt.Sprintf("batch %d carries shard %d", off, b.Shard))
	}
	desc := oxh.RenderNotificationBatch(b)
	for k, n := range b.Notifications {
		if strings.HasPrefix(k, internalPfx) {
			return viol("internal-key-notified", fmt.Sprintf("batch %d mentions internal key %q: %s", off, k, desc))
		}
		if n.KeyRangeLast != nil && strings.HasPrefix(*n.KeyRangeLast, internalPfx) {
			return viol("internal-key-notified", fmt.Sprintf("batch %d mentions internal range end %q: %s", off, *n.KeyRangeLast, desc))
		}
	}
	// (1) every key the request left behind with a new version is reported with type + version
	for k, a := range e.after {
		bf, existed := e.before[k]
		if existed && bf.ver == a.ver {
			continue
		}
		n := b.Notifications[k]
		want := proto.NotificationType_KEY_CREATED
		if existed {
			want = proto.NotificationType_KEY_MODIFIED
		}
		if n == nil {
			return viol("missing-notification:put", fmt.Sprintf("batch %d: key %q was written (version %d) but is not reported: %s", off, k, a.ver, desc))
		}
		if n.Type != want {
			return viol("wrong-notification-type", fmt.Sprintf("batch %d: key %q existed-before=%v, reported as %v, expected %v: %s", off, k, existed, n.Type, want, desc))
		}
		if n.VersionId == nil || *n.VersionId != a.ver {
			return viol("wrong-notification-version", fmt.Sprintf("batch %d: key %q now has version %d, notification says %s: %s", off, k, a.ver, fmtOpt(n.VersionId), desc))
		}
	}
	// (2) every key the request removed is reported as deleted or lies in a reported range
	for k := range e.before {
		if _, still := e.after[k]; still {
			continue
		}
		if n := b.Notifications[k]; n != nil && n.Type == proto.NotificationType_KEY_DELETED {
			continue
		}
		covered := false
		for s, n := range b.Notifications {
			if n.Type == proto.NotificationType_KEY_RANGE_DELETED && n.KeyRangeLast != nil && inRange(rng{s, *n.KeyRangeLast}, k) {
				covered = true
			}
		}
		if !covered {
			key := "missing-notification:delete"
			if len(e.ranges) > 0 {
				key = "missing-notification:range-delete"
				for i := range e.ranges {
					for j := i + 1; j < len(e.ranges); j++ {
						if e.ranges[i].start == e.ranges[j].start && inRange(e.ranges[i], k) {
							key = keySameStart
						}
					}
				}
			}
			return viol(key, fmt.Sprintf("batch %d: key %q was removed by the request but the batch neither reports it deleted nor a range covering it: %s", off, k, desc))
		}
	}
	// (3) nothing else
	for k, n := range b.Notifications {
		switch n.Type {
		case proto.NotificationType_KEY_CREATED, proto.NotificationType_KEY_MODIFIED:
			a, ok := e.after[k]
			if bf, existed := e.before[k]; !ok || (existed && bf.ver == a.ver) {
				return viol("spurious-notification:put", fmt.Sprintf("batch %d reports %q as %v but the request did not leave a new version of it: %s", off, k, n.Type, desc))
			}
		case proto.NotificationType_KEY_DELETED:
			if !e.delOK[k] {
				return viol("spurious-notification:delete", fmt.Sprintf("batch %d reports %q deleted but no delete of the request removed it: %s", off, k, desc))
			}
			if _, ok := e.after[k]; ok {
				return viol("spurious-notification:delete", fmt.Sprintf("batch %d reports %q deleted but it exists after the request: %s", off, k, desc))
			}
		case proto.NotificationType_KEY_RANGE_DELETED:
			ok := false
			for _, r := range e.ranges {
				if n.KeyRangeLast != nil && r.start == k && r.end == *n.KeyRangeLast {
					ok = true
				}
			}
			if !ok {
				return viol("spurious-notification:range-delete", fmt.Sprintf("batch %d reports range [%q,%s) which the request did not delete: %s", off, k, fmtStr(n.KeyRangeLast), desc))
			}
		default:
			return viol("unknown-notification-type", desc)
		}
	}
	for _, n := range b.Notifications {
		nTypes[int(n.Type)%4].Add(1)
	}
	return nil
}

func fmtOpt(p *int64) string {
	if p == nil {
		return "nil"
	}
	return fmt.Sprint(*p)
}
func fmtStr(p *string) string {
	if p == nil {
		return "nil"
	}
	return *p
}

// records compares the stored user records with the model (guards the model itself).
func (in *inst) records(d kv.DB, name string) *ev.Violation {
	it, err := kv.VerifKV(d).RangeScan("", "")
	if err != nil {
		return viol("scan-error", err.Error())
	}
	defer it.Close()
	seen := 0
	for ; it.Valid(); it.Next() {
		k := it.Key()
		if strings.HasPrefix(k, internalPfx) {
			continue
		}
		v, err := it.Value()
		if err != nil {
			return viol("scan-error", err.Error())
		}
		se := &proto.StorageEntry{}
		if err := se.UnmarshalVT(v); err != nil {
			return viol("scan-error", err.Error())
		}
		m, ok := in.recs[k]
		owner := int64(-1)
		if se.SessionId != nil {
			owner = *se.SessionId
		}
		if !ok || m.ver != se.VersionId || m.mod != se.ModificationsCount || m.owner != owner || m.cts != se.CreationTimestamp || m.mts != se.ModificationTimestamp {
			return viol("model-divergence:records", fmt.Sprintf("%s: stored %q = %s, model %+v (present=%v)", name, k, oxh.RenderStorageEntry(se), m, ok))
		}
		seen++
	}
	if seen != len(in.recs) {
		return viol("model-divergence:records", fmt.Sprintf("%s: %d user records stored, model has %d: %v", name, seen, len(in.recs), in.recs))
	}
	return nil
}

// keySameStart: two range deletes with the same start key in one request share one slot of
// the batch. The search goes on through such states (recorded once, with the shortest history).
const keySameStart = "missing-notification:range-deletes-with-same-start"

type softRec struct {
	v     ev.Violation
	hist  []int
	count int64
	seen  map[string]struct{} // distinct histories ending in the violating step
}

var (
	softMu sync.Mutex
	soft   = map[string]*softRec{}
)

func histLess(a, b []int) bool {
	if len(a) != len(b) {
		return len(a) < len(b)
	}
	for i := range a {
		if a[i] != b[i] {
			return a[i] < b[i]
		}
	}
	return false
}

func (in *inst) recordSoft(v *ev.Violation) {
	h := append([]int{}, in.hist...)
	softMu.Lock()
	defer softMu.Unlock()
	r := soft[v.Key]
	if r == nil {
		r = &softRec{seen: map[string]struct{}{}}
		soft[v.Key] = r
	}
	hk := fmt.Sprint(h)
	if _, dup := r.seen[hk]; dup {
		return
	}
	r.seen[hk] = struct{}{}
	r.count++
	if r.hist == nil || histLess(h, r.hist) {
		r.hist = h
		names := make([]string, len(h))
		for i, o := range h {
			names[i] = ops[o].name
		}
		r.v = ev.Violation{Key: v.Key, Harness: "notifications-seq", Message: v.Message,
			Replay: map[string]any{"config": "db+replica", "ops": names, "indices": h}}
	}
}

func (in *inst) Step(op int) (bool, *ev.Violation) {
	en, v := in.step(op)
	return en, v
}

func (in *inst) step(op int) (bool, *ev.Violation) {
	o := ops[op]
	in.hist = append(in.hist, op)
	if o.trim != 0 {
		return in.trimStep(o.trim)
	}
	off := in.last() + 1
	w := o.build(in, off)
	if w == nil {
		return false, nil
	}
	in.now += stepMillis
	in.clock.Set(in.now)
	ts := uint64(in.clock.Now().UnixMilli())
	resp, err := in.db.ProcessWrite(w, off, ts, server.WrapperUpdateOperationCallback)
	if err != nil {
		return true, viol("apply-error", fmt.Sprintf("ProcessWrite(%s) at %d: %v", o.name, off, err))
	}
	if _, err := in.replica.ProcessWrite(o.build(in, off), off, ts, server.WrapperUpdateOperationCallback); err != nil {
		return true, viol("apply-error", fmt.Sprintf("replica ProcessWrite(%s) at %d: %v", o.name, off, err))
	}
	e := in.applyModel(w, ts)
	for i, p := range resp.Puts {
		if p.Status != e.putStatus[i] || (p.Status == proto.Status_OK && p.Version.VersionId != e.putVer[i]) {
			return true, viol("model-divergence:put-response", fmt.Sprintf("%s at %d: put %d answered %v, model expects %v version %d", o.name, off, i, p, e.putStatus[i], e.putVer[i]))
		}
	}
	in.ts = append(in.ts, int64(ts))
	in.present = append(in.present, true)
	in.batches = append(in.batches, "")
	// the batch of this request, as a subscriber positioned right before it receives it
	bs, err := in.readAll(in.db, off)
	if err != nil {
		return true, viol("read-error", err.Error())
	}
	if len(bs) != 1 {
		key := "batch-count"
		if len(bs) == 0 {
			key = "batch-missing"
		}
		return true, viol(key, fmt.Sprintf("after applying %s at offset %d a subscriber starting there receives %d batches (offsets %v), expected exactly one", o.name, off, len(bs), offsets(bs)))
	}
	if v := checkBatch(bs[0], e, off, ts); v != nil {
		if v.Key != keySameStart {
			return true, v
		}
		in.recordSoft(v)
	}
	in.batches[off] = oxh.RenderNotificationBatch(bs[0])
	if len(bs[0].Notifications) == 0 {
		nEmptyBatches.Add(1)
	} else {
		nNonEmptyBatches.Add(1)
	}
	if e.internalOnly {
		nInternalOnlyRequests.Add(1)
	}
	if v := in.records(in.db, "primary"); v != nil {
		return true, v
	}
	if v := in.records(in.replica, "replica"); v != nil {
		return true, v
	}
	return true, in.subscribers()
}

func (in *inst) trimStep(mode int) (bool, *ev.Violation) {
	var stored []int64
	for i, p := range in.present {
		if p {
			stored = append(stored, int64(i))
		}
	}
	if len(stored) < 2 {
		return false, nil
	}
	switch mode {
	case 2:
		if t := in.ts[stored[0]] + retentionMs + stepMillis/2; t > in.now {
			in.now = t
		}
	case 3:
		if t := in.ts[in.last()-1] + retentionMs + stepMillis/2; t > in.now {
			in.now = t
		}
	}
	if in.expired(in.last()) {
		return false, nil // not a strict prefix (cannot happen with the clock rules above)
	}
	in.clock.Set(in.now)
	if err := kv.VerifTrimNotifications(in.db, time.Duration(retentionMs)*time.Millisecond, in.clock); err != nil {
		return true, viol("trim-error", err.Error())
	}
	in.everTrim = true
	nTrims.Add(1)
	bs, err := in.readAll(in.db, 0)
	if err != nil {
		return true, viol("read-error", err.Error())
	}
	got := map[int64]bool{}
	for _, b := range bs {
		got[b.Offset] = true
	}
	removed := 0
	for i := range in.present {
		if in.present[i] && !got[int64(i)] {
			if !in.expired(int64(i)) {
				return true, viol("trim-removed-unexpired", fmt.Sprintf("trimming at now=%d (cutoff %d) removed batch %d with timestamp %d; stored before %v, after %v", in.now, in.now-retentionMs, i, in.ts[i], stored, offsets(bs)))
			}
			in.present[i] = false
			removed++
		} else if !in.present[i] && got[int64(i)] {
			return true, viol("trim-resurrected", fmt.Sprintf("batch %d is stored again after a trimming round", i))
		}
	}
	if removed > 0 {
		nTrimsRemoving.Add(1)
		nTrimmedBatches.Add(int64(removed))
	}
	return true, in.subscribers()
}

func (in *inst) Key() string {
	var b strings.Builder
	fmt.Fprintf(&b, "now=%d sess=%d/%v ver=%d trim=%v|", in.now-t0Millis, in.sessId, in.sessLive, in.verNext, in.everTrim)
	ks := make([]string, 0, len(in.recs))
	for k := range in.recs {
		ks = append(ks, k)
	}
	sort.Strings(ks)
	for _, k := range ks {
		fmt.Fprintf(&b, "%s=%+v,", k, in.recs[k])
	}
	b.WriteString("|")
	for i, s := range in.batches {
		fmt.Fprintf(&b, "%s%v;", s, in.present[i])
	}
	b.WriteString("|")
	b.WriteString(strings.Join(oxh.DumpDB(in.db, oxh.DumpOpts{}), "\n"))
	return b.String()
}

func spec(depth int, deadline time.Time) seqx.Spec {
	return seqx.Spec{Name: "notifications-seq", Config: "db+replica", NOps: len(ops), OpName: func(i int) string { return ops[i].name },
		New: func(int) seqx.Instance { return newInst() }, MaxDepth: depth, Deadline: deadline}
}

func main() {
	replay := flag.String("replay", "", "replay file")
	flag.Parse()
	oxh.Quiet()
	kv.VerifMemTableSize = 1 << 20
	if *replay != "" {
		os.Exit(doReplay(*replay))
	}
	run := ev.NewRun("C17", "model_checking")
	depth, budget := 4, 50*time.Second
	if run.Tier == "thorough" {
		depth, budget = 6, 17*time.Minute
	}
	if d := os.Getenv("VERIF_DEPTH"); d != "" {
		fmt.Sscanf(d, "%d", &depth)
	}
	sp := spec(depth, time.Now().Add(budget))
	res := seqx.Explore(sp)
	seqx.Report(run, sp, res)
	run.Add("distinct_states", res.States)
	run.DistinctN(res.States)
	var sk []string
	for k := range soft {
		sk = append(sk, k)
	}
	sort.Strings(sk)
	for _, k := range sk {
		r := soft[k]
		r.v.Message = fmt.Sprintf("%s [%d histories]", r.v.Message, r.count)
		run.Violate(r.v)
		run.Add("histories_with_"+k, r.count)
	}
	run.Add("subscriber_streams_read", nReads.Load())
	run.Add("replica_streams_read", nReplicaReads.Load())
	run.Add("batches_compared", nBatchesChecked.Load())
	run.Add("trim_rounds", nTrims.Load())
	run.Add("trim_rounds_removing_batches", nTrimsRemoving.Load())
	run.Add("batches_trimmed", nTrimmedBatches.Load())
	run.Add("resumptions_within_retention_after_trim", nResumeAfterTrim.Load())
	run.Add("empty_batches", nEmptyBatches.Load())
	run.Add("nonempty_batches", nNonEmptyBatches.Load())
	run.Add("requests_touching_only_internal_keys", nInternalOnlyRequests.Load())
	run.Add("notifications_key_created", nTypes[proto.NotificationType_KEY_CREATED].Load())
	run.Add("notifications_key_modified", nTypes[proto.NotificationType_KEY_MODIFIED].Load())
	run.Add("notifications_key_deleted", nTypes[proto.NotificationType_KEY_DELETED].Load())
	run.Add("notifications_key_range_deleted", nTypes[proto.NotificationType_KEY_RANGE_DELETED].Load())
	run.Coverage["max_depth"] = depth
	run.Coverage["alphabet"] = len(ops)
	var names []string
	for _, o := range ops {
		names = append(names, o.name)
	}
	run.Coverage["ops"] = names
	run.Sample(map[string]any{"history": []string{"createSession", "ephemeralPut(a)", "put(b)", "sessionCleanup"},
		"expected_batches": []string{"{}", "{a: KEY_CREATED v1}", "{b: KEY_CREATED v2}", "{a: KEY_DELETED}"}})
	run.Sample(map[string]any{"history": []string{"put(a)", "put(a)", "deleteRange[a,c)", "trim(oldest stored batch expires)"},
		"expected": "batch 0 may disappear, a subscriber resuming at 1 still gets 1 and 2: {a: KEY_MODIFIED v1}, {a: KEY_RANGE_DELETED last=c}"})
	run.Sample(map[string]any{"history": []string{"delete(b)"}, "expected_batches": []string{"{} (empty batch at offset 0)"}})
	run.Assume = []string{
		"stage 1 is sequential: every request handed to ProcessWrite is committed (uncommitted requests and subscriber/writer races are stage 2)",
		"notifications are enabled throughout",
		"request timestamps are taken from a monotone mocked clock (1 s per request, jumps at trimming rounds)",
		"a batch is 'within the retention time' while timestamp > now - retention; older batches may or may not still be delivered",
		"when one request writes and then removes the same key, or removes a key more than once, the batch must leave a consumer with the right final picture (removed keys reported deleted or covered by a reported range; surviving keys reported with their final version)",
	}
	os.Exit(run.Finish("BFS over all histories up to max_depth from the alphabet (puts/deletes/range deletes on {a,b,a/b}, composite requests, session create / ephemeral put / session cleanup request, empty-effect requests, 3 kinds of trimming round); after every step: content oracle on the new batch against a map model, then a subscriber from every start offset on the DB and on a replica that applied the same log (order, completeness within retention, stable content, no internal keys)"))
}

func doReplay(path string) int {
	var doc struct {
		First struct {
			Replay struct {
				Indices []int `json:"indices"`
			} `json:"replay"`
		} `json:"first"`
	}
	if err := ev.ReadJSON(path, &doc); err != nil {
		fmt.Println("cannot read replay:", err)
		return 2
	}
	v := seqx.Replay(spec(0, time.Time{}), doc.First.Replay.Indices)
	if v == nil { // violations the search walks through (see recordSoft)
		for _, r := range soft {
			v = &r.v
		}
	}
	if v != nil {
		fmt.Printf("VIOLATION property=C17 replay=%s\n  %s: %s\n", path, v.Key, v.Message)
		return 1
	}
	fmt.Println("replay passed")
	return 0
}
