// C19, schedule stage: whenever the coordinator moves a replica, the stored ensemble stays RF distinct
// servers - also when the election that a swap runs fails half-way and is run again. The cluster harness
// (real servers, the real coordinator ShardController with its real SwapNode, lib/oxc) with the node-swap
// scenarios, with and without lost coordinator RPC answers; the ensemble oracle looks at the stored shard
// metadata whenever BecomeLeader is sent and at the end.
package main

import (
	"flag"
	"os"
	"time"

	"github.com/oxia-db/oxia/zzverif/vsched"

	"verif/lib/oxc"
	"verif/lib/oxh"
	"verif/lib/sched"
)

func coarse(k vsched.Kind, obj uint64) bool {
	switch k {
	case vsched.KLock, vsched.KRLock, vsched.KAtomic, vsched.KWait, vsched.KCond, vsched.KClose:
		return false
	}
	return true
}

func scenarios(tier string) []sched.Scenario {
	cfg := vsched.Config{MaxSteps: 400000, Filter: coarse, OnPoint: oxc.PointHook, MaxTime: int64(10 * time.Minute)}
	mk := func() []oxc.Oracle { return []oxc.Oracle{&oxc.EnsembleOracle{}} }
	specs := []oxc.ScenarioSpec{
		{Name: "swap", Fault: "swap", Clients: 1, PerCli: 1, SyncData: true},
		{Name: "swap-lossy", Fault: "swap-lossy", Clients: 1, PerCli: 1, SyncData: true, LossyRPC: 1},
		{Name: "swap-unreachable", Fault: "swap-unreachable", Clients: 1, PerCli: 1, SyncData: true},
		{Name: "leader-swap", Fault: "leader-swap", Clients: 1, PerCli: 1, SyncData: true},
	}
	dev := 1
	if tier == "thorough" {
		dev = 2
		specs = append(specs, oxc.ScenarioSpec{Name: "swap-lossy-2", Fault: "swap-lossy", Clients: 0, PerCli: 0, SyncData: true, LossyRPC: 2})
	}
	var out []sched.Scenario
	for _, sp := range specs {
		out = append(out, sched.Scenario{Name: sp.Name, Cfg: cfg, MaxDev: dev, Body: oxc.Body(sp, mk)})
	}
	return out
}

func main() {
	replay := flag.String("replay", "", "replay file")
	flag.Parse()
	oxh.Quiet()
	su := sched.Suite{Property: "C19", Scenarios: scenarios, Stage2: os.Getenv("VERIF_STAGE2") != "",
		Budget: func(tier string) time.Duration {
			if tier == "thorough" {
				return 15 * time.Minute
			}
			return 100 * time.Second
		},
		Rule:   "every schedule with at most max_dev non-default choices at coarse points (RPC delivery, stream/channel operations, selects, timers) of a real 3+1-node cluster in which the coordinator swaps a node of the ensemble (follower or leader; reachable or not; with lost coordinator RPC answers as further choices); the stored ensemble is looked at whenever BecomeLeader is sent and at the end",
		Assume: []string{"sequentially consistent memory", "in-process transports replace gRPC", "coarse granularity; virtual time"}}
	os.Exit(sched.Main(su, *replay))
}
