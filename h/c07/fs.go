package main

import (
	"io"
	"os"
	"sync"
	"sync/atomic"

	"github.com/cockroachdb/pebble/vfs"
)

// countFS is the crash-simulating filesystem of E3b: Pebble's strict MemFS (nothing is durable
// before Sync of the file / of the directory) behind a wrapper that numbers every mutating
// operation. Right before operation number crashAt is executed durability is frozen
// (SetIgnoreSyncs(true)): whatever the code does afterwards is thrown away by crash().
type countFS struct {
	mem     *vfs.MemFS
	n       atomic.Int64
	crashAt atomic.Int64 // -1 = never
	frozen  atomic.Bool
	// step that was executing when the freeze happened (set by the harness through curStep)
	curStep    atomic.Int64
	frozenStep atomic.Int64
	frozenOp   atomic.Value // string
	mu         sync.Mutex
	kinds      map[string]int64
	trace      bool
	ops        []string
}

func newCountFS(crashAt int64, trace bool) *countFS {
	c := &countFS{mem: vfs.NewStrictMem(), kinds: map[string]int64{}, trace: trace}
	c.crashAt.Store(crashAt)
	c.frozenStep.Store(-1)
	return c
}

func (c *countFS) tick(kind, name string) {
	n := c.n.Add(1) - 1
	if n == c.crashAt.Load() {
		c.freeze(kind + " " + name)
	}
	if c.trace {
		c.mu.Lock()
		c.kinds[kind]++
		c.ops = append(c.ops, kind+" "+name)
		c.mu.Unlock()
	}
}

func (c *countFS) freeze(op string) {
	if c.frozen.Load() {
		return
	}
	c.mem.SetIgnoreSyncs(true)
	c.frozenStep.Store(c.curStep.Load())
	c.frozenOp.Store(op)
	c.frozen.Store(true)
}

// crash leaves exactly the disk of a power loss at the freeze point and re-arms the filesystem.
func (c *countFS) crash() {
	c.mem.ResetToSyncedState()
	c.mem.SetIgnoreSyncs(false)
	c.crashAt.Store(-1)
	c.frozen.Store(false)
}

func (c *countFS) wrap(f vfs.File, name string, err error) (vfs.File, error) {
	if err != nil {
		return nil, err
	}
	return &countFile{File: f, fs: c, name: name}, nil
}

func (c *countFS) Create(name string) (vfs.File, error) {
	c.tick("create", name)
	f, err := c.mem.Create(name)
	return c.wrap(f, name, err)
}

func (c *countFS) Link(oldname, newname string) error {
	c.tick("link", newname)
	return c.mem.Link(oldname, newname)
}

func (c *countFS) Open(name string, opts ...vfs.OpenOption) (vfs.File, error) {
	return c.mem.Open(name, opts...)
}

func (c *countFS) OpenReadWrite(name string, opts ...vfs.OpenOption) (vfs.File, error) {
	f, err := c.mem.OpenReadWrite(name, opts...)
	return c.wrap(f, name, err)
}

func (c *countFS) OpenDir(name string) (vfs.File, error) {
	f, err := c.mem.OpenDir(name)
	return c.wrap(f, name+"/", err)
}

func (c *countFS) Remove(name string) error {
	c.tick("remove", name)
	return c.mem.Remove(name)
}

func (c *countFS) RemoveAll(name string) error {
	c.tick("removeall", name)
	return c.mem.RemoveAll(name)
}

func (c *countFS) Rename(oldname, newname string) error {
	c.tick("rename", newname)
	return c.mem.Rename(oldname, newname)
}

func (c *countFS) ReuseForWrite(oldname, newname string) (vfs.File, error) {
	c.tick("reuse", newname)
	f, err := c.mem.ReuseForWrite(oldname, newname)
	return c.wrap(f, newname, err)
}

func (c *countFS) MkdirAll(dir string, perm os.FileMode) error {
	c.tick("mkdirall", dir)
	return c.mem.MkdirAll(dir, perm)
}

func (c *countFS) Lock(name string) (io.Closer, error) {
	c.tick("lock", name)
	return c.mem.Lock(name)
}

func (c *countFS) List(dir string) ([]string, error)         { return c.mem.List(dir) }
func (c *countFS) Stat(name string) (os.FileInfo, error)     { return c.mem.Stat(name) }
func (c *countFS) PathBase(path string) string               { return c.mem.PathBase(path) }
func (c *countFS) PathJoin(elem ...string) string            { return c.mem.PathJoin(elem...) }
func (c *countFS) PathDir(path string) string                { return c.mem.PathDir(path) }
func (c *countFS) GetDiskUsage(p string) (vfs.DiskUsage, error) { return c.mem.GetDiskUsage(p) }

type countFile struct {
	vfs.File
	fs   *countFS
	name string
}

func (f *countFile) Write(p []byte) (int, error) {
	f.fs.tick("write", f.name)
	return f.File.Write(p)
}

func (f *countFile) WriteAt(p []byte, off int64) (int, error) {
	f.fs.tick("writeat", f.name)
	return f.File.WriteAt(p, off)
}

func (f *countFile) Sync() error {
	f.fs.tick("sync", f.name)
	return f.File.Sync()
}

func (f *countFile) SyncData() error {
	f.fs.tick("syncdata", f.name)
	return f.File.SyncData()
}

func (f *countFile) SyncTo(length int64) (bool, error) {
	f.fs.tick("syncto", f.name)
	return f.File.SyncTo(length)
}

// makeDurableDir creates dir and fsyncs every ancestor so that the directory itself survives a
// crash. (Pebble never syncs the parent of its data directory; on the journaling filesystems oxia
// runs on, the fsync of a file inside commits the creation of its parent directories. The strict
// MemFS does not model that, so the shard directory is made durable up front.)
func makeDurableDir(mem *vfs.MemFS, dir string) {
	if err := mem.MkdirAll(dir, 0o755); err != nil {
		panic(err)
	}
	p := dir
	for {
		parent := mem.PathDir(p)
		d, err := mem.OpenDir(parent)
		if err != nil {
			panic(err)
		}
		if err := d.Sync(); err != nil {
			panic(err)
		}
		_ = d.Close()
		if parent == p || parent == "/" || parent == "." {
			break
		}
		p = parent
	}
}
