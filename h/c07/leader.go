package main

import (
	"context"
	"fmt"
	"io"
	"os"
	"path/filepath"
	"strings"
	"time"

	"github.com/cockroachdb/pebble/vfs"

	"github.com/oxia-db/oxia/proto"
	"github.com/oxia-db/oxia/server"
	"github.com/oxia-db/oxia/server/kv"
	"github.com/oxia-db/oxia/server/wal"

	"verif/lib/oxh"
)

// (b) a real leader controller with replication factor 1: the WAL lives on real files (it is
// assumed durable: every acknowledged append was synced), the database on the crash filesystem.
// Events: W = WriteBlock of the next scripted request, E = NewTerm+BecomeLeader on the running
// controller, S = db.Snapshot() (what a follower cursor triggers), C = graceful Close + new
// controller + election. After the crash a new controller is created on the same WAL and the
// crashed database and elected: applyAllEntriesIntoDB must bring the database to the fold of the
// whole WAL, applying each missing entry exactly once, in order.

type noRpc struct{}

func (noRpc) Close() error { return nil }
func (noRpc) GetReplicateStream(context.Context, string, string, int64, int64) (proto.OxiaLogReplication_ReplicateClient, error) {
	return nil, io.ErrClosedPipe
}
func (noRpc) SendSnapshot(context.Context, string, string, int64, int64) (proto.OxiaLogReplication_SendSnapshotClient, error) {
	return nil, io.ErrClosedPipe
}
func (noRpc) Truncate(string, *proto.TruncateRequest) (*proto.TruncateResponse, error) {
	return nil, io.ErrClosedPipe
}

func scriptedRequest(ref *reference, w int) *proto.WriteRequest {
	lev := &proto.LogEntryValue{}
	if err := lev.UnmarshalVT(ref.log[w].raw); err != nil {
		panic(err)
	}
	return lev.GetRequests().Writes[0]
}

func runLeader(ref *reference, hist string, crashAt int64, trace bool) (out outcome) {
	hist, injKind, injK := splitHist(hist)
	inj := &injector{}
	if injKind == '@' {
		inj.k = injK
		inj.act = func(inner kv.KV) error { return inner.Flush() }
	}
	cfs := newCountFS(crashAt, trace)
	dir := filepath.Join(scratch, fmt.Sprintf("l%d", dirSeq.Add(1)))
	fsReg.Store(dir, vfs.FS(cfs))
	defer fsReg.Delete(dir)
	defer os.RemoveAll(dir)
	makeDurableDir(cfs.mem, filepath.Join(dir, ns, fmt.Sprintf("shard-%d", shard)))
	obs := &observer{inj: inj}
	walf := wal.NewWalFactory(&wal.FactoryOptions{BaseWalDir: filepath.Join(dir, "wal"), Retention: time.Hour, SegmentSize: 256 * 1024, SyncData: true})
	defer walf.Close()
	var factories []kv.Factory
	defer func() {
		for _, f := range factories {
			_ = f.Close()
		}
	}()
	cfg := server.Config{NotificationsRetentionTime: retention}
	newLC := func() (server.LeaderController, error) {
		pf, err := kv.NewPebbleKVFactory(&kv.FactoryOptions{DataDir: dir, CacheSizeMB: 1})
		if err != nil {
			return nil, err
		}
		factories = append(factories, pf)
		_ = cfs.RemoveAll(filepath.Join(dir, "snapshots")) // cleanupSnapshots, on the filesystem the checkpoints are really in
		for k := 1; k <= strings.Count(hist, "S"); k++ {
			_ = os.MkdirAll(filepath.Join(dir, "snapshots", fmt.Sprintf("shard-%d", shard), fmt.Sprintf("snapshot-%d", k)), 0o755)
		}
		return server.NewLeaderController(cfg, ns, shard, noRpc{}, walf, &obsFactory{Factory: pf, o: obs})
	}
	fail := func(key, format string, a ...any) outcome {
		out.v = &viol{key, fmt.Sprintf(format, a...)}
		return out
	}
	out.c, out.term, out.durableOff, out.durableTerm = -1, -1, -1, -1
	term := int64(0)
	var started []int64
	elect := func(lc server.LeaderController, preCrash bool) error {
		term++
		started = append(started, term)
		if _, err := lc.NewTerm(&proto.NewTermRequest{Namespace: ns, Shard: shard, Term: term, Options: &proto.NewTermOptions{EnableNotifications: true}}); err != nil {
			return fmt.Errorf("NewTerm(%d): %w", term, err)
		}
		if preCrash && !cfs.frozen.Load() {
			out.durableTerm = term
		}
		if _, err := lc.BecomeLeader(context.Background(), &proto.BecomeLeaderRequest{Namespace: ns, Shard: shard, Term: term, ReplicationFactor: 1,
			FollowerMaps: map[string]*proto.EntryId{}}); err != nil {
			return fmt.Errorf("BecomeLeader(%d): %w", term, err)
		}
		return nil
	}
	cfs.curStep.Store(-1)
	lc, err := newLC()
	if err != nil {
		return fail("open-failed", "initial controller: %v", err)
	}
	if err := elect(lc, true); err != nil {
		closeLC(lc, obs)
		return fail("step-error:election", "initial election: %v", err)
	}
	out.openOps = cfs.n.Load()
	inj.armed.Store(true)
	w := 0
	acked := 0
	alive := true
	ctx := context.Background()
	for si := 0; si < len(hist) && !cfs.frozen.Load(); si++ {
		cfs.curStep.Store(int64(si))
		switch hist[si] {
		case 'W':
			req := scriptedRequest(ref, w)
			w++
			before := inj.seen.Load()
			if _, err := lc.WriteBlock(ctx, req); err != nil {
				closeLC(lc, obs)
				return fail("step-error:WriteBlock", "step %d: request %d: %v", si, w-1, err)
			}
			if n := inj.seen.Load() - before; n > out.maxCommitsPerEntry {
				out.maxCommitsPerEntry = n
			}
			acked++
		case 'E':
			if err := elect(lc, true); err != nil {
				closeLC(lc, obs)
				return fail("step-error:election", "step %d: %v", si, err)
			}
		case 'S':
			snap, err := server.VerifC06LeaderDB(lc).Snapshot()
			if err != nil {
				closeLC(lc, obs)
				return fail("step-error:Snapshot", "step %d: %v", si, err)
			}
			_ = snap.Close()
			_ = cfs.RemoveAll(snap.BasePath())
		case 'C':
			obs.quiesce()
			if err := lc.Close(); err != nil {
				return fail("step-error:Close", "step %d: %v", si, err)
			}
			if cfs.frozen.Load() {
				alive = false
				break
			}
			if lc, err = newLC(); err != nil {
				return fail("step-error:Reopen", "step %d: %v", si, err)
			}
			if err := elect(lc, true); err != nil {
				closeLC(lc, obs)
				return fail("step-error:election", "step %d: election after graceful restart: %v", si, err)
			}
		}
	}
	if !cfs.frozen.Load() {
		cfs.curStep.Store(int64(len(hist)))
		cfs.freeze("<end of history>")
	}
	inj.armed.Store(false)
	out.commits = inj.seen.Load()
	out.injected = inj.fired.Load()
	out.fsOps = cfs.n.Load()
	out.frozenStep = cfs.frozenStep.Load()
	out.frozenOp, _ = cfs.frozenOp.Load().(string)
	if alive {
		closeLC(lc, obs)
	}
	if trace {
		out.kinds = cfs.kinds
	}
	cfs.crash()

	// ---- restart
	where := fmt.Sprintf("crash at fs-op %d (before %q, during step %d), %d writes acknowledged", crashAt, out.frozenOp, out.frozenStep, acked)
	if out.injected {
		where += fmt.Sprintf(", KV flushed right before batch commit %d of the node", injK)
	}
	if err := inj.failure(); err != nil {
		return fail("step-error:InjectedFlush", "%s: %v", where, err)
	}
	nBefore := len(obs.kvs)
	lc2, err := newLC()
	if err != nil {
		return fail("reopen-failed", "%s: controller does not start: %v", where, err)
	}
	defer func() { closeLC(lc2, obs) }()
	db := server.VerifC06LeaderDB(lc2)
	c, err := db.ReadCommitOffset()
	if err != nil {
		return fail("reopen-commit-offset-unreadable", "%s: %v", where, err)
	}
	out.c = c
	// the log
	rd, err := server.VerifC06LeaderWal(lc2).NewReader(-1)
	if err != nil {
		return fail("wal-unreadable", "%s: %v", where, err)
	}
	var log []logEntry
	for rd.HasNext() {
		e, err := rd.ReadNext()
		if err != nil {
			_ = rd.Close()
			return fail("wal-unreadable", "%s: %v", where, err)
		}
		log = append(log, logEntry{off: e.Offset, ts: e.Timestamp, raw: e.Value})
	}
	_ = rd.Close()
	if len(log) < acked || len(log) > w {
		return fail("wal-length", "%s: WAL holds %d entries, %d writes were started", where, len(log), w)
	}
	for k, e := range log {
		if e.off != int64(k) || string(e.raw) != string(ref.log[k].raw) {
			return fail("wal-content", "%s: WAL entry %d is not request %d of the script (offset %d)", where, k, k, e.off)
		}
	}
	if c > int64(len(log)-1) || c < -1 {
		return fail("commit-offset-ahead-of-log", "%s: stored commit offset %d, WAL last offset %d", where, c, len(log)-1)
	}
	// reference fold of the WAL (timestamps are the leader's)
	rf := oxh.NewMemFactory()
	defer rf.Close()
	rdb, err := kv.NewDB(ns, shard, rf, retention, clock)
	if err != nil {
		panic(err)
	}
	defer rdb.Close()
	dumps := []string{dump(rdb)}
	for _, e := range log {
		if _, err := applyEntry(rdb, e); err != nil {
			return fail("reference-error", "entry %d: %v", e.off, err)
		}
		dumps = append(dumps, dump(rdb))
	}
	if d := dump(db); d != dumps[c+1] {
		return fail("state-differs-from-fold", "%s: commit offset %d but the database is not the fold of WAL entries 0..%d: %s", where, c, c, firstDiff(dumps[c+1], d))
	}
	t := lc2.Term()
	out.term = t
	known := t == -1
	for _, s := range started {
		if s == t {
			known = true
		}
	}
	if !known {
		return fail("term-never-written", "%s: term %d read back, written terms %v", where, t, started)
	}
	if t < out.durableTerm {
		return fail("term-regressed", "%s: NewTerm(%d) had been answered before the crash but term %d is read back", where, out.durableTerm, t)
	}
	term = t
	if term < 0 {
		term = 0
	}
	if err := elect(lc2, false); err != nil {
		return fail("election-after-crash-failed", "%s: %v", where, err)
	}
	db = server.VerifC06LeaderDB(lc2)
	if c2, err := db.ReadCommitOffset(); err != nil || c2 != int64(len(log)-1) {
		return fail("replay-incomplete", "%s: after the election the commit offset is %d (err %v), WAL last offset %d", where, c2, err, len(log)-1)
	}
	if d := dump(db); d != dumps[len(log)] {
		return fail("replay-does-not-converge", "%s: after applyAllEntriesIntoDB from %d: %s", where, c+1, firstDiff(dumps[len(log)], d))
	}
	// and it keeps serving
	if w < len(ref.log) {
		if _, err := lc2.WriteBlock(ctx, scriptedRequest(ref, w)); err != nil {
			return fail("write-after-recovery-failed", "%s: %v", where, err)
		}
	}
	if key, msg := obs.check(nil); key != "" {
		return fail(key, "%s: %s", where, msg)
	}
	_ = nBefore
	out.offsets = obs.offsetsWritten()
	return out
}

func closeLC(lc server.LeaderController, obs *observer) {
	obs.quiesce()
	_ = lc.Close()
}
