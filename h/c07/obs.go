package main

import (
	"fmt"
	"runtime"
	"sync"
	"sync/atomic"
	"time"

	"github.com/oxia-db/oxia/proto"
	"github.com/oxia-db/oxia/server/kv"
)

const (
	commitOffsetKey = "__oxia/commit-offset"
	termKey         = "__oxia/term"
	termOptionsKey  = "__oxia/term-options"
)

// observer records, per opened KV, every batch that was committed: the commit offset it carried
// (if any) and whether it touched anything besides the term keys.
type batchRec struct {
	offsets []int64 // values written to __oxia/commit-offset inside this batch
	effects bool    // touched a key other than commit-offset / term keys
	term    bool
}

type kvRec struct {
	c0      int64 // commit offset stored in the database when it was opened
	batches []batchRec
}

type observer struct {
	mu    sync.Mutex
	kvs   []*kvRec
	iters atomic.Int64 // iterators handed out by the wrapped KVs and not closed yet
	inj   *injector    // numbers the batch commits of the node under test (nil: not counted)
}

// injector numbers every KV batch commit the node under test performs (1, 2, ...; the commits of
// UpdateTerm included) and runs an action right BEFORE commit number k reaches the engine: a
// Flush of the real KV (everything committed so far becomes the on-disk image; what NewTerm, a
// snapshot for a lagging follower or a full memtable do at an arbitrary moment) or a snapshot
// that is installed on a fresh node. Every batch commit of the implementation is thereby a
// potential "the disk image is taken here" point, also the commits that fall inside the
// application of ONE log entry.
type injector struct {
	k     int64 // 0 = never
	act   func(inner kv.KV) error
	armed atomic.Bool
	seen  atomic.Int64
	fired atomic.Bool
	mu    sync.Mutex
	err   error
}

func (i *injector) before(inner kv.KV) {
	if i == nil || !i.armed.Load() {
		return
	}
	if n := i.seen.Add(1); n == i.k && i.act != nil {
		i.fired.Store(true)
		if err := i.act(inner); err != nil {
			i.mu.Lock()
			i.err = err
			i.mu.Unlock()
		}
	}
}

func (i *injector) failure() error {
	i.mu.Lock()
	defer i.mu.Unlock()
	return i.err
}

type obsFactory struct {
	kv.Factory
	o *observer
}

func (f *obsFactory) wrap(k kv.KV) kv.KV {
	rec := &kvRec{c0: readStoredOffset(k)}
	f.o.mu.Lock()
	f.o.kvs = append(f.o.kvs, rec)
	f.o.mu.Unlock()
	return &obsKV{KV: k, o: f.o, rec: rec}
}

func (f *obsFactory) NewKV(namespace string, shardId int64) (kv.KV, error) {
	k, err := f.Factory.NewKV(namespace, shardId)
	if err != nil {
		return nil, err
	}
	return f.wrap(k), nil
}

func (f *obsFactory) NewSnapshotLoader(namespace string, shardId int64) (kv.SnapshotLoader, error) {
	return f.Factory.NewSnapshotLoader(namespace, shardId)
}

func readStoredOffset(k kv.KV) int64 {
	_, v, closer, err := k.Get(commitOffsetKey, kv.ComparisonEqual)
	if err != nil {
		return -1
	}
	defer closer.Close()
	se := &proto.StorageEntry{}
	if err := se.UnmarshalVT(v); err != nil {
		return -2
	}
	var c int64
	if _, err := fmt.Sscanf(string(se.Value), "%d", &c); err != nil {
		return -2
	}
	return c
}

type obsKV struct {
	kv.KV
	o   *observer
	rec *kvRec
}

func (k *obsKV) NewWriteBatch() kv.WriteBatch {
	return &obsBatch{WriteBatch: k.KV.NewWriteBatch(), k: k}
}

type obsBatch struct {
	kv.WriteBatch
	k   *obsKV
	rec batchRec
}

func (b *obsBatch) Put(key string, value []byte) error {
	switch key {
	case commitOffsetKey:
		se := &proto.StorageEntry{}
		c := int64(-99)
		if err := se.UnmarshalVT(value); err == nil {
			_, _ = fmt.Sscanf(string(se.Value), "%d", &c)
		}
		b.rec.offsets = append(b.rec.offsets, c)
	case termKey, termOptionsKey:
		b.rec.term = true
	default:
		b.rec.effects = true
	}
	return b.WriteBatch.Put(key, value)
}

func (b *obsBatch) Delete(key string) error {
	b.rec.effects = true
	return b.WriteBatch.Delete(key)
}

func (b *obsBatch) DeleteRange(lo, hi string) error {
	b.rec.effects = true
	return b.WriteBatch.DeleteRange(lo, hi)
}

func (b *obsBatch) Commit() error {
	b.k.o.inj.before(b.k.KV)
	err := b.WriteBatch.Commit()
	if err == nil {
		b.k.o.mu.Lock()
		b.k.rec.batches = append(b.k.rec.batches, b.rec)
		b.k.o.mu.Unlock()
	}
	return err
}

// check validates "effects + commit offset in one batch, offsets c0+1, c0+2, ... per instance".
// gaps lists offsets that may legitimately be missing (entries the node itself rejected).
func (o *observer) check(rejected map[int64]bool) (string, string) {
	o.mu.Lock()
	defer o.mu.Unlock()
	for i, k := range o.kvs {
		next := k.c0 + 1
		for j, b := range k.batches {
			switch {
			case len(b.offsets) == 0 && b.effects:
				return "batch-without-commit-offset", fmt.Sprintf("db instance %d, batch %d changes data keys but does not carry __oxia/commit-offset", i, j)
			case len(b.offsets) > 1:
				return "batch-with-several-commit-offsets", fmt.Sprintf("db instance %d, batch %d writes the commit offset %d times: %v", i, j, len(b.offsets), b.offsets)
			case len(b.offsets) == 1:
				for rejected[next] {
					next++
				}
				if b.offsets[0] != next {
					return "commit-offset-sequence", fmt.Sprintf("db instance %d opened at commit offset %d: batch %d stores commit offset %d, expected %d", i, k.c0, j, b.offsets[0], next)
				}
				next++
			}
		}
	}
	return "", ""
}

func (o *observer) offsetsWritten() int {
	o.mu.Lock()
	defer o.mu.Unlock()
	n := 0
	for _, k := range o.kvs {
		for _, b := range k.batches {
			n += len(b.offsets)
		}
	}
	return n
}

// ---- open iterator tracking -------------------------------------------------------------
// leaderController.list closes its iterator in a goroutine *after* it has signalled completion
// (deferred it.Close() behind cb.OnComplete). A controller that is closed right after BecomeLeader
// (sessionManager.Initialize -> ListBlock) can therefore close Pebble underneath a live iterator,
// which panics inside Pebble ("send on closed channel"). The harness waits for such stragglers
// before closing a controller; see NOTES.md (incidental observation, not part of C07).

type trackedKeyIt struct {
	kv.KeyIterator
	o    *observer
	once sync.Once
}

func (t *trackedKeyIt) Close() error {
	err := t.KeyIterator.Close()
	t.once.Do(func() { t.o.iters.Add(-1) })
	return err
}

type trackedKVIt struct {
	kv.KeyValueIterator
	o    *observer
	once sync.Once
}

func (t *trackedKVIt) Close() error {
	err := t.KeyValueIterator.Close()
	t.once.Do(func() { t.o.iters.Add(-1) })
	return err
}

type trackedRevIt struct {
	kv.ReverseKeyIterator
	o    *observer
	once sync.Once
}

func (t *trackedRevIt) Close() error {
	err := t.ReverseKeyIterator.Close()
	t.once.Do(func() { t.o.iters.Add(-1) })
	return err
}

func (k *obsKV) KeyRangeScan(lo, hi string) (kv.KeyIterator, error) {
	it, err := k.KV.KeyRangeScan(lo, hi)
	if err != nil {
		return nil, err
	}
	k.o.iters.Add(1)
	return &trackedKeyIt{KeyIterator: it, o: k.o}, nil
}

func (k *obsKV) KeyIterator() (kv.KeyIterator, error) {
	it, err := k.KV.KeyIterator()
	if err != nil {
		return nil, err
	}
	k.o.iters.Add(1)
	return &trackedKeyIt{KeyIterator: it, o: k.o}, nil
}

func (k *obsKV) KeyRangeScanReverse(lo, hi string) (kv.ReverseKeyIterator, error) {
	it, err := k.KV.KeyRangeScanReverse(lo, hi)
	if err != nil {
		return nil, err
	}
	k.o.iters.Add(1)
	return &trackedRevIt{ReverseKeyIterator: it, o: k.o}, nil
}

func (k *obsKV) RangeScan(lo, hi string) (kv.KeyValueIterator, error) {
	it, err := k.KV.RangeScan(lo, hi)
	if err != nil {
		return nil, err
	}
	k.o.iters.Add(1)
	return &trackedKVIt{KeyValueIterator: it, o: k.o}, nil
}

// quiesce waits until every iterator handed out has been closed.
func (o *observer) quiesce() bool {
	deadline := time.Now().Add(10 * time.Second)
	for o.iters.Load() != 0 {
		if time.Now().After(deadline) {
			return false
		}
		runtime.Gosched()
		time.Sleep(20 * time.Microsecond)
	}
	return true
}
