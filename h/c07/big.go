package main

import (
	"fmt"
	"os"
	"path/filepath"
	"runtime"
	"strings"
	"sync"

	"github.com/oxia-db/oxia/proto"
	"github.com/oxia-db/oxia/server/kv"

	"verif/lib/oxh"
)

// The "big" log: entries whose application is large or made of several parts, so that an
// implementation that lets ONE log entry reach the KV store in more than one batch commit has
// commits to be separated by a flush / snapshot / crash.
//
//	0 session-create
//	1 one request with 583 puts: r000..r100 (threshold+1 keys), t000..t099 (exactly the threshold),
//	  u000..u149, y000..y109 and y/000..y/109 (no-slash and one-slash keys: in the hierarchical order
//	  the internal "__oxia/..." block sorts between them), every third key with a secondary index,
//	  every third one ephemeral (session 0): the delete callbacks have index and shadow records to remove
//	2 a small put
//	3 deleteRange[r, r~): threshold+1 existing keys (range tombstone branch of applyDeleteRange)
//	4 deleteRange[t, t~): exactly threshold keys (per-key branch)
//	5 mixed request: put(u005, idx) + put(m1) + delete(a-keep) + deleteRange[u, u~) (150 keys, one of them
//	  written by this very request) + an empty range
//	6 puts that re-create keys inside the deleted ranges (indexed / ephemeral)
//	7 deleteRange[y000, y/~): straddles the internal block, split by applyDeleteRange in two sub-ranges
//	  of more than threshold keys each
//	8 session-close as session.delete builds it
//	9 put + CAS on a version id handed out after all of the above
const (
	nR = kv.DeleteRangeThreshold + 1
	nT = kv.DeleteRangeThreshold
	nU = 150
	nY = 110
)

func bigPut(key string, i int) *proto.PutRequest {
	p := &proto.PutRequest{Key: key, Value: []byte(fmt.Sprintf("v-%s", key))}
	switch i % 3 {
	case 0:
		p.SecondaryIndexes = idx("i1", "s-"+key)
	case 1:
		p.SessionId = oxh.I64(0)
		p.ClientIdentity = oxh.Str("cid")
	}
	return p
}

func buildBigReference() *reference {
	return foldLog([]entryBuilder{
		sessionCreate,
		func(kv.DB) (string, *proto.WriteRequest) {
			var ps []*proto.PutRequest
			for i := 0; i < nR; i++ {
				ps = append(ps, bigPut(fmt.Sprintf("r%03d", i), i))
			}
			for i := 0; i < nT; i++ {
				ps = append(ps, bigPut(fmt.Sprintf("t%03d", i), i))
			}
			for i := 0; i < nU; i++ {
				ps = append(ps, bigPut(fmt.Sprintf("u%03d", i), i))
			}
			for i := 0; i < nY; i++ {
				ps = append(ps, bigPut(fmt.Sprintf("y%03d", i), i), bigPut(fmt.Sprintf("y/%03d", i), i+1))
			}
			ps = append(ps, &proto.PutRequest{Key: "a-keep", Value: []byte("keep"), SecondaryIndexes: idx("i2", "keep")},
				&proto.PutRequest{Key: "e-keep", Value: []byte("eph"), SessionId: oxh.I64(0), ClientIdentity: oxh.Str("cid")})
			return fmt.Sprintf("fill: %d puts in one request (r x%d, t x%d, u x%d, y and y/ x%d; 1/3 indexed, 1/3 ephemeral)", len(ps), nR, nT, nU, nY),
				&proto.WriteRequest{Puts: ps}
		},
		func(kv.DB) (string, *proto.WriteRequest) {
			return "put(m0)", &proto.WriteRequest{Puts: []*proto.PutRequest{{Key: "m0", Value: []byte("other")}}}
		},
		func(kv.DB) (string, *proto.WriteRequest) {
			return fmt.Sprintf("deleteRange[r,r~) over %d keys (threshold+1)", nR),
				&proto.WriteRequest{DeleteRanges: []*proto.DeleteRangeRequest{{StartInclusive: "r", EndExclusive: "r~"}}}
		},
		func(kv.DB) (string, *proto.WriteRequest) {
			return fmt.Sprintf("deleteRange[t,t~) over %d keys (threshold)", nT),
				&proto.WriteRequest{DeleteRanges: []*proto.DeleteRangeRequest{{StartInclusive: "t", EndExclusive: "t~"}}}
		},
		func(kv.DB) (string, *proto.WriteRequest) {
			return fmt.Sprintf("put(u005,idx)+put(m1)+delete(a-keep)+deleteRange[u,u~) over %d keys+deleteRange[k0,k9) over none", nU),
				&proto.WriteRequest{
					Puts: []*proto.PutRequest{{Key: "u005", Value: []byte("again"), SecondaryIndexes: idx("i1", "s-again")},
						{Key: "m1", Value: []byte("m1"), SecondaryIndexes: idx("i2", "m1")}},
					Deletes:      []*proto.DeleteRequest{{Key: "a-keep"}},
					DeleteRanges: []*proto.DeleteRangeRequest{{StartInclusive: "u", EndExclusive: "u~"}, {StartInclusive: "k0", EndExclusive: "k9"}}}
		},
		func(kv.DB) (string, *proto.WriteRequest) {
			return "put(r005,idx)+put(t010,ephemeral)+put(u007)", &proto.WriteRequest{Puts: []*proto.PutRequest{
				{Key: "r005", Value: []byte("back"), SecondaryIndexes: idx("i1", "s-r005")},
				{Key: "t010", Value: []byte("back"), SessionId: oxh.I64(0), ClientIdentity: oxh.Str("cid")},
				{Key: "u007", Value: []byte("back")}}}
		},
		func(kv.DB) (string, *proto.WriteRequest) {
			return fmt.Sprintf("deleteRange[y000,y/~) straddling the internal keys: 2 sub-ranges over %d keys each", nY),
				&proto.WriteRequest{DeleteRanges: []*proto.DeleteRangeRequest{{StartInclusive: "y000", EndExclusive: "y/~"}}}
		},
		sessionClose,
		func(db kv.DB) (string, *proto.WriteRequest) {
			gr, _ := db.Get(&proto.GetRequest{Key: "r005"})
			return "put(m0)+put(r005,expected=current)", &proto.WriteRequest{Puts: []*proto.PutRequest{{Key: "m0", Value: []byte("m0-9")},
				{Key: "r005", Value: []byte("cas"), ExpectedVersionId: oxh.I64(gr.GetVersion().GetVersionId()), SecondaryIndexes: idx("i1", "s-cas")}}}
		},
	})
}

// checkBigReference makes sure the log exercises what it is meant to exercise (the dumps are the
// implementation's own, so this is a statement about the script, not an oracle): the ranges hold
// the intended number of keys when they are deleted (fatal otherwise: the script is wrong). That
// they are empty afterwards is the business of C12, here it is only noted.
func checkBigReference(r *reference) (fatal error, notes []string) {
	count := func(d, prefix string) int {
		n := 0
		for _, l := range strings.Split(d, "\n") {
			if strings.HasPrefix(l, "\""+prefix) {
				n++
			}
		}
		return n
	}
	type exp struct {
		after  int
		prefix string
		n      int
		fatal  bool
	}
	for _, e := range []exp{{3, "r", nR, true}, {4, "r", 0, false}, {4, "t", nT, true}, {5, "t", 0, false}, {5, "u", nU, true}, {6, "u", 0, false},
		{7, "y", 2 * nY, true}, {8, "y", 0, false}, {8, "m", 2, true}} {
		if got := count(r.dumps[e.after], e.prefix); got != e.n {
			err := fmt.Errorf("big log: after %d entries %d keys start with %q, expected %d", e.after, got, e.prefix, e.n)
			if e.fatal {
				return err, notes
			}
			notes = append(notes, err.Error()+" (uncrashed reference fold of the implementation under test; not a C07 matter)")
		}
	}
	return nil, notes
}

// insertions returns base with one event letter of alphabet inserted at every position.
func insertions(base, alphabet string) []string {
	var out []string
	for _, c := range alphabet {
		for p := 0; p <= len(base); p++ {
			out = append(out, base[:p]+string(c)+base[p:])
		}
	}
	return out
}

// withInjections expands every base history to base+kind+k for k = 1..number of batch commits the
// implementation performs during that history (measured on the implementation under test).
func withInjections(r runner, ref *reference, bases []string, kind byte) []string {
	commits := make([]int64, len(bases))
	var wg sync.WaitGroup
	sem := make(chan struct{}, runtime.NumCPU())
	for i, b := range bases {
		wg.Add(1)
		sem <- struct{}{}
		go func(i int, b string) {
			defer wg.Done()
			defer func() { <-sem }()
			commits[i] = r(ref, b, -1, false).commits
		}(i, b)
	}
	wg.Wait()
	var out []string
	for i, b := range bases {
		for k := int64(1); k <= commits[i]; k++ {
			out = append(out, fmt.Sprintf("%s%c%d", b, kind, k))
		}
	}
	return out
}

// ---------------------------------------------------------------------------------------
// snapshot route: "<events>^k". The node runs on real directories; right before its k-th batch
// commit the database is snapshotted (what followerCursor.sendSnapshot does), the chunks are
// installed on a fresh node (what followerController.handleSnapshot does) and that node must be
// the fold of entries 0..c for the commit offset c it stores, and reach the uncrashed state by
// replaying c+1.. .

func runSnap(ref *reference, fullHist string, _ int64, _ bool) (out outcome) {
	hist, _, injK := splitHist(fullHist)
	dir := filepath.Join(scratch, fmt.Sprintf("s%d", dirSeq.Add(1)))
	dir2 := dir + "-installed"
	defer os.RemoveAll(dir)
	defer os.RemoveAll(dir2)
	var factories []kv.Factory
	defer func() {
		for _, f := range factories {
			_ = f.Close()
		}
	}()
	fail := func(key, format string, a ...any) outcome {
		out.v = &viol{key, fmt.Sprintf(format, a...)}
		return out
	}
	out.c, out.term, out.durableOff, out.durableTerm = -1, -1, -1, -1
	out.frozenStep = int64(len(hist))
	nw := countWrites(hist)
	w := 0
	si := 0
	var started []int64
	var sv *viol // verdict of the installed node
	inj := &injector{k: injK}
	inj.act = func(inner kv.KV) error {
		out.frozenStep = int64(si)
		where := fmt.Sprintf("snapshot taken right before batch commit %d of the node (during step %d, %d writes started)", injK, si, w)
		bad := func(key, format string, a ...any) error {
			sv = &viol{key, where + ": " + fmt.Sprintf(format, a...)}
			return nil
		}
		snap, err := inner.Snapshot()
		if err != nil {
			return fmt.Errorf("Snapshot: %w", err)
		}
		pf2, err := kv.NewPebbleKVFactory(&kv.FactoryOptions{DataDir: dir2, CacheSizeMB: 1})
		if err != nil {
			_ = snap.Close()
			return err
		}
		factories = append(factories, pf2)
		loader, err := pf2.NewSnapshotLoader(ns, shard)
		if err != nil {
			_ = snap.Close()
			return err
		}
		chunks := 0
		for ; snap.Valid(); snap.Next() {
			ch, err := snap.Chunk()
			if err != nil {
				_ = snap.Close()
				return fmt.Errorf("Chunk: %w", err)
			}
			if err := loader.AddChunk(ch.Name(), ch.Index(), ch.TotalCount(), ch.Content()); err != nil {
				_ = snap.Close()
				return fmt.Errorf("AddChunk: %w", err)
			}
			chunks++
		}
		loader.Complete()
		if err := loader.Close(); err != nil {
			return fmt.Errorf("loader.Close: %w", err)
		}
		if err := snap.Close(); err != nil {
			return fmt.Errorf("snapshot.Close: %w", err)
		}
		obs2 := &observer{}
		db2, err := kv.NewDB(ns, shard, &obsFactory{Factory: pf2, o: obs2}, retention, clock)
		if err != nil {
			return bad("snapshot-open-failed", "the installed database (%d chunks) does not open: %v", chunks, err)
		}
		defer db2.Close()
		c, err := db2.ReadCommitOffset()
		if err != nil {
			return bad("snapshot-commit-offset-unreadable", "%v", err)
		}
		out.c = c
		if c > int64(w-1) || c < -1 {
			return bad("snapshot-commit-offset-ahead-of-applied", "stored commit offset %d", c)
		}
		if d := dump(db2); d != ref.dumps[c+1] {
			return bad("snapshot-differs-from-fold", "installed commit offset %d but the database is not the fold of entries 0..%d: %s", c, c, firstDiff(ref.dumps[c+1], d))
		}
		t, _, err := db2.ReadTerm()
		if err != nil {
			return bad("snapshot-term-unreadable", "%v", err)
		}
		out.term = t
		known := t == -1
		for _, s := range started {
			if s == t {
				known = true
			}
		}
		if !known {
			return bad("snapshot-term-never-written", "term %d read back, written terms %v", t, started)
		}
		for k := c + 1; k < int64(nw); k++ {
			resp, err := applyEntry(db2, ref.log[k])
			if err != nil {
				return bad("snapshot-replay-error", "replay of entry %d from commit offset %d: %v", k, c, err)
			}
			if !resp.EqualVT(ref.resps[k]) {
				return bad("snapshot-replay-response-differs", "replayed entry %d answered %v, reference %v", k, resp, ref.resps[k])
			}
		}
		if d := dump(db2); d != ref.dumps[nw] {
			return bad("snapshot-replay-does-not-converge", "replay from %d to %d: %s", c+1, nw-1, firstDiff(ref.dumps[nw], d))
		}
		if key, msg := obs2.check(nil); key != "" {
			return bad("snapshot-"+key, "%s", msg)
		}
		out.offsets += obs2.offsetsWritten()
		return nil
	}
	obs := &observer{inj: inj}
	open := func() (kv.DB, error) {
		pf, err := kv.NewPebbleKVFactory(&kv.FactoryOptions{DataDir: dir, CacheSizeMB: 1})
		if err != nil {
			return nil, err
		}
		factories = append(factories, pf)
		return kv.NewDB(ns, shard, &obsFactory{Factory: pf, o: obs}, retention, clock)
	}
	db, err := open()
	if err != nil {
		return fail("open-failed", "initial open: %v", err)
	}
	inj.armed.Store(true)
	term := int64(0)
	for si = 0; si < len(hist); si++ {
		switch hist[si] {
		case 'W':
			e := ref.log[w]
			w++
			before := inj.seen.Load()
			resp, err := applyEntry(db, e)
			if err != nil {
				_ = db.Close()
				return fail("step-error:ProcessWrite", "step %d: entry %d (%s): %v", si, e.off, e.name, err)
			}
			if !resp.EqualVT(ref.resps[e.off]) {
				_ = db.Close()
				return fail("response-differs", "step %d: entry %d (%s) answered %v, reference %v", si, e.off, e.name, resp, ref.resps[e.off])
			}
			if n := inj.seen.Load() - before; n > out.maxCommitsPerEntry {
				out.maxCommitsPerEntry = n
			}
		case 'T':
			term++
			started = append(started, term)
			if err := db.UpdateTerm(term, kv.TermOptions{NotificationsEnabled: true}); err != nil {
				_ = db.Close()
				return fail("step-error:UpdateTerm", "step %d: %v", si, err)
			}
		case 'F':
			if err := kv.VerifKV(db).Flush(); err != nil {
				_ = db.Close()
				return fail("step-error:Flush", "step %d: %v", si, err)
			}
		case 'S':
			snap, err := db.Snapshot()
			if err != nil {
				_ = db.Close()
				return fail("step-error:Snapshot", "step %d: %v", si, err)
			}
			_ = snap.Close()
		case 'C':
			if err := db.Close(); err != nil {
				return fail("step-error:Close", "step %d: %v", si, err)
			}
			if db, err = open(); err != nil {
				return fail("step-error:Reopen", "step %d: graceful reopen: %v", si, err)
			}
			if c, err := db.ReadCommitOffset(); err != nil || c != int64(w-1) {
				_ = db.Close()
				return fail("graceful-restart-offset", "step %d: after graceful close+reopen the commit offset is %d (err %v), applied %d", si, c, err, w-1)
			}
		}
	}
	inj.armed.Store(false)
	out.commits = inj.seen.Load()
	out.injected = inj.fired.Load()
	defer db.Close()
	if err := inj.failure(); err != nil {
		return fail("step-error:InjectedSnapshot", "snapshot before batch commit %d: %v", injK, err)
	}
	if sv != nil {
		out.v = sv
		return out
	}
	// the node that was snapshotted is not disturbed by it
	if d := dump(db); d != ref.dumps[nw] {
		return fail("snapshotted-node-differs-from-fold", "snapshot before batch commit %d: the node itself is not the fold of entries 0..%d at the end of the history: %s", injK, nw-1, firstDiff(ref.dumps[nw], d))
	}
	if key, msg := obs.check(nil); key != "" {
		return fail(key, "snapshot route, the snapshotted node: %s", msg)
	}
	out.offsets += obs.offsetsWritten()
	return out
}
