package main

import (
	"context"
	"fmt"
	"io"
	"os"
	"path/filepath"
	"runtime"
	"sync"
	"time"

	"github.com/cockroachdb/pebble/vfs"
	"google.golang.org/grpc/metadata"

	"github.com/oxia-db/oxia/proto"
	"github.com/oxia-db/oxia/server"
	"github.com/oxia-db/oxia/server/kv"
	"github.com/oxia-db/oxia/server/wal"

	"verif/lib/oxh"
)

// (c) a real follower controller fed by a scripted replication stream. The WAL is on real files
// (durable), the database on the crash filesystem.
// Events: W = Append(entry k, commitOffset=k) and wait until the follower has applied k;
// P = Append(entry k, commitOffset=k-1) (the entry stays uncommitted until the next append: the
// apply round that follows covers two entries); T = NewTerm(term+1) + new stream;
// C = graceful Close + new controller + NewTerm + new stream.
// After the crash: new controller on the same WAL + crashed DB, NewTerm, new stream, one more
// append that commits everything; the follower must reach the fold of its whole WAL.

type scriptedStream struct {
	ctx    context.Context
	cancel context.CancelFunc
	in     chan *proto.Append
	mu     sync.Mutex
	acks   []int64
}

func newScriptedStream() *scriptedStream {
	s := &scriptedStream{in: make(chan *proto.Append, 16)}
	s.ctx, s.cancel = context.WithCancel(context.Background())
	return s
}

func (s *scriptedStream) Send(a *proto.Ack) error {
	s.mu.Lock()
	s.acks = append(s.acks, a.Offset)
	s.mu.Unlock()
	return nil
}

func (s *scriptedStream) Recv() (*proto.Append, error) {
	select {
	case a := <-s.in:
		return a, nil
	case <-s.ctx.Done():
		return nil, io.EOF
	}
}

func (s *scriptedStream) acked(off int64) bool {
	s.mu.Lock()
	defer s.mu.Unlock()
	for _, a := range s.acks {
		if a == off {
			return true
		}
	}
	return false
}

func (s *scriptedStream) SetHeader(metadata.MD) error  { return nil }
func (s *scriptedStream) SendHeader(metadata.MD) error { return nil }
func (s *scriptedStream) SetTrailer(metadata.MD)       {}
func (s *scriptedStream) Context() context.Context     { return s.ctx }
func (s *scriptedStream) SendMsg(any) error            { return nil }
func (s *scriptedStream) RecvMsg(any) error            { return nil }

func waitFor(cond func() bool) bool {
	deadline := time.Now().Add(20 * time.Second)
	for !cond() {
		if time.Now().After(deadline) {
			return false
		}
		runtime.Gosched()
		time.Sleep(20 * time.Microsecond)
	}
	return true
}

func runFollower(ref *reference, hist string, crashAt int64, trace bool) (out outcome) {
	hist, injKind, injK := splitHist(hist)
	inj := &injector{}
	if injKind == '@' {
		inj.k = injK
		inj.act = func(inner kv.KV) error { return inner.Flush() }
	}
	cfs := newCountFS(crashAt, trace)
	dir := filepath.Join(scratch, fmt.Sprintf("f%d", dirSeq.Add(1)))
	fsReg.Store(dir, vfs.FS(cfs))
	defer fsReg.Delete(dir)
	defer os.RemoveAll(dir)
	makeDurableDir(cfs.mem, filepath.Join(dir, ns, fmt.Sprintf("shard-%d", shard)))
	obs := &observer{inj: inj}
	walf := wal.NewWalFactory(&wal.FactoryOptions{BaseWalDir: filepath.Join(dir, "wal"), Retention: time.Hour, SegmentSize: 256 * 1024, SyncData: true})
	defer walf.Close()
	var factories []kv.Factory
	defer func() {
		for _, f := range factories {
			_ = f.Close()
		}
	}()
	cfg := server.Config{NotificationsRetentionTime: retention}
	newFC := func() (server.FollowerController, error) {
		pf, err := kv.NewPebbleKVFactory(&kv.FactoryOptions{DataDir: dir, CacheSizeMB: 1})
		if err != nil {
			return nil, err
		}
		factories = append(factories, pf)
		return server.NewFollowerController(cfg, ns, shard, walf, &obsFactory{Factory: pf, o: obs})
	}
	fail := func(key, format string, a ...any) outcome {
		out.v = &viol{key, fmt.Sprintf(format, a...)}
		return out
	}
	out.c, out.term, out.durableOff, out.durableTerm = -1, -1, -1, -1
	term := int64(0)
	var started []int64
	var stream *scriptedStream
	var streamDone chan struct{}
	stopStream := func() {
		if stream != nil {
			stream.cancel()
			<-streamDone
			stream = nil
		}
	}
	// fence = what the coordinator + new leader do to a follower at an election
	fence := func(fc server.FollowerController, preCrash bool) error {
		term++
		started = append(started, term)
		if _, err := fc.NewTerm(&proto.NewTermRequest{Namespace: ns, Shard: shard, Term: term, Options: &proto.NewTermOptions{EnableNotifications: true}}); err != nil {
			return fmt.Errorf("NewTerm(%d): %w", term, err)
		}
		if preCrash && !cfs.frozen.Load() {
			out.durableTerm = term
		}
		stopStream()
		stream = newScriptedStream()
		streamDone = make(chan struct{})
		st, done := stream, streamDone
		go func() {
			_ = fc.Replicate(st)
			close(done)
		}()
		return nil
	}
	cfs.curStep.Store(-1)
	fc, err := newFC()
	if err != nil {
		return fail("open-failed", "initial controller: %v", err)
	}
	shutdown := func(fc server.FollowerController) {
		stopStream()
		obs.quiesce()
		_ = fc.Close()
	}
	if err := fence(fc, true); err != nil {
		shutdown(fc)
		return fail("step-error:NewTerm", "initial: %v", err)
	}
	out.openOps = cfs.n.Load()
	inj.armed.Store(true)
	w := 0 // entries appended
	send := func(fc server.FollowerController, k int, commit int64) bool {
		e := ref.log[k]
		stream.in <- &proto.Append{Term: term, Entry: &proto.LogEntry{Term: term, Offset: e.off, Value: e.raw, Timestamp: e.ts}, CommitOffset: commit}
		st := stream
		return waitFor(func() bool { return st.acked(e.off) && fc.CommitOffset() >= commit })
	}
	alive := true
	for si := 0; si < len(hist) && !cfs.frozen.Load(); si++ {
		cfs.curStep.Store(int64(si))
		switch hist[si] {
		case 'W', 'P':
			commit := int64(w)
			if hist[si] == 'P' {
				commit = int64(w - 1)
			}
			k := w
			w++
			if !send(fc, k, commit) {
				shutdown(fc)
				return fail("follower-stuck", "step %d: entry %d appended with commit offset %d: follower commit offset stays at %d", si, k, commit, fc.CommitOffset())
			}
		case 'T':
			if err := fence(fc, true); err != nil {
				shutdown(fc)
				return fail("step-error:NewTerm", "step %d: %v", si, err)
			}
		case 'C':
			stopStream()
			obs.quiesce()
			if err := fc.Close(); err != nil {
				return fail("step-error:Close", "step %d: %v", si, err)
			}
			if cfs.frozen.Load() {
				alive = false
				break
			}
			if fc, err = newFC(); err != nil {
				return fail("step-error:Reopen", "step %d: %v", si, err)
			}
			if err := fence(fc, true); err != nil {
				shutdown(fc)
				return fail("step-error:NewTerm", "step %d: after graceful restart: %v", si, err)
			}
		}
	}
	if !cfs.frozen.Load() {
		cfs.curStep.Store(int64(len(hist)))
		cfs.freeze("<end of history>")
	}
	inj.armed.Store(false)
	out.commits = inj.seen.Load()
	out.injected = inj.fired.Load()
	out.fsOps = cfs.n.Load()
	out.frozenStep = cfs.frozenStep.Load()
	out.frozenOp, _ = cfs.frozenOp.Load().(string)
	if alive {
		shutdown(fc)
	}
	if trace {
		out.kinds = cfs.kinds
	}
	cfs.crash()

	// ---- restart
	where := fmt.Sprintf("crash at fs-op %d (before %q, during step %d), %d entries appended", crashAt, out.frozenOp, out.frozenStep, w)
	if out.injected {
		where += fmt.Sprintf(", KV flushed right before batch commit %d of the node", injK)
	}
	if err := inj.failure(); err != nil {
		return fail("step-error:InjectedFlush", "%s: %v", where, err)
	}
	fc2, err := newFC()
	if err != nil {
		return fail("reopen-failed", "%s: controller does not start: %v", where, err)
	}
	defer func() { shutdown(fc2) }()
	db := server.VerifC07FollowerDB(fc2)
	c, err := db.ReadCommitOffset()
	if err != nil {
		return fail("reopen-commit-offset-unreadable", "%s: %v", where, err)
	}
	out.c = c
	walLast := server.VerifC07FollowerWal(fc2).LastOffset()
	if walLast != int64(w-1) {
		return fail("wal-length", "%s: follower WAL last offset %d, %d entries were acknowledged", where, walLast, w)
	}
	if c > walLast || c < -1 {
		return fail("commit-offset-ahead-of-log", "%s: stored commit offset %d, WAL last offset %d", where, c, walLast)
	}
	if d := dump(db); d != ref.dumps[c+1] {
		return fail("state-differs-from-fold", "%s: commit offset %d but the database is not the fold of WAL entries 0..%d: %s", where, c, c, firstDiff(ref.dumps[c+1], d))
	}
	t := fc2.Term()
	out.term = t
	known := t == -1
	for _, s := range started {
		if s == t {
			known = true
		}
	}
	if !known {
		return fail("term-never-written", "%s: term %d read back, written terms %v", where, t, started)
	}
	if t < out.durableTerm {
		return fail("term-regressed", "%s: NewTerm(%d) had been answered before the crash but term %d is read back", where, out.durableTerm, t)
	}
	term = t
	if term < 0 {
		term = 0
	}
	if err := fence(fc2, false); err != nil {
		return fail("newterm-after-crash-failed", "%s: %v", where, err)
	}
	// the leader goes on: one more entry whose commit offset covers everything
	if w < len(ref.log) {
		k := w
		w++
		if !send(fc2, k, int64(k)) {
			return fail("follower-stuck-after-crash", "%s: entry %d appended with commit offset %d: follower commit offset stays at %d (stored %d)", where, k, k, fc2.CommitOffset(), c)
		}
	}
	// quiet point: the apply goroutine has nothing left to do
	stopStream()
	db = server.VerifC07FollowerDB(fc2)
	if c2, err := db.ReadCommitOffset(); err != nil || c2 != int64(w-1) {
		return fail("replay-incomplete", "%s: commit offset %d (err %v) after the follower caught up to %d", where, c2, err, w-1)
	}
	if d := dump(db); d != ref.dumps[w] {
		return fail("replay-does-not-converge", "%s: after re-applying from %d: %s", where, c+1, firstDiff(ref.dumps[w], d))
	}
	if key, msg := obs.check(nil); key != "" {
		return fail(key, "%s: %s", where, msg)
	}
	out.offsets = obs.offsetsWritten()
	return out
}

var _ = oxh.I64
