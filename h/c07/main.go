// C07: log application is crash-atomic, exactly-once and in order.
//
// E3b fault enumeration: every history (writes interleaved with the events that make Pebble touch
// the disk) is re-run once per filesystem operation j; right before operation j durability is
// frozen, the running step completes, the database is abandoned and the strict in-memory
// filesystem is reset to exactly what had been fsynced. The node is restarted on that disk and
// compared with a reference instance that applied log entries 0..c exactly once, in order.
//
// The multi-threaded part of C07 ("several writes in flight", overlapping follower apply rounds)
// needs controlled schedules and is handled by the scheduler-based harness, not here.
package main

import (
	"flag"
	"fmt"
	"net/url"
	"os"
	"path/filepath"
	"runtime"
	"runtime/debug"
	"sort"
	"strings"
	"sync"
	"sync/atomic"
	"time"

	"github.com/cockroachdb/pebble/vfs"

	"github.com/oxia-db/oxia/common/metric"
	time2 "github.com/oxia-db/oxia/common/time"
	"github.com/oxia-db/oxia/proto"
	"github.com/oxia-db/oxia/server"
	"github.com/oxia-db/oxia/server/kv"

	"verif/lib/ev"
	"verif/lib/oxh"
)

const (
	ns        = "ns"
	shard     = int64(1)
	retention = 24 * 365 * 100 * time.Hour
)

var (
	clock   = &time2.MockedClock{}
	scratch string
	fsReg   sync.Map
	dirSeq  atomic.Int64
)

func tsOf(off int64) uint64 { return uint64(1_000_000 + 1000*off) }

type logEntry struct {
	off  int64
	ts   uint64
	raw  []byte
	name string
}

func encode(req *proto.WriteRequest) []byte {
	lev := &proto.LogEntryValue{Value: &proto.LogEntryValue_Requests{Requests: &proto.WriteRequests{Writes: []*proto.WriteRequest{req}}}}
	b, err := lev.MarshalVT()
	if err != nil {
		panic(err)
	}
	return b
}

func applyEntry(db kv.DB, e logEntry) (*proto.WriteResponse, error) {
	lev := &proto.LogEntryValue{}
	if err := lev.UnmarshalVT(e.raw); err != nil {
		panic(err)
	}
	var last *proto.WriteResponse
	for _, w := range lev.GetRequests().Writes {
		r, err := db.ProcessWrite(w, e.off, e.ts, server.WrapperUpdateOperationCallback)
		if err != nil {
			return nil, err
		}
		last = r
	}
	return last, nil
}

func dump(db kv.DB) string {
	return strings.Join(oxh.DumpDB(db, oxh.DumpOpts{SkipTerm: true}), "\n")
}

func firstDiff(a, b string) string {
	la, lb := strings.Split(a, "\n"), strings.Split(b, "\n")
	for i := 0; i < len(la) || i < len(lb); i++ {
		x, y := "<missing>", "<missing>"
		if i < len(la) {
			x = la[i]
		}
		if i < len(lb) {
			y = lb[i]
		}
		if x != y {
			return fmt.Sprintf("line %d: reference=[%s] restarted node=[%s]", i, x, y)
		}
	}
	return "no difference"
}

// ---------------------------------------------------------------------------------------
// the log and the reference fold

type reference struct {
	log   []logEntry
	dumps []string // dumps[k]: reference instance after entries 0..k-1, each applied exactly once, in order
	resps []*proto.WriteResponse
}

var sessionMeta = func() []byte {
	b, _ := (&proto.SessionMetadata{TimeoutMs: 5000, Identity: "cid"}).MarshalVT()
	return b
}()

func idx(name, key string) []*proto.SecondaryIndex {
	return []*proto.SecondaryIndex{{IndexName: name, SecondaryKey: key}}
}

// entryBuilder returns the next request of a scripted log; db is the reference instance that has
// applied everything before it (session close requests list it the way session.delete does).
type entryBuilder func(db kv.DB) (name string, req *proto.WriteRequest)

// foldLog logs the requests the way a leader does and folds them over a fresh database.
func foldLog(builders []entryBuilder) *reference {
	f := oxh.NewMemFactory()
	defer f.Close()
	db, err := kv.NewDB(ns, shard, f, retention, clock)
	if err != nil {
		panic(err)
	}
	defer db.Close()
	r := &reference{}
	r.dumps = append(r.dumps, dump(db))
	for w, b := range builders {
		name, req := b(db)
		req.Shard = oxh.I64(shard)
		e := logEntry{off: int64(w), ts: tsOf(int64(w)), raw: encode(req), name: name}
		resp, err := applyEntry(db, e)
		if err != nil {
			panic(fmt.Sprintf("reference cannot apply %s: %v", name, err))
		}
		r.log = append(r.log, e)
		r.resps = append(r.resps, resp)
		r.dumps = append(r.dumps, dump(db))
	}
	return r
}

// sessionClose builds the request session.delete sends when session 0 expires / is closed.
func sessionClose(db kv.DB) (string, *proto.WriteRequest) {
	sk := server.SessionKey(server.SessionId(0))
	it, err := db.List(&proto.ListRequest{StartInclusive: sk + "/", EndExclusive: sk + "//"})
	if err != nil {
		panic(err)
	}
	var dels []*proto.DeleteRequest
	for ; it.Valid(); it.Next() {
		if un, err := url.PathUnescape(it.Key()[len(sk)+1:]); err == nil && un != "" {
			dels = append(dels, &proto.DeleteRequest{Key: un})
		}
	}
	_ = it.Close()
	dels = append(dels, &proto.DeleteRequest{Key: sk})
	return "session-close", &proto.WriteRequest{Deletes: dels, DeleteRanges: []*proto.DeleteRangeRequest{{StartInclusive: sk + "/", EndExclusive: sk + "//"}}}
}

func sessionCreate(kv.DB) (string, *proto.WriteRequest) {
	return "session-create", &proto.WriteRequest{Puts: []*proto.PutRequest{{Key: server.SessionKey(server.SessionId(0)), Value: append([]byte(nil), sessionMeta...)}}}
}

// buildReference: the small log (maxWrites one-batch entries) of the original three suites.
func buildReference() *reference {
	big := func() []*proto.PutRequest {
		var ps []*proto.PutRequest
		for i := 0; i < 20; i++ {
			ps = append(ps, &proto.PutRequest{Key: fmt.Sprintf("k%02d", i), Value: []byte(strings.Repeat(fmt.Sprintf("v%02d.", i), 50))})
		}
		return ps
	}
	return foldLog([]entryBuilder{
		sessionCreate,
		func(kv.DB) (string, *proto.WriteRequest) {
			return "put-ephemeral(a)+put(b,idx)", &proto.WriteRequest{Puts: []*proto.PutRequest{
				{Key: "a", Value: []byte("a1"), SessionId: oxh.I64(0), ClientIdentity: oxh.Str("cid")},
				{Key: "b", Value: []byte("b1"), SecondaryIndexes: idx("i1", "x")}}}
		},
		func(kv.DB) (string, *proto.WriteRequest) {
			return "seq-put(s,+1)+delete(b)", &proto.WriteRequest{Puts: []*proto.PutRequest{{Key: "s", Value: []byte("s2"), PartitionKey: oxh.Str("p"), SequenceKeyDelta: []uint64{1}}},
				Deletes: []*proto.DeleteRequest{{Key: "b"}}}
		},
		func(kv.DB) (string, *proto.WriteRequest) {
			return "put(k00..k19)+put(c,idx)+deleteRange[k05,k10)", &proto.WriteRequest{Puts: append(big(), &proto.PutRequest{Key: "c", Value: []byte("c3"), SecondaryIndexes: idx("i1", "y")}),
				DeleteRanges: []*proto.DeleteRangeRequest{{StartInclusive: "k05", EndExclusive: "k10"}}}
		},
		sessionClose,
		func(db kv.DB) (string, *proto.WriteRequest) {
			gr, _ := db.Get(&proto.GetRequest{Key: "c"})
			return "put(a)+put(c,expected=current)", &proto.WriteRequest{Puts: []*proto.PutRequest{{Key: "a", Value: []byte("a5")},
				{Key: "c", Value: []byte("c5"), ExpectedVersionId: oxh.I64(gr.GetVersion().GetVersionId())}}}
		},
	})
}

// ---------------------------------------------------------------------------------------
// one run of (history, crash index)

type viol struct{ key, msg string }

type outcome struct {
	v                  *viol
	openOps            int64  // operations counted when the initial open (and first election) returned
	fsOps              int64  // operations counted until the crash / end
	frozenStep         int64  // step executing at the freeze; len(hist) = after the history; -1 = during the initial open
	frozenOp           string // the operation that was about to run
	c                  int64  // commit offset found after restart
	term               int64
	durableOff         int64
	durableTerm        int64
	offsets            int
	kinds              map[string]int64
	flushLost          bool
	closeLost          bool
	commits            int64 // KV batch commits of the node under test up to the crash / end of the history
	maxCommitsPerEntry int64 // most batch commits seen during the application of one log entry
	injected           bool  // the "@k" / "^k" action ran
}

func countWrites(h string) int { return strings.Count(h, "W") }

// A history may end in "@k" (Flush of the KV right before the k-th batch commit of the node, then
// the run goes on; the crash index j is enumerated as for every history) or "^k" (snapshot route,
// see runSnap).
func splitHist(h string) (events string, kind byte, k int64) {
	if i := strings.IndexAny(h, "@^"); i >= 0 {
		_, _ = fmt.Sscanf(h[i+1:], "%d", &k)
		return h[:i], h[i], k
	}
	return h, 0, 0
}

func runOne(ref *reference, hist string, crashAt int64, trace bool) (out outcome) {
	fullHist := hist
	hist, injKind, injK := splitHist(fullHist)
	if injKind == '^' {
		return runSnap(ref, fullHist, crashAt, trace)
	}
	cfs := newCountFS(crashAt, trace)
	dir := filepath.Join(scratch, fmt.Sprintf("d%d", dirSeq.Add(1)))
	fsReg.Store(dir, vfs.FS(cfs))
	makeDurableDir(cfs.mem, filepath.Join(dir, ns, fmt.Sprintf("shard-%d", shard)))
	defer fsReg.Delete(dir)
	defer os.RemoveAll(dir)
	inj := &injector{}
	if injKind == '@' {
		inj.k = injK
		inj.act = func(inner kv.KV) error { return inner.Flush() }
	}
	obs := &observer{inj: inj}
	var factories []kv.Factory
	defer func() {
		for _, f := range factories {
			_ = f.Close()
		}
	}()
	open := func() (kv.DB, error) {
		pf, err := kv.NewPebbleKVFactory(&kv.FactoryOptions{DataDir: dir, CacheSizeMB: 1})
		if err != nil {
			return nil, err
		}
		factories = append(factories, pf)
		_ = cfs.RemoveAll(filepath.Join(dir, "snapshots")) // cleanupSnapshots, on the filesystem the checkpoints are really in
		// Pebble writes the checkpoint into the crash filesystem; kv_pebble_snapshot.go then lists it
		// with package os. Give it (empty) real directories so that Snapshot() succeeds.
		for k := 1; k <= strings.Count(hist, "S"); k++ {
			_ = os.MkdirAll(filepath.Join(dir, "snapshots", fmt.Sprintf("shard-%d", shard), fmt.Sprintf("snapshot-%d", k)), 0o755)
		}
		return kv.NewDB(ns, shard, &obsFactory{Factory: pf, o: obs}, retention, clock)
	}
	fail := func(key, format string, a ...any) outcome {
		out.v = &viol{key, fmt.Sprintf(format, a...)}
		return out
	}
	out.c, out.term, out.durableOff, out.durableTerm = -1, -1, -1, -1
	nw := countWrites(hist)
	cfs.curStep.Store(-1)
	db, err := open()
	if err != nil {
		return fail("open-failed", "initial open: %v", err)
	}
	out.openOps = cfs.n.Load()
	inj.armed.Store(true)
	w := 0              // writes started so far
	term := int64(0)    // last term whose UpdateTerm was started
	var started []int64 // all terms whose UpdateTerm was started
	alive := true
	for si := 0; si < len(hist) && !cfs.frozen.Load(); si++ {
		cfs.curStep.Store(int64(si))
		switch hist[si] {
		case 'W':
			e := ref.log[w]
			w++
			before := inj.seen.Load()
			resp, err := applyEntry(db, e)
			if err != nil {
				_ = db.Close()
				return fail("step-error:ProcessWrite", "step %d: entry %d (%s): %v", si, e.off, e.name, err)
			}
			if n := inj.seen.Load() - before; n > out.maxCommitsPerEntry {
				out.maxCommitsPerEntry = n
			}
			if !resp.EqualVT(ref.resps[e.off]) {
				_ = db.Close()
				return fail("response-differs", "step %d: entry %d (%s) answered %v, reference %v", si, e.off, e.name, resp, ref.resps[e.off])
			}
		case 'T':
			term++
			started = append(started, term)
			if err := db.UpdateTerm(term, kv.TermOptions{NotificationsEnabled: true}); err != nil {
				_ = db.Close()
				return fail("step-error:UpdateTerm", "step %d: %v", si, err)
			}
			if !cfs.frozen.Load() {
				out.durableTerm = term // the call returned before the crash point
			}
		case 'F':
			if err := kv.VerifKV(db).Flush(); err != nil {
				_ = db.Close()
				return fail("step-error:Flush", "step %d: %v", si, err)
			}
			if !cfs.frozen.Load() {
				out.durableOff = int64(w - 1)
			}
		case 'S':
			snap, err := db.Snapshot()
			if err != nil {
				_ = db.Close()
				return fail("step-error:Snapshot", "step %d: %v", si, err)
			}
			for ; snap.Valid(); snap.Next() {
				if _, err := snap.Chunk(); err != nil {
					break
				}
			}
			_ = snap.Close()
			_ = cfs.RemoveAll(snap.BasePath()) // pebbleSnapshot.Close removes the checkpoint
			if !cfs.frozen.Load() {
				out.durableOff = int64(w - 1)
			}
		case 'C':
			if err := db.Close(); err != nil {
				return fail("step-error:Close", "step %d: %v", si, err)
			}
			if !cfs.frozen.Load() {
				out.durableOff = int64(w - 1)
			}
			if cfs.frozen.Load() {
				alive = false
				break
			}
			if db, err = open(); err != nil {
				return fail("step-error:Reopen", "step %d: graceful reopen: %v", si, err)
			}
			c, err := db.ReadCommitOffset()
			if err != nil || c > int64(w-1) {
				_ = db.Close()
				return fail("graceful-restart-offset", "step %d: after graceful close+reopen the commit offset is %d (err %v), applied %d", si, c, err, w-1)
			}
			if c < int64(w-1) {
				// not C07's business (the node replays); keep going like a real node would
				out.closeLost = true
				for k := c + 1; k < int64(w); k++ {
					if _, err := applyEntry(db, ref.log[k]); err != nil {
						_ = db.Close()
						return fail("step-error:ProcessWrite", "step %d: replay after graceful restart, entry %d: %v", si, k, err)
					}
				}
			}
		}
	}
	if !cfs.frozen.Load() {
		cfs.curStep.Store(int64(len(hist)))
		cfs.freeze("<end of history>")
	}
	inj.armed.Store(false)
	out.commits = inj.seen.Load()
	out.injected = inj.fired.Load()
	out.fsOps = cfs.n.Load()
	out.frozenStep = cfs.frozenStep.Load()
	out.frozenOp, _ = cfs.frozenOp.Load().(string)
	if alive {
		_ = db.Close() // lets background work finish; nothing it writes is durable any more
	}
	if err := inj.failure(); err != nil {
		return fail("step-error:InjectedFlush", "Flush before batch commit %d: %v", injK, err)
	}
	if trace {
		out.kinds = cfs.kinds
	}
	cfs.crash()

	// ---- restart on the disk the crash left
	db2, err := open()
	if err != nil {
		return fail("reopen-failed", "crash at fs-op %d (%s, step %d): database does not open: %v", crashAt, out.frozenOp, out.frozenStep, err)
	}
	defer db2.Close()
	c, err := db2.ReadCommitOffset()
	if err != nil {
		return fail("reopen-commit-offset-unreadable", "crash at fs-op %d: %v", crashAt, err)
	}
	out.c = c
	where := fmt.Sprintf("crash at fs-op %d (before %q, during step %d), %d writes started", crashAt, out.frozenOp, out.frozenStep, w)
	if injKind == '@' && out.injected {
		where += fmt.Sprintf(", KV flushed right before batch commit %d of the node", injK)
	}
	if c > int64(w-1) || c < -1 {
		return fail("commit-offset-ahead-of-applied", "%s: stored commit offset %d", where, c)
	}
	if c < out.durableOff {
		out.flushLost = true // not demanded by C07 (replay covers it); reported as a counter
	}
	if d := dump(db2); d != ref.dumps[c+1] {
		return fail("state-differs-from-fold", "%s: commit offset %d but the database is not the fold of entries 0..%d: %s", where, c, c, firstDiff(ref.dumps[c+1], d))
	}
	t, _, err := db2.ReadTerm()
	if err != nil {
		return fail("reopen-term-unreadable", "%s: %v", where, err)
	}
	out.term = t
	known := t == -1
	for _, s := range started {
		if s == t {
			known = true
		}
	}
	if !known {
		return fail("term-never-written", "%s: term %d read back, written terms %v", where, t, started)
	}
	if t < out.durableTerm {
		return fail("term-regressed", "%s: UpdateTerm(%d) had returned before the crash but term %d is read back", where, out.durableTerm, t)
	}
	// resume replay at c+1 over the whole log of the history
	for k := c + 1; k < int64(nw); k++ {
		resp, err := applyEntry(db2, ref.log[k])
		if err != nil {
			return fail("replay-error", "%s: replay of entry %d from commit offset %d: %v", where, k, c, err)
		}
		if !resp.EqualVT(ref.resps[k]) {
			return fail("replay-response-differs", "%s: replayed entry %d answered %v, reference %v", where, k, resp, ref.resps[k])
		}
	}
	if d := dump(db2); d != ref.dumps[nw] {
		return fail("replay-does-not-converge", "%s: replay from %d to %d: %s", where, c+1, nw-1, firstDiff(ref.dumps[nw], d))
	}
	if key, msg := obs.check(nil); key != "" {
		return fail(key, "%s: %s", where, msg)
	}
	out.offsets = obs.offsetsWritten()
	return out
}

// ---------------------------------------------------------------------------------------

// allSeq returns every sequence of length 3..maxLen over the alphabet with 3..5 log entries
// (letters in writes), followed by the extra hand-written (longer) ones.
func allSeq(alphabet, writes string, maxLen int, extra ...string) []string {
	var out []string
	var rec func(s string)
	rec = func(s string) {
		n := 0
		for _, c := range s {
			if strings.ContainsRune(writes, c) {
				n++
			}
		}
		if len(s) >= 3 && n >= 3 && n <= 5 {
			out = append(out, s)
		}
		if len(s) == maxLen {
			return
		}
		for _, c := range alphabet {
			rec(s + string(c))
		}
	}
	rec("")
	return append(out, extra...)
}

func histories(tier string) []string {
	if tier != "thorough" {
		return allSeq("WTFSC", "W", 5, "TWFWSWCWT", "SWTFCWWW", "CWCWWF")
	}
	return allSeq("WTFSC", "W", 6, "TWFWSWCWT", "SWTFCWWW")
}

type job struct {
	suite string
	hist  string
	j     int64
}

type runner func(ref *reference, hist string, crashAt int64, trace bool) outcome

// "db", "leader", "follower": the small log (ref); "dbbig": kv.DB alone over the big log (bigRef, see
// big.go). A history of "db"/"dbbig" that ends in "^k" takes the snapshot route (runSnap).
var bigRef *reference

var suites = map[string]runner{"db": runOne, "leader": runLeader, "follower": runFollower,
	"dbbig": func(_ *reference, hist string, crashAt int64, trace bool) outcome {
		return runOne(bigRef, hist, crashAt, trace)
	},
	"leaderbig": func(_ *reference, hist string, crashAt int64, trace bool) outcome {
		return runLeader(bigRef, hist, crashAt, trace)
	},
	"followerbig": func(_ *reference, hist string, crashAt int64, trace bool) outcome {
		return runFollower(bigRef, hist, crashAt, trace)
	}}

// bigHistories: every entry of the big log, with one event of {T,F,S,C} at every position.
func bigHistories(tier string) (plain []string) {
	base := strings.Repeat("W", len(bigRef.log))
	plain = append([]string{base}, insertions(base, "TFSC")...)
	if tier == "thorough" {
		for _, h := range insertions(base, "TFSC") {
			plain = append(plain, insertions(h, "TC")...)
		}
	}
	return plain
}

func followerHistories(tier string) []string {
	if tier != "thorough" {
		return allSeq("WPTC", "WP", 4, "WPTPWCW", "PPPPW", "WCPTW")
	}
	return allSeq("WPTC", "WP", 5, "WPTPWCW")
}

func leaderHistories(tier string) []string {
	if tier != "thorough" {
		return allSeq("WESC", "W", 4, "WEWSWCW", "WWWWW", "WCWEW")
	}
	return allSeq("WESC", "W", 5, "WEWSWCW")
}

func main() {
	replay := flag.String("replay", "", "replay file")
	flag.Parse()
	oxh.Quiet()
	debug.SetGCPercent(400)
	metric.VerifUseNoopMeter()
	scratch = ev.Scratch("c07")
	defer os.RemoveAll(scratch)
	kv.VerifFSHook = func(dataDir string, _ bool, def vfs.FS) vfs.FS {
		if fs, ok := fsReg.Load(dataDir); ok {
			return fs.(vfs.FS)
		}
		return def
	}
	run := ev.NewRun("C07", "fault_enumeration")
	ref := buildReference()
	bigRef = buildBigReference()
	fatal, refNotes := checkBigReference(bigRef)
	if fatal != nil {
		fmt.Println("C07:", fatal)
		os.Exit(2)
	}
	for _, n := range refNotes {
		run.Note(n)
	}
	if *replay != "" {
		code := doReplay(*replay, ref)
		os.RemoveAll(scratch)
		os.Exit(code)
	}
	var hs []job
	for _, h := range histories(run.Tier) {
		hs = append(hs, job{"db", h, -1})
	}
	nDB := len(hs)
	for _, h := range leaderHistories(run.Tier) {
		hs = append(hs, job{"leader", h, -1})
	}
	nLeader := len(hs) - nDB
	for _, h := range followerHistories(run.Tier) {
		hs = append(hs, job{"follower", h, -1})
	}
	nFollower := len(hs) - nDB - nLeader
	// multi-part entries: the big log, a flush ("@k") before every batch commit the implementation
	// performs, every crash index of those runs; the snapshot route ("^k") at every batch commit
	smallBase := strings.Repeat("W", len(ref.log))
	var snapJobs []job
	bigSample := 0
	nBigPlain, nInjSmall, nInjBig, nCtlBig := 0, 0, 0, 0
	{
		plain := bigHistories(run.Tier)
		injBases := []string{plain[0]}
		if run.Tier == "thorough" {
			injBases = plain[:1+4*(len(bigRef.log)+1)]
		}
		inj := withInjections(runOne, bigRef, injBases, '@')
		nBigPlain, nInjBig = len(plain), len(inj)
		for _, h := range append(plain, inj...) {
			hs = append(hs, job{"dbbig", h, -1})
		}
		bigSample = len(hs) - 1
		injSmallBases := []string{smallBase}
		if run.Tier == "thorough" {
			injSmallBases = append(injSmallBases, insertions(smallBase, "TFSC")...)
		}
		injSmall := withInjections(runOne, ref, injSmallBases, '@')
		nInjSmall = len(injSmall)
		for _, h := range injSmall {
			hs = append(hs, job{"db", h, -1})
		}
		// the real controllers over the big log: a flush before every batch commit they perform
		// (all entries but the last one, which the harness sends after the restart)
		ctlBase := strings.Repeat("W", len(bigRef.log)-1)
		lb := []string{ctlBase}
		fb := []string{ctlBase, strings.Repeat("PW", (len(bigRef.log)-1)/2) + "W"} // PW: the apply round covers two entries
		if run.Tier == "thorough" {
			lb = append(lb, insertions(ctlBase, "E")...)
			fb = append(fb, insertions(ctlBase, "T")...)
		}
		for _, h := range append(lb, withInjections(runLeader, bigRef, lb, '@')...) {
			hs = append(hs, job{"leaderbig", h, -1})
			nCtlBig++
		}
		for _, h := range append(fb, withInjections(runFollower, bigRef, fb, '@')...) {
			hs = append(hs, job{"followerbig", h, -1})
			nCtlBig++
		}
		for _, h := range withInjections(runOne, bigRef, plain[:1+4*(len(bigRef.log)+1)], '^') {
			snapJobs = append(snapJobs, job{"dbbig", h, 0})
		}
		for _, h := range withInjections(runOne, ref, append([]string{smallBase}, insertions(smallBase, "TFSC")...), '^') {
			snapJobs = append(snapJobs, job{"db", h, 0})
		}
	}
	if only := os.Getenv("VERIF_C07_ONLY"); only != "" { // development aid: comma-separated suite names (snapshot route: "snap")
		keep := map[string]bool{}
		for _, n := range strings.Split(only, ",") {
			keep[n] = true
		}
		var f []job
		for _, h := range hs {
			if keep[h.suite] {
				f = append(f, h)
			}
		}
		if hs = f; len(hs) == 0 {
			hs = []job{{"dbbig", strings.Repeat("W", len(bigRef.log)), -1}}
		}
		if !keep["snap"] {
			snapJobs = nil
		}
		hs = append(hs, hs[0], hs[0]) // the sample indices below stay valid
		nDB, nLeader, nFollower, bigSample = 1, 1, len(hs)-2, 0
		run.NotExhaustive("VERIF_C07_ONLY=" + only)
	}
	budget := 70 * time.Second
	if run.Tier == "thorough" {
		budget = 20 * time.Minute
	}
	if v := os.Getenv("VERIF_BUDGET_S"); v != "" {
		var sec int
		fmt.Sscanf(v, "%d", &sec)
		budget = time.Duration(sec) * time.Second
	}
	deadline := time.Now().Add(budget)

	// counting runs
	type hinfo struct {
		n, open int64
		kinds   map[string]int64
	}
	info := make([]hinfo, len(hs))
	{
		var wg sync.WaitGroup
		sem := make(chan struct{}, runtime.NumCPU())
		for i, h := range hs {
			wg.Add(1)
			sem <- struct{}{}
			go func(i int, h job) {
				defer wg.Done()
				defer func() { <-sem }()
				o := suites[h.suite](ref, h.hist, -1, true)
				if o.v != nil {
					run.Violate(ev.Violation{Key: o.v.key, Harness: "c07-" + h.suite, Message: fmt.Sprintf("history %s without crash inside: %s", h.hist, o.v.msg),
						Replay: map[string]any{"suite": h.suite, "history": h.hist, "crash_at": -1}})
				}
				info[i] = hinfo{o.fsOps, o.openOps, o.kinds}
			}(i, h)
		}
		wg.Wait()
	}
	kinds := map[string]int64{}
	var totalOps int64
	for _, in := range info {
		totalOps += in.n
		for k, v := range in.kinds {
			kinds[k] += v
		}
	}
	const margin = 12 // background work makes the count vary a little between runs
	jobs := make(chan job, 1024)
	var wg sync.WaitGroup
	var cut atomic.Bool
	var mu sync.Mutex
	var evals, beyond, insideOpen, flushLost, offsetsSeen, snapEvals, injEvals, injFired, maxPerEntry, bigEvals, ctlBigEvals int64
	var nondet []string
	cDist := map[int64]int64{}
	stepDist := map[string]int64{}
	perSuite := map[string]int64{}
	for wk := 0; wk < 2*runtime.NumCPU(); wk++ {
		wg.Add(1)
		go func() {
			defer wg.Done()
			for jb := range jobs {
				if cut.Load() || run.NViolations() >= 20 {
					continue
				}
				if time.Now().After(deadline) {
					cut.Store(true)
					continue
				}
				o := suites[jb.suite](ref, jb.hist, jb.j, false)
				events, injKind, _ := splitHist(jb.hist)
				mu.Lock()
				evals++
				switch {
				case injKind == '^':
					snapEvals++
				case jb.suite == "dbbig":
					bigEvals++
				case jb.suite == "leaderbig" || jb.suite == "followerbig":
					ctlBigEvals++
				default:
					perSuite[jb.suite]++
				}
				if injKind == '@' {
					injEvals++
				}
				if injKind != 0 && o.injected {
					injFired++
				}
				if o.maxCommitsPerEntry > maxPerEntry {
					maxPerEntry = o.maxCommitsPerEntry
				}
				offsetsSeen += int64(o.offsets)
				if o.frozenStep == int64(len(events)) && injKind != '^' {
					beyond++ // this run issued fewer than j operations: crash after the history
				}
				if o.frozenStep == -1 {
					insideOpen++
				}
				if o.flushLost {
					flushLost++
				}
				if o.v == nil {
					cDist[o.c]++
					st := "end"
					if o.frozenStep >= 0 && o.frozenStep < int64(len(events)) {
						st = string(events[o.frozenStep])
					} else if o.frozenStep == -1 {
						st = "open"
					}
					stepDist[st]++
				}
				mu.Unlock()
				run.Distinct(fmt.Sprintf("%s|%s|step=%d|c=%d|t=%d", jb.suite, jb.hist, o.frozenStep, o.c, o.term))
				if o.v == nil {
					continue
				}
				// must reproduce three times out of three
				same := 0
				for rep := 0; rep < 2; rep++ {
					if o2 := suites[jb.suite](ref, jb.hist, jb.j, false); o2.v != nil && o2.v.key == o.v.key {
						same++
					}
				}
				if same < 2 {
					mu.Lock()
					nondet = append(nondet, fmt.Sprintf("history %s crash_at %d: %s reproduced %d/2 times: %s", jb.hist, jb.j, o.v.key, same, o.v.msg))
					mu.Unlock()
					continue
				}
				run.Violate(ev.Violation{Key: o.v.key, Harness: "c07-" + jb.suite, Message: fmt.Sprintf("history %s: %s", jb.hist, o.v.msg),
					Replay: map[string]any{"suite": jb.suite, "history": jb.hist, "crash_at": jb.j}})
			}
		}()
	}
	// the crash points inside the initial open (+ first election) do not depend on the history:
	// they are enumerated for the first history of each suite only
	openDone := map[string]bool{}
	var skippedOpen int64
	for i, h := range hs {
		from := int64(0)
		if openDone[h.suite] {
			if from = info[i].open - margin; from < 0 {
				from = 0
			}
			skippedOpen += from
		}
		openDone[h.suite] = true
		for j := from; j <= info[i].n+margin; j++ {
			jobs <- job{h.suite, h.hist, j}
		}
	}
	for _, jb := range snapJobs {
		jobs <- jb
	}
	close(jobs)
	wg.Wait()
	if cut.Load() {
		run.NotExhaustive("cut by the time budget")
	}
	run.Add("evaluations", evals)
	run.Add("histories_db_alone", int64(nDB))
	run.Add("histories_real_leader_rf1", int64(nLeader))
	run.Add("histories_real_follower", int64(nFollower))
	run.Add("histories_big_log_db_alone", int64(nBigPlain))
	run.Add("histories_big_log_flush_before_batch_commit_k", int64(nInjBig))
	run.Add("histories_small_log_flush_before_batch_commit_k", int64(nInjSmall))
	run.Add("histories_snapshot_before_batch_commit_k", int64(len(snapJobs)))
	run.Add("evaluations_big_log_db_alone", bigEvals)
	run.Add("histories_big_log_real_leader_and_follower", int64(nCtlBig))
	run.Add("evaluations_big_log_real_leader_and_follower", ctlBigEvals)
	run.Add("evaluations_flush_before_batch_commit_k", injEvals)
	run.Add("evaluations_snapshot_route", snapEvals)
	run.Add("evaluations_injection_ran_before_the_crash_point", injFired)
	run.Add("max_batch_commits_during_one_log_entry", maxPerEntry)
	run.Add("evaluations_real_follower", perSuite["follower"])
	run.Add("evaluations_db_alone", perSuite["db"])
	run.Add("evaluations_real_leader_rf1", perSuite["leader"])
	run.Add("fs_operations_in_uncrashed_runs", totalOps)
	run.Add("crash_points_after_last_operation", beyond)
	run.Add("crash_points_inside_initial_open", insideOpen)
	run.Add("crash_points_inside_initial_open_not_repeated_per_history", skippedOpen)
	run.Add("flush_or_close_returned_but_offset_lost", flushLost)
	run.Add("commit_offsets_observed_in_batches", offsetsSeen)
	var ks []string
	for k := range kinds {
		ks = append(ks, k)
	}
	sort.Strings(ks)
	for _, k := range ks {
		run.Add("fsop_"+k, kinds[k])
	}
	cd := map[string]int64{}
	for k, v := range cDist {
		cd[fmt.Sprint(k)] = v
	}
	run.Coverage["commit_offset_after_restart_histogram"] = cd
	run.Coverage["crashed_during_step_histogram"] = stepDist
	if run.Tier == "thorough" {
		run.Coverage["histories_rule"] = "(+ a few longer hand-written ones) db alone: all sequences of length 3..6 over {W,T,F,S,C} with 3..5 writes; real leader: all sequences of length 3..5 over {W,E,S,C} with 3..5 writes; real follower: all sequences of length 3..5 over {W,P,T,C} with 3..5 appends"
	} else {
		run.Coverage["histories_rule"] = "(+ a few longer hand-written ones) db alone: all sequences of length 3..5 over {W,T,F,S,C} with >=3 writes; real leader: length 3..4 over {W,E,S,C}; real follower: length 3..4 over {W,P,T,C}"
	}
	run.Coverage["histories_rule_big_log"] = "W x10 (all entries of the big log) alone and with one event of {T,F,S,C} inserted at every position (thorough: + a second event of {T,C} at every position), every crash index; W x10@k for every batch commit k (thorough: also the one-event histories), every crash index; W x6@k on the small log; snapshot route ^k for every batch commit k of W x10 / W x6 and of all their one-event histories"
	for _, s := range nondet {
		run.Note("nondeterministic (not reported as violation): " + s)
	}
	run.Sample(map[string]any{"suite": "db", "history": hs[nDB/2].hist, "fs_ops": info[nDB/2].n, "meaning": "W=ProcessWrite of the next log entry, T=UpdateTerm(term+1), F=kv.Flush, S=db.Snapshot, C=graceful Close+reopen"})
	run.Sample(map[string]any{"suite": "follower", "history": hs[nDB+nLeader+nFollower-1].hist, "fs_ops": info[nDB+nLeader+nFollower-1].n, "meaning": "W=Append(entry k, commit=k) and wait for apply, P=Append(entry k, commit=k-1), T=NewTerm + new stream, C=Close + new controller + NewTerm + stream; after the crash: new controller, NewTerm, stream, one more append committing everything"})
	run.Sample(map[string]any{"suite": "leader", "history": hs[nDB+nLeader-1].hist, "fs_ops": info[nDB+nLeader-1].n, "meaning": "W=WriteBlock, E=NewTerm+BecomeLeader, S=db.Snapshot, C=Close+new controller+election; after the crash: new controller, election, applyAllEntriesIntoDB"})
	run.Sample(map[string]any{"log": func() []string {
		var o []string
		for _, e := range ref.log {
			o = append(o, e.name)
		}
		return o
	}()})
	run.Sample(map[string]any{"suite": "dbbig", "history": hs[bigSample].hist, "fs_ops": info[bigSample].n,
		"meaning": "events as in suite db; @k = kv.Flush right before the k-th batch commit the node performs (k = 1..number of commits measured on the implementation), ^k = snapshot right before the k-th batch commit, installed on a fresh node through the snapshot loader",
		"big_log": func() []string {
			var o []string
			for _, e := range bigRef.log {
				o = append(o, e.name)
			}
			return o
		}()})
	run.Assume = []string{
		"crash model: Pebble strict MemFS; file data and directory entries not fsynced before the crash point are lost, everything fsynced survives; no torn writes inside one fsynced file (Pebble's own checksums cover that)",
		"the shard WAL is durable and ahead of the database (its own crash behaviour is C09/C10); the harness plays its role with the entry list",
		"the number of filesystem operations of a history varies slightly between runs (Pebble background goroutines); each run counts its own operations, a crash index beyond the count of that run is a crash after the history",
		"single-threaded application only; concurrent in-flight writes and overlapping follower apply rounds are explored by the scheduler-based harness",
		"db.Snapshot(): the checkpoint is written to the crash filesystem, the chunk listing reads the real (empty) directory",
		"@k / ^k: the flush (snapshot) is issued by the goroutine that is about to commit batch k, right before the engine sees the batch: the image contains exactly batches 1..k-1. This stands for any concurrent Flush (NewTerm, snapshot for a follower, full memtable) that falls between two commits; which interleavings of the real goroutines produce it is stage 2's business (C07S)",
		"snapshot route: node and installed copy on real directories under /dev/shm (the snapshot loader writes with package os); no crash inside the installation",
	}
	code := run.Finish("for every history and every index j of a mutating filesystem operation (create, write, sync, rename, remove, link, mkdir, lock, directory sync) issued by Pebble during the history (incl. the initial open), plus the crash after the history: freeze durability right before operation j, finish the step, abandon the DB, reset the filesystem to its synced state, reopen, check commit offset / fold equality / term / replay convergence / commit-offset batch sequence; for the log of large and multi-part entries (big log) and the small log additionally: for every k in 1..number of KV batch commits of the history, the same enumeration with a Flush right before batch commit k, and a snapshot right before batch commit k installed on a fresh node (same oracle)")
	os.RemoveAll(scratch)
	os.Exit(code)
}

func doReplay(path string, ref *reference) int {
	var doc struct {
		First struct {
			Replay struct {
				Suite   string `json:"suite"`
				History string `json:"history"`
				CrashAt int64  `json:"crash_at"`
			} `json:"replay"`
		} `json:"first"`
	}
	if err := ev.ReadJSON(path, &doc); err != nil {
		fmt.Println("cannot read replay:", err)
		return 2
	}
	if doc.First.Replay.Suite == "" {
		doc.First.Replay.Suite = "db"
	}
	o := suites[doc.First.Replay.Suite](ref, doc.First.Replay.History, doc.First.Replay.CrashAt, false)
	if o.v != nil {
		fmt.Printf("VIOLATION property=C07 replay=%s\n  %s: %s\n", path, o.v.key, o.v.msg)
		return 1
	}
	fmt.Printf("replay passed (commit offset %d, term %d, crashed during step %d)\n", o.c, o.term, o.frozenStep)
	return 0
}
