// C03, protocol-event stage: what a follower has acknowledged to the leader of a term stays stored with that leader's entry, and what it applied is the fold of it, for every sequence of follower protocol events up to a depth (lib/ffsm).
package main

import (
	"os"

	"verif/lib/ffsm"
)

func main() {
	os.Exit(ffsm.Main("C03", map[string]bool{"acked-entry-not-stored": true, "acked-entry-truncated": true, "truncate-to-entry-not-held-accepted": true, "state-not-fold-of-log": true, "commit-offset-ahead-of-log": true, "snapshot-ack-offset": true, "harness-setup": true, "panic": true}, ""))
}
