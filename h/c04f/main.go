// C04, protocol-event stage: a fenced node makes no progress in older terms and reports its true head, for every sequence of follower protocol events up to a depth (lib/ffsm).
package main

import (
	"os"

	"verif/lib/ffsm"
)

func main() {
	os.Exit(ffsm.Main("C04", map[string]bool{"reported-head-not-log-end": true, "old-term-ack-after-fence": true, "old-term-append-stored": true, "stale-truncate-accepted": true, "stale-snapshot-accepted": true, "stale-snapshot-changed-log": true, "stale-newterm-accepted": true, "harness-setup": true, "panic": true}, ""))
}
