// C07, protocol-event stage: after every node protocol event (role changes, restart, crash) the database is the fold of the node's own log up to the commit offset it records (lib/nfsm).
package main

import (
	"os"

	"verif/lib/nfsm"
)

func main() {
	os.Exit(nfsm.Main("C07", map[string]bool{"state-not-fold-of-log": true, "commit-offset-ahead-of-log": true, "committed-entry-not-applied": true, "restart-failed": true, "harness-setup": true, "panic": true}))
}
