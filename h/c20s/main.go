// C20 (schedule stage): every operation handed to a batcher is answered exactly once. The real batcher
// (oxia/batch: Add, Run, Close, the linger timer, the count limit, the "cannot be added" split) with a
// recording batch; the adders, the batcher's own thread and the linger timer are scheduled, every schedule
// up to the deviation bound is run, and every choice between ready cases of a select statement is a
// scheduling choice. At quiescence every call must have been answered once: with a result when its batch
// was completed, with the shutting-down error when the batcher had been closed before the call was added.
package main

import (
	"context"
	"flag"
	"fmt"
	"os"
	"time"

	"github.com/oxia-db/oxia/oxia/batch"
	"github.com/oxia-db/oxia/zzverif/vsched"

	"verif/lib/oxh"
	"verif/lib/sched"
)

type call struct {
	id      int
	big     bool // does not fit into a batch that already holds something
	answers int
	errs    []error
	batch   int
}

type recBatch struct {
	no    int
	calls []*call
	done  int
}

func (b *recBatch) CanAdd(c any) bool { return !(c.(*call).big && len(b.calls) > 0) }
func (b *recBatch) Add(c any)         { cl := c.(*call); cl.batch = b.no; b.calls = append(b.calls, cl) }
func (b *recBatch) Size() int         { return len(b.calls) }
func (b *recBatch) Complete() {
	b.done++
	for _, c := range b.calls {
		c.answers++
	}
}
func (b *recBatch) Fail(err error) {
	b.done++
	for _, c := range b.calls {
		c.answers++
		c.errs = append(c.errs, err)
	}
}

type spec struct {
	linger     time.Duration
	max        int
	adders     [][]int // ids added by each adder thread before the close; id >= 100: big
	afterClose []int   // ids added by one thread after Close has returned and the batcher's thread has ended
}

func body(sp spec) func(s *vsched.Sched) {
	return func(s *vsched.Sched) {
		s.Explore(false)
		batch.VerifC20SetQueueLength(2)
		var batches []*recBatch
		mk := func() batch.Batch {
			b := &recBatch{no: len(batches)}
			batches = append(batches, b)
			return b
		}
		f := &batch.BatcherFactory{Linger: sp.linger, MaxRequestsPerBatch: sp.max}
		b := f.NewBatcher(context.Background(), 1, "write", mk)
		var calls []*call
		newCall := func(id int) *call {
			c := &call{id: id, big: id >= 100, batch: -1}
			calls = append(calls, c)
			return c
		}
		s.Explore(true)
		for _, ids := range sp.adders {
			var mine []*call
			for _, id := range ids {
				mine = append(mine, newCall(id))
			}
			vsched.Go(func() {
				for _, c := range mine {
					b.Add(c)
				}
			})
		}
		s.Settle()
		if sp.linger > 0 {
			s.Sleep(10 * sp.linger) // virtual time: the linger timer of a batch that is still open fires
			s.Settle()
		}
		for _, c := range calls {
			switch {
			case c.answers != 1:
				s.Fail("call-not-answered-exactly-once", fmt.Sprintf("call %d was answered %d time(s) once the batcher was idle (batch %d, linger %v, at most %d per batch)", c.id, c.answers, c.batch, sp.linger, sp.max))
				return
			case len(c.errs) != 0:
				s.Fail("call-failed-without-a-failure", fmt.Sprintf("call %d was failed with %v although nothing had failed and the batcher was open", c.id, c.errs))
				return
			}
		}
		_ = b.Close()
		s.Settle()
		before := len(calls)
		if len(sp.afterClose) > 0 {
			var late []*call
			for _, id := range sp.afterClose {
				late = append(late, newCall(id))
			}
			vsched.Go(func() {
				for _, c := range late {
					b.Add(c)
				}
			})
			s.Settle()
		}
		s.Explore(false)
		for i, c := range calls {
			if c.answers != 1 {
				when := "before"
				if i >= before {
					when = "after"
				}
				s.Fail("call-not-answered-exactly-once", fmt.Sprintf("call %d, added %s the batcher was closed, was answered %d time(s) (errors %v)", c.id, when, c.answers, c.errs))
				return
			}
			if i >= before && (len(c.errs) != 1 || c.errs[0] != batch.ErrShuttingDown) {
				s.Fail("late-call-not-refused", fmt.Sprintf("call %d was added after the batcher had been closed and was answered with %v", c.id, c.errs))
				return
			}
		}
		for _, rb := range batches {
			if rb.done > 1 {
				s.Fail("batch-finished-twice", fmt.Sprintf("batch %d was completed or failed %d times", rb.no, rb.done))
				return
			}
		}
		out := ""
		for _, c := range calls {
			out += fmt.Sprintf(" %d:b%d", c.id, c.batch)
		}
		s.Data = fmt.Sprintf("batches=%d%s", len(batches), out)
	}
}

func scenarios(tier string) []sched.Scenario {
	cfg := vsched.Config{MaxSteps: 20000, TimersRace: true}
	dev := 3
	if tier == "thorough" {
		dev = 5
	}
	ms := 10 * time.Millisecond
	return []sched.Scenario{
		{Name: "adds-then-close-then-late-adds-no-linger", Cfg: cfg, MaxDev: dev, Body: body(spec{linger: 0, max: 2, adders: [][]int{{1, 2}}, afterClose: []int{3, 4, 5}})},
		{Name: "adds-then-close-then-late-adds-linger", Cfg: cfg, MaxDev: dev, Body: body(spec{linger: ms, max: 2, adders: [][]int{{1, 2, 3}}, afterClose: []int{4, 5, 6}})},
		{Name: "two-adders-count-limit-vs-linger-timer", Cfg: cfg, MaxDev: dev, Body: body(spec{linger: ms, max: 2, adders: [][]int{{1, 2}, {3}}, afterClose: []int{4}})},
		{Name: "call-that-does-not-fit-splits-the-batch", Cfg: cfg, MaxDev: dev, Body: body(spec{linger: ms, max: 3, adders: [][]int{{1, 100}, {2}}, afterClose: []int{101}})},
	}
}

func main() {
	replay := flag.String("replay", "", "replay file")
	flag.Parse()
	oxh.Quiet()
	su := sched.Suite{Property: "C20", Scenarios: scenarios, Stage2: os.Getenv("VERIF_STAGE2") != "",
		Budget: func(tier string) time.Duration {
			if tier == "thorough" {
				return 10 * time.Minute
			}
			return 40 * time.Second
		},
		Rule:   "every schedule with at most max_dev non-default scheduling choices (thread switches, the linger timer firing while threads are runnable, the choice between ready select cases) of one or two threads adding calls to the real batcher (count limit, linger timer, calls that do not fit), then Close, then calls added after Close has returned",
		Assume: []string{"sequentially consistent memory", "deviation-bounded schedules", "calls added concurrently with Close are not part of the scenarios (the property does not quantify over closing the client)", "the call queue holds 2 calls (GOMAXPROCS of the machine in production)"}}
	os.Exit(sched.Main(su, *replay))
}
