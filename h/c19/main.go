// C19: every shard ensemble has RF distinct eligible servers and respects anti-affinity.
//
// Exhaustive input enumeration ("exploration") of the REAL selector chain and the REAL balancer:
//
//	A. coordinator.selectNewEnsemble (real ensemble.Selector, real ClusterConfigResource) for every
//	   cluster of 1..5 servers x zone/rack label assignment x policy x RF x every order in which the
//	   load-ratio list can present equally loaded servers (the only nondeterminism of that path);
//	B. ensemble.Selector without a load-ratio supplier: every ServerIdx (finalSelector), repeated
//	   because the candidate order then depends on Go map iteration; and Status=nil (random pick);
//	C. selectNewEnsemble on top of every existing placement (all multisets of <=3 shards);
//	D. one real rebalanceEnsemble round for every status (0-1 removed server), the emitted
//	   SwapNodeActions applied in emission order through the real replaceInList;
//	E. a small E1 search (lib/seqx): add namespace / add+remove server / rebalance sequences through
//	   the real ApplyClusterChanges + balancer.
package main

import (
	"cmp"
	"encoding/json"
	"flag"
	"fmt"
	"io"
	"log/slog"
	"os"
	"runtime"
	"runtime/pprof"
	"sort"
	"strings"
	"sync"
	"sync/atomic"
	"time"

	"github.com/emirpasic/gods/v2/lists/arraylist"
	"github.com/emirpasic/gods/v2/sets/linkedhashset"

	"github.com/oxia-db/oxia/coordinator"
	"github.com/oxia-db/oxia/coordinator/balancer"
	"github.com/oxia-db/oxia/coordinator/controllers"
	"github.com/oxia-db/oxia/coordinator/metadata"
	"github.com/oxia-db/oxia/coordinator/model"
	"github.com/oxia-db/oxia/coordinator/policies"
	"github.com/oxia-db/oxia/coordinator/resources"
	"github.com/oxia-db/oxia/coordinator/selectors/ensemble"
	"github.com/oxia-db/oxia/coordinator/selectors/single"

	"verif/lib/ev"
	"verif/lib/oxh"
	"verif/lib/seqx"
)

// ---------------------------------------------------------------- universe

const maxN = 5

var srvID = []string{"s1", "s2", "s3", "s4", "s5", "x1"} // index maxN ("x1") = a server removed from the config
var srvVal []model.Server
var zoneVal = []string{"", "za", "zb", "zc", "zd"}
var rackVal = []string{"", "rx", "ry", "rz", "rw"}
var typeVal = []string{"", "ta", "tb", "tc", "td"}

func init() {
	for _, id := range srvID {
		n := id
		srvVal = append(srvVal, model.Server{Name: &n, Public: id + ":6648", Internal: id + ":6649"})
	}
}

func srvIdx(id string) int {
	for i, s := range srvID {
		if s == id {
			return i
		}
	}
	return -1
}

var pols = map[string]*policies.Policies{
	"none": nil,
	// a policies object that is there but holds no rule (`policies: {}` in the configuration): no constraint,
	// like none, but the code paths that test `Policies != nil` see it
	"empty": {},
	"Z":     {AntiAffinities: []policies.AntiAffinity{{Labels: []string{"zone"}, Mode: policies.Strict}}},
	"ZR": {AntiAffinities: []policies.AntiAffinity{{Labels: []string{"zone"}, Mode: policies.Strict},
		{Labels: []string{"rack"}, Mode: policies.Strict}}},
}
var polNames = []string{"none", "empty", "Z", "ZR"}

// policyByName: "none" / "Z" / "ZR" (parts A-F) or a rule list "Zs.Rr.Ts" (parts G-I): one token per
// anti-affinity rule, in order; first letter = label (Z zone, R rack, T type), second letter = mode
// (s Strict, r Relaxed).
var polCache sync.Map

func policyByName(name string) *policies.Policies {
	if p, ok := pols[name]; ok {
		return p
	}
	if p, ok := polCache.Load(name); ok {
		return p.(*policies.Policies)
	}
	p := &policies.Policies{}
	for _, tok := range strings.Split(name, ".") {
		if len(tok) != 2 {
			panic("bad policy name " + name)
		}
		a := policies.AntiAffinity{}
		switch tok[0] {
		case 'Z':
			a.Labels = []string{"zone"}
		case 'R':
			a.Labels = []string{"rack"}
		case 'T':
			a.Labels = []string{"type"}
		default:
			panic("bad policy name " + name)
		}
		switch tok[1] {
		case 's':
			a.Mode = policies.Strict
		case 'r':
			a.Mode = policies.Relaxed
		default:
			panic("bad policy name " + name)
		}
		p.AntiAffinities = append(p.AntiAffinities, a)
	}
	polCache.Store(name, p)
	return p
}

// strict single-label rules: the only rules the property (and this oracle) speaks about
func strictLabels(p *policies.Policies) []string {
	var out []string
	if p == nil {
		return nil
	}
	for _, a := range p.AntiAffinities {
		if a.Mode == policies.Strict && len(a.Labels) == 1 {
			out = append(out, a.Labels[0])
		}
	}
	return out
}

type strictRule struct {
	label string
	idx   int // position in the rule list (0-based)
	of    int // number of rules of the policy
}

func strictRules(p *policies.Policies) []strictRule {
	var out []strictRule
	if p == nil {
		return nil
	}
	for i, a := range p.AntiAffinities {
		if a.Mode == policies.Strict && len(a.Labels) == 1 {
			out = append(out, strictRule{a.Labels[0], i, len(p.AntiAffinities)})
		}
	}
	return out
}

// keySuffix: policies with three or more rules get the position of the violated rule in the key
// (a rule in the middle of the list dropping out is another failure class than "rules ignored").
func (r strictRule) keySuffix() string {
	if r.of < 3 {
		return ""
	}
	return fmt.Sprintf(":rule%dof%d", r.idx+1, r.of)
}

func mkMetadata(n int, zone, rack, typ []int) map[string]model.ServerMetadata {
	md := map[string]model.ServerMetadata{}
	for i := 0; i < n; i++ {
		l := map[string]string{}
		if zone != nil && zone[i] > 0 {
			l["zone"] = zoneVal[zone[i]]
		}
		if rack != nil && rack[i] > 0 {
			l["rack"] = rackVal[rack[i]]
		}
		if typ != nil && typ[i] > 0 {
			l["type"] = typeVal[typ[i]]
		}
		if len(l) > 0 {
			md[srvID[i]] = model.ServerMetadata{Labels: l}
		}
	}
	return md
}

// ---------------------------------------------------------------- violations / counters

type aggEntry struct {
	count int64
	first ev.Violation
	size  int
	repr  string
}
type aggT struct {
	mu sync.Mutex
	m  map[string]*aggEntry
}

var agg = &aggT{m: map[string]*aggEntry{}}

// add keeps, per key, the smallest input (by size, then textual order) so that reports are stable.
func (a *aggT) add(key, harness, msg string, replay any, size int) {
	rb, _ := json.Marshal(replay)
	repr := string(rb)
	a.mu.Lock()
	defer a.mu.Unlock()
	e := a.m[key]
	if e == nil {
		e = &aggEntry{size: 1 << 30}
		a.m[key] = e
	}
	e.count++
	if size < e.size || (size == e.size && repr < e.repr) {
		e.size, e.repr = size, repr
		e.first = ev.Violation{Key: key, Harness: harness, Message: msg, Replay: replay}
	}
}

func (a *aggT) flush(run *ev.Run) {
	a.mu.Lock()
	defer a.mu.Unlock()
	var keys []string
	for k := range a.m {
		keys = append(keys, k)
	}
	sort.Strings(keys)
	occ := map[string]int64{}
	for _, k := range keys {
		run.Violate(a.m[k].first)
		occ[k] = a.m[k].count
	}
	run.Coverage["violation_occurrences_by_key"] = occ
}

type counters struct {
	mu sync.Mutex
	m  map[string]int64
	ex map[string]any // first example per observation class
}

var cnt = &counters{m: map[string]int64{}, ex: map[string]any{}}

var fastCnt sync.Map // string -> *atomic.Int64

func (c *counters) add(k string, n int64) {
	if p, ok := fastCnt.Load(k); ok {
		p.(*atomic.Int64).Add(n)
		return
	}
	p, _ := fastCnt.LoadOrStore(k, new(atomic.Int64))
	p.(*atomic.Int64).Add(n)
}
func (c *counters) example(k string, v any, size int) {
	c.mu.Lock()
	if old, ok := c.ex[k]; !ok || old.(exT).size > size {
		c.ex[k] = exT{v, size}
	}
	c.mu.Unlock()
}

type exT struct {
	v    any
	size int
}

var distinctMu sync.Mutex
var distinctSet = map[string]struct{}{}

func distinct(k string) {
	distinctMu.Lock()
	distinctSet[k] = struct{}{}
	distinctMu.Unlock()
}

// ---------------------------------------------------------------- tie-order seam

// reorder returns the ratio computed by the real algorithm with (a) nodes of equal ratio ordered by
// prio and (b) the shards of each node ordered by shard id (ascending or descending).
// DefaultShardsRank builds both lists by ranging over Go maps and sorts them by ratio only, so
// these orders are unspecified in the real system.
func reorder(r *model.Ratio, prio func(string) int, shardDesc bool) *model.Ratio {
	var nodes []*model.NodeLoadRatio
	for it := r.NodeIterator(); it.Next(); {
		nodes = append(nodes, it.Value())
	}
	sort.SliceStable(nodes, func(i, j int) bool {
		if c := cmp.Compare(nodes[i].Ratio, nodes[j].Ratio); c != 0 {
			return c < 0
		}
		return prio(nodes[i].NodeID) < prio(nodes[j].NodeID)
	})
	for _, n := range nodes {
		n.ShardRatios.Sort(func(x, y *model.ShardLoadRatio) int {
			if c := cmp.Compare(x.Ratio, y.Ratio); c != 0 {
				return c
			}
			if shardDesc {
				return cmp.Compare(y.ShardID, x.ShardID)
			}
			return cmp.Compare(x.ShardID, y.ShardID)
		})
	}
	return model.NewRatio(r.MaxNodeLoadRatio(), r.MinNodeLoadRatio(), r.AvgShardLoadRatio(), arraylist.New(nodes...))
}

// ---------------------------------------------------------------- oracle

type viol struct{ key, msg string }

// checkEnsemble: exactly rf distinct servers, all of the cluster, pairwise distinct values for every strict single-label rule.
func checkEnsemble(ids []string, rf int, n int, md map[string]model.ServerMetadata, pol *policies.Policies) *viol {
	if len(ids) != rf {
		return &viol{"ensemble:wrong-size", fmt.Sprintf("ensemble %v has %d members, replication factor %d", ids, len(ids), rf)}
	}
	seen := map[string]bool{}
	for _, id := range ids {
		if seen[id] {
			return &viol{"ensemble:duplicate-member", fmt.Sprintf("ensemble %v contains %s twice", ids, id)}
		}
		seen[id] = true
		if i := srvIdx(id); i < 0 || i >= n {
			return &viol{"ensemble:member-not-in-cluster", fmt.Sprintf("ensemble %v: %s is not one of the %d servers of the cluster", ids, id, n)}
		}
	}
	for _, rule := range strictRules(pol) {
		label := rule.label
		vals := map[string]string{}
		for _, id := range ids {
			v, ok := md[id].Labels[label]
			if !ok {
				cnt.add("ensemble_member_without_rule_label", 1)
				continue
			}
			if other, dup := vals[v]; dup {
				return &viol{"ensemble:anti-affinity-violated" + rule.keySuffix(), fmt.Sprintf("ensemble %v: %s and %s share %s=%s under strict anti-affinity rule %d of %d", ids, other, id, label, v, rule.idx+1, rule.of)}
			}
			vals[v] = id
		}
	}
	return nil
}

// feasible: does any set of rf servers carrying all rule labels with pairwise distinct values exist? (informational only)
func feasible(n, rf int, md map[string]model.ServerMetadata, pol *policies.Policies) bool {
	labels := strictLabels(pol)
	var rec func(start int, chosen []int) bool
	rec = func(start int, chosen []int) bool {
		if len(chosen) == rf {
			return true
		}
		for i := start; i < n; i++ {
			ok := true
			for _, l := range labels {
				v, has := md[srvID[i]].Labels[l]
				if !has {
					ok = false
					break
				}
				for _, c := range chosen {
					if md[srvID[c]].Labels[l] == v {
						ok = false
					}
				}
			}
			if ok && rec(i+1, append(chosen, i)) {
				return true
			}
		}
		return false
	}
	return rec(0, nil)
}

// ---------------------------------------------------------------- worker

type wk struct {
	vc  *coordinator.VerifCoordinator
	sel interface {
		Select(*ensemble.Context) ([]string, error)
	}
	prio      []int // tie priority: server indices in order
	shardDesc bool
	cfgSet    bool
	cN, cRF   int
	cPol      string
	cZone     []int
	cRack     []int
	cType     []int
	cMd       map[string]model.ServerMetadata
	cNsc      *model.NamespaceConfig
	cFeasible bool

	seen     map[string]struct{}
	realAlgo bool

	// balancer side
	statusRes resources.StatusResource
	bal       *balancer.VerifC19Balancer
}

func newWk() *wk {
	w := &wk{}
	w.vc = coordinator.VerifNewCoordinator(metadata.NewMetadataProviderMemory(), w.algo)
	w.sel = ensemble.NewSelector()
	w.statusRes = resources.NewStatusResource(metadata.NewMetadataProviderMemory())
	w.bal = balancer.VerifC19NewBalancer(w.statusRes, nil, w.algo)
	return w
}

func (w *wk) prioOf(id string) int {
	i := srvIdx(id)
	for p, s := range w.prio {
		if s == i {
			return p
		}
	}
	return 100 + i
}

func (w *wk) algo(params *model.RatioParams) *model.Ratio {
	if w.realAlgo {
		return single.DefaultShardsRank(params)
	}
	return reorder(single.DefaultShardsRank(params), w.prioOf, w.shardDesc)
}

func eqInts(a, b []int) bool {
	if len(a) != len(b) {
		return false
	}
	for i := range a {
		if a[i] != b[i] {
			return false
		}
	}
	return true
}

func (w *wk) setConfig(n int, zone, rack, typ []int, pol string, rf int) (map[string]model.ServerMetadata, *model.NamespaceConfig) {
	if w.cfgSet && w.cN == n && w.cPol == pol && w.cRF == rf && eqInts(w.cZone, zone) && eqInts(w.cRack, rack) && eqInts(w.cType, typ) {
		return w.cMd, w.cNsc
	}
	md := mkMetadata(n, zone, rack, typ)
	nsc := model.NamespaceConfig{Name: "ns", InitialShardCount: 1, ReplicationFactor: uint32(rf), Policies: policyByName(pol)}
	cfg := model.ClusterConfig{Namespaces: []model.NamespaceConfig{nsc}, ServerMetadata: md}
	for i := 0; i < n; i++ {
		cfg.Servers = append(cfg.Servers, srvVal[i])
	}
	w.vc.VerifSetConfig(cfg)
	w.cfgSet, w.cN, w.cPol, w.cRF = true, n, pol, rf
	w.cZone, w.cRack, w.cType = append([]int{}, zone...), append([]int{}, rack...), append([]int{}, typ...)
	w.cMd, w.cNsc = md, &nsc
	w.cFeasible = feasible(n, rf, md, policyByName(pol))
	return md, &nsc
}

// ---------------------------------------------------------------- part A/B/C: selector inputs

type selInput struct {
	Part      string  `json:"part"` // "selector"
	Mode      string  `json:"mode"` // coordinator | nil-supplier | nil-status
	N         int     `json:"n"`
	Zone      []int   `json:"zone"`           // per server: 0 absent, 1..3 value
	Rack      []int   `json:"rack"`           // per server: 0 absent, 1..2 value
	Type      []int   `json:"type,omitempty"` // third label (parts G-I): 0 absent, 1..n value
	Policy    string  `json:"policy"`
	RF        int     `json:"rf"`
	ServerIdx uint32  `json:"serverIdx"`
	Tie       []int   `json:"tieOrder"`  // priority of equally loaded servers (server indices), coordinator mode
	Placement [][]int `json:"placement"` // existing shards' ensembles (server indices, 5 = removed server x1)
}

func idsOf(idx []int) []string {
	out := make([]string, len(idx))
	for i, x := range idx {
		out[i] = srvID[x]
	}
	return out
}

func mkStatus(rf int, placement [][]int, serverIdx uint32) *model.ClusterStatus {
	st := &model.ClusterStatus{Namespaces: map[string]model.NamespaceStatus{}, ServerIdx: serverIdx, ShardIdGenerator: int64(len(placement))}
	if len(placement) > 0 {
		nss := model.NamespaceStatus{ReplicationFactor: uint32(rf), Shards: map[int64]model.ShardMetadata{}}
		for i, ens := range placement {
			var e []model.Server
			for _, x := range ens {
				e = append(e, srvVal[x])
			}
			l := e[0]
			nss.Shards[int64(i)] = model.ShardMetadata{Status: model.ShardStatusSteadyState, Term: 1, Leader: &l, Ensemble: e,
				Int32HashRange: model.Int32HashRange{Min: 0, Max: 0xffffffff}}
		}
		st.Namespaces["ns"] = nss
	}
	return st
}

// runSel evaluates one selector input against the real code; returns the outcome class and a violation (or nil).
func (w *wk) runSel(in selInput) (string, *viol) {
	md, nsc := w.setConfig(in.N, in.Zone, in.Rack, in.Type, in.Policy, in.RF)
	w.prio, w.shardDesc = in.Tie, false
	var ids []string
	var err error
	var pan any
	switch in.Mode {
	case "coordinator":
		var esm []model.Server
		esm, err, pan = w.vc.VerifSelectNewEnsemble(nsc, mkStatus(in.RF, in.Placement, in.ServerIdx))
		for i := range esm {
			ids = append(ids, esm[i].GetIdentifier())
		}
	default:
		cands := linkedhashset.New[string]()
		for i := 0; i < in.N; i++ {
			cands.Add(srvID[i])
		}
		ctx := &ensemble.Context{Candidates: cands, CandidatesMetadata: md, Policies: policyByName(in.Policy), Replicas: in.RF}
		if in.Mode == "nil-supplier" {
			ctx.Status = mkStatus(in.RF, in.Placement, in.ServerIdx)
		}
		func() {
			defer func() {
				if r := recover(); r != nil {
					pan = r
				}
			}()
			ids, err = w.sel.Select(ctx)
		}()
	}
	switch {
	case pan != nil:
		cnt.add("selector_refused_by_panic", 1)
		cnt.example("selector_panic", map[string]any{"input": in, "panic": fmt.Sprint(pan)}, in.N*10+in.RF)
		return "panic", nil
	case err != nil:
		cnt.add("selector_refused_with_error", 1)
		if w.cFeasible {
			cnt.add("selector_refused_although_a_valid_ensemble_exists", 1)
			cnt.example("refused_although_feasible", map[string]any{"input": in, "error": err.Error()}, in.N*10+in.RF)
		}
		return "error:" + err.Error(), nil
	}
	cnt.add("selector_ensembles_checked", 1)
	return "ok", checkEnsemble(ids, in.RF, in.N, md, policyByName(in.Policy))
}

func (w *wk) distinct(k string) {
	if w.seen == nil {
		w.seen = map[string]struct{}{}
	}
	if _, ok := w.seen[k]; ok {
		return
	}
	w.seen[k] = struct{}{}
	distinct(k)
}

func (w *wk) evalSel(in selInput) {
	out, v := w.runSel(in)
	w.distinct("sel/" + in.Mode + "/n" + string(rune('0'+in.N)) + "/" + in.Policy + "/rf" + string(rune('0'+in.RF)) + "/" + out)
	if v != nil {
		agg.add(v.key, "selector-enum", v.msg+fmt.Sprintf(" [mode=%s n=%d zone=%v rack=%v type=%v policy=%s rf=%d placement=%v tie=%v]", in.Mode, in.N, in.Zone, in.Rack, in.Type, in.Policy, in.RF, in.Placement, in.Tie), in, in.N*100+in.RF*10+len(in.Placement))
	}
}

// ---------------------------------------------------------------- generators

// labelAssignments: every vector in {0..maxVal}^n; canonical=true keeps one representative per
// renaming of the (non-zero) values.
func labelAssignments(n, maxVal int, canonical bool) [][]int {
	var out [][]int
	cur := make([]int, n)
	var rec func(i, used int)
	rec = func(i, used int) {
		if i == n {
			out = append(out, append([]int{}, cur...))
			return
		}
		lim := maxVal
		if canonical && used+1 < lim {
			lim = used + 1
		}
		for v := 0; v <= lim; v++ {
			cur[i] = v
			u := used
			if v > u {
				u = v
			}
			rec(i+1, u)
		}
	}
	rec(0, 0)
	return out
}

func permutations(items []int) [][]int {
	if len(items) <= 1 {
		return [][]int{append([]int{}, items...)}
	}
	var out [][]int
	for i := range items {
		rest := append(append([]int{}, items[:i]...), items[i+1:]...)
		for _, p := range permutations(rest) {
			out = append(out, append([]int{items[i]}, p...))
		}
	}
	return out
}

func rangeInts(n int) []int {
	o := make([]int, n)
	for i := range o {
		o[i] = i
	}
	return o
}

// subsets of `items` of size k
func subsets(items []int, k int) [][]int {
	var out [][]int
	var rec func(start int, cur []int)
	rec = func(start int, cur []int) {
		if len(cur) == k {
			out = append(out, append([]int{}, cur...))
			return
		}
		for i := start; i < len(items); i++ {
			rec(i+1, append(cur, items[i]))
		}
	}
	rec(0, nil)
	return out
}

// multisets of at most m elements of 0..k-1 (as index vectors, non-decreasing)
func multisets(k, m int) [][]int {
	out := [][]int{{}}
	var rec func(start int, cur []int)
	rec = func(start int, cur []int) {
		if len(cur) > 0 {
			out = append(out, append([]int{}, cur...))
		}
		if len(cur) == m {
			return
		}
		for i := start; i < k; i++ {
			rec(i, append(cur, i))
		}
	}
	rec(0, nil)
	return out
}

// ---------------------------------------------------------------- parallel driver

type driver struct {
	deadline time.Time
	cut      atomic.Bool
	evals    atomic.Int64
}

// runBlocks executes blocks on all cores; each block gets a worker-local wk.
func (d *driver) runBlocks(nBlocks int, f func(w *wk, block int)) {
	var next atomic.Int64
	next.Store(-1)
	var wg sync.WaitGroup
	for c := 0; c < runtime.NumCPU(); c++ {
		wg.Add(1)
		go func() {
			defer wg.Done()
			w := newWk()
			for {
				b := int(next.Add(1))
				if b >= nBlocks {
					return
				}
				if time.Now().After(d.deadline) {
					d.cut.Store(true)
					return
				}
				f(w, b)
			}
		}()
	}
	wg.Wait()
}

type labelCase struct {
	n          int
	zone, rack []int
	typ        []int // third label, parts G-I only
}

func labelCases(n int, pol string, canonical bool) []labelCase {
	var out []labelCase
	zero := make([]int, n)
	switch pol {
	case "none", "empty":
		out = append(out, labelCase{n: n, zone: zero, rack: zero})
		// labels must not matter without a policy: one fully labelled variant
		z := make([]int, n)
		r := make([]int, n)
		for i := range z {
			z[i] = 1 + i%3
			r[i] = 1 + i%2
		}
		out = append(out, labelCase{n: n, zone: z, rack: r})
	case "Z":
		for _, z := range labelAssignments(n, 3, canonical) {
			out = append(out, labelCase{n: n, zone: z, rack: zero})
		}
	case "ZR":
		for _, z := range labelAssignments(n, 3, canonical) {
			for _, r := range labelAssignments(n, 2, canonical) {
				out = append(out, labelCase{n: n, zone: z, rack: r})
			}
		}
	}
	return out
}

// part A: coordinator path, uniform (empty) placement, every tie order.
// With equal loads the load-ratio list is one tie group, so pick j is "the first server of the
// tie order that is still a candidate": enumerating all n! orders covers every sequence of picks
// the real code can make under any placement and any map iteration order.
func partA(d *driver, maxServers int, include func(n int, pol string) bool, canonical bool) {
	for n := 1; n <= maxServers; n++ {
		perms := permutations(rangeInts(n))
		for _, pol := range polNames {
			if !include(n, pol) {
				continue
			}
			cases := labelCases(n, pol, canonical)
			d.runBlocks(len(cases), func(w *wk, b int) {
				lc := cases[b]
				for rf := 1; rf <= 4; rf++ {
					for _, p := range perms {
						w.evalSel(selInput{Part: "selector", Mode: "coordinator", N: n, Zone: lc.zone, Rack: lc.rack, Policy: pol, RF: rf,
							ServerIdx: uint32((b + rf) % (n + 1)), Tie: p})
						d.evals.Add(1)
					}
				}
			})
			cnt.add(fmt.Sprintf("partA_label_assignments_n%d_%s_canonical=%v", n, pol, canonical), int64(len(cases)))
		}
	}
}

// part B: no load-ratio supplier -> finalSelector with every ServerIdx (0..n), each input `reps`
// times because the candidate order after the anti-affinity filter depends on map iteration;
// plus Status=nil (k8s rand pick).
func partB(d *driver, maxServers, reps int, include func(n int, pol string) bool) {
	for n := 1; n <= maxServers; n++ {
		for _, pol := range polNames {
			if !include(n, pol) {
				continue
			}
			cases := labelCases(n, pol, true)
			d.runBlocks(len(cases), func(w *wk, b int) {
				lc := cases[b]
				for rf := 1; rf <= 4; rf++ {
					for idx := 0; idx <= n; idx++ {
						outs := map[string]bool{}
						for r := 0; r < reps; r++ {
							in := selInput{Part: "selector", Mode: "nil-supplier", N: n, Zone: lc.zone, Rack: lc.rack, Policy: pol, RF: rf, ServerIdx: uint32(idx)}
							w.evalSel(in)
							d.evals.Add(1)
						}
						_ = outs
					}
					for r := 0; r < reps; r++ {
						w.evalSel(selInput{Part: "selector", Mode: "nil-status", N: n, Zone: lc.zone, Rack: lc.rack, Policy: pol, RF: rf})
						d.evals.Add(1)
					}
				}
			})
		}
	}
}

// part C: coordinator path on top of every existing placement: all multisets of <=3 shards whose
// ensembles are the 1..3-subsets of the cluster plus one removed server.
func partC(d *driver, maxServers int) {
	for n := 1; n <= maxServers; n++ {
		nodes := append(rangeInts(n), maxN) // cluster + removed server x1
		var ens [][]int
		for k := 1; k <= 3 && k <= len(nodes); k++ {
			ens = append(ens, subsets(nodes, k)...)
		}
		ms := multisets(len(ens), 3)
		ties := [][]int{rangeInts(n)}
		rev := make([]int, n)
		rot := make([]int, n)
		for i := 0; i < n; i++ {
			rev[i] = n - 1 - i
			rot[i] = (i + 1) % n
		}
		if n > 1 {
			ties = append(ties, rev, rot)
		}
		// a handful of label assignments per policy
		type lp struct {
			pol string
			lc  labelCase
		}
		var lps []lp
		zero := make([]int, n)
		lps = append(lps, lp{"none", labelCase{n: n, zone: zero, rack: zero}})
		z1, r1, z2 := make([]int, n), make([]int, n), make([]int, n)
		for i := 0; i < n; i++ {
			z1[i] = 1 + i%3
			r1[i] = 1 + (i/2)%2
			z2[i] = 1 + i%2
		}
		lps = append(lps, lp{"Z", labelCase{n: n, zone: z1, rack: zero}}, lp{"Z", labelCase{n: n, zone: z2, rack: zero}}, lp{"ZR", labelCase{n: n, zone: z1, rack: r1}}, lp{"ZR", labelCase{n: n, zone: z2, rack: r1}})
		const chunk = 64
		nBlocks := (len(ms) + chunk - 1) / chunk
		d.runBlocks(nBlocks, func(w *wk, b int) {
			for mi := b * chunk; mi < (b+1)*chunk && mi < len(ms); mi++ {
				var placement [][]int
				for _, e := range ms[mi] {
					placement = append(placement, ens[e])
				}
				for _, x := range lps {
					for rf := 1; rf <= 4; rf++ {
						for _, t := range ties {
							w.evalSel(selInput{Part: "selector", Mode: "coordinator", N: n, Zone: x.lc.zone, Rack: x.lc.rack, Policy: x.pol, RF: rf,
								ServerIdx: uint32(mi % (n + 1)), Tie: t, Placement: placement})
							d.evals.Add(1)
						}
					}
				}
			}
		})
		cnt.add(fmt.Sprintf("partC_placements_n%d", n), int64(len(ms)))
	}
}

// ---------------------------------------------------------------- part D: balancer rounds

type balInput struct {
	Part      string  `json:"part"` // "balancer"
	N         int     `json:"n"`
	Zone      []int   `json:"zone"`
	Rack      []int   `json:"rack"`
	Type      []int   `json:"type,omitempty"`
	Policy    string  `json:"policy"`
	RF        int     `json:"rf"`
	Shards    [][]int `json:"shards"`   // ensembles (server indices; 5 = x1, a server no longer in the config)
	Tie       []int   `json:"tieOrder"` // priority among equally loaded nodes
	ShardDesc bool    `json:"shardOrderDescending"`
}

func contains(list []model.Server, id string) bool {
	for i := range list {
		if list[i].GetIdentifier() == id {
			return true
		}
	}
	return false
}

func ensIDs(list []model.Server) []string {
	out := make([]string, len(list))
	for i := range list {
		out[i] = list[i].GetIdentifier()
	}
	return out
}

// applySwaps applies the actions in emission order through the real replaceInList logic and checks each one.
func applySwaps(actions []*balancer.SwapNodeAction, cur map[int64]model.ShardMetadata, rf func(shard int64) int, n int,
	md map[string]model.ServerMetadata, polOf func(shard int64) *policies.Policies) []viol {
	var out []viol
	swapped := map[int64]int{}
	for i, a := range actions {
		smd, ok := cur[a.Shard]
		if !ok {
			out = append(out, viol{"swap:unknown-shard", fmt.Sprintf("action %d targets shard %d which does not exist", i, a.Shard)})
			continue
		}
		before := ensIDs(smd.Ensemble)
		from, to := a.From.GetIdentifier(), a.To.GetIdentifier()
		desc := fmt.Sprintf("action #%d of the round: shard %d swap %s -> %s, ensemble at that time %v", i+1, a.Shard, from, to, before)
		second := swapped[a.Shard] > 0
		swapped[a.Shard]++
		bad := false
		if !contains(smd.Ensemble, from) {
			k := "swap:from-not-in-ensemble"
			if from == "" {
				// NodeLoadRatio.Node is the zero Server for a node that held no shard before the round
				k = "swap:from-is-empty-server"
			}
			if second {
				k += ":later-swap-of-same-shard-in-round"
			}
			out = append(out, viol{k, desc + ": `From` is not a member, replaceInList appends `To` and the ensemble grows"})
			bad = true
		}
		if from != "" && contains(smd.Ensemble, to) {
			k := "swap:to-already-in-ensemble"
			if second {
				k += ":later-swap-of-same-shard-in-round"
			}
			why := ""
			if second {
				why = " (the proposal was computed from the ensemble as it was before the round)"
			}
			out = append(out, viol{k, desc + ": `To` is already a member" + why + ", the ensemble ends up with a duplicate"})
			bad = true
		}
		if ti := srvIdx(to); ti < 0 || ti >= n {
			out = append(out, viol{"swap:to-not-in-cluster", desc + ": `To` is not a server of the cluster"})
			bad = true
		}
		if !bad {
			for _, rule := range strictRules(polOf(a.Shard)) {
				label := rule.label
				tv, has := md[to].Labels[label]
				if !has {
					cnt.add("swap_target_without_rule_label", 1)
					continue
				}
				for _, m := range before {
					if m == from {
						continue
					}
					if mv, ok := md[m].Labels[label]; ok && mv == tv {
						k := "swap:anti-affinity-violated" + rule.keySuffix()
						if second {
							k += ":later-swap-of-same-shard-in-round"
						}
						out = append(out, viol{k, desc + fmt.Sprintf(": `To` shares %s=%s with remaining member %s under strict rule %d of %d", label, tv, m, rule.idx+1, rule.of)})
						bad = true
					}
				}
			}
		}
		after := controllers.VerifC19SwapEnsemble(smd, a.From, a.To)
		cnt.add("swaps_applied_through_replaceInList", 1)
		if !bad {
			ids := ensIDs(after.Ensemble)
			seen := map[string]bool{}
			dup := false
			for _, id := range ids {
				if seen[id] {
					dup = true
				}
				seen[id] = true
			}
			if len(ids) != rf(a.Shard) || dup {
				out = append(out, viol{"swap:ensemble-not-rf-distinct", desc + fmt.Sprintf(": ensemble afterwards %v (rf %d)", ids, rf(a.Shard))})
			}
			// exactly one member replaced
			if len(ids) == len(before) {
				diff := 0
				for _, id := range before {
					if !seen[id] {
						diff++
					}
				}
				if diff != 1 {
					out = append(out, viol{"swap:not-one-member-replaced", desc + fmt.Sprintf(": ensemble afterwards %v", ids)})
				}
			}
		}
		// the same swap when the member's address was refreshed from the cluster configuration after the
		// balancer took its snapshot (the shard controller does that at every election): `From` still names
		// the member (same identifier), so exactly that member must go
		if !bad && a.From.Name != nil && *a.From.Name != "" {
			ref := smd.Clone()
			for i := range ref.Ensemble {
				if ref.Ensemble[i].GetIdentifier() == a.From.GetIdentifier() {
					ref.Ensemble[i].Internal += "0"
					ref.Ensemble[i].Public += "0"
				}
			}
			ids := ensIDs(controllers.VerifC19SwapEnsemble(ref, a.From, a.To).Ensemble)
			cnt.add("swaps_applied_with_refreshed_member_address", 1)
			gone := true
			for _, id := range ids {
				if id == a.From.GetIdentifier() {
					gone = false
				}
			}
			if len(ids) != rf(a.Shard) || !gone {
				out = append(out, viol{"swap:member-with-refreshed-address-not-replaced", desc + fmt.Sprintf(": the member's address had been refreshed since the proposal was computed; ensemble afterwards %v (rf %d)", ids, rf(a.Shard))})
			}
		}
		cur[a.Shard] = after
	}
	return out
}

func (w *wk) runBal(in balInput) (string, []viol) {
	md, _ := w.setConfig(in.N, in.Zone, in.Rack, in.Type, in.Policy, in.RF)
	w.prio, w.shardDesc = in.Tie, in.ShardDesc
	st := mkStatus(in.RF, in.Shards, 0)
	w.statusRes.Update(st)
	w.bal.Reset(w.statusRes, w.vc.ConfigResource(), w.algo)
	round := w.bal.VerifC19Rebalance()
	cnt.add("balancer_rounds", 1)
	cnt.add("balancer_swap_actions", int64(len(round.Actions)))
	size := in.N*100 + in.RF*10 + len(in.Shards)
	if round.Livelock {
		cnt.add("balancer_rounds_that_never_terminate", 1)
		cnt.example("balancer_livelock", in, size)
	}
	if round.Panicked != "" {
		cnt.add("balancer_rounds_that_panic", 1)
		cnt.example("balancer_panic", map[string]any{"input": in, "panic": round.Panicked}, size)
	}
	cur := map[int64]model.ShardMetadata{}
	if nss, ok := st.Namespaces["ns"]; ok {
		for id, smd := range nss.Shards {
			cur[id] = smd.Clone()
		}
	}
	vs := applySwaps(round.Actions, cur, func(int64) int { return in.RF }, in.N, md, func(int64) *policies.Policies { return policyByName(in.Policy) })
	perShard := map[int64]int{}
	maxPer := 0
	for _, a := range round.Actions {
		perShard[a.Shard]++
		if perShard[a.Shard] > maxPer {
			maxPer = perShard[a.Shard]
		}
	}
	if maxPer > 1 {
		cnt.add("balancer_rounds_with_two_swaps_of_one_shard", 1)
	}
	out := fmt.Sprintf("actions=%d maxPerShard=%d", len(round.Actions), maxPer)
	if round.Livelock {
		out += " livelock"
	}
	if round.Panicked != "" {
		out += " panic"
	}
	return out, vs
}

func (w *wk) evalBal(in balInput) {
	out, vs := w.runBal(in)
	w.distinct(fmt.Sprintf("bal/n%d/%s/rf%d/removed=%v/%s", in.N, in.Policy, in.RF, usesRemoved(in.Shards), out))
	for _, v := range vs {
		agg.add(v.key, "balancer-round", v.msg+fmt.Sprintf(" [n=%d zone=%v rack=%v type=%v policy=%s rf=%d shards=%v tie=%v shardDesc=%v]", in.N, in.Zone, in.Rack, in.Type, in.Policy, in.RF, in.Shards, in.Tie, in.ShardDesc),
			in, in.N*100+in.RF*10+len(in.Shards))
	}
}

func usesRemoved(shards [][]int) bool {
	for _, s := range shards {
		for _, x := range s {
			if x == maxN {
				return true
			}
		}
	}
	return false
}

// tieOrders: every order of the nodes that is consistent with the load counts if there are at
// most `cap` of them, otherwise the rotations and reversed rotations of the canonical order.
func tieOrders(nodes []int, shards [][]int, cap int) (orders [][]int, bounded bool) {
	count := map[int]int{}
	for _, s := range shards {
		for _, x := range s {
			count[x]++
		}
	}
	groups := map[int][]int{}
	var keys []int
	for _, x := range nodes {
		c := count[x]
		if _, ok := groups[c]; !ok {
			keys = append(keys, c)
		}
		groups[c] = append(groups[c], x)
	}
	sort.Ints(keys)
	total := 1
	for _, k := range keys {
		f := 1
		for i := 2; i <= len(groups[k]); i++ {
			f *= i
		}
		total *= f
		if total > cap {
			break
		}
	}
	if total <= cap {
		orders = [][]int{{}}
		for _, k := range keys {
			var next [][]int
			for _, p := range permutations(groups[k]) {
				for _, o := range orders {
					next = append(next, append(append([]int{}, o...), p...))
				}
			}
			orders = next
		}
		return orders, false
	}
	m := len(nodes)
	for r := 0; r < m; r++ {
		a, b := make([]int, m), make([]int, m)
		for i := 0; i < m; i++ {
			a[i] = nodes[(i+r)%m]
			b[i] = nodes[(m-1-i+r)%m]
		}
		orders = append(orders, a, b)
	}
	return orders, true
}

func partD(d *driver, maxServers int, scope func(n int, pol string) (cases []labelCase, tieCap int)) {
	for n := 1; n <= maxServers; n++ {
		for _, removed := range []bool{false, true} {
			nodes := rangeInts(n)
			if removed {
				nodes = append(nodes, maxN)
			}
			for rf := 1; rf <= 4 && rf <= len(nodes); rf++ {
				ens := subsets(nodes, rf)
				if removed {
					// keep statuses that actually use the removed server (the others are the removed=false case)
				}
				ms := multisets(len(ens), 3)
				for _, pol := range polNames {
					cases, tieCap := scope(n, pol)
					if len(cases) == 0 {
						continue
					}
					const chunk = 16
					nb := (len(ms) + chunk - 1) / chunk
					d.runBlocks(nb*len(cases), func(w *wk, b int) {
						lc := cases[b/nb]
						for mi := (b % nb) * chunk; mi < (b%nb+1)*chunk && mi < len(ms); mi++ {
							var shards [][]int
							for _, e := range ms[mi] {
								shards = append(shards, ens[e])
							}
							if removed && !usesRemoved(shards) {
								continue
							}
							orders, bounded := tieOrders(nodes, shards, tieCap)
							if bounded {
								cnt.add("balancer_statuses_with_bounded_tie_orders", 1)
							}
							for _, o := range orders {
								for _, desc := range []bool{false, true} {
									if desc && len(shards) < 2 {
										continue
									}
									w.evalBal(balInput{Part: "balancer", N: n, Zone: lc.zone, Rack: lc.rack, Policy: pol, RF: rf, Shards: shards, Tie: o, ShardDesc: desc})
									d.evals.Add(1)
								}
							}
						}
					})
				}
			}
		}
	}
}

// ---------------------------------------------------------------- parts G/H/I: three and four rules over three labels
//
// Policies: `rules` single-label rules over zone/rack/type that use all three labels, one per
// renaming of the labels (first occurrences in the order Z,R,T: Z.R.T for three rules; Z.Z.R.T,
// Z.R.Z.T, Z.R.R.T, Z.R.T.Z, Z.R.T.R, Z.R.T.T for four), every rule Strict or Relaxed (2^rules).
// Label assignments: per label every (absent set, partition of the labelled servers into equal
// values) = every assignment up to renaming of the values; all three labels independently.
// Server symmetry: the label triples, the placements and the statuses are closed under renaming
// of the cluster's servers, so (labels, placement, tie order t) is the image of
// (t^-1 labels, t^-1 placement, identity order). Where stated the tie order is therefore fixed to
// s1<s2<..<sn (the removed server x1 is not a cluster server: every position of x1 is enumerated).

func rulePolicies(rules int) []string {
	var seqs [][]int
	cur := make([]int, rules)
	var rec func(i, used int)
	rec = func(i, used int) {
		if i == rules {
			if used == 3 {
				seqs = append(seqs, append([]int{}, cur...))
			}
			return
		}
		for v := 0; v <= used && v < 3; v++ {
			cur[i] = v
			u := used
			if v == used {
				u++
			}
			rec(i+1, u)
		}
	}
	rec(0, 0)
	var out []string
	for _, sq := range seqs {
		for m := 0; m < 1<<rules; m++ {
			var toks []string
			for i, l := range sq {
				mode := "s"
				if m&(1<<i) != 0 {
					mode = "r"
				}
				toks = append(toks, string("ZRT"[l])+mode)
			}
			out = append(out, strings.Join(toks, "."))
		}
	}
	return out
}

// tripleCases: zone x rack x type, each label every assignment up to value renaming (n values
// available, so every partition occurs); full=true keeps only the assignments without absent labels.
func tripleCases(n int, full bool) []labelCase {
	var one [][]int
	for _, a := range labelAssignments(n, n, true) {
		if full && hasZero(a) {
			continue
		}
		one = append(one, a)
	}
	var out []labelCase
	for _, z := range one {
		for _, r := range one {
			for _, t := range one {
				out = append(out, labelCase{n: n, zone: z, rack: r, typ: t})
			}
		}
	}
	return out
}

// part G: selectNewEnsemble, uniform load (see part A for why all tie orders = all pick sequences).
func partG(d *driver, tag string, polNames []string, n int, cases []labelCase, perms [][]int) {
	const chunk = 8
	nb := (len(cases) + chunk - 1) / chunk
	d.runBlocks(nb, func(w *wk, b int) {
		for ci := b * chunk; ci < (b+1)*chunk && ci < len(cases); ci++ {
			lc := cases[ci]
			for _, pol := range polNames {
				for rf := 1; rf <= 4; rf++ {
					for _, p := range perms {
						w.evalSel(selInput{Part: "selector", Mode: "coordinator", N: n, Zone: lc.zone, Rack: lc.rack, Type: lc.typ, Policy: pol, RF: rf, Tie: p})
					}
					d.evals.Add(int64(len(perms)))
				}
			}
		}
	})
	cnt.add(fmt.Sprintf("partG_%s_n%d_%dtieorders_label_triples", tag, n, len(perms)), int64(len(cases)))
}

// part H: selectNewEnsemble on top of every existing placement of <= maxShards shards (ensembles =
// 1..3-subsets of cluster + removed server x1), RF 2..3 (RF 1 has no anti-affinity to violate; it is in part G), tie order s1<..<sn (server symmetry).
func partH(d *driver, tag string, polNames []string, n int, cases []labelCase, maxShards int) {
	nodes := append(rangeInts(n), maxN)
	var ens [][]int
	for k := 1; k <= 3 && k <= len(nodes); k++ {
		ens = append(ens, subsets(nodes, k)...)
	}
	ms := multisets(len(ens), maxShards)
	tie := rangeInts(n)
	d.runBlocks(len(cases), func(w *wk, b int) {
		lc := cases[b]
		for _, pol := range polNames {
			for rf := 2; rf <= 3; rf++ {
				for mi := range ms {
					var placement [][]int
					for _, e := range ms[mi] {
						placement = append(placement, ens[e])
					}
					w.evalSel(selInput{Part: "selector", Mode: "coordinator", N: n, Zone: lc.zone, Rack: lc.rack, Type: lc.typ, Policy: pol, RF: rf,
						ServerIdx: uint32(mi % (n + 1)), Tie: tie, Placement: placement})
				}
				d.evals.Add(int64(len(ms)))
			}
		}
	})
	cnt.add(fmt.Sprintf("partH_%s_n%d_le%dshards_label_triples_x_placements", tag, n, maxShards), int64(len(cases)*len(ms)))
}

// part I: one real rebalance round for every status of <= maxShards shards (all multisets of the
// RF-subsets of cluster [+ x1]), 0-1 removed server, both shard orders; tie order s1<..<sn with
// x1 at every position (server symmetry).
func partI(d *driver, tag string, polNames []string, n int, cases []labelCase, maxShards int) {
	type st struct {
		rf     int
		shards [][]int
		ties   [][]int
	}
	// the round takes one load-ratio snapshot: node ratio = shard count / total, so a tie order acts
	// only through the resulting order of the nodes; positions of x1 that give the same order are merged
	effective := func(nodes []int, shards [][]int, tie []int) string {
		count := map[int]int{}
		for _, sh := range shards {
			for _, x := range sh {
				count[x]++
			}
		}
		pos := map[int]int{}
		for i, x := range tie {
			pos[x] = i
		}
		o := append([]int{}, nodes...)
		sort.SliceStable(o, func(i, j int) bool {
			if count[o[i]] != count[o[j]] {
				return count[o[i]] < count[o[j]]
			}
			return pos[o[i]] < pos[o[j]]
		})
		return fmt.Sprint(o)
	}
	var sts []st
	for _, removed := range []bool{false, true} {
		nodes := rangeInts(n)
		allTies := [][]int{rangeInts(n)}
		if removed {
			nodes = append(nodes, maxN)
			allTies = nil
			for pos := 0; pos <= n; pos++ {
				t := append([]int{}, rangeInts(n)[:pos]...)
				t = append(t, maxN)
				t = append(t, rangeInts(n)[pos:]...)
				allTies = append(allTies, t)
			}
		}
		for rf := 1; rf <= 4 && rf <= len(nodes); rf++ {
			ens := subsets(nodes, rf)
			for _, m := range multisets(len(ens), maxShards) {
				var shards [][]int
				for _, e := range m {
					shards = append(shards, ens[e])
				}
				if removed && !usesRemoved(shards) {
					continue
				}
				seen := map[string]bool{}
				var ties [][]int
				for _, t := range allTies {
					if k := effective(nodes, shards, t); !seen[k] {
						seen[k] = true
						ties = append(ties, t)
					}
				}
				sts = append(sts, st{rf, shards, ties})
			}
		}
	}
	sort.SliceStable(sts, func(i, j int) bool { return sts[i].rf < sts[j].rf })
	d.runBlocks(len(cases), func(w *wk, b int) {
		// <= 3 shards: a terminating round logs <= 4 errors; 16 instead of 60 retries of a never-ending round
		w.bal.SetLivelockThreshold(16)
		defer w.bal.SetLivelockThreshold(60)
		lc := cases[b]
		k := int64(0)
		for _, pol := range polNames {
			for _, s := range sts {
				for _, t := range s.ties {
					for _, desc := range []bool{false, true} {
						if desc && len(s.shards) < 2 {
							continue
						}
						w.evalBal(balInput{Part: "balancer", N: n, Zone: lc.zone, Rack: lc.rack, Type: lc.typ, Policy: pol, RF: s.rf, Shards: s.shards, Tie: t, ShardDesc: desc})
						k++
					}
				}
			}
		}
		d.evals.Add(k)
	})
	cnt.add(fmt.Sprintf("partI_%s_n%d_le%dshards_label_triples", tag, n, maxShards), int64(len(cases)))
	cnt.add(fmt.Sprintf("partI_%s_n%d_le%dshards_statuses", tag, n, maxShards), int64(len(sts)))
}

// part F: the minimal failing statuses with the UNMODIFIED load-ratio algorithm (real map-iteration
// tie order), repeated: confirms that the violations do not depend on the tie-order seam.
func partF(run *ev.Run, reps int) {
	inputs := []balInput{
		{Part: "balancer", N: 2, Zone: []int{0, 0}, Rack: []int{0, 0}, Policy: "none", RF: 2, Shards: [][]int{{0, 1}, {0, 5}}},
		{Part: "balancer", N: 1, Zone: []int{0}, Rack: []int{0}, Policy: "none", RF: 1, Shards: [][]int{{5}, {5}}},
		{Part: "balancer", N: 3, Zone: []int{0, 1, 1}, Rack: []int{1, 1, 2}, Policy: "ZR", RF: 2, Shards: [][]int{{0, 2}, {0, 5}}},
		{Part: "balancer", N: 4, Zone: []int{0, 0, 0, 0}, Rack: []int{0, 0, 0, 0}, Policy: "none", RF: 3, Shards: [][]int{{0, 1, 2}, {0, 1, 5}, {0, 2, 5}}},
	}
	w := newWk()
	for i, in := range inputs {
		bad := 0
		for r := 0; r < reps; r++ {
			w.realAlgo = true
			_, vs := w.runBal(in)
			w.realAlgo = false
			if len(vs) > 0 {
				bad++
				for _, v := range vs {
					agg.add(v.key, "balancer-round", v.msg+fmt.Sprintf(" [unmodified DefaultShardsRank; n=%d policy=%s rf=%d shards=%v]", in.N, in.Policy, in.RF, in.Shards), in, in.N*100+in.RF*10+len(in.Shards))
				}
			}
		}
		run.Add(fmt.Sprintf("partF_input%d_rounds_with_violation_of_%d_real_runs", i+1, reps), int64(bad))
		run.Add("partF_real_algorithm_rounds", int64(reps))
	}
}

// ---------------------------------------------------------------- part E: small E1 search

var e1Servers = 5
var e1Zone = []int{1, 1, 2, 3, 2}
var e1Rack = []int{1, 2, 1, 2, 2}

type e1ns struct {
	name   string
	pol    string
	rf     uint32
	shards uint32
}

var e1Namespaces = []e1ns{{"nsA", "none", 2, 2}, {"nsB", "Z", 2, 2}, {"nsC", "ZR", 2, 2}, {"nsD", "none", 3, 1}}

type e1inst struct {
	spec    string
	servers [maxN]bool
	nss     map[string]bool
	vc      *coordinator.VerifCoordinator
	bal     *balancer.VerifC19Balancer
	calls   int
	hist    []int
	level   *levelMark
	skip    bool
	tainted bool
}

type levelMark struct{ max atomic.Int32 }

func e1OpName(op int) string {
	switch {
	case op < 4:
		n := e1Namespaces[op]
		return fmt.Sprintf("AddNamespace(%s,policy=%s,rf=%d,shards=%d)", n.name, n.pol, n.rf, n.shards)
	case op < 4+maxN:
		return "AddServer(" + srvID[op-4] + ")"
	case op < 4+2*maxN:
		return "RemoveServer(" + srvID[op-4-maxN] + ")"
	}
	return "RebalanceRound+ApplySwaps"
}

const e1NOps = 4 + 2*maxN + 1

func newE1(spec string, initial int, lm *levelMark) *e1inst {
	in := &e1inst{spec: spec, nss: map[string]bool{}, level: lm}
	for i := 0; i < initial; i++ {
		in.servers[i] = true
	}
	in.vc = coordinator.VerifNewCoordinator(metadata.NewMetadataProviderMemory(), in.algo)
	in.bal = balancer.VerifC19NewBalancer(nil, nil, in.algo)
	if _, _, p := in.vc.VerifConfigChanged(in.config()); p != nil {
		panic(p)
	}
	return in
}

func (in *e1inst) algo(params *model.RatioParams) *model.Ratio {
	rot := int(in.vc.StatusResource().Load().ServerIdx) + in.calls
	in.calls++
	return reorder(single.DefaultShardsRank(params), func(id string) int { return ((srvIdx(id)-rot)%6 + 6) % 6 }, rot%2 == 1)
}

func (in *e1inst) config() model.ClusterConfig {
	cfg := model.ClusterConfig{ServerMetadata: map[string]model.ServerMetadata{}}
	for _, n := range e1Namespaces {
		if in.nss[n.name] {
			cfg.Namespaces = append(cfg.Namespaces, model.NamespaceConfig{Name: n.name, InitialShardCount: n.shards, ReplicationFactor: n.rf, Policies: policyByName(n.pol)})
		}
	}
	md := in.metadata()
	for i := 0; i < maxN; i++ {
		if in.servers[i] {
			cfg.Servers = append(cfg.Servers, srvVal[i])
			if m, ok := md[srvID[i]]; ok {
				cfg.ServerMetadata[srvID[i]] = m
			}
		}
	}
	return cfg
}

func (in *e1inst) Close() { in.vc.Close(); in.bal.Close() }

// metadata of the servers that are in the config (labels of a removed server are not known to the coordinator)
func (in *e1inst) metadata() map[string]model.ServerMetadata {
	all := mkMetadata(maxN, e1Zone, e1Rack, nil)
	for i := 0; i < maxN; i++ {
		if !in.servers[i] {
			delete(all, srvID[i])
		}
	}
	return all
}

func (in *e1inst) violate(v viol) {
	if in.skip {
		return
	}
	names := make([]string, len(in.hist))
	for i, o := range in.hist {
		names[i] = e1OpName(o)
	}
	agg.add(v.key, "ensemble-seq", v.msg, map[string]any{"part": "e1", "config": in.spec, "ops": names, "indices": append([]int{}, in.hist...)}, len(in.hist)*1000)
}

func (in *e1inst) inCluster(id string) bool {
	i := srvIdx(id)
	return i >= 0 && i < maxN && in.servers[i]
}

func (in *e1inst) nsOfShard(st *model.ClusterStatus, shard int64) (string, bool) {
	for name, nss := range st.Namespaces {
		if _, ok := nss.Shards[shard]; ok {
			return name, true
		}
	}
	return "", false
}

func (in *e1inst) Step(op int) (bool, *ev.Violation) {
	in.hist = append(in.hist, op)
	in.skip = false
	if in.level != nil {
		idx := int32(len(in.hist))
		for {
			m := in.level.max.Load()
			if idx < m {
				in.skip = true
				break
			}
			if idx == m || in.level.max.CompareAndSwap(m, idx) {
				break
			}
		}
	}
	nsrv := 0
	for _, b := range in.servers {
		if b {
			nsrv++
		}
	}
	if in.tainted {
		return false, nil // a violating state is reported once and not explored further
	}
	md := in.metadata()
	switch {
	case op < 4:
		n := e1Namespaces[op]
		if in.nss[n.name] {
			return false, nil
		}
		in.nss[n.name] = true
		return in.apply(md), nil
	case op < 4+maxN:
		i := op - 4
		if in.servers[i] {
			return false, nil
		}
		in.servers[i] = true
		return in.apply(md), nil
	case op < 4+2*maxN:
		i := op - 4 - maxN
		if !in.servers[i] || nsrv <= 1 {
			return false, nil
		}
		in.servers[i] = false
		return in.apply(md), nil
	}
	// rebalance round
	st := in.vc.StatusResource().Load()
	in.calls = 0
	in.bal.Reset(in.vc.StatusResource(), in.vc.ConfigResource(), in.algo)
	round := in.bal.VerifC19Rebalance()
	if !in.skip {
		cnt.add("e1_balancer_rounds", 1)
		if round.Livelock {
			cnt.add("e1_balancer_rounds_that_never_terminate", 1)
		}
		if round.Panicked != "" {
			cnt.add("e1_balancer_rounds_that_panic", 1)
		}
	}
	if len(round.Actions) == 0 {
		return false, nil // nothing changes: not a transition
	}
	cur := map[int64]model.ShardMetadata{}
	rfOf := map[int64]int{}
	polOf := map[int64]*policies.Policies{}
	for name, nss := range st.Namespaces {
		for id, smd := range nss.Shards {
			cur[id] = smd.Clone()
			rfOf[id] = int(nss.ReplicationFactor)
			for _, n := range e1Namespaces {
				if n.name == name {
					polOf[id] = policyByName(n.pol)
				}
			}
		}
	}
	// cluster membership for the oracle: servers currently in the config
	nIn := func(id string) bool { return in.inCluster(id) }
	vs := applySwapsE1(round.Actions, cur, rfOf, nIn, md, polOf)
	for _, v := range vs {
		in.violate(v)
	}
	if len(vs) > 0 {
		in.tainted = true
	}
	// the shard controllers persist the new ensembles
	for _, a := range round.Actions {
		if ns, ok := in.nsOfShard(st, a.Shard); ok {
			smd := cur[a.Shard]
			smd.RemovedNodes = nil
			in.vc.StatusResource().UpdateShardMetadata(ns, a.Shard, smd)
		}
	}
	return true, nil
}

func applySwapsE1(actions []*balancer.SwapNodeAction, cur map[int64]model.ShardMetadata, rfOf map[int64]int, inCluster func(string) bool,
	md map[string]model.ServerMetadata, polOf map[int64]*policies.Policies) []viol {
	// same oracle as applySwaps, cluster membership given by a predicate
	vs := applySwaps(actions, cur, func(s int64) int { return rfOf[s] }, maxN, md, func(s int64) *policies.Policies { return polOf[s] })
	for i, a := range actions {
		if !inCluster(a.To.GetIdentifier()) {
			vs = append(vs, viol{"swap:to-not-in-cluster", fmt.Sprintf("action #%d: shard %d swap %s -> %s: `To` is not in the current config", i+1, a.Shard, a.From.GetIdentifier(), a.To.GetIdentifier())})
		}
	}
	return vs
}

func (in *e1inst) apply(_ map[string]model.ServerMetadata) bool {
	md := in.metadata() // after the op changed the server set: a namespace that was refused earlier may be created now, on the new servers
	in.calls = 0
	added, _, panicked := in.vc.VerifConfigChanged(in.config())
	if panicked != nil {
		if !in.skip {
			cnt.add("e1_config_changes_refused_by_panic", 1)
		}
		return false
	}
	if in.skip {
		return true
	}
	st := in.vc.StatusResource().Load()
	for id, ns := range added {
		smd := st.Namespaces[ns].Shards[id]
		var nsd e1ns
		for _, n := range e1Namespaces {
			if n.name == ns {
				nsd = n
			}
		}
		cnt.add("e1_created_ensembles_checked", 1)
		ids := ensIDs(smd.Ensemble)
		if v := checkEnsemble(ids, int(nsd.rf), maxN, md, policyByName(nsd.pol)); v != nil {
			in.violate(*v)
		}
		for _, id := range ids {
			if !in.inCluster(id) {
				in.violate(viol{"ensemble:member-not-in-cluster", fmt.Sprintf("new shard %d of %s got ensemble %v; %s is not in the config", id, ns, ids, id)})
			}
		}
	}
	return true
}

func (in *e1inst) Key() string {
	var b strings.Builder
	fmt.Fprintf(&b, "%v|%v|", in.servers, in.tainted)
	for _, n := range e1Namespaces {
		fmt.Fprintf(&b, "%v,", in.nss[n.name])
	}
	st := in.vc.StatusResource().Load()
	fmt.Fprintf(&b, "|g%d i%d|", st.ShardIdGenerator, st.ServerIdx)
	var names []string
	for n := range st.Namespaces {
		names = append(names, n)
	}
	sort.Strings(names)
	for _, n := range names {
		nss := st.Namespaces[n]
		var ids []int64
		for id := range nss.Shards {
			ids = append(ids, id)
		}
		sort.Slice(ids, func(i, j int) bool { return ids[i] < ids[j] })
		fmt.Fprintf(&b, "%s{", n)
		for _, id := range ids {
			fmt.Fprintf(&b, "%d:%v;", id, ensIDs(nss.Shards[id].Ensemble))
		}
		b.WriteString("}")
	}
	return b.String()
}

// ---------------------------------------------------------------- main

func main() {
	replay := flag.String("replay", "", "replay file")
	flag.Parse()
	oxh.Quiet()
	slog.SetDefault(slog.New(slog.NewTextHandler(io.Discard, &slog.HandlerOptions{Level: slog.Level(100)})))
	run := ev.NewRun("C19", "exploration")
	thorough := run.Tier == "thorough"
	if *replay != "" {
		os.Exit(doReplay(*replay))
	}
	budget := 50 * time.Second
	if thorough {
		budget = 16 * time.Minute
	}
	if b := os.Getenv("VERIF_BUDGET_S"); b != "" {
		var sec int
		fmt.Sscanf(b, "%d", &sec)
		budget = time.Duration(sec) * time.Second
	}
	if pf := os.Getenv("VERIF_CPUPROF"); pf != "" {
		f, err := os.Create(pf)
		if err == nil {
			_ = pprof.StartCPUProfile(f)
			defer pprof.StopCPUProfile()
		}
	}
	start := time.Now()
	d := &driver{deadline: start.Add(budget)}
	parts := os.Getenv("VERIF_PARTS")
	const allParts = "ABCDEGHI"
	if parts == "" {
		parts = allParts
	}
	if parts != allParts {
		run.NotExhaustive("only parts " + parts + " were run (VERIF_PARTS)")
	}
	has := func(p string) bool { return strings.Contains(parts, p) }

	// A: quick = one representative per renaming of label values; thorough = every assignment (no symmetry assumption)
	partA(d, maxN, func(n int, pol string) bool { return has("A") && (thorough || n < maxN || pol != "ZR") }, true)
	run.Add("partA_selector_evaluations", d.evals.Swap(0))
	reps := 2
	if thorough {
		reps = 8
	}
	partB(d, maxN, reps, func(n int, pol string) bool { return has("B") && (thorough || n < maxN || pol != "ZR") })
	run.Add("partB_selector_evaluations", d.evals.Swap(0))
	cN := 4
	if thorough {
		cN = 5
	}
	if has("C") {
		partC(d, cN)
	}
	run.Add("partC_selector_evaluations", d.evals.Swap(0))

	// D: balancer rounds
	partD(d, maxN, func(n int, pol string) ([]labelCase, int) {
		if !has("D") {
			return nil, 0
		}
		zero := make([]int, n)
		racks := func() [][]int {
			a, b := make([]int, n), make([]int, n)
			for i := 0; i < n; i++ {
				a[i] = 1 + i%2
				b[i] = 1 + (i/2)%2
			}
			return [][]int{a, b}
		}
		var zones [][]int // canonical zone assignments; with absent values only for small n
		for _, z := range labelAssignments(n, 3, true) {
			if hasZero(z) && n > 3 {
				continue
			}
			zones = append(zones, z)
		}
		tieCap := 24
		switch {
		case thorough && n <= 4:
			tieCap = 720
		case thorough:
			tieCap = 24
		case n == 4:
			tieCap = 6
		case n == 5:
			tieCap = 2
		}
		switch pol {
		case "none", "empty":
			return []labelCase{{n: n, zone: zero, rack: zero}}, tieCap
		case "Z":
			if n == maxN || (!thorough && n == 4) {
				return nil, 0
			}
			var out []labelCase
			for _, z := range zones {
				out = append(out, labelCase{n: n, zone: z, rack: zero})
			}
			return out, tieCap
		default:
			if n > 4 || (!thorough && n == 4) {
				return nil, 0
			}
			var out []labelCase
			for _, z := range zones {
				for _, r := range racks() {
					out = append(out, labelCase{n: n, zone: z, rack: r})
				}
			}
			return out, tieCap
		}
	})
	run.Add("partD_balancer_evaluations", d.evals.Swap(0))

	// G/H/I: namespaces with three and four anti-affinity rules over zone/rack/type
	p3, p4 := rulePolicies(3), rulePolicies(4)
	run.Coverage["three_rule_policies"] = p3
	run.Coverage["four_rule_policies"] = len(p4)
	ident := func(n int) [][]int { return [][]int{rangeInts(n)} }
	allPerms := func(n int) [][]int { return permutations(rangeInts(n)) }
	// quick bounds first (small clusters first: a deadline cut removes the biggest spaces only);
	// the thorough-only spaces follow after part E.
	all := func(n int) []labelCase { return tripleCases(n, false) }
	full := func(n int) []labelCase { return tripleCases(n, true) }
	if has("G") {
		for n := 1; n <= 3; n++ {
			partG(d, "3rules", p3, n, all(n), allPerms(n)) // no server-symmetry assumption up to n=3
		}
		partG(d, "4rules", p4, 1, all(1), allPerms(1))
		partG(d, "4rules", p4, 2, all(2), allPerms(2))
		partG(d, "3rules_fully_labelled", p3, 4, full(4), ident(4))
		partG(d, "4rules_fully_labelled", p4, 3, full(3), allPerms(3))
	}
	run.Add("partG_selector_evaluations", d.evals.Swap(0))
	if has("H") {
		for n := 1; n <= 2; n++ {
			partH(d, "3rules", p3, n, all(n), 2)
		}
		partH(d, "4rules", p4, 1, all(1), 2)
		partH(d, "4rules", p4, 2, all(2), 1)
		partH(d, "3rules_fully_labelled", p3, 3, full(3), 2)
	}
	run.Add("partH_selector_evaluations", d.evals.Swap(0))
	if has("I") {
		partI(d, "3rules", p3, 1, all(1), 3)
		partI(d, "3rules", p3, 2, all(2), 2)
		partI(d, "4rules", p4, 1, all(1), 2)
		partI(d, "4rules_fully_labelled", p4, 2, full(2), 2)
		partI(d, "3rules_fully_labelled", p3, 3, full(3), 2)
	}
	run.Add("partI_balancer_evaluations", d.evals.Swap(0))
	if d.cut.Load() {
		run.NotExhaustive("input enumeration cut by the deadline")
	}

	if has("D") {
		freps := 200
		if thorough {
			freps = 2000
		}
		partF(run, freps)
	}
	// E: small E1
	depth := 4
	if thorough {
		depth = 5
	}
	if s := os.Getenv("VERIF_DEPTH"); s != "" {
		fmt.Sscanf(s, "%d", &depth)
	}
	var totalStates int64
	for _, initial := range []int{4, 3} {
		if !has("E") {
			break
		}
		spec := e1Spec(initial, depth)
		spec.Deadline = time.Now().Add(budget/4 + time.Until(d.deadline)/2)
		res := seqx.Explore(spec)
		seqx.Report(run, spec, res)
		totalStates += res.States
	}

	if thorough {
		if has("G") {
			partG(d, "4rules", p4, 3, all(3), allPerms(3))
			partG(d, "3rules_fully_labelled", p3, 4, full(4), allPerms(4))
			partG(d, "3rules", p3, 4, all(4), ident(4))
			partG(d, "4rules_fully_labelled", p4, 4, full(4), ident(4))
		}
		run.Add("partG_selector_evaluations", d.evals.Swap(0))
		if has("H") {
			partH(d, "4rules", p4, 2, all(2), 2)
			partH(d, "3rules", p3, 3, all(3), 2) // includes the <=1-shard placements
			partH(d, "4rules_fully_labelled", p4, 3, full(3), 2)
			partH(d, "4rules", p4, 3, all(3), 1)
			partH(d, "3rules_fully_labelled", p3, 4, full(4), 2)
		}
		run.Add("partH_selector_evaluations", d.evals.Swap(0))
		if has("I") {
			partI(d, "3rules", p3, 2, all(2), 3)
			partI(d, "4rules", p4, 2, all(2), 2)
			partI(d, "3rules_fully_labelled", p3, 3, full(3), 3)
			partI(d, "4rules_fully_labelled", p4, 3, full(3), 1)
			partI(d, "3rules", p3, 3, all(3), 1)
			partI(d, "3rules_fully_labelled", p3, 4, full(4), 1)
		}
		run.Add("partI_balancer_evaluations", d.evals.Swap(0))
		if d.cut.Load() {
			run.NotExhaustive("three/four-rule enumeration cut by the deadline")
		}
	}
	if thorough && has("A") {
		// every label assignment, no symmetry assumption; the biggest block (n=5, zone+rack) last
		d.deadline = start.Add(budget + 3*time.Minute)
		partA(d, maxN, func(n int, pol string) bool { return n < maxN || pol != "ZR" }, false)
		partA(d, maxN, func(n int, pol string) bool { return n == maxN && pol == "ZR" }, false)
		run.Add("partA_selector_evaluations", d.evals.Swap(0))
		if d.cut.Load() {
			run.NotExhaustive("non-canonical label enumeration cut by the deadline")
		}
	}
	agg.flush(run)
	fastCnt.Range(func(k, v any) bool { run.Add(k.(string), v.(*atomic.Int64).Load()); return true })
	cnt.mu.Lock()
	obs := map[string]any{}
	for k, v := range cnt.ex {
		obs[k] = v.(exT).v
	}
	cnt.mu.Unlock()
	run.Coverage["observations_outside_the_property"] = obs
	run.Add("evaluations", run.Get("partF_real_algorithm_rounds")+run.Get("partA_selector_evaluations")+run.Get("partB_selector_evaluations")+run.Get("partC_selector_evaluations")+run.Get("partD_balancer_evaluations")+run.Get("partG_selector_evaluations")+run.Get("partH_selector_evaluations")+run.Get("partI_balancer_evaluations"))
	distinctMu.Lock()
	for k := range distinctSet {
		run.Distinct(k)
	}
	distinctMu.Unlock()
	run.DistinctN(totalStates)
	run.Coverage["e1_max_depth"] = depth
	run.Sample(selInput{Part: "selector", Mode: "coordinator", N: 3, Zone: []int{1, 2, 2}, Rack: []int{1, 1, 2}, Policy: "ZR", RF: 2, Tie: []int{1, 0, 2}})
	run.Sample(selInput{Part: "selector", Mode: "coordinator", N: 3, Zone: []int{1, 2, 3}, Rack: []int{1, 1, 2}, Type: []int{1, 2, 1}, Policy: "Zs.Rs.Ts", RF: 2, Tie: []int{0, 1, 2}})
	run.Sample(balInput{Part: "balancer", N: 3, Zone: []int{1, 2, 3}, Rack: []int{1, 1, 2}, Type: []int{1, 2, 1}, Policy: "Zs.Rs.Ts", RF: 2, Shards: [][]int{{0, 5}}, Tie: []int{0, 1, 2, 5}})
	run.Sample(balInput{Part: "balancer", N: 4, Zone: []int{0, 0, 0, 0}, Rack: []int{0, 0, 0, 0}, Policy: "none", RF: 3, Shards: [][]int{{0, 1, 5}, {0, 1, 2}}, Tie: []int{0, 1, 2, 3, 5}})
	run.Assume = []string{
		"multi-label anti-affinity rules and the Relaxed mode are outside the oracle (the property speaks about strict rules; a member without the rule's label is not counted as a conflict)",
		"a panic of the selector chain / balancer and a rebalance round that never terminates are counted as 'operation refused' (observations_outside_the_property), not as violations of this property",
		"the order of equally loaded nodes and of the shards inside a node (Go map iteration in DefaultShardsRank / GroupingShardsNodeByStatus) is enumerated through the LoadRatioAlgorithm seam: exhaustively in part A and in part D up to the tie cap, rotations+reversals beyond the cap; the map-iteration order inside the anti-affinity selector only matters without a load-ratio supplier (part B), where each input is run several times",
		"swap actions are applied through replaceInList as swapNode does under its mutex; leader election and follower catch-up of swapNode are not run",
		"quick tier enumerates label assignments up to renaming of label values; the thorough tier enumerates every assignment in part A",
		"parts G/H/I (three and four rules): rule lists are enumerated up to renaming of the three labels (metadata and rule evaluation treat label names alike) and label values up to renaming; where the tie order is fixed to s1<..<sn the enumeration relies on the selection being invariant under renaming of the cluster's servers (label triples, placements and statuses are closed under that renaming); part G enumerates all n! orders for n<=3 (three rules; four rules: all orders for n<=2 and for the fully labelled n=3 clusters, thorough: all of n=3) without that assumption",
		"a Relaxed rule is outside the oracle (only strict rules are checked); the real selector treats an unsatisfiable Relaxed rule as a refusal (ErrUnsupportedAntiAffinityMode)",
	}
	pprof.StopCPUProfile()
	os.Exit(run.Finish("every input of: (A) selectNewEnsemble for clusters of 1..5 servers x zone in {absent,3 values}^n x rack in {absent,2 values}^n x policy {none, strict zone, strict zone + strict rack} x RF 1..4 x all n! tie orders of the load-ratio list; (B) ensemble.Selector without load-ratio supplier for every ServerIdx 0..n (repeated) and Status=nil; (C) selectNewEnsemble over all multisets of <=3 existing shards; (D) one real rebalanceEnsemble round for every status with <=3 shards, 0-1 removed server, policy, RF, tie order, swaps applied in emission order through replaceInList; (E) BFS over add-namespace/add-server/remove-server/rebalance sequences; (G) selectNewEnsemble for namespaces with 3 rules (zone,rack,type) x {Strict,Relaxed}^3 and 4 rules (6 label sequences x {Strict,Relaxed}^4), every label assignment up to value renaming (absent allowed) of 1..3 servers (3 rules: + fully labelled 4 servers), RF 1..4, tie orders as stated in the coverage counters; (H) the same on top of every placement of <=2 existing shards (RF 2..3); (I) one real rebalance round for every status of <=2 shards (n=1: <=3), 0-1 removed server, 3 rules for all label triples of n<=2 and the fully labelled n=3 clusters, 4 rules for n=1 and fully labelled n=2; the thorough tier extends G/H/I as listed in the partG/H/I_* counters"))
}

func hasZero(v []int) bool {
	for _, x := range v {
		if x == 0 {
			return true
		}
	}
	return false
}

func e1Spec(initial, depth int) seqx.Spec {
	lm := &levelMark{}
	name := fmt.Sprintf("initial-servers=%d", initial)
	return seqx.Spec{Name: "ensemble-seq", Config: name, NOps: e1NOps, OpName: e1OpName,
		New: func(int) seqx.Instance { return newE1(name, initial, lm) }, MaxDepth: depth, MaxViolations: 1 << 30}
}

func doReplay(path string) int {
	var doc struct {
		First struct {
			Key    string          `json:"key"`
			Replay json.RawMessage `json:"replay"`
		} `json:"first"`
	}
	if err := ev.ReadJSON(path, &doc); err != nil {
		fmt.Println("cannot read replay:", err)
		return 2
	}
	var head struct {
		Part    string `json:"part"`
		Config  string `json:"config"`
		Indices []int  `json:"indices"`
	}
	_ = json.Unmarshal(doc.First.Replay, &head)
	w := newWk()
	switch head.Part {
	case "selector":
		var in selInput
		_ = json.Unmarshal(doc.First.Replay, &in)
		reps := 1
		if in.Mode != "coordinator" {
			reps = 50
		}
		for i := 0; i < reps; i++ {
			out, v := w.runSel(in)
			if v != nil {
				fmt.Printf("VIOLATION property=C19 replay=%s\n  %s: %s\n", path, v.key, v.msg)
				return 1
			}
			if i == 0 {
				fmt.Println("outcome:", out)
			}
		}
	case "balancer":
		var in balInput
		_ = json.Unmarshal(doc.First.Replay, &in)
		out, vs := w.runBal(in)
		fmt.Println("outcome:", out)
		if len(vs) > 0 {
			for _, v := range vs {
				fmt.Printf("VIOLATION property=C19 replay=%s\n  %s: %s\n", path, v.key, v.msg)
			}
			return 1
		}
	case "e1":
		var k int
		fmt.Sscanf(head.Config, "initial-servers=%d", &k)
		spec := e1Spec(k, 0)
		if v := seqx.Replay(spec, head.Indices); v != nil {
			fmt.Printf("VIOLATION property=C19 replay=%s\n  %s: %s\n", path, v.Key, v.Message)
			return 1
		}
		agg.mu.Lock()
		defer agg.mu.Unlock()
		if len(agg.m) > 0 {
			for k, e := range agg.m {
				fmt.Printf("VIOLATION property=C19 replay=%s\n  %s: %s\n", path, k, e.first.Message)
			}
			return 1
		}
	default:
		fmt.Println("unknown replay part", head.Part)
		return 2
	}
	fmt.Println("replay passed")
	return 0
}
