// C12: versioning, conditional writes and batch semantics match the sequential spec.
//
// E1 explicit-state search (lib/seqx) over write requests applied to a real kv.DB through
// db.ProcessWrite(req, offset, ts, server.WrapperUpdateOperationCallback) — the exact call the leader, the
// followers and the WAL replay make — against a Go map reference model, plus an exhaustive sweep of the whole
// (1-2 puts) x (0-1 deletes) x (0-1 range deletes) cross product from every state reachable by few single operations.
package main

import (
	"crypto/sha256"
	"flag"
	"fmt"
	"os"
	"regexp"
	"runtime"
	"sort"
	"strings"
	"sync"
	"sync/atomic"
	"time"

	"github.com/cockroachdb/pebble/vfs"

	"github.com/oxia-db/oxia/common/compare"
	"github.com/oxia-db/oxia/common/metric"
	time2 "github.com/oxia-db/oxia/common/time"
	"github.com/oxia-db/oxia/proto"
	"github.com/oxia-db/oxia/server"
	"github.com/oxia-db/oxia/server/kv"

	"verif/lib/ev"
	"verif/lib/oxh"
	"verif/lib/seqx"
)

// ---------------------------------------------------------------------------------------------
// stores: in-memory Pebble whose filesystem survives Close (for the reopen-before-every-step configuration)

var fsReg sync.Map // dataDir -> vfs.FS
var storeCtr atomic.Int64
var clock = &time2.MockedClock{}

func init() {
	kv.VerifFSHook = func(dataDir string, _ bool, def vfs.FS) vfs.FS {
		if v, ok := fsReg.Load(dataDir); ok {
			return v.(vfs.FS)
		}
		return def
	}
}

type store struct {
	dir string
	f   kv.Factory
}

func newStore() *store {
	dir := fmt.Sprintf("/verifmem/c12-%d", storeCtr.Add(1))
	fsReg.Store(dir, vfs.NewMem())
	f, err := kv.NewPebbleKVFactory(&kv.FactoryOptions{DataDir: dir, CacheSizeMB: 1, InMemory: true})
	if err != nil {
		panic(err)
	}
	return &store{dir: dir, f: f}
}

func (s *store) open() kv.DB {
	db, err := kv.NewDB("ns", 1, s.f, time.Hour, clock)
	if err != nil {
		panic(err)
	}
	return db
}

func (s *store) close() {
	_ = s.f.Close()
	fsReg.Delete(s.dir)
}

// ---------------------------------------------------------------------------------------------
// operation alphabet

type cond int

const (
	cNone       cond = iota
	cNotExists       // expected version -1
	cCurrent         // the version the key has when the request is built
	cStale           // a version the key does not have
	cImpossible      // -2: below "not exists", a version no record can have
)

var condName = []string{"", ",if=-1", ",if=current", ",if=stale", ",if=-2"}

type putD struct {
	key string
	c   cond
}
type delD struct {
	key string
	c   cond
}
type rangeD struct{ start, end string }

type opD struct {
	puts   []putD
	dels   []delD
	ranges []rangeD
	// refused: the request ends with a sequential put that has no partition key. It is refused as a whole at
	// apply time, after the operations before it were processed: nothing of it may remain, not even in the
	// version-id counter
	refused bool
}

func (o opD) String() string {
	var p []string
	for _, x := range o.puts {
		p = append(p, fmt.Sprintf("put(%s%s)", x.key, condName[x.c]))
	}
	for _, x := range o.dels {
		p = append(p, fmt.Sprintf("delete(%s%s)", x.key, condName[x.c]))
	}
	for _, x := range o.ranges {
		p = append(p, fmt.Sprintf("range[%s,%s)", x.start, x.end))
	}
	if o.refused {
		p = append(p, "seqput-without-partition-key")
	}
	return strings.Join(p, "+")
}

func (o opD) thenRefused() opD { o.refused = true; return o }

func P(k string, c cond) opD { return opD{puts: []putD{{k, c}}} }
func D(k string, c cond) opD { return opD{dels: []delD{{k, c}}} }
func R(r rangeD) opD         { return opD{ranges: []rangeD{r}} }
func (o opD) and(x opD) opD {
	return opD{puts: append(append([]putD{}, o.puts...), x.puts...), dels: append(append([]delD{}, o.dels...), x.dels...),
		ranges: append(append([]rangeD{}, o.ranges...), x.ranges...)}
}

var keys = []string{"a", "b", "a/b"}

// In oxia's slash order keys without '/' sort before keys with one:  a < b < a/ < a/b < a//.
// (A range like [a, a/c) would also cover every __oxia/ internal key because "__oxia" < "a"; that hazard
// belongs to C13 and is reported there, the ranges here stay clear of it.)
var ranges = []rangeD{
	{"a", "b"},    // {a}; a bytewise comparison would also take a/b
	{"a", "c"},    // {a, b}
	{"a/", "a//"}, // {a/b}
	{"b", "b"},    // empty
	{"b", "a"},    // inverted
}

func singles(ks []string) []opD {
	var o []opD
	for _, k := range ks {
		o = append(o, P(k, cNone), P(k, cNotExists), P(k, cCurrent), P(k, cStale), D(k, cNone), D(k, cCurrent), D(k, cStale))
		if k != "a/b" {
			o = append(o, P(k, cImpossible), D(k, cImpossible))
		}
	}
	return o
}

func curated() []opD {
	var o []opD
	for _, k1 := range keys {
		for _, k2 := range keys {
			o = append(o, P(k1, cNone).and(P(k2, cNone)))
		}
	}
	for _, k := range keys {
		o = append(o, P(k, cNone).and(D(k, cNone))) // put + delete of the same key in one request
		o = append(o, P(k, cNotExists).and(P(k, cNotExists)))
		o = append(o, P(k, cNone).and(P(k, cCurrent))) // second put carries the pre-request version: must fail
		o = append(o, P(k, cCurrent).and(P(k, cNone)))
		o = append(o, P(k, cNone).and(D(k, cCurrent))) // delete carries the pre-request version: must fail
		o = append(o, P(k, cNotExists).and(D(k, cNotExists)))
		for _, k2 := range keys {
			if k2 != k {
				o = append(o, P(k, cNone).and(D(k2, cNone)))
			}
		}
		for _, r := range ranges {
			o = append(o, P(k, cNone).and(R(r)))
		}
		for _, r := range ranges[:3] {
			o = append(o, D(k, cNone).and(R(r)))
		}
	}
	o = append(o,
		P("a", cNone).and(D("b", cNone)).and(R(ranges[1])),
		P("a/b", cNone).and(D("a", cNone)).and(R(ranges[2])),
		P("a", cNone).and(P("b", cNone)).and(D("a", cNone)).and(R(ranges[1])),
		P("a", cNone).and(P("a/b", cNone)).and(D("a/b", cNone)).and(R(ranges[0])),
		P("b", cNotExists).and(P("a/b", cNotExists)).and(D("b", cStale)).and(R(ranges[2])),
		R(ranges[0]).and(R(ranges[1])),
		P("a", cNone).and(R(ranges[3])).and(R(ranges[0])),
	)
	return o
}

// crossProduct: every request with 1-2 puts, 0-1 deletes, 0-1 range deletes over the alphabet.
func crossProduct() []opD {
	conds := []cond{cNone, cNotExists, cCurrent, cStale}
	var puts []opD
	var one []opD
	for _, k := range keys {
		for _, c := range conds {
			one = append(one, P(k, c))
		}
	}
	puts = append(puts, one...)
	for _, a := range one {
		for _, b := range one {
			puts = append(puts, a.and(b))
		}
	}
	dels := []opD{{}}
	for _, k := range keys {
		for _, c := range []cond{cNone, cCurrent, cStale} {
			dels = append(dels, D(k, c))
		}
	}
	rs := []opD{{}}
	for _, r := range ranges {
		rs = append(rs, R(r))
	}
	var o []opD
	for _, p := range puts {
		for _, d := range dels {
			for _, r := range rs {
				o = append(o, p.and(d).and(r))
			}
		}
	}
	return o
}

func pk(i int) string { return fmt.Sprintf("k%03d", i) }

// preloadOps: alphabet of the configuration that starts with 101 keys k000..k100, built around
// kv.DeleteRangeThreshold (=100): a range delete that sees more than 100 keys switches from per-key
// deletes to one Pebble range tombstone.
func preloadOps() []opD {
	all101 := rangeD{"k000", "k101"}
	first100 := rangeD{"k000", "k100"}
	var o []opD
	for _, k := range []string{"k000", "k050", "k100"} {
		o = append(o, P(k, cNone), D(k, cNone), P(k, cCurrent), D(k, cStale))
	}
	o = append(o, P("a", cNone), D("a", cNone), P("k0505", cNone),
		R(first100),                                        // 100 keys: per-key path
		R(all101),                                          // 101 keys: range-tombstone path
		R(rangeD{"k", "l"}),                                // everything that starts with k
		R(rangeD{"k050", "k051"}),                          // one key
		R(rangeD{"k100", "k000"}),                          // inverted
		R(rangeD{"a", "k050"}),                             // a + k000..k049
		R(rangeD{"k001", "k101"}),                          // 100 keys, upper part
		P("k050", cNone).and(R(all101)),                    // put first, then the tombstone must cover it
		P("k0505", cNone).and(R(first100)),                 // the 101st key of the range comes from the same request
		P("a", cNone).and(D("k000", cNone)).and(R(all101)), // the in-request delete brings the range back to 100
		P("k050", cNone).and(D("k050", cNone)).and(R(all101)),
		R(all101).and(R(rangeD{"k", "l"})),
		R(first100).and(R(all101)),
		P("k101", cNone).and(P("k102", cNone)).and(R(rangeD{"k002", "k103"})),
		D("k100", cNone).and(R(all101)),
		R(rangeD{"k050", ""}), // open-ended, 51 keys: per-key path
		R(rangeD{"k000", ""}), // open-ended, 101 keys: range-tombstone path
	)
	return o
}

func reducedOps() []opD {
	ks := []string{"a", "a/b"}
	var o []opD
	for _, k := range ks {
		o = append(o, P(k, cNone), P(k, cNotExists), P(k, cCurrent), D(k, cNone), D(k, cStale))
	}
	o = append(o, R(ranges[0]), R(ranges[2]), R(ranges[1]),
		P("a", cNone).and(D("a", cNone)), P("a", cNone).and(P("a", cNone)), P("a", cNone).and(R(ranges[0])),
		P("a/b", cNone).and(P("a", cNone)), P("a/b", cNotExists).and(D("a", cCurrent)))
	return o
}

type config struct {
	name       string
	preload    int
	preloadKey func(i int) string // nil = pk
	reopenEach bool
	ops        []opD
	nBFS       int // ops[:nBFS] is the BFS alphabet; the rest is only used by the cross-product sweep
	depth      int
	sweepDepth int // prefixes of up to that many single operations for the sweep; -1 = no sweep
	universe   []string
}

// ---------------------------------------------------------------------------------------------
// instance = real DB + model

type mrec struct {
	val      string
	ver, mod int64
}

type inst struct {
	cfg    *config
	st     *store
	db     kv.DB
	m      map[string]*mrec
	maxVer int64 // greatest version id assigned so far on this shard
	off    int64
}

func viol(key, msg string) *ev.Violation { return &ev.Violation{Key: key, Message: msg} }

func (c *config) keyOf(i int) string {
	if c.preloadKey != nil {
		return c.preloadKey(i)
	}
	return pk(i)
}

func newInst(cfg *config) *inst {
	in := &inst{cfg: cfg, st: newStore(), m: map[string]*mrec{}, maxVer: -1}
	in.db = in.st.open()
	if cfg.preload > 0 {
		var o opD
		for i := 0; i < cfg.preload; i++ {
			o.puts = append(o.puts, putD{cfg.keyOf(i), cNone})
		}
		if _, v := in.applyOp(o); v != nil {
			panic("preload failed: " + v.Message)
		}
	}
	return in
}

func (in *inst) Close() {
	_ = in.db.Close()
	in.st.close()
}

func (in *inst) resolve(key string, c cond) (*int64, bool) {
	cur := in.m[key]
	switch c {
	case cNotExists:
		return oxh.I64(-1), true
	case cCurrent:
		if cur == nil {
			return nil, false
		}
		return oxh.I64(cur.ver), true
	case cImpossible:
		return oxh.I64(-2), true
	case cStale:
		switch {
		case cur != nil && cur.ver > 0:
			return oxh.I64(cur.ver - 1), true
		case cur != nil:
			return oxh.I64(cur.ver + 1), true
		case in.maxVer >= 0:
			return oxh.I64(in.maxVer), true
		}
		return oxh.I64(0), true
	}
	return nil, true
}

// an empty end bound is "no upper bound", as for list and range scan (the engine's iterators leave the upper
// bound open for it and the per-key path of delete-range follows them)
func inRange(k string, r rangeD) bool {
	return compare.CompareWithSlash([]byte(r.start), []byte(k)) <= 0 && (r.end == "" || compare.CompareWithSlash([]byte(k), []byte(r.end)) < 0)
}

func (in *inst) Step(op int) (bool, *ev.Violation) {
	if in.cfg.reopenEach {
		if err := in.db.Close(); err != nil {
			return true, viol("close-failed", err.Error())
		}
		in.db = in.st.open()
		if v := in.checkState("after reopen"); v != nil {
			return true, v
		}
	}
	return in.applyOp(in.cfg.ops[op])
}

func fmtP(p *int64) string {
	if p == nil {
		return "nil"
	}
	return fmt.Sprint(*p)
}

// applyOp builds the request from the descriptor (expected versions are resolved against the state before the
// request, as a client would), applies it to the real DB and checks every response against the model, which
// applies puts, then deletes, then range deletes, each seeing the effects of the earlier ones.
func (in *inst) applyOp(o opD) (bool, *ev.Violation) {
	req := &proto.WriteRequest{Shard: oxh.I64(1)}
	for i, p := range o.puts {
		exp, ok := in.resolve(p.key, p.c)
		if !ok {
			return false, nil
		}
		req.Puts = append(req.Puts, &proto.PutRequest{Key: p.key, Value: []byte(fmt.Sprintf("x%d", in.maxVer+1+int64(i))), ExpectedVersionId: exp})
	}
	for _, d := range o.dels {
		exp, ok := in.resolve(d.key, d.c)
		if !ok {
			return false, nil
		}
		req.Deletes = append(req.Deletes, &proto.DeleteRequest{Key: d.key, ExpectedVersionId: exp})
	}
	for _, r := range o.ranges {
		req.DeleteRanges = append(req.DeleteRanges, &proto.DeleteRangeRequest{StartInclusive: r.start, EndExclusive: r.end})
	}
	if o.refused {
		req.Puts = append(req.Puts, &proto.PutRequest{Key: "s", Value: []byte("never"), SequenceKeyDelta: []uint64{1}})
	}
	// keep what the model needs: ProcessWrite may modify the request
	type pin struct {
		key, val string
		exp      *int64
	}
	var pins []pin
	for _, p := range req.Puts {
		pins = append(pins, pin{p.Key, string(p.Value), p.ExpectedVersionId})
	}
	resp, err := in.db.ProcessWrite(req, in.off, uint64(1000+in.off), server.WrapperUpdateOperationCallback)
	in.off++
	if o.refused {
		if err == nil || !kv.IsInvalidRequestError(err) {
			return true, viol("invalid-request-not-refused", fmt.Sprintf("%s: %v", o, err))
		}
		// no trace: the state oracle (records, versions, counter through the next puts) decides
		return true, in.checkState("after the refused request " + o.String())
	}
	if err != nil {
		return true, viol("process-write-error", fmt.Sprintf("%s: %v", o, err))
	}
	if len(resp.Puts) != len(o.puts) || len(resp.Deletes) != len(o.dels) || len(resp.DeleteRanges) != len(o.ranges) {
		return true, viol("status-count", fmt.Sprintf("%s: got %d/%d/%d statuses", o, len(resp.Puts), len(resp.Deletes), len(resp.DeleteRanges)))
	}
	for i, p := range pins {
		cur := in.m[p.key]
		ok := true
		if p.exp != nil {
			if cur == nil {
				ok = *p.exp == -1
			} else {
				ok = *p.exp == cur.ver
			}
		}
		r := resp.Puts[i]
		curs := "absent"
		if cur != nil {
			curs = fmt.Sprintf("ver=%d mod=%d", cur.ver, cur.mod)
		}
		ctx := fmt.Sprintf("%s: put #%d key=%s expected=%s current={%s}", o, i, p.key, fmtP(p.exp), curs)
		if !ok {
			if r.Status != proto.Status_UNEXPECTED_VERSION_ID {
				return true, viol("conditional-put-took-effect", fmt.Sprintf("%s: status %s, want UNEXPECTED_VERSION_ID", ctx, r.Status))
			}
			continue
		}
		if r.Status != proto.Status_OK || r.Version == nil {
			return true, viol("put-rejected", fmt.Sprintf("%s: status %s version=%v, want OK", ctx, r.Status, r.Version))
		}
		if r.Version.VersionId <= in.maxVer {
			return true, viol("version-id-not-increasing", fmt.Sprintf("%s: new version id %d is not greater than %d assigned before", ctx, r.Version.VersionId, in.maxVer))
		}
		wantMod := int64(0)
		if cur != nil {
			wantMod = cur.mod + 1
		}
		if r.Version.ModificationsCount != wantMod {
			return true, viol("modifications-count", fmt.Sprintf("%s: modifications count %d, want %d", ctx, r.Version.ModificationsCount, wantMod))
		}
		in.maxVer = r.Version.VersionId
		in.m[p.key] = &mrec{val: p.val, ver: r.Version.VersionId, mod: wantMod}
	}
	for i, d := range req.Deletes {
		cur := in.m[d.Key]
		r := resp.Deletes[i]
		ctx := fmt.Sprintf("%s: delete #%d key=%s expected=%s", o, i, d.Key, fmtP(d.ExpectedVersionId))
		switch {
		case cur == nil && d.ExpectedVersionId == nil:
			if r.Status != proto.Status_KEY_NOT_FOUND {
				return true, viol("delete-absent-status", fmt.Sprintf("%s: key absent, status %s, want KEY_NOT_FOUND", ctx, r.Status))
			}
		case cur == nil:
			// conditional delete of an absent key: no effect; the statement does not fix which of the two failure statuses
			if r.Status != proto.Status_KEY_NOT_FOUND && r.Status != proto.Status_UNEXPECTED_VERSION_ID {
				return true, viol("delete-absent-status", fmt.Sprintf("%s: key absent, status %s", ctx, r.Status))
			}
		case d.ExpectedVersionId != nil && *d.ExpectedVersionId != cur.ver:
			if r.Status != proto.Status_UNEXPECTED_VERSION_ID {
				return true, viol("conditional-delete-took-effect", fmt.Sprintf("%s: current version %d, status %s, want UNEXPECTED_VERSION_ID", ctx, cur.ver, r.Status))
			}
		default:
			if r.Status != proto.Status_OK {
				return true, viol("delete-rejected", fmt.Sprintf("%s: current version %d, status %s, want OK", ctx, cur.ver, r.Status))
			}
			delete(in.m, d.Key)
		}
	}
	for i, rg := range o.ranges {
		if resp.DeleteRanges[i].Status != proto.Status_OK {
			return true, viol("range-status", fmt.Sprintf("%s: range #%d status %s", o, i, resp.DeleteRanges[i].Status))
		}
		for k := range in.m {
			if inRange(k, rg) {
				delete(in.m, k)
			}
		}
	}
	if v := in.checkState(o.String()); v != nil {
		return true, v
	}
	return true, nil
}

var tsRe = regexp.MustCompile(` cts=\d+ mts=\d+`)

func (in *inst) dump() []string {
	d := oxh.DumpDB(in.db, oxh.DumpOpts{UserOnly: true})
	for i := range d {
		d[i] = tsRe.ReplaceAllString(d[i], "")
	}
	return d
}

func (in *inst) modelKeys() []string {
	ks := make([]string, 0, len(in.m))
	for k := range in.m {
		ks = append(ks, k)
	}
	sort.Slice(ks, func(i, j int) bool { return compare.CompareWithSlash([]byte(ks[i]), []byte(ks[j])) < 0 })
	return ks
}

// checkState: the whole observable state equals the model: Get of every key of the universe, List, raw engine dump.
func (in *inst) checkState(after string) *ev.Violation {
	for _, k := range in.cfg.universe {
		gr, err := in.db.Get(&proto.GetRequest{Key: k, IncludeValue: true})
		if err != nil {
			return viol("get-error", fmt.Sprintf("after %s: Get(%s): %v", after, k, err))
		}
		cur := in.m[k]
		switch {
		case cur == nil && gr.Status != proto.Status_KEY_NOT_FOUND:
			return viol("state-key-should-be-absent", fmt.Sprintf("after %s: Get(%s) = %s %q version=%v, model: absent", after, k, gr.Status, gr.Value, gr.Version))
		case cur != nil && gr.Status != proto.Status_OK:
			return viol("state-key-missing", fmt.Sprintf("after %s: Get(%s) = %s, model: %+v", after, k, gr.Status, *cur))
		case cur != nil && (string(gr.Value) != cur.val || gr.Version.VersionId != cur.ver || gr.Version.ModificationsCount != cur.mod):
			return viol("state-record-differs", fmt.Sprintf("after %s: Get(%s) = %q ver=%d mod=%d, model: %+v", after, k, gr.Value, gr.Version.VersionId, gr.Version.ModificationsCount, *cur))
		}
	}
	want := in.modelKeys()
	it, err := in.db.List(&proto.ListRequest{StartInclusive: "", EndExclusive: ""})
	if err != nil {
		return viol("list-error", err.Error())
	}
	var got []string
	for ; it.Valid(); it.Next() {
		if k := it.Key(); !strings.HasPrefix(k, "__oxia/") {
			got = append(got, k)
		}
	}
	_ = it.Close()
	if strings.Join(got, "\x00") != strings.Join(want, "\x00") {
		return viol("state-list-differs", fmt.Sprintf("after %s: List = %v, model (slash order) = %v", after, got, want))
	}
	wantDump := make([]string, len(want))
	for i, k := range want {
		r := in.m[k]
		wantDump[i] = fmt.Sprintf("%q => %s", k, tsRe.ReplaceAllString(oxh.RenderStorageEntry(&proto.StorageEntry{Value: []byte(r.val), VersionId: r.ver, ModificationsCount: r.mod}), ""))
	}
	if d := in.dump(); strings.Join(d, "\n") != strings.Join(wantDump, "\n") {
		return viol("state-dump-differs", fmt.Sprintf("after %s: engine dump %v, model %v", after, d, wantDump))
	}
	return nil
}

func (in *inst) Key() string {
	return strings.Join(in.dump(), "\n") + fmt.Sprintf("|max=%d|tracker=%d", in.maxVer, kv.VerifVersionIdTracker(in.db))
}

// ---------------------------------------------------------------------------------------------

func specOf(cfg *config, deadline time.Time) seqx.Spec {
	return seqx.Spec{Name: "db-write-seq", Config: cfg.name, NOps: cfg.nBFS, OpName: func(i int) string { return cfg.ops[i].String() },
		New: func(int) seqx.Instance { return newInst(cfg) }, MaxDepth: cfg.depth, Deadline: deadline}
}

// sweep applies every operation ops[nBFS:] (the full cross product) in every distinct state reachable by at most
// sweepDepth single-operation requests.
func sweep(run *ev.Run, cfg *config, nSingles int, deadline time.Time) {
	spec := specOf(cfg, deadline)
	// distinct prefixes (sequential mini-BFS over the single operations)
	seen := map[string]bool{}
	prefixes := [][]int{{}}
	{
		in := newInst(cfg)
		seen[in.Key()] = true
		in.Close()
	}
	frontier := [][]int{{}}
	for d := 0; d < cfg.sweepDepth; d++ {
		var next [][]int
		for _, h := range frontier {
			for op := 0; op < nSingles; op++ {
				in := newInst(cfg)
				ok := true
				for _, p := range append(append([]int{}, h...), op) {
					en, v := in.Step(p)
					if !en || v != nil {
						ok = false
						break
					}
				}
				if ok {
					if k := in.Key(); !seen[k] {
						seen[k] = true
						nh := append(append([]int{}, h...), op)
						next = append(next, nh)
						prefixes = append(prefixes, nh)
					}
				}
				in.Close()
			}
		}
		frontier = next
	}
	nOps := len(cfg.ops) - cfg.nBFS
	total := int64(len(prefixes)) * int64(nOps)
	var next atomic.Int64
	next.Store(-1)
	var trans, cutFlag atomic.Int64
	var mu sync.Mutex
	states := map[[32]byte]struct{}{}
	var viols []ev.Violation
	var wg sync.WaitGroup
	for w := 0; w < runtime.NumCPU(); w++ {
		wg.Add(1)
		go func() {
			defer wg.Done()
			for {
				j := next.Add(1)
				if j >= total {
					return
				}
				if j%64 == 0 && time.Now().After(deadline) {
					cutFlag.Store(1)
				}
				if cutFlag.Load() != 0 {
					return
				}
				h := prefixes[j/int64(nOps)]
				op := cfg.nBFS + int(j%int64(nOps))
				in := newInst(cfg)
				ok := true
				for _, p := range h {
					if en, v := in.Step(p); !en || v != nil {
						ok = false
						break
					}
				}
				if ok {
					en, v := in.Step(op)
					if en {
						trans.Add(1)
						if v != nil {
							hist := append(append([]int{}, h...), op)
							v.Harness = "db-write-sweep"
							v.Replay = map[string]any{"config": cfg.name, "ops": seqx.Names(spec, hist), "indices": hist}
							mu.Lock()
							if len(viols) < 50 {
								viols = append(viols, *v)
							}
							mu.Unlock()
						} else {
							k := sha256.Sum256([]byte(in.Key()))
							mu.Lock()
							states[k] = struct{}{}
							mu.Unlock()
						}
					}
				}
				in.Close()
			}
		}()
	}
	wg.Wait()
	run.Add("transitions", trans.Load())
	run.Add("traces_validated_against_impl", trans.Load())
	run.Add("evaluations", trans.Load())
	run.Add("sweep_transitions", trans.Load())
	run.Add("sweep_prefix_states", int64(len(prefixes)))
	run.Add("sweep_result_states", int64(len(states)))
	run.Note(fmt.Sprintf("sweep[%s]: %d composite requests x %d prefix states (<=%d single ops): %d enabled transitions, %d distinct result states",
		cfg.name, nOps, len(prefixes), cfg.sweepDepth, trans.Load(), len(states)))
	if cutFlag.Load() != 0 {
		run.NotExhaustive(fmt.Sprintf("sweep[%s]: cut by deadline", cfg.name))
	}
	sort.SliceStable(viols, func(i, j int) bool {
		if viols[i].Key != viols[j].Key {
			return viols[i].Key < viols[j].Key
		}
		return fmt.Sprint(viols[i].Replay) < fmt.Sprint(viols[j].Replay)
	})
	for _, v := range viols {
		run.Violate(v)
	}
}

func universeOf(ops []opD, preload int, keyOf func(int) string) []string {
	set := map[string]bool{}
	for _, o := range ops {
		for _, p := range o.puts {
			set[p.key] = true
		}
		for _, d := range o.dels {
			set[d.key] = true
		}
	}
	for i := 0; i < preload; i++ {
		set[keyOf(i)] = true
	}
	var u []string
	for k := range set {
		u = append(u, k)
	}
	sort.Strings(u)
	return u
}

func buildConfigs(tier string) []*config {
	base := append(append(singles(keys), func() []opD {
		var o []opD
		for _, r := range ranges {
			o = append(o, R(r))
		}
		return o
	}()...), curated()...)
	// requests refused as a whole after some of their operations were processed (one of them already rejected
	// with a status, one accepted)
	base = append(base, P("a", cStale).and(P("b", cNone)).thenRefused(), P("a", cNotExists).thenRefused(), D("a", cStale).and(P("b", cNone)).thenRefused())
	full := append(append([]opD{}, base...), crossProduct()...)
	quick := tier != "thorough"
	var cfgs []*config
	c := &config{name: "empty/full-alphabet", ops: full, nBFS: len(base), depth: 3, sweepDepth: 1}
	if !quick {
		c.depth, c.sweepDepth = 4, 3
	}
	cfgs = append(cfgs, c)
	c = &config{name: "preload-101-keys", preload: 101, ops: preloadOps(), depth: 2, sweepDepth: -1}
	c.nBFS = len(c.ops)
	if !quick {
		c.depth = 4
	}
	cfgs = append(cfgs, c)
	// the same threshold with hierarchical keys, which sort after the internal records: an open-ended range
	// above them is not split around the internal block and reaches the engine as it is
	qk := func(i int) string { return fmt.Sprintf("q/%03d", i) }
	c = &config{name: "preload-101-hierarchical-keys", preload: 101, preloadKey: qk, depth: 1, sweepDepth: -1, ops: []opD{
		R(rangeD{"q/050", ""}),      // open-ended, 51 keys: per-key path
		R(rangeD{"q/000", ""}),      // open-ended, 101 keys: range-tombstone path
		R(rangeD{"q/000", "q/101"}), // bounded, 101 keys
		R(rangeD{"q/001", "q/101"}), // bounded, 100 keys
		P("q/050", cCurrent), D("q/000", cNone),
	}}
	c.nBFS = len(c.ops)
	if !quick {
		c.depth = 2
	}
	cfgs = append(cfgs, c)
	c = &config{name: "empty/reopen-before-every-step", reopenEach: true, ops: base, nBFS: len(base), depth: 2, sweepDepth: -1}
	if !quick {
		c.depth = 3
	}
	cfgs = append(cfgs, c)
	if !quick {
		c = &config{name: "empty/reduced-alphabet", ops: reducedOps(), depth: 7, sweepDepth: -1}
		c.nBFS = len(c.ops)
		cfgs = append(cfgs, c)
	}
	for _, c := range cfgs {
		c.universe = universeOf(c.ops, c.preload, c.keyOf)
	}
	return cfgs
}

func main() {
	replay := flag.String("replay", "", "replay file")
	flag.Parse()
	oxh.Quiet()
	metric.VerifUseNoopMeter()
	run := ev.NewRun("C12", "model_checking")
	cfgs := buildConfigs(run.Tier)
	if d := os.Getenv("VERIF_DEPTH"); d != "" {
		fmt.Sscanf(d, "%d", &cfgs[0].depth)
	}
	if *replay != "" {
		os.Exit(doReplay(*replay))
	}
	budget := 50 * time.Second
	if run.Tier == "thorough" {
		budget = 17 * time.Minute
	}
	deadline := time.Now().Add(budget)
	for _, cfg := range cfgs {
		spec := specOf(cfg, deadline)
		res := seqx.Explore(spec)
		seqx.Report(run, spec, res)
		run.Add("distinct_states", res.States)
		run.Coverage["alphabet["+cfg.name+"]"] = cfg.nBFS
		run.Coverage["depth["+cfg.name+"]"] = cfg.depth
		if cfg.sweepDepth >= 0 && run.NViolations() == 0 {
			sweep(run, cfg, len(singles(keys)), deadline)
			run.Coverage["cross_product_requests"] = len(cfg.ops) - cfg.nBFS
		}
	}
	run.Coverage["configs"] = len(cfgs)
	run.Sample(map[string]any{"config": cfgs[0].name, "ops": []string{"put(a)", "put(a,if=current)+put(a)", "put(a)+delete(a)+range[a,c)"}})
	run.Sample(map[string]any{"config": cfgs[1].name, "ops": []string{"put(k0505)+range[k000,k100)", "range[k000,k101)"}})
	run.Assume = []string{
		"requests are applied through db.ProcessWrite with server.WrapperUpdateOperationCallback (the call made by leader, follower and WAL replay); no sessions, secondary indexes or sequence keys in this alphabet (C13/C14/C15 drive those)",
		"expected versions of a request are resolved against the state before the request, as a client would know them",
		"a conditional delete of an absent key may answer KEY_NOT_FOUND or UNEXPECTED_VERSION_ID (the statement only says it has no effect)",
		"ranges stay clear of the __oxia/ internal keys and of empty bounds (C13 reports what happens there)",
		"timestamps are not part of the statement and are not compared",
	}
	run.DistinctN(run.Get("distinct_states") + run.Get("sweep_result_states"))
	os.Exit(run.Finish("BFS over all sequences of write requests up to depth[config] from the per-configuration alphabet, model compared after every step (per-operation statuses, versions, Get of every key, List, engine dump); plus every request of the (1-2 puts)x(0-1 deletes)x(0-1 range deletes) cross product applied in every distinct state reachable by <= sweepDepth single operations; a state is distinct when its canonical dump (keys, values, version ids, modification counts, version counter) differs"))
}

func doReplay(path string) int {
	var doc struct {
		First struct {
			Replay struct {
				Config  string `json:"config"`
				Indices []int  `json:"indices"`
			} `json:"replay"`
		} `json:"first"`
	}
	if err := ev.ReadJSON(path, &doc); err != nil {
		fmt.Println("cannot read replay:", err)
		return 2
	}
	for _, tier := range []string{"quick", "thorough"} {
		for _, cfg := range buildConfigs(tier) {
			if cfg.name == doc.First.Replay.Config {
				v := seqx.Replay(specOf(cfg, time.Time{}), doc.First.Replay.Indices)
				if v != nil {
					fmt.Printf("VIOLATION property=C12 replay=%s\n  %s: %s\n", path, v.Key, v.Message)
					return 1
				}
				fmt.Println("replay passed")
				return 0
			}
		}
	}
	fmt.Println("config not found")
	return 2
}
