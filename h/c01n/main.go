// C01, protocol-event stage: acknowledged writes stay readable on the node whenever it leads again, for every sequence of node protocol events up to a depth (lib/nfsm).
package main

import (
	"os"

	"verif/lib/nfsm"
)

func main() {
	os.Exit(nfsm.Main("C01", map[string]bool{"acked-write-lost": true, "restart-failed": true, "become-leader-failed": true, "become-leader-stuck": true, "write-failed": true, "harness-setup": true, "panic": true}))
}
