// C14 (stage 1): ephemeral records live and die with their session, and only they do.
// Sequential ownership rules: E1 explicit-state search over operation sequences on a real leader
// controller (RF=1, real session manager, real WAL + in-memory Pebble) through the public leader
// API, against a map model. Expiry and races are stage 2 (h/c14s).
package main

import (
	"context"
	"errors"
	"flag"
	"fmt"
	"net/url"
	"os"
	"path/filepath"
	"runtime"
	"sort"
	"strings"
	"sync"
	"sync/atomic"
	"time"

	"github.com/oxia-db/oxia/common/constant"
	"github.com/oxia-db/oxia/proto"
	"github.com/oxia-db/oxia/server"
	"github.com/oxia-db/oxia/server/kv"
	"github.com/oxia-db/oxia/server/wal"

	"verif/lib/ev"
	"verif/lib/oxh"
	"verif/lib/seqx"
)

const (
	shard       = int64(1)
	internalPfx = "__oxia/"
	sessPfx     = "__oxia/session/"
	// the longest timeout the server accepts: no session can expire during the few
	// milliseconds an instance lives (expiry is explored on virtual time in stage 2)
	sessionTimeoutMs = 300_000
)

// clientIdentity: an opaque string the server carries byte for byte; the second session's is not valid UTF-8
func clientIdentity(slot int) string {
	if slot == 1 {
		return "client-2\xff\xfe"
	}
	return fmt.Sprintf("client-%d", slot+1)
}

// "k%31" is what an escaping scheme writes for "k1" and what an unescaping scheme reads as "k1": the shadow
// keys of the two records must not be confused whatever the encoding is
var userKeys = []string{"k1", "k%31", "k/3"}

// Oxia orders keys hierarchically: k% < k%31 < k1 < k3 < k/ < k/3 < k// (hand-written table).
type rng struct {
	start, end string
	members    []string
}

var ranges = []rng{
	{"k%", "k3", []string{"k%31", "k1"}},
	{"k1", "k3", []string{"k1"}},
	{"k/", "k//", []string{"k/3"}},
}

const (
	never = iota
	live
	closed
)

type msess struct {
	state int
	id    int64
}

type mrec struct {
	val   string
	owner int // slot, -1 = not ephemeral
}

type inst struct {
	exact bool
	dir   string
	walf  wal.Factory
	lc    server.LeaderController
	oc    *openCount
	term  int64
	// model
	recs map[string]mrec
	sess [2]msess
	n    int // steps so far (makes values unique)
	// probed[s]: the current in-memory incarnation of session s already got its heartbeat
	probed [2]bool
}

type nullRPC struct{}

var errNoFollowers = errors.New("verif: RF=1 leader has no followers")

func (nullRPC) Close() error { return nil }
func (nullRPC) GetReplicateStream(context.Context, string, string, int64, int64) (proto.OxiaLogReplication_ReplicateClient, error) {
	return nil, errNoFollowers
}
func (nullRPC) SendSnapshot(context.Context, string, string, int64, int64) (proto.OxiaLogReplication_SendSnapshotClient, error) {
	return nil, errNoFollowers
}
func (nullRPC) Truncate(string, *proto.TruncateRequest) (*proto.TruncateResponse, error) {
	return nil, errNoFollowers
}

// The leader's List goroutines (used by session close and by the session manager's
// Initialize) signal completion to the caller *before* they close their engine iterator.
// The factory below counts open engine iterators so that an instance is only closed once
// they are all released (condition variable, no sleeping). Same device as h/c15.

type openCount struct {
	mu sync.Mutex
	c  *sync.Cond
	n  int
}

func newOpenCount() *openCount { o := &openCount{}; o.c = sync.NewCond(&o.mu); return o }
func (o *openCount) inc()      { o.mu.Lock(); o.n++; o.mu.Unlock() }
func (o *openCount) dec()      { o.mu.Lock(); o.n--; o.c.Broadcast(); o.mu.Unlock() }
func (o *openCount) wait() {
	o.mu.Lock()
	for o.n > 0 {
		o.c.Wait()
	}
	o.mu.Unlock()
}

type countFactory struct {
	*oxh.CapFactory
	oc *openCount
}

func (f *countFactory) NewKV(ns string, shardId int64) (kv.KV, error) {
	k, err := f.CapFactory.NewKV(ns, shardId)
	if err != nil {
		return nil, err
	}
	return &countKV{KV: k, oc: f.oc}, nil
}

type countKV struct {
	kv.KV
	oc *openCount
}

type countKeyIt struct {
	kv.KeyIterator
	oc *openCount
}

func (i *countKeyIt) Close() error { err := i.KeyIterator.Close(); i.oc.dec(); return err }

type countKVIt struct {
	kv.KeyValueIterator
	oc *openCount
}

func (i *countKVIt) Close() error { err := i.KeyValueIterator.Close(); i.oc.dec(); return err }

func (k *countKV) KeyRangeScan(l, u string) (kv.KeyIterator, error) {
	it, err := k.KV.KeyRangeScan(l, u)
	if err != nil {
		return nil, err
	}
	k.oc.inc()
	return &countKeyIt{it, k.oc}, nil
}

func (k *countKV) KeyIterator() (kv.KeyIterator, error) {
	it, err := k.KV.KeyIterator()
	if err != nil {
		return nil, err
	}
	k.oc.inc()
	return &countKeyIt{it, k.oc}, nil
}

func (k *countKV) RangeScan(l, u string) (kv.KeyValueIterator, error) {
	it, err := k.KV.RangeScan(l, u)
	if err != nil {
		return nil, err
	}
	k.oc.inc()
	return &countKVIt{it, k.oc}, nil
}

var (
	scratch    string
	dirCounter atomic.Int64

	nCloses, nCloseRemovedRecords, nCloseWithForeign, nDeadPuts, nTakeovers, nElections atomic.Int64
	nElectionsWithSessions, nShadowChecks, nReads, nKeepAlives                          atomic.Int64
)

func (in *inst) elect() error {
	in.term++
	if _, err := in.lc.NewTerm(&proto.NewTermRequest{Namespace: "ns", Shard: shard, Term: in.term, Options: &proto.NewTermOptions{EnableNotifications: true}}); err != nil {
		return err
	}
	_, err := in.lc.BecomeLeader(context.Background(), &proto.BecomeLeaderRequest{Namespace: "ns", Shard: shard, Term: in.term, ReplicationFactor: 1, FollowerMaps: map[string]*proto.EntryId{}})
	return err
}

func newInst(exact bool, worker int) *inst {
	in := &inst{exact: exact, dir: filepath.Join(scratch, fmt.Sprintf("w%d-%d", worker, dirCounter.Add(1))), recs: map[string]mrec{}}
	in.oc = newOpenCount()
	in.walf = wal.NewWalFactory(&wal.FactoryOptions{BaseWalDir: in.dir, Retention: time.Hour, SegmentSize: 16 * 1024, SyncData: false})
	lc, err := server.NewLeaderController(server.Config{NotificationsRetentionTime: time.Hour}, "ns", shard, nullRPC{}, in.walf, &countFactory{oxh.NewMemFactory(), in.oc})
	if err != nil {
		panic(err)
	}
	in.lc = lc
	if err := in.elect(); err != nil {
		panic(err)
	}
	return in
}

func (in *inst) Close() {
	if in.lc != nil {
		in.oc.wait()
		_ = in.lc.Close()
	}
	_ = in.walf.Close()
	_ = os.RemoveAll(in.dir)
}

func viol(key, msg string) *ev.Violation { return &ev.Violation{Key: key, Message: msg} }

// ---------------------------------------------------------------------------------------------
// operations

type opDef struct {
	name string
	kind int // see below
	slot int
	key  string
	r    rng
}

const (
	kCreate = iota
	kEphPut
	kPut
	kDelete
	kRange
	kClose
	kElect
)

func buildOps() []opDef {
	var o []opDef
	for s := 0; s < 2; s++ {
		o = append(o, opDef{name: fmt.Sprintf("createSession(S%d)", s+1), kind: kCreate, slot: s})
	}
	for s := 0; s < 2; s++ {
		for _, k := range userKeys {
			o = append(o, opDef{name: fmt.Sprintf("ephemeralPut(S%d,%s)", s+1, k), kind: kEphPut, slot: s, key: k})
		}
	}
	for _, k := range userKeys {
		o = append(o, opDef{name: "put(" + k + ")", kind: kPut, key: k})
	}
	for _, k := range userKeys {
		o = append(o, opDef{name: "delete(" + k + ")", kind: kDelete, key: k})
	}
	for _, r := range ranges {
		o = append(o, opDef{name: fmt.Sprintf("deleteRange[%s,%s)", r.start, r.end), kind: kRange, r: r})
	}
	for s := 0; s < 2; s++ {
		o = append(o, opDef{name: fmt.Sprintf("closeSession(S%d)", s+1), kind: kClose, slot: s})
	}
	o = append(o, opDef{name: "re-election(NewTerm+BecomeLeader)", kind: kElect})
	return o
}

var ops = buildOps()

// sessionIdFor returns the id a client of slot s would name: the real one (live or already
// closed) or one that was never handed out.
func (in *inst) sessionIdFor(s int) int64 {
	if in.sess[s].state == never {
		return 900_000 + int64(s)
	}
	return in.sess[s].id
}

// ---------------------------------------------------------------------------------------------
// observation of the real database

type stored struct {
	val              string
	ver, mod         int64
	sess             *int64
	render           string // everything, for the "nothing else is touched" comparison
	renderNoWallTime string // without timestamps (canonical key)
}

func volatileKey(k string) bool {
	return k == "__oxia/commit-offset" || k == "__oxia/last-version-id" || k == "__oxia/term" || k == "__oxia/term-options" ||
		strings.HasPrefix(k, "__oxia/notifications/")
}

func (in *inst) scan() (map[string]stored, error) {
	it, err := kv.VerifKV(server.VerifLeaderDB(in.lc)).RangeScan("", "")
	if err != nil {
		return nil, err
	}
	defer it.Close()
	out := map[string]stored{}
	for ; it.Valid(); it.Next() {
		k := it.Key()
		if strings.HasPrefix(k, "__oxia/notifications/") {
			continue
		}
		v, err := it.Value()
		if err != nil {
			return nil, err
		}
		se := &proto.StorageEntry{}
		if err := se.UnmarshalVT(v); err != nil {
			return nil, fmt.Errorf("key %q does not hold a record: %w", k, err)
		}
		st := stored{val: string(se.Value), ver: se.VersionId, mod: se.ModificationsCount, render: oxh.RenderStorageEntry(se)}
		if se.SessionId != nil {
			st.sess = oxh.I64(*se.SessionId)
		}
		st.renderNoWallTime = fmt.Sprintf("val=%q ver=%d mod=%d sess=%s", st.val, st.ver, st.mod, fmtOpt(st.sess))
		out[k] = st
	}
	return out, nil
}

func fmtOpt(p *int64) string {
	if p == nil {
		return "-"
	}
	return fmt.Sprint(*p)
}

type readCb struct {
	got  []*proto.GetResponse
	done chan error
}

func (r *readCb) OnNext(g *proto.GetResponse) error { r.got = append(r.got, g); return nil }
func (r *readCb) OnComplete(err error)              { r.done <- err }

// reads every user key through the leader's public read path.
func (in *inst) read() ([]*proto.GetResponse, error) {
	req := &proto.ReadRequest{Shard: oxh.I64(shard)}
	for _, k := range userKeys {
		req.Gets = append(req.Gets, &proto.GetRequest{Key: k, IncludeValue: true})
	}
	cb := &readCb{done: make(chan error, 1)}
	in.lc.Read(context.Background(), req, cb)
	err := <-cb.done
	return cb.got, err
}

func (in *inst) describe(db map[string]stored) string {
	ks := make([]string, 0, len(db))
	for k := range db {
		if !volatileKey(k) {
			ks = append(ks, k)
		}
	}
	sort.Strings(ks)
	var b strings.Builder
	for _, k := range ks {
		fmt.Fprintf(&b, "%q{%s} ", k, db[k].renderNoWallTime)
	}
	fmt.Fprintf(&b, "| model recs=%v sessions=%v", in.recs, in.sess)
	return b.String()
}

// oracle compares the database with the model. touched = user keys the operation was allowed
// to change; closing = slot being closed (-1 if none).
func (in *inst) oracle(before, after map[string]stored, touched map[string]bool, closing int, what string) *ev.Violation {
	// 1. user records == model, owner == model owner
	for _, k := range userKeys {
		m, want := in.recs[k]
		s, have := after[k]
		switch {
		case want && !have:
			return viol("record-lost:"+what, fmt.Sprintf("after %s the record %q (model %+v) is gone: %s", what, k, m, in.describe(after)))
		case !want && have:
			key := "record-survives:" + what
			return viol(key, fmt.Sprintf("after %s the record %q must not exist but holds {%s}: %s", what, k, s.renderNoWallTime, in.describe(after)))
		case want:
			if s.val != m.val {
				return viol("record-value:"+what, fmt.Sprintf("after %s record %q holds %q, model %q", what, k, s.val, m.val))
			}
			wantSess := "-"
			if m.owner >= 0 {
				wantSess = fmt.Sprint(in.sess[m.owner].id)
			}
			if fmtOpt(s.sess) != wantSess {
				return viol("record-owner:"+what, fmt.Sprintf("after %s record %q is owned by session %s, the last writer makes it %s: %s", what, k, fmtOpt(s.sess), wantSess, in.describe(after)))
			}
		}
	}
	// 2. internal keys: session records and shadow keys are exactly what the model implies
	wantInternal := map[string]string{}
	for s := range in.sess {
		if in.sess[s].state == live {
			wantInternal[server.SessionKey(server.SessionId(in.sess[s].id))] = fmt.Sprintf("session record of S%d", s+1)
		}
	}
	for k, m := range in.recs {
		if m.owner >= 0 {
			wantInternal[server.ShadowKey(server.SessionId(in.sess[m.owner].id), k)] = fmt.Sprintf("shadow of %q under S%d", k, m.owner+1)
		}
	}
	nShadowChecks.Add(1)
	for k := range after {
		if !strings.HasPrefix(k, internalPfx) || volatileKey(k) {
			if !strings.HasPrefix(k, internalPfx) && !isUserKey(k) {
				return viol("unexpected-key", fmt.Sprintf("after %s the database holds %q: %s", what, k, in.describe(after)))
			}
			continue
		}
		if _, ok := wantInternal[k]; ok {
			continue
		}
		if !strings.HasPrefix(k, sessPfx) {
			return viol("unexpected-internal-key", fmt.Sprintf("after %s the database holds %q: %s", what, k, in.describe(after)))
		}
		rest := k[len(sessPfx):]
		if i := strings.IndexByte(rest, '/'); i >= 0 {
			uk, _ := url.PathUnescape(rest[i+1:])
			return viol("stale-shadow-key:"+what, fmt.Sprintf("after %s the shadow key %q (record %q) is still stored although that session does not own the record: %s", what, k, uk, in.describe(after)))
		}
		return viol("stale-session-record:"+what, fmt.Sprintf("after %s the session record %q is stored but the session is not alive: %s", what, k, in.describe(after)))
	}
	for k, why := range wantInternal {
		if _, ok := after[k]; !ok {
			key := "missing-shadow-key:" + what
			if strings.HasPrefix(why, "session record") {
				key = "missing-session-record:" + what
			}
			return viol(key, fmt.Sprintf("after %s the %s (%q) is missing: %s", what, why, k, in.describe(after)))
		}
	}
	// 3. nothing else was touched
	if before != nil {
		allowed := func(k string) bool {
			if volatileKey(k) || touched[k] {
				return true
			}
			if strings.HasPrefix(k, sessPfx) {
				rest := k[len(sessPfx):]
				if i := strings.IndexByte(rest, '/'); i >= 0 {
					uk, _ := url.PathUnescape(rest[i+1:])
					if touched[uk] {
						return true
					}
					rest = rest[:i]
				}
				if closing >= 0 && rest == fmt.Sprintf("%016x", in.sess[closing].id) {
					return true
				}
			}
			return false
		}
		for k, b := range before {
			if allowed(k) {
				continue
			}
			a, ok := after[k]
			if !ok || a.render != b.render {
				return viol("foreign-key-touched:"+what, fmt.Sprintf("%s changed %q, which it has no business with: before {%s}, after {%s} (present=%v)", what, k, b.render, a.render, ok))
			}
		}
		for k, a := range after {
			if _, ok := before[k]; !ok && !allowed(k) {
				return viol("foreign-key-touched:"+what, fmt.Sprintf("%s created %q {%s}, which it has no business with", what, k, a.render))
			}
		}
	}
	// 4. the public read path agrees
	gs, err := in.read()
	nReads.Add(1)
	if err != nil || len(gs) != len(userKeys) {
		return viol("read-error", fmt.Sprintf("Read after %s: %d responses, err=%v", what, len(gs), err))
	}
	for i, k := range userKeys {
		m, want := in.recs[k]
		g := gs[i]
		if !want {
			if g.Status != proto.Status_KEY_NOT_FOUND {
				return viol("record-survives:"+what, fmt.Sprintf("after %s Get(%q) answers %v, the record must not exist", what, k, g.Status))
			}
			continue
		}
		wantSess := "-"
		if m.owner >= 0 {
			wantSess = fmt.Sprint(in.sess[m.owner].id)
		}
		if g.Status != proto.Status_OK || string(g.Value) != m.val || fmtOpt(g.Version.SessionId) != wantSess {
			return viol("read-mismatch:"+what, fmt.Sprintf("after %s Get(%q) = %v, model %+v (session %s)", what, k, g, m, wantSess))
		}
	}
	// 5. the session manager holds exactly the live sessions; heartbeats are accepted exactly
	// for them. A live session incarnation (created, or re-armed by an election) gets ONE
	// heartbeat: session.heartbeat blocks while holding the session lock when a previous
	// heartbeat is still buffered, and the session goroutine takes that lock when it starts
	// (see NOTES.md, "heartbeat deadlock") - a second one could hang the harness.
	var wantMem []int64
	for s := range in.sess {
		if in.sess[s].state == live {
			wantMem = append(wantMem, in.sess[s].id)
		}
	}
	sort.Slice(wantMem, func(i, j int) bool { return wantMem[i] < wantMem[j] })
	if got := server.VerifLiveSessionIds(in.lc); fmt.Sprint(got) != fmt.Sprint(wantMem) {
		return viol("session-manager-state:"+what, fmt.Sprintf("after %s the session manager holds sessions %v, live sessions are %v", what, got, wantMem))
	}
	for s := range in.sess {
		if in.sess[s].state == live {
			if in.probed[s] {
				continue
			}
			in.probed[s] = true
		}
		err := in.lc.KeepAlive(in.sessionIdFor(s))
		nKeepAlives.Add(1)
		if in.sess[s].state == live && err != nil {
			return viol("live-session-refused:"+what, fmt.Sprintf("after %s KeepAlive of live session S%d (%d) fails: %v", what, s+1, in.sess[s].id, err))
		}
		if in.sess[s].state != live && err == nil {
			return viol("dead-session-accepted:"+what, fmt.Sprintf("after %s KeepAlive of session %d (state %d) is accepted", what, in.sessionIdFor(s), in.sess[s].state))
		}
	}
	return nil
}

func isUserKey(k string) bool {
	for _, u := range userKeys {
		if u == k {
			return true
		}
	}
	return false
}

func (in *inst) write(w *proto.WriteRequest) (*proto.WriteResponse, error) {
	w.Shard = oxh.I64(shard)
	return in.lc.WriteBlock(context.Background(), w)
}

func (in *inst) Step(op int) (bool, *ev.Violation) {
	o := ops[op]
	// enabledness
	switch o.kind {
	case kCreate:
		if in.sess[o.slot].state != never {
			return false, nil
		}
	case kClose:
		if in.sess[o.slot].state != live {
			return false, nil
		}
	}
	in.n++
	before, err := in.scan()
	if err != nil {
		return true, viol("scan-error", err.Error())
	}
	touched := map[string]bool{}
	closing := -1
	what := strings.SplitN(o.name, "(", 2)[0]
	if o.kind == kRange {
		what = "deleteRange"
	}
	switch o.kind {
	case kCreate:
		r, err := in.lc.CreateSession(&proto.CreateSessionRequest{Shard: shard, SessionTimeoutMs: sessionTimeoutMs, ClientIdentity: clientIdentity(o.slot)})
		if err != nil {
			return true, viol("create-session-failed", err.Error())
		}
		for s := range in.sess {
			if in.sess[s].state != never && in.sess[s].id == r.SessionId {
				return true, viol("session-id-reused", fmt.Sprintf("CreateSession returned id %d which S%d already had", r.SessionId, s+1))
			}
		}
		in.sess[o.slot] = msess{live, r.SessionId}
		touched[server.SessionKey(server.SessionId(r.SessionId))] = true
	case kEphPut:
		sid := in.sessionIdFor(o.slot)
		val := fmt.Sprintf("e%d", in.n)
		resp, err := in.write(&proto.WriteRequest{Puts: []*proto.PutRequest{{Key: o.key, Value: []byte(val), SessionId: &sid}}})
		if err != nil {
			return true, viol("write-error", fmt.Sprintf("%s: %v", o.name, err))
		}
		st := resp.Puts[0].Status
		if in.sess[o.slot].state == live {
			if st != proto.Status_OK {
				return true, viol("ephemeral-put-refused", fmt.Sprintf("%s under live session %d answered %v", o.name, sid, st))
			}
			if old, ok := in.recs[o.key]; ok && old.owner >= 0 && old.owner != o.slot {
				nTakeovers.Add(1)
			}
			in.recs[o.key] = mrec{val, o.slot}
			touched[o.key] = true
			if resp.Puts[0].Version.SessionId == nil || *resp.Puts[0].Version.SessionId != sid {
				return true, viol("record-owner:ephemeralPut", fmt.Sprintf("%s: response version carries session %s, expected %d", o.name, fmtOpt(resp.Puts[0].Version.SessionId), sid))
			}
		} else {
			nDeadPuts.Add(1)
			what = "ephemeralPut-on-dead-session"
			if st != proto.Status_SESSION_DOES_NOT_EXIST {
				state := "never created"
				if in.sess[o.slot].state == closed {
					state = "closed"
				}
				return true, viol("put-on-dead-session-accepted", fmt.Sprintf("%s naming session %d (%s) answered %v instead of SESSION_DOES_NOT_EXIST", o.name, sid, state, st))
			}
		}
	case kPut:
		val := fmt.Sprintf("p%d", in.n)
		resp, err := in.write(&proto.WriteRequest{Puts: []*proto.PutRequest{{Key: o.key, Value: []byte(val)}}})
		if err != nil {
			return true, viol("write-error", fmt.Sprintf("%s: %v", o.name, err))
		}
		if resp.Puts[0].Status != proto.Status_OK {
			return true, viol("put-refused", fmt.Sprintf("%s answered %v", o.name, resp.Puts[0].Status))
		}
		if old, ok := in.recs[o.key]; ok && old.owner >= 0 {
			nTakeovers.Add(1)
		}
		in.recs[o.key] = mrec{val, -1}
		touched[o.key] = true
	case kDelete:
		resp, err := in.write(&proto.WriteRequest{Deletes: []*proto.DeleteRequest{{Key: o.key}}})
		if err != nil {
			return true, viol("write-error", fmt.Sprintf("%s: %v", o.name, err))
		}
		_, had := in.recs[o.key]
		want := proto.Status_KEY_NOT_FOUND
		if had {
			want = proto.Status_OK
		}
		if resp.Deletes[0].Status != want {
			return true, viol("delete-status", fmt.Sprintf("%s answered %v, expected %v", o.name, resp.Deletes[0].Status, want))
		}
		delete(in.recs, o.key)
		touched[o.key] = true
	case kRange:
		resp, err := in.write(&proto.WriteRequest{DeleteRanges: []*proto.DeleteRangeRequest{{StartInclusive: o.r.start, EndExclusive: o.r.end}}})
		if err != nil {
			return true, viol("write-error", fmt.Sprintf("%s: %v", o.name, err))
		}
		if resp.DeleteRanges[0].Status != proto.Status_OK {
			return true, viol("delete-range-status", fmt.Sprintf("%s answered %v", o.name, resp.DeleteRanges[0].Status))
		}
		for _, k := range o.r.members {
			delete(in.recs, k)
			touched[k] = true
		}
	case kClose:
		sid := in.sess[o.slot].id
		if _, err := in.lc.CloseSession(&proto.CloseSessionRequest{Shard: shard, SessionId: sid}); err != nil {
			return true, viol("close-session-failed", fmt.Sprintf("%s (%d): %v", o.name, sid, err))
		}
		nCloses.Add(1)
		foreign := false
		for k, m := range in.recs {
			if m.owner == o.slot {
				delete(in.recs, k)
				touched[k] = true
				nCloseRemovedRecords.Add(1)
			} else {
				foreign = true
			}
		}
		if foreign {
			nCloseWithForeign.Add(1)
		}
		closing = o.slot
		in.sess[o.slot].state = closed
		// closing it again must be refused
		if _, err := in.lc.CloseSession(&proto.CloseSessionRequest{Shard: shard, SessionId: sid}); err == nil || !isSessionNotFound(err) {
			return true, viol("dead-session-accepted:closeSession", fmt.Sprintf("closing session %d twice: second answer %v", sid, err))
		}
	case kElect:
		if err := in.elect(); err != nil {
			return true, viol("reelection-failed", err.Error())
		}
		nElections.Add(1)
		in.probed = [2]bool{}
		if in.sess[0].state == live || in.sess[1].state == live {
			nElectionsWithSessions.Add(1)
		}
	}
	after, err := in.scan()
	if err != nil {
		return true, viol("scan-error", err.Error())
	}
	return true, in.oracle(before, after, touched, closing, what)
}

func isSessionNotFound(err error) bool {
	return errors.Is(err, constant.ErrSessionNotFound) || strings.Contains(err.Error(), "session not found")
}

// Key: the abstract configuration (who owns what, which sessions are alive) or, in exact mode,
// the stored records with version ids, modification counts and numeric session ids.
func (in *inst) Key() string {
	var b strings.Builder
	for s := range in.sess {
		fmt.Fprintf(&b, "S%d=%d ", s+1, in.sess[s].state)
	}
	for _, k := range userKeys {
		if m, ok := in.recs[k]; ok {
			fmt.Fprintf(&b, "%s:%d ", k, m.owner)
		} else {
			fmt.Fprintf(&b, "%s:absent ", k)
		}
	}
	db, err := in.scan()
	if err != nil {
		return b.String() + "scan-error " + err.Error()
	}
	ks := make([]string, 0, len(db))
	for k := range db {
		ks = append(ks, k)
	}
	sort.Strings(ks)
	if in.exact {
		for _, k := range ks {
			if k == "__oxia/term" || k == "__oxia/term-options" {
				continue
			}
			fmt.Fprintf(&b, "|%q{%s}", k, db[k].renderNoWallTime)
		}
		return b.String()
	}
	// abstract: key names with session ids replaced by slot names
	for _, k := range ks {
		if volatileKey(k) {
			continue
		}
		name := k
		for s := range in.sess {
			if in.sess[s].state != never {
				name = strings.ReplaceAll(name, fmt.Sprintf("%016x", in.sess[s].id), fmt.Sprintf("S%d", s+1))
			}
		}
		owner := "-"
		if db[k].sess != nil {
			owner = "?"
			for s := range in.sess {
				if in.sess[s].state != never && in.sess[s].id == *db[k].sess {
					owner = fmt.Sprintf("S%d", s+1)
				}
			}
		}
		fmt.Fprintf(&b, "|%s@%s", name, owner)
	}
	return b.String()
}

type config struct {
	name  string
	exact bool
	depth int
}

// useAlphabet: configurations whose name starts with "empty-key" use the keys {"", "k1"}: the server accepts a record
// under the empty key, and its shadow key is the session's key followed by a bare "/".
func useAlphabet(name string) {
	if strings.HasPrefix(name, "empty-key") {
		userKeys = []string{"", "k1"}
		ranges = []rng{{"k1", "k3", []string{"k1"}}}
	} else {
		userKeys = []string{"k1", "k%31", "k/3"}
		ranges = []rng{
			{"k%", "k3", []string{"k%31", "k1"}},
			{"k1", "k3", []string{"k1"}},
			{"k/", "k//", []string{"k/3"}},
		}
	}
	ops = buildOps()
}

func spec(c config, deadline time.Time) seqx.Spec {
	useAlphabet(c.name)
	return seqx.Spec{Name: "session-ownership-seq", Config: c.name, NOps: len(ops), OpName: func(i int) string { return ops[i].name },
		New: func(w int) seqx.Instance { return newInst(c.exact, w) }, MaxDepth: c.depth, Deadline: deadline}
}

func main() {
	replay := flag.String("replay", "", "replay file")
	probe := flag.String("probe", "", "diagnostic (not part of the check): heartbeat-deadlock")
	flag.Parse()
	oxh.Quiet()
	kv.VerifMemTableSize = 1 << 20
	scratch = ev.Scratch("c14")
	defer os.RemoveAll(scratch)
	if *probe == "heartbeat-deadlock" {
		code := probeHeartbeatDeadlock()
		_ = os.RemoveAll(scratch)
		os.Exit(code)
	}
	if *replay != "" {
		code := doReplay(*replay)
		_ = os.RemoveAll(scratch)
		os.Exit(code)
	}
	run := ev.NewRun("C14", "model_checking")
	cfgs := []config{{"empty-key-exact-state", true, 4}, {"abstract-state", false, 8}, {"exact-state", true, 4}}
	budget := 50 * time.Second
	if run.Tier == "thorough" {
		cfgs = []config{{"empty-key-exact-state", true, 6}, {"abstract-state", false, 10}, {"exact-state", true, 6}}
		budget = 17 * time.Minute
	}
	if d := os.Getenv("VERIF_DEPTH"); d != "" {
		fmt.Sscanf(d, "%d", &cfgs[2].depth)
	}
	deadline := time.Now().Add(budget)
	var notes []string
	for i, c := range cfgs {
		dl := deadline
		if i == 0 { // the small alphabet with the empty key: at most a fifth of the budget
			if h := time.Now().Add(budget / 5); h.Before(dl) {
				dl = h
			}
		}
		if i == 1 { // leave at least two fifths of the budget to the last configuration
			if h := time.Now().Add(2 * budget / 5); h.Before(dl) {
				dl = h
			}
		}
		t0 := time.Now()
		sp := spec(c, dl)
		res := seqx.Explore(sp)
		seqx.Report(run, sp, res)
		run.Add("distinct_states", res.States)
		notes = append(notes, fmt.Sprintf("%s: depth %d (reached %d), %d states, %d transitions, levels %v, %.0fs", c.name, c.depth, res.Depth, res.States, res.Transitions, res.LevelSizes, time.Since(t0).Seconds()))
		fmt.Println(notes[len(notes)-1])
	}
	run.DistinctN(run.Get("distinct_states"))
	run.Coverage["configs"] = notes
	run.Coverage["alphabet"] = len(ops)
	var names []string
	for _, o := range ops {
		names = append(names, o.name)
	}
	run.Coverage["ops"] = names
	run.Add("session_closes", nCloses.Load())
	run.Add("records_removed_by_close", nCloseRemovedRecords.Load())
	run.Add("closes_with_foreign_records_present", nCloseWithForeign.Load())
	run.Add("ephemeral_puts_on_dead_session", nDeadPuts.Load())
	run.Add("ownership_takeovers", nTakeovers.Load())
	run.Add("reelections", nElections.Load())
	run.Add("reelections_with_live_sessions", nElectionsWithSessions.Load())
	run.Add("db_vs_model_comparisons", nShadowChecks.Load())
	run.Add("public_reads", nReads.Load())
	run.Add("keepalive_probes", nKeepAlives.Load())
	run.Sample(map[string]any{"history": []string{"createSession(S1)", "ephemeralPut(S1,k1)", "put(k1)", "closeSession(S1)"},
		"expected": "k1 survives the close as a plain record (value p3, no session); no __oxia/session key left"})
	run.Sample(map[string]any{"history": []string{"createSession(S1)", "createSession(S2)", "ephemeralPut(S1,k/3)", "ephemeralPut(S2,k/3)", "closeSession(S1)"},
		"expected": "k/3 owned by S2 survives; shadow keys == {__oxia/session/<S2>/k%2F3}"})
	run.Sample(map[string]any{"history": []string{"createSession(S1)", "ephemeralPut(S1,k%31)", "re-election(NewTerm+BecomeLeader)", "closeSession(S1)"},
		"expected": "KeepAlive(S1) accepted after the election; close removes k%31, the session record and the shadow"})
	run.Assume = []string{
		"stage 1 is sequential and runs on the real clock with 5-minute session timeouts: no session expires; expiry, heartbeat timing and races are stage 2 (virtual time)",
		"single shard, RF=1 leader without followers; the leader change is a re-election of the same node (NewTerm + BecomeLeader), which rebuilds the session manager from the database",
		"abstract-state configuration: two states are the same when sessions' liveness, every record's owner slot and the set of internal session/shadow keys (ids renamed to slots) agree; version ids, values and numeric ids are only part of the exact-state configuration",
	}
	_ = os.RemoveAll(scratch)
	os.Exit(run.Finish("BFS over all operation sequences up to the depth from the alphabet {create S1/S2, ephemeral put S1/S2 x 3 keys (also under closed / never-created sessions), plain put, delete, 3 range deletes, close S1/S2, re-election} on a real RF=1 leader; after every step: stored user records == model incl. owner, session records and shadow keys == exactly those implied by the model, every key the operation has no business with is byte-identical to before, public Read agrees, KeepAlive accepted exactly for live sessions; two configurations: abstract canonical state (deep) and exact stored state (shallower)"))
}

func doReplay(path string) int {
	var doc struct {
		First struct {
			Replay struct {
				Config  string `json:"config"`
				Indices []int  `json:"indices"`
			} `json:"replay"`
		} `json:"first"`
	}
	if err := ev.ReadJSON(path, &doc); err != nil {
		fmt.Println("cannot read replay:", err)
		return 2
	}
	if doc.First.Replay.Indices == nil {
		fmt.Println("this replay does not belong to the sequential stage (use ./check C14S --replay)")
		return 2
	}
	v := seqx.Replay(spec(config{doc.First.Replay.Config, doc.First.Replay.Config == "exact-state", 0}, time.Time{}), doc.First.Replay.Indices)
	if v != nil {
		fmt.Printf("VIOLATION property=C14 replay=%s\n  %s: %s\n", path, v.Key, v.Message)
		return 1
	}
	fmt.Println("replay passed")
	return 0
}

// probeHeartbeatDeadlock is a diagnostic, not an oracle (it uses a wall-clock watchdog): it shows
// the hang described in NOTES.md ("heartbeat deadlock"). Two heartbeats reach a session before its
// goroutine has taken the session lock for the first time; with one P that is the schedule Go picks.
//
//	build/bin/c14 -probe heartbeat-deadlock
func probeHeartbeatDeadlock() int {
	runtime.GOMAXPROCS(1)
	in := newInst(false, 0)
	r, err := in.lc.CreateSession(&proto.CreateSessionRequest{Shard: shard, SessionTimeoutMs: 2000, ClientIdentity: "probe"})
	if err != nil {
		fmt.Println("create session:", err)
		return 2
	}
	done := make(chan struct{})
	go func() {
		_ = in.lc.KeepAlive(r.SessionId)
		_ = in.lc.KeepAlive(r.SessionId)
		close(done)
	}()
	select {
	case <-done:
		fmt.Println("both heartbeats returned (no deadlock in this schedule)")
		in.Close()
		return 0
	case <-time.After(6 * time.Second):
		g, _ := server.VerifLeaderDB(in.lc).Get(&proto.GetRequest{Key: server.SessionKey(server.SessionId(r.SessionId))})
		fmt.Printf("DEADLOCK: the second KeepAlive has not returned after 6 s (3x the session timeout); session record still stored: %v\n", g.Status == proto.Status_OK)
		return 1 // the instance cannot be closed any more: Close would block on the session lock
	}
}
