// C02, leader-conformance stage: nothing is applied, served or acknowledged before a quorum holds it, for every sequence of leader protocol events up to a depth (lib/lfsm).
package main

import (
	"os"

	"verif/lib/lfsm"
)

func main() {
	os.Exit(lfsm.Main("C02", map[string]bool{"uncommitted-entries-applied-before-quorum": true, "leader-installed-without-quorum": true, "write-acknowledged-without-quorum": true, "acked-write-lost": true, "write-accepted-by-non-leader": true, "state-not-fold-of-log": true, "harness-setup": true, "panic": true}))
}
