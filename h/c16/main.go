// C16 (sequential part): sequence keys are fresh, strictly increasing and computed exactly.
// E1 explicit-state search of write histories on a real kv.DB (ProcessWrite with the leader's
// update callback) against an arbitrary-precision reference model; every request is also applied
// to a second DB (a replica replaying the same log) which must answer and end up identically.
// The subscriber part of the property (GetSequenceUpdates timing) is checked by another harness.
package main

import (
	"errors"
	"flag"
	"fmt"
	"math/big"
	"os"
	"sort"
	"strconv"
	"strings"
	"sync/atomic"
	"time"

	"github.com/oxia-db/oxia/common/compare"
	time2 "github.com/oxia-db/oxia/common/time"
	"github.com/oxia-db/oxia/proto"
	"github.com/oxia-db/oxia/server"
	"github.com/oxia-db/oxia/server/kv"

	"verif/lib/ev"
	"verif/lib/oxh"
	"verif/lib/seqx"
)

// ---------------------------------------------------------------------------------------------
// alphabet

const (
	pfxP  = "p"
	pfxPP = "pp"
	pfxP1 = "p-00000000000000000001" // a prefix that is itself a key of the sequence "p"
	// a prefix that extends "p" by a byte below '-': its keys ("p+-<n>") start with "p", sort right below
	// "p-<n>" and are not keys of the sequence "p"
	pfxPlus = "p+"
)

var prefixes = []string{pfxP, pfxPP, pfxP1, pfxPlus}

const two63 = uint64(1) << 63
const maxU64 = ^uint64(0)

type seqPut struct {
	prefix string
	deltas []uint64
}

type opDef struct {
	name      string
	seq       []seqPut // sequence puts, in request order
	plain     []string // plain puts of fixed keys
	overMax   []string // plain put onto the current highest key of these prefixes
	delMax    []string // delete the current highest key of these prefixes
	delMin    []string // delete the current lowest key of these prefixes
	boundary  bool
	multiSeq  bool
	mixedKind bool
}

func fmtDeltas(d []uint64) string {
	var s []string
	for _, x := range d {
		switch x {
		case two63:
			s = append(s, "2^63")
		case maxU64:
			s = append(s, "2^64-1")
		default:
			s = append(s, strconv.FormatUint(x, 10))
		}
	}
	return "[" + strings.Join(s, ",") + "]"
}

func seqName(s seqPut) string { return fmt.Sprintf("SeqPut(%s,%s)", s.prefix, fmtDeltas(s.deltas)) }

func key20(prefix string, parts ...uint64) string {
	k := prefix
	for _, p := range parts {
		k += fmt.Sprintf("-%020d", p)
	}
	return k
}

func buildOps(thorough bool) []opDef {
	var ops []opDef
	deltaLists := [][]uint64{{1}, {2}, {1, 1}, {2, 0}, {1, 0, 3}}
	for _, p := range prefixes {
		for _, d := range deltaLists {
			s := seqPut{p, d}
			ops = append(ops, opDef{name: seqName(s), seq: []seqPut{s}})
		}
	}
	// two sequence puts in one request
	pairs := [][2]seqPut{
		{{pfxP, []uint64{1}}, {pfxP, []uint64{1}}},
		{{pfxP, []uint64{2}}, {pfxP, []uint64{1, 1}}},
		{{pfxP, []uint64{1, 1}}, {pfxP, []uint64{2, 0}}},
		{{pfxP, []uint64{2, 0}}, {pfxP, []uint64{1, 0, 3}}},
		{{pfxP, []uint64{1}}, {pfxP1, []uint64{1}}},
		{{pfxP1, []uint64{2}}, {pfxP, []uint64{1, 1}}},
		{{pfxP, []uint64{1}}, {pfxPP, []uint64{1}}},
		{{pfxPP, []uint64{1, 1}}, {pfxPP, []uint64{1, 1}}},
	}
	for _, pr := range pairs {
		ops = append(ops, opDef{name: seqName(pr[0]) + "+" + seqName(pr[1]), seq: []seqPut{pr[0], pr[1]}, multiSeq: true})
	}
	// plain puts of keys that look like sequence keys
	for _, k := range []string{key20(pfxP, 5), key20(pfxP, 1, 3), key20(pfxPP, 2)} {
		ops = append(ops, opDef{name: "PlainPut(" + k + ")", plain: []string{k}})
	}
	// plain writes on generated keys
	for _, p := range prefixes {
		ops = append(ops, opDef{name: "DeleteMax(" + p + ")", delMax: []string{p}})
	}
	ops = append(ops, opDef{name: "DeleteMin(" + pfxP + ")", delMin: []string{pfxP}})
	ops = append(ops, opDef{name: "PlainPutOnMax(" + pfxP + ")", overMax: []string{pfxP}})
	// mixed request: the puts of a request are applied before its deletes
	s := seqPut{pfxP, []uint64{1}}
	ops = append(ops, opDef{name: seqName(s) + "+DeletePreviousMax(" + pfxP + ")", seq: []seqPut{s}, delMax: []string{pfxP}, mixedKind: true})
	s2 := seqPut{pfxPP, []uint64{2}}
	ops = append(ops, opDef{name: seqName(s2) + "+PlainPut(" + key20(pfxPP, 9) + ")", seq: []seqPut{s2}, plain: []string{key20(pfxPP, 9)}, mixedKind: true})
	// deltas at the edge of the number range (both tiers: a bound that is off by a sign bit only shows here)
	for _, d := range [][]uint64{{two63}, {maxU64}, {1, maxU64}} {
		s := seqPut{pfxP, d}
		ops = append(ops, opDef{name: seqName(s), seq: []seqPut{s}, boundary: true})
	}
	return ops
}

var ops []opDef

// ---------------------------------------------------------------------------------------------
// reference model (arbitrary precision)

func slashCmp(a, b string) int { return compare.CompareWithSlash([]byte(a), []byte(b)) }

// keysOf returns the existing keys of a prefix (prefix + "-" + something), lowest first.
func keysOf(model map[string]string, prefix string) []string {
	var ks []string
	for k := range model {
		if strings.HasPrefix(k, prefix+"-") {
			ks = append(ks, k)
		}
	}
	sort.Slice(ks, func(a, b int) bool { return slashCmp(ks[a], ks[b]) < 0 })
	return ks
}

var two64 = new(big.Int).Lsh(big.NewInt(1), 64)

type refResult struct {
	key      string
	defined  bool   // false: the property does not define the outcome (C13's domain)
	why      string // why undefined
	highest  string // highest existing key of the prefix ("" if none)
	overflow bool   // some suffix + delta >= 2^64
	wrapped  string // what 64-bit wrap-around arithmetic would give
	aboveMax bool   // highest key >= prefix-18446744073709551615
}

func isDigits(s string) bool {
	if len(s) != 20 {
		return false
	}
	for _, c := range s {
		if c < '0' || c > '9' {
			return false
		}
	}
	return true
}

func pad20(v *big.Int) string {
	s := v.Text(10)
	for len(s) < 20 {
		s = "0" + s
	}
	return s
}

func reference(model map[string]string, sp seqPut) refResult {
	r := refResult{}
	ks := keysOf(model, sp.prefix)
	var parts []string
	if len(ks) > 0 {
		r.highest = ks[len(ks)-1]
		parts = strings.Split(r.highest[len(sp.prefix)+1:], "-")
		for _, p := range parts {
			if !isDigits(p) {
				r.why = "highest key has a non-numeric suffix"
				return r
			}
		}
		if len(parts) > len(sp.deltas) {
			r.why = "fewer deltas than the highest key has suffixes"
			return r
		}
		r.aboveMax = slashCmp(r.highest, fmt.Sprintf("%s-%020d", sp.prefix, maxU64)) >= 0
	}
	if sp.deltas[0] == 0 {
		r.why = "first delta is zero"
		return r
	}
	r.key, r.wrapped = sp.prefix, sp.prefix
	for i, d := range sp.deltas {
		base := new(big.Int)
		if i < len(parts) {
			base.SetString(parts[i], 10)
		}
		sum := new(big.Int).Add(base, new(big.Int).SetUint64(d))
		if sum.Cmp(two64) >= 0 {
			r.overflow = true
		}
		r.key += "-" + pad20(sum)
		r.wrapped += "-" + pad20(new(big.Int).Mod(sum, two64))
	}
	r.defined = true
	return r
}

// ---------------------------------------------------------------------------------------------
// instance

type inst struct {
	fa, fb *oxh.CapFactory
	a, b   kv.DB // leader DB and a replica applying the same log
	model  map[string]string
	offset int64
	step   int
}

var (
	nSeqPuts, nMultiSeq, nBoundary, nUndefined, nDeleteMax, nReplicaCmp, nHighestMultiPart, nShorterHighest, nOverflowRejected atomic.Int64
)

func newDB(f *oxh.CapFactory) kv.DB {
	d, err := kv.NewDB("default", 1, f, time.Hour, &time2.MockedClock{})
	if err != nil {
		panic(err)
	}
	return d
}

func newInst(int) *inst {
	in := &inst{fa: oxh.NewMemFactory(), fb: oxh.NewMemFactory(), model: map[string]string{}}
	in.a, in.b = newDB(in.fa), newDB(in.fb)
	return in
}

func (in *inst) Close() {
	_ = in.a.Close()
	_ = in.b.Close()
	_ = in.fa.Close()
	_ = in.fb.Close()
}

func viol(key, msg string) *ev.Violation { return &ev.Violation{Key: key, Message: msg} }

func errClass(err error) string {
	switch {
	case errors.Is(err, kv.ErrMissingSequenceDeltas):
		return "missing-sequence-deltas"
	case errors.Is(err, kv.ErrSequenceDeltaIsZero):
		return "zero-delta"
	case errors.Is(err, kv.ErrMissingPartitionKey):
		return "missing-partition-key"
	}
	s := err.Error()
	if len(s) > 40 {
		s = s[:40]
	}
	return s
}

type plannedPut struct {
	seq  *seqPut
	key  string // plain: the key; seq: filled from the reference
	val  string
	ref  refResult
	prev map[string]bool // keys of the prefix existing just before this put (model)
}

func (in *inst) Step(op int) (bool, *ev.Violation) {
	o := ops[op]
	// ---- plan the request on a copy of the model
	m := map[string]string{}
	for k, v := range in.model {
		m[k] = v
	}
	var dels []string
	for _, p := range o.delMax {
		ks := keysOf(in.model, p)
		if len(ks) == 0 {
			return false, nil
		}
		dels = append(dels, ks[len(ks)-1])
	}
	for _, p := range o.delMin {
		ks := keysOf(in.model, p)
		if len(ks) < 2 {
			return false, nil
		}
		dels = append(dels, ks[0])
	}
	var over []string
	for _, p := range o.overMax {
		ks := keysOf(in.model, p)
		if len(ks) == 0 {
			return false, nil
		}
		over = append(over, ks[len(ks)-1])
	}
	in.step++
	var plan []plannedPut
	for i := range o.seq {
		sp := o.seq[i]
		r := reference(m, sp)
		if !r.defined {
			// a request that validation legitimately refuses: not part of this property
			in.step--
			nUndefined.Add(1)
			return false, nil
		}
		prev := map[string]bool{}
		for _, k := range keysOf(m, sp.prefix) {
			prev[k] = true
		}
		val := fmt.Sprintf("s%d.%d", in.step, i)
		plan = append(plan, plannedPut{seq: &o.seq[i], key: r.key, val: val, ref: r, prev: prev})
		// the model continues with the reference key; any disagreement ends this history
		m[r.key] = val
	}
	for i, k := range append(append([]string{}, o.plain...), over...) {
		val := fmt.Sprintf("v%d.%d", in.step, i)
		plan = append(plan, plannedPut{key: k, val: val})
		m[k] = val
	}
	for _, k := range dels {
		delete(m, k)
	}
	build := func() *proto.WriteRequest {
		req := &proto.WriteRequest{}
		for _, p := range plan {
			if p.seq != nil {
				req.Puts = append(req.Puts, &proto.PutRequest{Key: p.seq.prefix, Value: []byte(p.val), PartitionKey: oxh.Str("pk"),
					SequenceKeyDelta: append([]uint64{}, p.seq.deltas...)})
			} else {
				req.Puts = append(req.Puts, &proto.PutRequest{Key: p.key, Value: []byte(p.val), PartitionKey: oxh.Str("pk")})
			}
		}
		for _, k := range dels {
			req.Deletes = append(req.Deletes, &proto.DeleteRequest{Key: k})
		}
		return req
	}
	off := in.offset
	in.offset++
	ts := uint64(1000 + off)
	// ---- leader DB (ProcessWrite rewrites the request, hence one copy per DB)
	before := userKeys(in.a)
	ra, err := in.a.ProcessWrite(build(), off, ts, server.WrapperUpdateOperationCallback)
	if err != nil {
		anyOverflow, anyAboveMax := false, false
		for _, p := range plan {
			anyOverflow = anyOverflow || p.ref.overflow
			anyAboveMax = anyAboveMax || p.ref.aboveMax
		}
		after := userKeys(in.a)
		if anyOverflow && strings.Join(before, " ") == strings.Join(after, " ") {
			// some suffix + delta of the request does not fit the 64-bit sequence number the key
			// format documents: refusing the whole (atomic) request and leaving the DB untouched
			// is a validation outcome (C13); no key was computed, nothing was overwritten.
			nOverflowRejected.Add(1)
			in.step--
			return false, nil
		}
		if anyAboveMax {
			return true, viol("seqkey:highest-key-at-max-suffix-is-ignored", fmt.Sprintf("%s failed: %v; the highest existing key of the prefix carries the suffix 2^64-1 and is not seen, an older key with more suffixes is used instead (keys before: %v)", o.name, err, before))
		}
		return true, viol("seqput:infrastructure-error:"+errClass(err), fmt.Sprintf("%s failed on a request the property defines: %v (keys before: %v)", o.name, err, before))
	}
	for i, p := range plan {
		pr := ra.Puts[i]
		if pr.Status != proto.Status_OK {
			return true, viol("put-status", fmt.Sprintf("%s: put %d returned %v", o.name, i, pr.Status))
		}
		if p.seq == nil {
			if pr.Key != nil {
				return true, viol("plain-put-returned-key", fmt.Sprintf("%s: plain put of %q answered with generated key %q", o.name, p.key, *pr.Key))
			}
			continue
		}
		nSeqPuts.Add(1)
		if n := strings.Count(strings.TrimPrefix(p.ref.highest, p.seq.prefix), "-"); n > 1 {
			nHighestMultiPart.Add(1)
		} else if n >= 1 && n < len(p.seq.deltas) {
			nShorterHighest.Add(1)
		}
		if pr.Key == nil {
			return true, viol("seqkey:no-key-returned", fmt.Sprintf("%s: sequence put %d returned no key", o.name, i))
		}
		got := *pr.Key
		existed := p.prev[got] || in.modelHasDuringPlan(plan[:i], got)
		var notGreater []string
		for k := range p.prev {
			if !(slashCmp(got, k) > 0 && got > k) {
				notGreater = append(notGreater, k)
			}
		}
		sort.Strings(notGreater)
		conseq := fmt.Sprintf("key existed before: %v; existing keys of the prefix it is not greater than: %v", existed, notGreater)
		ctx := fmt.Sprintf("%s put %d: highest existing key of %q is %q, reference key %q, returned %q; %s", o.name, i, p.seq.prefix, p.ref.highest, p.ref.key, got, conseq)
		if got != p.ref.key {
			switch {
			case p.ref.overflow && got == p.ref.wrapped:
				return true, viol("seqkey:suffix-plus-delta-wraps-at-2^64", ctx)
			case p.ref.aboveMax:
				return true, viol("seqkey:highest-key-at-max-suffix-is-ignored", ctx)
			}
			return true, viol("seqkey:differs-from-reference", ctx)
		}
		if existed {
			return true, viol("seqkey:overwrites-existing-record", ctx)
		}
		if len(notGreater) > 0 {
			return true, viol("seqkey:not-greater-than-existing-keys", ctx)
		}
	}
	for i, k := range dels {
		if ra.Deletes[i].Status != proto.Status_OK {
			return true, viol("delete-status", fmt.Sprintf("%s: delete of %q returned %v", o.name, k, ra.Deletes[i].Status))
		}
	}
	in.model = m
	// ---- DB content == model
	if v := in.checkContent(o); v != nil {
		return true, v
	}
	// ---- replica
	rb, err := in.b.ProcessWrite(build(), off, ts, server.WrapperUpdateOperationCallback)
	nReplicaCmp.Add(1)
	if err != nil {
		return true, viol("replica:apply-error", fmt.Sprintf("%s failed on the replica only: %v", o.name, err))
	}
	for i := range plan {
		ka, kb := ra.Puts[i].Key, rb.Puts[i].Key
		if (ka == nil) != (kb == nil) || (ka != nil && *ka != *kb) {
			return true, viol("replica:different-key", fmt.Sprintf("%s put %d: leader %v replica %v", o.name, i, ka, kb))
		}
	}
	da, db := oxh.DumpDB(in.a, oxh.DumpOpts{}), oxh.DumpDB(in.b, oxh.DumpOpts{})
	if strings.Join(da, "\n") != strings.Join(db, "\n") {
		return true, viol("replica:divergence", fmt.Sprintf("after %s the leader DB and the replica differ:\n%s\n--- replica\n%s", o.name, strings.Join(da, "\n"), strings.Join(db, "\n")))
	}
	if len(o.seq) > 1 {
		nMultiSeq.Add(1)
	}
	if o.boundary {
		nBoundary.Add(1)
	}
	if len(o.delMax) > 0 {
		nDeleteMax.Add(1)
	}
	return true, nil
}

func (in *inst) modelHasDuringPlan(done []plannedPut, k string) bool {
	for _, p := range done {
		if p.key == k {
			return true
		}
	}
	return false
}

func userKeys(d kv.DB) []string {
	var ks []string
	for _, l := range oxh.DumpDB(d, oxh.DumpOpts{UserOnly: true}) {
		q, err := strconv.QuotedPrefix(l)
		if err != nil {
			panic(l)
		}
		k, _ := strconv.Unquote(q)
		ks = append(ks, k)
	}
	return ks
}

func (in *inst) checkContent(o opDef) *ev.Violation {
	lines := oxh.DumpDB(in.a, oxh.DumpOpts{UserOnly: true})
	got := map[string]bool{}
	for _, l := range lines {
		q, _ := strconv.QuotedPrefix(l)
		k, _ := strconv.Unquote(q)
		got[k] = true
		v, ok := in.model[k]
		if !ok {
			return viol("content:unexpected-key", fmt.Sprintf("after %s: key %q stored, model has none", o.name, k))
		}
		if !strings.Contains(l, fmt.Sprintf("val=%q ", v)) {
			return viol("content:wrong-value", fmt.Sprintf("after %s: %s, model value %q", o.name, l, v))
		}
	}
	for k := range in.model {
		if !got[k] {
			return viol("content:missing-key", fmt.Sprintf("after %s: key %q of the model is not stored", o.name, k))
		}
	}
	return nil
}

func (in *inst) Key() string {
	ks := userKeys(in.a)
	return strings.Join(ks, "\x00")
}

func spec(depth int, deadline time.Time) seqx.Spec {
	return seqx.Spec{Name: "seqkeys-seq", Config: "db+replica", NOps: len(ops), OpName: func(i int) string { return ops[i].name },
		New: func(w int) seqx.Instance { return newInst(w) }, MaxDepth: depth, Deadline: deadline, MaxViolations: 1 << 30}
}

func main() {
	replay := flag.String("replay", "", "replay file")
	flag.Parse()
	oxh.Quiet()
	if *replay != "" {
		ops = buildOps(true) // quick indices are a prefix of the thorough alphabet
		os.Exit(doReplay(*replay))
	}
	run := ev.NewRun("C16", "model_checking")
	thorough := run.Tier == "thorough"
	ops = buildOps(thorough)
	depth, budget := 3, 50*time.Second
	if thorough {
		depth, budget = 4, 18*time.Minute
	}
	if d := os.Getenv("VERIF_DEPTH"); d != "" {
		fmt.Sscanf(d, "%d", &depth)
	}
	sp := spec(depth, time.Now().Add(budget))
	res := seqx.Explore(sp)
	seqx.Report(run, sp, res)
	run.Add("distinct_states", res.States)
	run.Add("sequence_puts_checked", nSeqPuts.Load())
	run.Add("requests_with_two_sequence_puts", nMultiSeq.Load())
	run.Add("boundary_delta_requests", nBoundary.Load())
	run.Add("requests_after_delete_of_maximum", nDeleteMax.Load())
	run.Add("replica_comparisons", nReplicaCmp.Load())
	run.Add("seqputs_with_multi_part_highest_key", nHighestMultiPart.Load())
	run.Add("seqputs_with_more_deltas_than_suffixes", nShorterHighest.Load())
	run.Add("requests_left_to_validation_C13", nUndefined.Load())
	run.Add("overflow_requests_refused_by_impl", nOverflowRejected.Load())
	run.Coverage["alphabet_size"] = len(ops)
	run.Coverage["max_depth"] = depth
	run.Sample(map[string]any{"ops": []string{ops[0].name, ops[15].name, ops[len(prefixes)*5+8+3].name, ops[2].name}})
	run.Sample(map[string]any{"reference": "highest key p-00000000000000000002-00000000000000000007, deltas [1,0,3] => p-00000000000000000003-00000000000000000007-00000000000000000003"})
	run.Assume = []string{"only the sequential part of C16 (subscriber timing is covered by the C16 scheduler harness)",
		"'keys of the prefix' are the existing keys that start with prefix+\"-\"; the highest one is taken in oxia's key order (all keys of the alphabet are flat, so it equals byte order)",
		"requests the property does not define (fewer deltas than the highest key has suffixes, non-numeric suffixes, zero first delta, no partition key) are validation cases of C13 and are not issued",
		"a replica is a second DB that applies the same requests with the same offsets and timestamps"}
	run.DistinctN(res.States)
	os.Exit(run.Finish("BFS over all request histories up to max_depth from the alphabet {sequence put x 3 prefixes x 5 delta lists, 8 requests with two sequence puts, plain puts of sequence-looking keys, delete of the highest/lowest key, plain put on the highest key, mixed requests, deltas 2^63 and 2^64-1}; every returned key is compared with a math/big reference, must be new and greater (key order and string order) than every existing key of the prefix; DB content and a replaying replica are compared after every request; a state is distinct when the set of stored user keys differs"))
}

func doReplay(path string) int {
	var doc struct {
		First struct {
			Replay struct {
				Indices []int `json:"indices"`
			} `json:"replay"`
		} `json:"first"`
	}
	if err := ev.ReadJSON(path, &doc); err != nil {
		fmt.Println("cannot read replay:", err)
		return 2
	}
	if v := seqx.Replay(spec(0, time.Time{}), doc.First.Replay.Indices); v != nil {
		fmt.Printf("VIOLATION property=C16 replay=%s\n  %s: %s\n", path, v.Key, v.Message)
		return 1
	}
	fmt.Println("replay passed")
	return 0
}
