// C01: acknowledged writes survive crashes, elections and reconfiguration.
// E2 exploration of the real cluster (see h/c05) with concurrent client writers and one
// fault per scenario; oracle: every acknowledged write is present on every node that
// becomes leader afterwards and on the final leader after healing.
package main

import (
	"flag"
	"os"
	"time"

	"github.com/oxia-db/oxia/zzverif/vsched"

	"verif/lib/oxc"
	"verif/lib/oxh"
	"verif/lib/sched"
)

func coarse(k vsched.Kind, obj uint64) bool {
	switch k {
	case vsched.KLock, vsched.KRLock, vsched.KAtomic, vsched.KWait, vsched.KCond, vsched.KClose:
		return false
	}
	return true
}

func scenarios(tier string) []sched.Scenario {
	cfg := vsched.Config{MaxSteps: 400000, Filter: coarse, OnPoint: oxc.PointHook, MaxTime: int64(10 * time.Minute)}
	mk := func() []oxc.Oracle { return []oxc.Oracle{&oxc.DurabilityOracle{}} }
	specs := []oxc.ScenarioSpec{
		{Name: "rolling-isolation", Fault: "rolling-isolation", Clients: 0, PerCli: 0, SyncData: true},
		{Name: "failed-become-leader", Fault: "failed-become-leader", Clients: 0, PerCli: 0, SyncData: true},
		{Name: "leader-crash", Fault: "leader-crash", Clients: 2, PerCli: 1, SyncData: true},
		{Name: "spurious-failover", Fault: "spurious-failover", Clients: 2, PerCli: 1, SyncData: true},
		{Name: "lost-newterm-response", Fault: "lost-newterm-response", Clients: 2, PerCli: 1, SyncData: true},
		{Name: "steady-connection-drop", Fault: "none", Clients: 2, PerCli: 2, SyncData: true, Breaks: 1},
		{Name: "spurious-failover-connection-drop", Fault: "spurious-failover-break", Clients: 2, PerCli: 1, SyncData: true, Breaks: 1},
		{Name: "spurious-failover-lossy", Fault: "spurious-failover-lossy", Clients: 2, PerCli: 1, SyncData: true, LossyRPC: 1},
		{Name: "swap-lossy", Fault: "swap-lossy", Clients: 2, PerCli: 1, SyncData: true, LossyRPC: 1},
		{Name: "swap", Fault: "swap", Clients: 2, PerCli: 1, SyncData: true},
		{Name: "swap-unreachable", Fault: "swap-unreachable", Clients: 2, PerCli: 1, SyncData: true},
		{Name: "lost-become-leader-response", Fault: "lost-become-leader-response", Clients: 2, PerCli: 1, SyncData: true},
		{Name: "leader-swap", Fault: "leader-swap", Clients: 2, PerCli: 1, SyncData: true},
		{Name: "swap-holder-leader-unreachable", Fault: "swap-holder", Clients: 0, PerCli: 0, SyncData: true},
		{Name: "leader-crash-restart", Fault: "leader-crash-restart", Clients: 2, PerCli: 1, SyncData: true},
		{Name: "coord-crash", Fault: "coord-crash", Clients: 2, PerCli: 1, SyncData: true},
	}
	// the longest scenario goes last: it inherits the budget the others did not use
	specs = append(specs, oxc.ScenarioSpec{Name: "swap-snapshot-lead", Fault: "swap-snapshot-lead", Clients: 0, PerCli: 0, SyncData: true, RealDisk: true})
	dev := 1
	if tier == "thorough" {
		dev = 2
		specs = append(specs, oxc.ScenarioSpec{Name: "steady-2x2", Fault: "none", Clients: 2, PerCli: 2, SyncData: true},
			oxc.ScenarioSpec{Name: "follower-crash-restart", Fault: "follower-crash-restart", Clients: 2, PerCli: 1, SyncData: true})
	}
	var out []sched.Scenario
	for _, sp := range specs {
		out = append(out, sched.Scenario{Name: sp.Name, Cfg: cfg, MaxDev: dev, Body: oxc.Body(sp, mk)})
	}
	return out
}

func main() {
	replay := flag.String("replay", "", "replay file")
	flag.Parse()
	oxh.Quiet()
	su := sched.Suite{Property: "C01", Scenarios: scenarios,
		Budget: func(tier string) time.Duration {
			if tier == "thorough" {
				return 28 * time.Minute
			}
			return 110 * time.Second
		},
		Rule:   "every schedule with at most max_dev non-default choices at coarse points (RPC delivery, stream/channel operations, selects, timers) of a real 3(+1)-node cluster with 2 concurrent client writers and one fault (leader crash, crash+restart, spurious failover, node swap of a follower / of the leader, coordinator crash mid-election); acknowledged writes are checked on every new leader and on the final leader",
		Assume: []string{"sequentially consistent memory", "in-process transports replace gRPC", "a crashed node keeps its disk: Pebble loses what it had not synced, the WAL keeps what was appended", "coarse granularity; virtual time"}}
	os.Exit(sched.Main(su, *replay))
}
