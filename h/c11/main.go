// C11: the hierarchical ("slash") key order is a strict total order and the storage engine honours it.
//
// Exhaustive input enumeration ("exploration"):
//
//	(1) comparator laws on every pair / triple of a small key universe (CompareWithSlash, the Pebble
//	    comparer's Equal, oxia.ResultHeap.Less, an independent segment-wise statement of the order);
//	(2) end-to-end on the real engine through kv.KV (and kv.DB): every pair / triple of keys stored with one
//	    key per 64 KiB data block, checked after commit, after Flush and after a manual compaction against a
//	    sorted reference (exact get, floor/ceiling/lower/higher, list/range-scan/reverse scan, iterator seeks);
//	    plus large deterministic data sets (whole universe, ~1k long hierarchical keys with a two-level
//	    index, ~5k hierarchical keys with many keys per block, with deletes and overwrites);
//	(3) the contract Pebble demands of a Comparer (Separator, Successor, AbbreviatedKey, ImmediateSuccessor,
//	    Equal, Split) on every pair -- a diagnostic used to name the root cause of a failure of (2).
//
// Only (1) and (2) produce violations.
package main

import (
	"bytes"
	"container/heap"
	"encoding/hex"
	"errors"
	"flag"
	"fmt"
	"os"
	"runtime"
	"runtime/debug"
	"runtime/pprof"
	"sort"
	"strings"
	"sync"
	"sync/atomic"
	"time"

	"github.com/cockroachdb/pebble"

	"github.com/oxia-db/oxia/common/compare"
	time2 "github.com/oxia-db/oxia/common/time"
	"github.com/oxia-db/oxia/oxia"
	"github.com/oxia-db/oxia/proto"
	"github.com/oxia-db/oxia/server/kv"

	"verif/lib/ev"
	"verif/lib/oxh"
)

const harness = "h/c11"

// The alphabet: the separator itself, its two byte neighbours ('.' = '/'-1 and '0' = '/'+1: the engine's
// bytewise Separator/Successor do +1 arithmetic on bytes), '-' (two below), two letters and the extreme bytes.
var alphabetFull = []byte{0x00, '-', '.', '/', '0', 'a', 'b', 0xff}

func buildUniverse(alpha []byte, maxLen int) []string {
	out := []string{""}
	prev := []string{""}
	for l := 1; l <= maxLen; l++ {
		var cur []string
		for _, p := range prev {
			for _, c := range alpha {
				cur = append(cur, p+string([]byte{c}))
			}
		}
		out = append(out, cur...)
		prev = cur
	}
	return out
}

func sign(c int) int {
	switch {
	case c < 0:
		return -1
	case c > 0:
		return 1
	}
	return 0
}

func cmpS(a, b string) int { return sign(compare.CompareWithSlash([]byte(a), []byte(b))) }

// specCmp is an independent statement of the hierarchical order: keys are compared segment by segment
// (segments are separated by '/'); at the first position where one key is at its last segment (a leaf of
// that directory) and the other one continues, the leaf sorts first; two leaves or two equal-depth inner
// segments compare bytewise.
func specCmp(a, b string) int {
	sa, sb := strings.Split(a, "/"), strings.Split(b, "/")
	for i := 0; ; i++ {
		lastA, lastB := i == len(sa)-1, i == len(sb)-1
		switch {
		case lastA && lastB:
			return strings.Compare(sa[i], sb[i])
		case lastA:
			return -1
		case lastB:
			return +1
		}
		if c := strings.Compare(sa[i], sb[i]); c != 0 {
			return c
		}
	}
}

func q(s string) string { return fmt.Sprintf("%q", s) }

func parallelFor(n int, f func(i int)) {
	var wg sync.WaitGroup
	var next atomic.Int64
	for w := 0; w < runtime.GOMAXPROCS(0); w++ {
		wg.Add(1)
		go func() {
			defer wg.Done()
			for {
				i := int(next.Add(1) - 1)
				if i >= n {
					return
				}
				f(i)
			}
		}()
	}
	wg.Wait()
}

// ---------------------------------------------------------------------------------------------
// (1) comparator laws

type lawReporter struct {
	run  *ev.Run
	mu   sync.Mutex
	seen map[string]int
}

func (l *lawReporter) fail(key, msg string, replay any) {
	l.mu.Lock()
	l.seen[key]++
	n := l.seen[key]
	l.mu.Unlock()
	l.run.Add("law_failures", 1)
	if n <= 5 {
		l.run.Violate(ev.Violation{Key: key, Harness: harness, Message: msg, Replay: replay})
	}
}

func checkLaws(run *ev.Run, U []string, deadline time.Time) {
	n := len(U)
	lr := &lawReporter{run: run, seen: map[string]int{}}
	B := make([][]byte, n)
	for i, s := range U {
		B[i] = []byte(s)
	}
	m := make([]int8, n*n)
	rawBad := atomic.Int64{}
	parallelFor(n, func(i int) {
		for j := 0; j < n; j++ {
			c := compare.CompareWithSlash(B[i], B[j])
			m[i*n+j] = int8(sign(c))
			if c < -1 || c > 1 {
				rawBad.Add(1)
			}
		}
	})
	run.Add("law_pairs", int64(n)*int64(n))
	run.Add("evaluations", int64(n)*int64(n))
	for i := 0; i < n; i++ {
		if !bytes.Equal(B[i], []byte(U[i])) {
			lr.fail("cmp-mutates-argument", fmt.Sprintf("CompareWithSlash modified its argument %q", U[i]), nil)
		}
	}
	// pair laws
	eq := kv.OxiaSlashSpanComparer.Equal
	rcs := make([]*oxia.ResultAndChannel, n)
	for i := range U {
		rcs[i] = oxia.VerifC11ResultAndChannel(U[i])
	}
	parallelFor(n, func(i int) {
		h2 := make(oxia.ResultHeap, 2)
		for j := 0; j < n; j++ {
			ij, ji := m[i*n+j], m[j*n+i]
			rp := map[string]any{"kind": "pair", "a_hex": hex.EncodeToString(B[i]), "b_hex": hex.EncodeToString(B[j])}
			if ij != -ji {
				lr.fail("cmp-antisymmetry", fmt.Sprintf("cmp(%q,%q)=%d but cmp(%q,%q)=%d", U[i], U[j], ij, U[j], U[i], ji), rp)
			}
			if (ij == 0) != (i == j) {
				lr.fail("cmp-zero-iff-equal", fmt.Sprintf("cmp(%q,%q)=%d, keys equal=%v", U[i], U[j], ij, i == j), rp)
			}
			if want := int8(specCmp(U[i], U[j])); ij != want {
				lr.fail("cmp-differs-from-segment-order", fmt.Sprintf("cmp(%q,%q)=%d, segment-wise hierarchical order says %d", U[i], U[j], ij, want), rp)
			}
			if e := eq(B[i], B[j]); e != (ij == 0) {
				lr.fail("comparer-equal-inconsistent", fmt.Sprintf("Comparer.Equal(%q,%q)=%v but Compare=%d", U[i], U[j], e, ij), rp)
			}
			h2[0], h2[1] = rcs[i], rcs[j]
			if less := h2.Less(0, 1); less != (ij < 0) {
				lr.fail("result-heap-less-inconsistent", fmt.Sprintf("ResultHeap.Less(%q,%q)=%v but CompareWithSlash=%d", U[i], U[j], less, ij), rp)
			}
		}
	})
	run.Add("law_pair_checks", 5*int64(n)*int64(n))
	// triples
	stopped := atomic.Bool{}
	var triples atomic.Int64
	parallelFor(n, func(i int) {
		if time.Now().After(deadline) {
			stopped.Store(true)
			return
		}
		ri := m[i*n : (i+1)*n]
		for j := 0; j < n; j++ {
			ij := ri[j]
			if ij > 0 {
				continue
			}
			rj := m[j*n : (j+1)*n]
			for k := 0; k < n; k++ {
				jk := rj[k]
				if jk > 0 {
					continue
				}
				ik := ri[k]
				if ik > 0 || ((ij < 0 || jk < 0) && ik == 0) {
					lr.fail("cmp-transitivity", fmt.Sprintf("cmp(%q,%q)=%d, cmp(%q,%q)=%d but cmp(%q,%q)=%d", U[i], U[j], ij, U[j], U[k], jk, U[i], U[k], ik),
						map[string]any{"kind": "triple", "a_hex": hex.EncodeToString(B[i]), "b_hex": hex.EncodeToString(B[j]), "c_hex": hex.EncodeToString(B[k])})
				}
			}
		}
		triples.Add(int64(n) * int64(n))
	})
	run.Add("law_triples", triples.Load())
	run.Add("evaluations", triples.Load())
	if stopped.Load() {
		run.NotExhaustive("deadline reached during the transitivity enumeration")
	}
	if rawBad.Load() > 0 {
		run.Note(fmt.Sprintf("CompareWithSlash returned values outside {-1,0,1} %d times (allowed)", rawBad.Load()))
	}
	// a sort by the comparator yields ranks consistent with every pairwise comparison
	idx := make([]int, n)
	for i := range idx {
		idx[i] = i
	}
	sort.SliceStable(idx, func(x, y int) bool { return m[idx[x]*n+idx[y]] < 0 })
	for p := 0; p < n; p++ {
		for r := p + 1; r < n; r++ {
			if m[idx[p]*n+idx[r]] >= 0 {
				lr.fail("cmp-sort-rank-inconsistent", fmt.Sprintf("after sorting, %q (rank %d) is not below %q (rank %d)", U[idx[p]], p, U[idx[r]], r), nil)
			}
		}
	}
	run.Add("law_rank_checks", int64(n)*int64(n-1)/2)
	// the client-side merge heap pops in comparator order
	if n <= 5000 {
		h := &oxia.ResultHeap{}
		for i := n - 1; i >= 0; i-- {
			heap.Push(h, oxia.VerifC11ResultAndChannel(U[(i*7919)%n]))
		}
		seen := map[int]bool{}
		for i := 0; i < n; i++ {
			seen[(i*7919)%n] = true
		}
		if len(seen) == n {
			for p := 0; p < n; p++ {
				x := heap.Pop(h).(*oxia.ResultAndChannel)
				hh := oxia.ResultHeap{x, rcs[idx[p]]}
				if hh.Less(0, 1) || hh.Less(1, 0) {
					lr.fail("result-heap-pop-order", fmt.Sprintf("heap pop #%d is not %q", p, U[idx[p]]), nil)
					break
				}
			}
			run.Add("heap_pops", int64(n))
		}
	}
}

// ---------------------------------------------------------------------------------------------
// (3) comparer contract (diagnostic)

// effSeparator is what the sstable writer really stores as index separator: pebble keeps the comparer's
// answer only when it is not longer than a and sorts after a (base.InternalKey.Separator), else it keeps a.
func effSeparator(a, b string) string {
	c := kv.OxiaSlashSpanComparer
	s := c.Separator(nil, []byte(a), []byte(b))
	if len(s) <= len(a) && c.Compare([]byte(a), s) < 0 {
		return string(s)
	}
	return a
}

// sepOvershoots: the stored index separator of the block ending in a is not below the next block's first key b.
func sepOvershoots(a, b string) bool { return cmpS(effSeparator(a, b), b) >= 0 }

type contractDiag struct {
	sepRaw, sepEff, succRaw, abbrev, immSucc, equal, split int64
}

func checkContract(run *ev.Run, U []string) contractDiag {
	c := kv.OxiaSlashSpanComparer
	n := len(U)
	var d contractDiag
	var mu sync.Mutex
	samples := map[string][]string{}
	note := func(kind, s string, ctr *int64) {
		mu.Lock()
		*ctr++
		if len(samples[kind]) < 6 {
			samples[kind] = append(samples[kind], s)
		}
		mu.Unlock()
	}
	sorted := append([]string(nil), U...)
	sort.SliceStable(sorted, func(i, j int) bool { return cmpS(sorted[i], sorted[j]) < 0 })
	parallelFor(n, func(i int) {
		a := U[i]
		ab := []byte(a)
		if s := c.Successor(nil, ab); c.Compare(s, ab) < 0 {
			note("successor_raw", fmt.Sprintf("Successor(%q)=%q sorts before its argument", a, s), &d.succRaw)
		}
		if c.Split != nil && c.Split(ab) != len(ab) {
			note("split", fmt.Sprintf("Split(%q)=%d", a, c.Split(ab)), &d.split)
		}
		if c.ImmediateSuccessor != nil {
			is := c.ImmediateSuccessor(nil, ab)
			if c.Compare(ab, is) >= 0 {
				note("immediate_successor", fmt.Sprintf("ImmediateSuccessor(%q)=%q is not above its argument", a, is), &d.immSucc)
			} else {
				// nothing of the universe lies strictly between
				p := sort.Search(n, func(k int) bool { return cmpS(sorted[k], a) > 0 })
				if p < n && c.Compare([]byte(sorted[p]), is) < 0 {
					note("immediate_successor", fmt.Sprintf("ImmediateSuccessor(%q)=%q but %q lies strictly between", a, is, sorted[p]), &d.immSucc)
				}
			}
		}
		abA := c.AbbreviatedKey(ab)
		for j := 0; j < n; j++ {
			b := U[j]
			bb := []byte(b)
			cv := c.Compare(ab, bb)
			if abA < c.AbbreviatedKey(bb) && cv >= 0 {
				note("abbreviated_key", fmt.Sprintf("AbbreviatedKey(%q)=%#x < AbbreviatedKey(%q)=%#x but Compare=%d", a, abA, b, c.AbbreviatedKey(bb), cv), &d.abbrev)
			}
			if c.Equal(ab, bb) != (cv == 0) {
				note("equal", fmt.Sprintf("Equal(%q,%q)=%v Compare=%d", a, b, c.Equal(ab, bb), cv), &d.equal)
			}
			if cv < 0 {
				s := c.Separator(nil, ab, bb)
				if !(c.Compare(ab, s) <= 0 && c.Compare(s, bb) < 0) {
					note("separator_raw", fmt.Sprintf("Separator(%q,%q)=%q is outside [a,b)", a, b, s), &d.sepRaw)
				}
				if sepOvershoots(a, b) {
					note("separator_effective", fmt.Sprintf("index separator kept by the sstable writer for blocks (..%q)(%q..) is %q which does not sort below %q", a, b, effSeparator(a, b), b), &d.sepEff)
				}
			}
		}
	})
	run.Add("contract_pairs", int64(n)*int64(n))
	run.Add("contract_violations", d.sepRaw+d.sepEff+d.succRaw+d.abbrev+d.immSucc+d.equal+d.split)
	run.Add("contract_separator_raw_violations", d.sepRaw)
	run.Add("contract_separator_effective_violations", d.sepEff)
	run.Add("contract_successor_raw_violations", d.succRaw)
	run.Add("contract_abbreviated_key_violations", d.abbrev)
	run.Add("contract_immediate_successor_violations", d.immSucc)
	run.Add("contract_equal_violations", d.equal)
	for _, k := range []string{"separator_raw", "separator_effective", "successor_raw", "abbreviated_key", "immediate_successor", "equal", "split"} {
		if len(samples[k]) > 0 {
			sort.Strings(samples[k])
			run.Coverage["contract_samples_"+k] = samples[k]
		}
	}
	return d
}

// ---------------------------------------------------------------------------------------------
// (2) end-to-end on the engine

var filler = func() []byte {
	b := make([]byte, 1<<17)
	x := uint64(0x9E3779B97F4A7C15)
	for i := 0; i+8 <= len(b); i += 8 {
		x ^= x << 13
		x ^= x >> 7
		x ^= x << 17
		for k := 0; k < 8; k++ {
			b[i+k] = byte(x >> (8 * k))
		}
	}
	return b
}()

func valueHeader(key string, gen int) string {
	return "k=" + hex.EncodeToString([]byte(key)) + ";g=" + fmt.Sprint(gen) + ";"
}

func makeValue(key string, gen, size int) []byte {
	h := valueHeader(key, gen)
	if size < len(h) {
		size = len(h)
	}
	v := make([]byte, 0, size)
	v = append(v, h...)
	v = append(v, filler[:size-len(h)]...)
	return v
}

type liveVal struct{ gen, size int }

func checkValue(key string, lv liveVal, v []byte) string {
	h := valueHeader(key, lv.gen)
	size := lv.size
	if size < len(h) {
		size = len(h)
	}
	if len(v) != size {
		return fmt.Sprintf("value of %q has length %d, stored %d", key, len(v), size)
	}
	if string(v[:len(h)]) != h || !bytes.Equal(v[len(h):], filler[:size-len(h)]) {
		n := len(v)
		if n > 40 {
			n = 40
		}
		return fmt.Sprintf("value of %q has wrong content (starts %q, want header %q)", key, v[:n], h)
	}
	return ""
}

type dsSpec struct {
	Name           string   // class name, e.g. "pair", "triple", "universe", "hier1k"
	Keys           []string // stored keys (distinct, non-empty)
	ValSize        func(i int) int
	Probes         []string // probes for get/floor/ceiling/lower/higher/seek
	Ranges         []string // end points for scans (all ordered pairs are scanned)
	ViaDB          bool     // write and read through kv.DB instead of kv.KV
	Mutate         bool     // second phase: delete a third, overwrite a third, flush, compact
	OneKeyPerBlock bool
	Replay         map[string]any
}

type mismatch struct {
	Stage, Op string
	Args      []string
	Got, Want string
	seq       int
}

func (m mismatch) less(o mismatch) bool {
	if m.seq != o.seq {
		return m.seq < o.seq
	}
	if m.Op != o.Op {
		return m.Op < o.Op
	}
	return strings.Join(m.Args, "\x01") < strings.Join(o.Args, "\x01")
}

func (m mismatch) String() string {
	var a []string
	for _, x := range m.Args {
		a = append(a, q(x))
	}
	return fmt.Sprintf("stage=%s %s(%s) = %s, sorted reference says %s", m.Stage, m.Op, strings.Join(a, ","), m.Got, m.Want)
}

func opGroup(op string) string {
	switch op {
	case "Get(Equal)":
		return "get-equal"
	case "Get(Floor)", "Get(Ceiling)", "Get(Lower)", "Get(Higher)":
		return "get-nearest"
	case "SeekGE", "SeekLT", "SeekGE+Next", "SeekLT+Prev":
		return "iterator-seek"
	case "List", "RangeScan", "ReverseScan", "KeyIterator":
		return "scan"
	case "Batch.Get", "Batch.FindLower", "Batch.KeyRangeScan":
		return "batch-read"
	}
	return "write-path"
}

type dsResult struct {
	spec       *dsSpec
	nMism      int64
	byKey      map[string]int64
	firstByKey map[string]mismatch
	seconds    float64
	evals      int64
	tablesDesc string
	dataBlocks int64
	tables     int64
	twoLevel   int64
	moved      int64
	compacted  int64
	blockOK    bool
	infra      string
	all        []string // replay -all: every mismatch
	cut        string   // non-empty: the hard deadline stopped this data set
}

type api interface {
	// get returns the found key ("" + false when not found) and a description of a value problem, if any
	get(key string, ct kv.ComparisonType, verify func(rk string, v []byte) string) (string, bool, string, error)
	scan(kind string, lo, hi string, limit int, verify func(rk string, v []byte) string) ([]string, string, error)
	keyIterator() (kv.KeyIterator, error)
	// put writes one batch; inBatch (KV level only) is called with the filled batch before it is committed
	put(keys []string, vals [][]byte, inBatch func(b kv.WriteBatch)) error
	del(keys []string) error
	kv() kv.KV
	close() error
}

type kvAPI struct{ k kv.KV }

func (a kvAPI) kv() kv.KV    { return a.k }
func (a kvAPI) close() error { return a.k.Close() }
func (a kvAPI) get(key string, ct kv.ComparisonType, verify func(string, []byte) string) (string, bool, string, error) {
	rk, v, closer, err := a.k.Get(key, ct)
	if errors.Is(err, kv.ErrKeyNotFound) {
		return "", false, "", nil
	}
	if err != nil {
		return "", false, "", err
	}
	p := verify(rk, v)
	if closer != nil {
		_ = closer.Close()
	}
	return rk, true, p, nil
}

func (a kvAPI) scan(kind, lo, hi string, limit int, verify func(string, []byte) string) ([]string, string, error) {
	var out []string
	prob := ""
	switch kind {
	case "List":
		it, err := a.k.KeyRangeScan(lo, hi)
		if err != nil {
			return nil, "", err
		}
		for ; it.Valid() && len(out) < limit; it.Next() {
			out = append(out, it.Key())
		}
		return out, "", it.Close()
	case "RangeScan":
		it, err := a.k.RangeScan(lo, hi)
		if err != nil {
			return nil, "", err
		}
		for ; it.Valid() && len(out) < limit; it.Next() {
			k := it.Key()
			out = append(out, k)
			v, err := it.Value()
			if err != nil {
				_ = it.Close()
				return out, "", err
			}
			if p := verify(k, v); p != "" && prob == "" {
				prob = p
			}
		}
		return out, prob, it.Close()
	case "ReverseScan":
		it, err := a.k.KeyRangeScanReverse(lo, hi)
		if err != nil {
			return nil, "", err
		}
		for ; it.Valid() && len(out) < limit; it.Prev() {
			out = append(out, it.Key())
		}
		return out, "", it.Close()
	}
	panic(kind)
}
func (a kvAPI) keyIterator() (kv.KeyIterator, error) { return a.k.KeyIterator() }
func (a kvAPI) put(keys []string, vals [][]byte, inBatch func(b kv.WriteBatch)) error {
	b := a.k.NewWriteBatch()
	for i, k := range keys {
		if err := b.Put(k, vals[i]); err != nil {
			_ = b.Close()
			return err
		}
	}
	if inBatch != nil {
		inBatch(b)
	}
	if err := b.Commit(); err != nil {
		_ = b.Close()
		return err
	}
	return b.Close()
}
func (a kvAPI) del(keys []string) error {
	b := a.k.NewWriteBatch()
	for _, k := range keys {
		if err := b.Delete(k); err != nil {
			_ = b.Close()
			return err
		}
	}
	if err := b.Commit(); err != nil {
		_ = b.Close()
		return err
	}
	return b.Close()
}

type dbAPI struct {
	d   kv.DB
	off int64
}

func (a *dbAPI) kv() kv.KV    { return kv.VerifKV(a.d) }
func (a *dbAPI) close() error { return a.d.Close() }
func (a *dbAPI) get(key string, ct kv.ComparisonType, verify func(string, []byte) string) (string, bool, string, error) {
	res, err := a.d.Get(&proto.GetRequest{Key: key, IncludeValue: true, ComparisonType: proto.KeyComparisonType(ct)})
	if err != nil {
		return "", false, "", err
	}
	if res.Status == proto.Status_KEY_NOT_FOUND {
		return "", false, "", nil
	}
	if res.Status != proto.Status_OK {
		return "", false, "", fmt.Errorf("status %v", res.Status)
	}
	rk := key
	if ct != kv.ComparisonEqual {
		if res.Key == nil {
			return "", false, "", fmt.Errorf("no key in non-equal get response")
		}
		rk = *res.Key
	}
	return rk, true, verify(rk, res.Value), nil
}
func (a *dbAPI) scan(kind, lo, hi string, limit int, verify func(string, []byte) string) ([]string, string, error) {
	var out []string
	prob := ""
	switch kind {
	case "List":
		it, err := a.d.List(&proto.ListRequest{StartInclusive: lo, EndExclusive: hi})
		if err != nil {
			return nil, "", err
		}
		for ; it.Valid() && len(out) < limit; it.Next() {
			out = append(out, it.Key())
		}
		return out, "", it.Close()
	case "RangeScan":
		it, err := a.d.RangeScan(&proto.RangeScanRequest{StartInclusive: lo, EndExclusive: hi})
		if err != nil {
			return nil, "", err
		}
		for ; it.Valid() && len(out) < limit; it.Next() {
			r, err := it.Value()
			if err != nil {
				_ = it.Close()
				return out, "", err
			}
			out = append(out, r.GetKey())
			if p := verify(r.GetKey(), r.Value); p != "" && prob == "" {
				prob = p
			}
		}
		return out, prob, it.Close()
	case "ReverseScan":
		it, err := kv.VerifKV(a.d).KeyRangeScanReverse(lo, hi) // no DB-level reverse scan: same KV underneath
		if err != nil {
			return nil, "", err
		}
		for ; it.Valid() && len(out) < limit; it.Prev() {
			out = append(out, it.Key())
		}
		return out, "", it.Close()
	}
	panic(kind)
}
func (a *dbAPI) keyIterator() (kv.KeyIterator, error) { return a.d.KeyIterator() }
func (a *dbAPI) put(keys []string, vals [][]byte, _ func(b kv.WriteBatch)) error {
	req := &proto.WriteRequest{}
	for i, k := range keys {
		req.Puts = append(req.Puts, &proto.PutRequest{Key: k, Value: vals[i]})
	}
	a.off++
	res, err := a.d.ProcessWrite(req, a.off, uint64(1000+a.off), kv.NoOpCallback)
	if err != nil {
		return err
	}
	for i, p := range res.Puts {
		if p.Status != proto.Status_OK {
			return fmt.Errorf("put %q status %v", keys[i], p.Status)
		}
	}
	return nil
}
func (a *dbAPI) del(keys []string) error {
	req := &proto.WriteRequest{}
	for _, k := range keys {
		req.Deletes = append(req.Deletes, &proto.DeleteRequest{Key: k})
	}
	a.off++
	res, err := a.d.ProcessWrite(req, a.off, uint64(1000+a.off), kv.NoOpCallback)
	if err != nil {
		return err
	}
	for i, p := range res.Deletes {
		if p.Status != proto.Status_OK {
			// a delete that does not find a committed key is itself an exact-get failure
			return fmt.Errorf("delete of stored key %q answered %v", keys[i], p.Status)
		}
	}
	return nil
}

var internalKeys = []string{"__oxia/commit-offset", "__oxia/last-version-id"}

type worker struct {
	id  int
	f   kv.Factory
	seq int64
}

func newWorker(id int) *worker {
	f, err := kv.NewPebbleKVFactory(&kv.FactoryOptions{DataDir: fmt.Sprintf("/verif-c11-mem/w%d", id), CacheSizeMB: 64, InMemory: true})
	if err != nil {
		panic(err)
	}
	return &worker{id: id, f: f}
}

type checker struct {
	spec     *dsSpec
	a        api
	res      *dsResult
	live     map[string]liveVal
	ref      []string // sorted live keys (+ internal keys for DB)
	stage    string
	stageSeq int
	mu       sync.Mutex
	cause    string // root cause the comparer-contract diagnostic suggests for this data set
}

func (c *checker) add(op string, args []string, got, want string) {
	c.mu.Lock()
	defer c.mu.Unlock()
	c.res.nMism++
	cause := c.cause
	if c.stage == "in-batch" && cause == causeSeparator {
		cause = diagnose(nil, theDiag) // no sstable yet: index separators cannot be involved
	}
	if (op == "Get(Floor)" || op == "Get(Lower)") && len(args) == 1 && args[0] == "" {
		// kv_pebble.getLower passes []byte("") as UpperBound, which Pebble reads as "no bound"
		cause = "empty-probe-key-read-as-unbounded"
	}
	key := opGroup(op) + ":" + cause
	c.res.byKey[key]++
	m := mismatch{Stage: c.stage, Op: op, Args: args, Got: got, Want: want, seq: c.stageSeq}
	// keep the lowest (stage, op, arguments) per class: independent of goroutine interleaving
	if old, ok := c.res.firstByKey[key]; !ok || m.less(old) {
		c.res.firstByKey[key] = m
	}
	if keepAll && len(c.res.all) < 5000 {
		c.res.all = append(c.res.all, key+" "+m.String())
	}
}

func (c *checker) verify(rk string, v []byte) string {
	lv, ok := c.live[rk]
	if !ok {
		return "" // not a live user key: reported through the key comparison (or an internal key)
	}
	return checkValue(rk, lv, v)
}

func (c *checker) rebuildRef() {
	c.ref = c.ref[:0]
	for k := range c.live {
		c.ref = append(c.ref, k)
	}
	if c.spec.ViaDB {
		c.ref = append(c.ref, internalKeys...)
	}
	sort.Slice(c.ref, func(i, j int) bool { return cmpS(c.ref[i], c.ref[j]) < 0 })
}

func (c *checker) ceilIdx(p string) int {
	return sort.Search(len(c.ref), func(i int) bool { return cmpS(c.ref[i], p) >= 0 })
}
func (c *checker) highIdx(p string) int {
	return sort.Search(len(c.ref), func(i int) bool { return cmpS(c.ref[i], p) > 0 })
}
func (c *checker) at(i int) string {
	if i < 0 || i >= len(c.ref) {
		return "not-found"
	}
	return q(c.ref[i])
}

func render(rk string, found bool, prob string, err error) string {
	switch {
	case err != nil:
		return "error " + err.Error()
	case !found:
		return "not-found"
	case prob != "":
		return q(rk) + " with bad value: " + prob
	}
	return q(rk)
}

func renderList(l []string) string {
	if len(l) > 12 {
		var h []string
		for _, x := range l[:6] {
			h = append(h, q(x))
		}
		var t []string
		for _, x := range l[len(l)-3:] {
			t = append(t, q(x))
		}
		return fmt.Sprintf("[%s ... %s] (%d keys)", strings.Join(h, " "), strings.Join(t, " "), len(l))
	}
	var h []string
	for _, x := range l {
		h = append(h, q(x))
	}
	return "[" + strings.Join(h, " ") + "]"
}

func sameList(a, b []string) bool {
	if len(a) != len(b) {
		return false
	}
	for i := range a {
		if a[i] != b[i] {
			return false
		}
	}
	return true
}

var nearest = []struct {
	name string
	ct   kv.ComparisonType
}{{"Get(Floor)", kv.ComparisonFloor}, {"Get(Ceiling)", kv.ComparisonCeiling}, {"Get(Lower)", kv.ComparisonLower}, {"Get(Higher)", kv.ComparisonHigher}}

// checkBatch compares the reads an uncommitted indexed batch offers (exact get, FindLower, key range scan)
// with the reference of the keys put into it. Pebble indexes a batch with a skiplist ordered by
// Compare + AbbreviatedKey.
func (c *checker) checkBatch(b kv.WriteBatch) {
	c.rebuildRef()
	c.stage = "in-batch"
	c.stageSeq++
	for i, k := range c.ref {
		v, closer, err := b.Get(k)
		c.res.evals++
		prob := ""
		if err == nil {
			prob = c.verify(k, v)
			_ = closer.Close()
		}
		if !c.okAt(i, k, err == nil, prob, nilIfNotFound(err)) {
			c.add("Batch.Get", []string{k}, render(k, err == nil, prob, nilIfNotFound(err)), q(k))
		}
	}
	for _, p := range c.spec.Probes {
		ci, hi := c.ceilIdx(p), c.highIdx(p)
		if ci == hi {
			_, closer, err := b.Get(p)
			c.res.evals++
			if err == nil {
				_ = closer.Close()
			}
			if !c.okAt(-1, p, err == nil, "", nilIfNotFound(err)) {
				c.add("Batch.Get", []string{p}, render(p, err == nil, "", nilIfNotFound(err)), "not-found")
			}
		}
		if p != "" { // an empty upper bound means "unbounded" to Pebble; FindLower is only called with real keys
			lk, err := b.FindLower(p)
			c.res.evals++
			if !c.okAt(ci-1, lk, err == nil, "", nilIfNotFound(err)) {
				c.add("Batch.FindLower", []string{p}, render(lk, err == nil, "", nilIfNotFound(err)), c.at(ci-1))
			}
		}
	}
	limit := len(c.ref) + 8
	for _, lo := range c.spec.Ranges {
		for _, hi := range c.spec.Ranges {
			if hi == "" {
				// WriteBatch.KeyRangeScan has no "unbounded" convention (its callers always pass two real keys)
				continue
			}
			want := c.rangeWant(lo, hi)
			it, err := b.KeyRangeScan(lo, hi)
			c.res.evals++
			if err != nil {
				c.add("Batch.KeyRangeScan", []string{lo, hi}, "error "+err.Error(), renderList(want))
				continue
			}
			var got []string
			for ; it.Valid() && len(got) < limit; it.Next() {
				got = append(got, it.Key())
			}
			_ = it.Close()
			if !sameList(got, want) {
				c.add("Batch.KeyRangeScan", []string{lo, hi}, renderList(got), renderList(want))
			}
		}
	}
}

func nilIfNotFound(err error) error {
	if errors.Is(err, kv.ErrKeyNotFound) {
		return nil
	}
	return err
}

func (c *checker) rangeWant(lo, hi string) []string {
	from, to := 0, len(c.ref)
	if lo != "" {
		from = c.ceilIdx(lo)
	}
	if hi != "" {
		to = c.ceilIdx(hi)
	}
	if from < to {
		return c.ref[from:to]
	}
	return nil
}

// okAt: the answer (rk, found) is exactly the reference key at index i (or not-found when i is out of range)
func (c *checker) okAt(i int, rk string, found bool, prob string, err error) bool {
	if err != nil || prob != "" {
		return false
	}
	if i < 0 || i >= len(c.ref) {
		return !found
	}
	return found && rk == c.ref[i]
}

func (c *checker) checkProbes(probes []string) {
	a := c.a
	var evals int64
	defer func() {
		c.mu.Lock()
		c.res.evals += evals
		c.mu.Unlock()
	}()
	var it kv.KeyIterator
	if ki, err := a.keyIterator(); err != nil {
		c.add("KeyIterator", nil, "error "+err.Error(), "iterator")
	} else {
		it = ki
	}
	for pi, p := range probes {
		if pi%512 == 511 && time.Now().After(hardDeadline) {
			c.mu.Lock()
			c.res.cut = "during stage " + c.stage
			c.mu.Unlock()
			break
		}
		ci, hi := c.ceilIdx(p), c.highIdx(p)
		if ci == hi { // p is not live: exact get must not find anything
			rk, found, prob, err := a.get(p, kv.ComparisonEqual, c.verify)
			evals++
			if !c.okAt(-1, rk, found, prob, err) {
				c.add("Get(Equal)", []string{p}, render(rk, found, prob, err), "not-found")
			}
		}
		wants := [4]int{hi - 1, ci, ci - 1, hi}
		for i, nq := range nearest {
			rk, found, prob, err := a.get(p, nq.ct, c.verify)
			evals++
			if !c.okAt(wants[i], rk, found, prob, err) {
				c.add(nq.name, []string{p}, render(rk, found, prob, err), c.at(wants[i]))
			}
		}
		if it != nil {
			okCur := func(ok bool, i int) bool {
				valid := ok && it.Valid()
				if i < 0 || i >= len(c.ref) {
					return !valid
				}
				return valid && it.Key() == c.ref[i]
			}
			cur := func() string {
				if !it.Valid() {
					return "not-found"
				}
				return q(it.Key())
			}
			if !okCur(it.SeekGE(p), ci) {
				c.add("SeekGE", []string{p}, cur(), c.at(ci))
			} else if ci < len(c.ref) {
				if !okCur(it.Next(), ci+1) {
					c.add("SeekGE+Next", []string{p}, cur(), c.at(ci+1))
				}
			}
			if !okCur(it.SeekLT(p), ci-1) {
				c.add("SeekLT", []string{p}, cur(), c.at(ci-1))
			} else if ci-1 >= 0 {
				if !okCur(it.Prev(), ci-2) {
					c.add("SeekLT+Prev", []string{p}, cur(), c.at(ci-2))
				}
			}
			evals += 4
		}
	}
	if it != nil {
		_ = it.Close()
	}
}

func (c *checker) check(stage string) {
	if c.res.cut != "" || time.Now().After(hardDeadline) {
		if c.res.cut == "" {
			c.res.cut = "before stage " + stage
		}
		return
	}
	c.stage = stage
	c.stageSeq++
	a := c.a
	// every live key is found by an exact get
	for i, k := range c.ref {
		rk, found, prob, err := a.get(k, kv.ComparisonEqual, c.verify)
		c.res.evals++
		if !c.okAt(i, rk, found, prob, err) {
			c.add("Get(Equal)", []string{k}, render(rk, found, prob, err), q(k))
		}
	}
	// probes: big data sets split them over a few goroutines (engine reads are concurrency-safe)
	if n := len(c.spec.Probes); n > 1000 {
		const par = 8
		var wg sync.WaitGroup
		for g := 0; g < par; g++ {
			wg.Add(1)
			go func(part []string) {
				defer wg.Done()
				c.checkProbes(part)
			}(c.spec.Probes[g*n/par : (g+1)*n/par])
		}
		wg.Wait()
	} else {
		c.checkProbes(c.spec.Probes)
	}
	limit := len(c.ref) + 8
	for _, lo := range c.spec.Ranges {
		for _, hi := range c.spec.Ranges {
			want := c.rangeWant(lo, hi)
			for _, kind := range []string{"List", "RangeScan"} {
				got, prob, err := a.scan(kind, lo, hi, limit, c.verify)
				c.res.evals++
				switch {
				case err != nil:
					c.add(kind, []string{lo, hi}, "error "+err.Error(), renderList(want))
				case !sameList(got, want):
					c.add(kind, []string{lo, hi}, renderList(got), renderList(want))
				case prob != "":
					c.add(kind, []string{lo, hi}, "bad value: "+prob, "stored values")
				}
			}
			rw := make([]string, len(want))
			for i := range want {
				rw[len(want)-1-i] = want[i]
			}
			got, _, err := a.scan("ReverseScan", lo, hi, limit, c.verify)
			c.res.evals++
			if err != nil {
				c.add("ReverseScan", []string{lo, hi}, "error "+err.Error(), renderList(rw))
			} else if !sameList(got, rw) {
				c.add("ReverseScan", []string{lo, hi}, renderList(got), renderList(rw))
			}
		}
	}
}

func (c *checker) tableInfo() {
	pdb := kv.VerifPebble(c.a.kv())
	lv, err := pdb.SSTables(pebble.WithProperties())
	if err != nil {
		c.res.infra = "SSTables: " + err.Error()
		return
	}
	var desc []string
	var blocks, tables, two, entries int64
	for l, ts := range lv {
		for _, t := range ts {
			tables++
			if t.Properties != nil {
				blocks += int64(t.Properties.NumDataBlocks)
				entries += int64(t.Properties.NumEntries)
				if t.Properties.IndexType == 2 || t.Properties.IndexPartitions > 0 {
					two++
				}
				desc = append(desc, fmt.Sprintf("L%d:entries=%d,blocks=%d,indexParts=%d", l, t.Properties.NumEntries, t.Properties.NumDataBlocks, t.Properties.IndexPartitions))
			}
		}
	}
	c.res.tables, c.res.dataBlocks, c.res.twoLevel = tables, blocks, two
	if len(desc) > 6 {
		desc = append(desc[:6], fmt.Sprintf("... %d tables", len(desc)))
	}
	c.res.tablesDesc = strings.Join(desc, " ")
	c.res.blockOK = tables == 1 && blocks == entries
}

func (c *checker) engineErr(what string, err error) {
	c.stage = what
	c.stageSeq++
	c.add("engine:"+what, nil, "error "+err.Error(), "success")
}

func compactAll(k kv.KV, ref []string) error {
	if len(ref) == 0 {
		return nil
	}
	end := ref[len(ref)-1] + "/\xff"
	return kv.VerifPebble(k).Compact([]byte(ref[0]), []byte(end), false)
}

func runDataset(w *worker, spec *dsSpec) *dsResult {
	res := &dsResult{spec: spec, byKey: map[string]int64{}, firstByKey: map[string]mismatch{}}
	t0 := time.Now()
	defer func() { res.seconds = time.Since(t0).Seconds() }()
	w.seq++
	var a api
	if spec.ViaDB {
		d, err := kv.NewDB("c11", w.seq, w.f, time.Hour, &time2.MockedClock{})
		if err != nil {
			res.infra = "NewDB: " + err.Error()
			return res
		}
		d.EnableNotifications(false)
		a = &dbAPI{d: d}
	} else {
		k, err := w.f.NewKV("c11", w.seq)
		if err != nil {
			res.infra = "NewKV: " + err.Error()
			return res
		}
		a = kvAPI{k}
	}
	defer func() {
		if err := a.close(); err != nil && res.infra == "" {
			res.infra = "close: " + err.Error()
		}
	}()
	c := &checker{spec: spec, a: a, res: res, live: map[string]liveVal{}, cause: diagnose(spec.Keys, theDiag)}
	tp := func(what string) {
		if timing {
			fmt.Fprintf(os.Stderr, "w%d %s %s %.1fms\n", w.id, spec.Name, what, time.Since(t0).Seconds()*1000)
		}
	}
	tp("opened")
	defer tp("done")
	write := func(idx []int, gen int, sizeOf func(i int) int) bool {
		const maxBatch = 4 << 20
		var ks []string
		var vs [][]byte
		sz := 0
		flush := func() bool {
			if len(ks) == 0 {
				return true
			}
			var hook func(b kv.WriteBatch)
			if gen == 0 && spec.OneKeyPerBlock && len(ks) == len(spec.Keys) {
				hook = c.checkBatch // the whole data set is in this one (indexed) batch and the DB is empty
			}
			if err := a.put(ks, vs, hook); err != nil {
				c.engineErr("put", err)
				return false
			}
			ks, vs, sz = nil, nil, 0
			return true
		}
		for _, i := range idx {
			k := spec.Keys[i]
			s := sizeOf(i)
			v := makeValue(k, gen, s)
			c.live[k] = liveVal{gen, s}
			ks, vs = append(ks, k), append(vs, v)
			sz += len(v)
			if sz >= maxBatch {
				if !flush() {
					return false
				}
			}
		}
		return flush()
	}
	all := make([]int, len(spec.Keys))
	for i := range all {
		all[i] = i
	}
	if !write(all, 0, spec.ValSize) {
		return res
	}
	c.rebuildRef()
	tp("written")
	c.check("committed")
	if res.cut != "" {
		return res
	}
	tp("checked")
	if err := a.kv().Flush(); err != nil {
		c.engineErr("flush", err)
		return res
	}
	tp("flushed")
	c.tableInfo()
	c.check("flushed")
	if res.cut != "" {
		return res
	}
	tp("checked")
	pdb := kv.VerifPebble(a.kv())
	if err := compactAll(a.kv(), c.ref); err != nil {
		c.engineErr("compact", err)
		return res
	}
	tp("compacted")
	c.check("compacted")
	if res.cut != "" {
		return res
	}
	tp("checked")
	if spec.Mutate {
		var dels []string
		var over []int
		for i, k := range spec.Keys {
			switch i % 3 {
			case 0:
				dels = append(dels, k)
				delete(c.live, k)
			case 1:
				over = append(over, i)
			}
		}
		for len(dels) > 0 {
			n := len(dels)
			if n > 500 {
				n = 500
			}
			if err := a.del(dels[:n]); err != nil {
				c.engineErr("delete", err)
				return res
			}
			dels = dels[n:]
		}
		if !write(over, 1, func(i int) int { return spec.ValSize(i)/2 + 17 }) {
			return res
		}
		c.rebuildRef()
		c.check("mutated")
		if res.cut != "" {
			return res
		}
		if err := a.kv().Flush(); err != nil {
			c.engineErr("flush", err)
			return res
		}
		c.check("mutated+flushed")
		if res.cut != "" {
			return res
		}
		if err := compactAll(a.kv(), c.ref); err != nil {
			c.engineErr("compact", err)
			return res
		}
		c.check("mutated+compacted")
		if res.cut != "" {
			return res
		}
	}
	mt := pdb.Metrics()
	res.moved, res.compacted = mt.Compact.MoveCount, mt.Compact.Count
	return res
}

const causeSeparator = "index-separator-not-below-next-key"

var theDiag contractDiag
var hardDeadline time.Time
var keepAll bool

var timing = os.Getenv("VERIF_C11_TIMING") != ""

// diagnose names the root cause of an engine mismatch from the comparer-contract diagnostic.
func diagnose(keys []string, cd contractDiag) string {
	s := append([]string(nil), keys...)
	sort.Slice(s, func(i, j int) bool { return cmpS(s[i], s[j]) < 0 })
	for i := 0; i+1 < len(s); i++ {
		if sepOvershoots(s[i], s[i+1]) {
			return causeSeparator
		}
	}
	switch {
	case cd.abbrev > 0:
		return "abbreviated-key-not-monotone"
	case cd.equal > 0:
		return "comparer-equal-inconsistent"
	}
	return "undiagnosed"
}

func hexKeys(keys []string) []string {
	out := make([]string, len(keys))
	for i, k := range keys {
		out[i] = hex.EncodeToString([]byte(k))
	}
	return out
}

// ---------------------------------------------------------------------------------------------
// data sets

func constSize(n int) func(int) int { return func(int) int { return n } }

const blockValue = 60000 // > 90% of the 64 KiB block size: the writer closes the block after every entry

func dedupe(l []string) []string {
	seen := map[string]bool{}
	var out []string
	for _, x := range l {
		if !seen[x] {
			seen[x] = true
			out = append(out, x)
		}
	}
	return out
}

func rawSep(a, b string) string {
	return string(kv.OxiaSlashSpanComparer.Separator(nil, []byte(a), []byte(b)))
}
func rawSucc(a string) string { return string(kv.OxiaSlashSpanComparer.Successor(nil, []byte(a))) }

// small data set: keys one per block. Cut points = the keys, the separators / successors the comparer
// produces for adjacent keys (raw and as kept by the sstable writer).
// full mode: probes = the whole probe universe; scan end points = "", the cut points and all keys of length <= 1.
// reduced mode: probes = "", the cut points, the two neighbours of every cut point in the sorted universe and
// the universe's extremes (one representative on each side of everything an engine comparison can involve);
// scan end points = "" and the cut points.
func smallSpec(name string, keys []string, full bool, probeU *sortedU, baseRanges []string) *dsSpec {
	s := append([]string(nil), keys...)
	sort.Slice(s, func(i, j int) bool { return cmpS(s[i], s[j]) < 0 })
	cuts := append([]string(nil), s...)
	for i := 0; i+1 < len(s); i++ {
		cuts = append(cuts, rawSep(s[i], s[i+1]), effSeparator(s[i], s[i+1]))
	}
	for _, k := range s {
		cuts = append(cuts, rawSucc(k))
	}
	r := append([]string{""}, cuts...)
	var probes []string
	if full {
		probes = probeU.keys
		r = append(r, baseRanges...)
	} else {
		probes = append([]string{"", probeU.sorted[0], probeU.sorted[len(probeU.sorted)-1]}, cuts...)
		for _, c := range cuts {
			lo := sort.Search(len(probeU.sorted), func(i int) bool { return cmpS(probeU.sorted[i], c) >= 0 })
			hi := sort.Search(len(probeU.sorted), func(i int) bool { return cmpS(probeU.sorted[i], c) > 0 })
			if lo > 0 {
				probes = append(probes, probeU.sorted[lo-1])
			}
			if hi < len(probeU.sorted) {
				probes = append(probes, probeU.sorted[hi])
			}
		}
		probes = dedupe(probes)
	}
	mode := "reduced"
	if full {
		mode = "full"
	}
	return &dsSpec{Name: name, Keys: keys, ValSize: constSize(blockValue), Probes: probes, Ranges: dedupe(r), OneKeyPerBlock: true,
		Replay: map[string]any{"kind": "dataset", "name": name, "keys_hex": hexKeys(keys), "value_size": blockValue, "probes": mode}}
}

type sortedU struct{ keys, sorted []string }

func newSortedU(keys []string) *sortedU {
	s := append([]string(nil), keys...)
	sort.SliceStable(s, func(i, j int) bool { return cmpS(s[i], s[j]) < 0 })
	return &sortedU{keys: keys, sorted: s}
}

// systematic probes around every stored key
func probesAround(keys []string, step int) []string {
	s := append([]string(nil), keys...)
	sort.Slice(s, func(i, j int) bool { return cmpS(s[i], s[j]) < 0 })
	out := []string{""}
	for i, k := range s {
		if i%step != 0 {
			continue
		}
		out = append(out, k, k+"\x00", k+"/", k[:len(k)-1])
		b := []byte(k)
		b[len(b)-1]++
		out = append(out, string(b))
		if i+1 < len(s) {
			out = append(out, rawSep(k, s[i+1]))
		}
	}
	return dedupe(out)
}

func everyNth(keys []string, n int) []string {
	s := append([]string(nil), keys...)
	sort.Slice(s, func(i, j int) bool { return cmpS(s[i], s[j]) < 0 })
	out := []string{""}
	step := len(s) / n
	if step < 1 {
		step = 1
	}
	for i := 0; i < len(s); i += step {
		out = append(out, s[i])
		if i+1 < len(s) {
			out = append(out, rawSep(s[i], s[i+1]))
		}
	}
	return dedupe(out)
}

var vocab = []string{"a", "a.b", "a-b", "a0", "ab", "file.txt", "file0", "file", "x.", "x", "0", ".", "-"}

func hierKeys(n int, prefix string) []string {
	var out []string
	seen := map[string]bool{}
	addk := func(k string) {
		if !seen[k] && len(out) < n {
			seen[k] = true
			out = append(out, k)
		}
	}
	v := len(vocab)
	// all paths of depth 1, 2, 3 and a stride through depth 4, with a trailing slash on some
	for depth := 1; depth <= 4 && len(out) < n; depth++ {
		total := 1
		for i := 0; i < depth; i++ {
			total *= v
		}
		stride := 1
		if depth == 4 {
			stride = 11
		}
		for x := 0; x < total && len(out) < n; x += stride {
			var segs []string
			y := x
			for i := 0; i < depth; i++ {
				segs = append(segs, vocab[y%v])
				y /= v
			}
			k := prefix + "/" + strings.Join(segs, "/")
			if x%17 == 3 {
				k += "/"
			}
			addk(k)
		}
	}
	return out
}

func bigSpecs(U3 []string, thorough bool) []*dsSpec {
	var out []*dsSpec
	nr, step := 4, 2 // quick: fewer scan end points, probes around every 2nd key (every key still gets its exact get)
	if thorough {
		nr, step = 10, 1
	}
	stored := U3[1:] // the empty key is not stored
	out = append(out, &dsSpec{Name: "universe", Keys: stored, ValSize: constSize(blockValue), Probes: U3, Ranges: everyNth(stored, nr+2), Mutate: true,
		Replay: map[string]any{"kind": "generated", "name": "universe"}})
	long := strings.Repeat("/tenant.0-prod/region0/cluster.a", 14) // 448 bytes shared by every key
	h1 := hierKeys(1000, long)
	h5 := hierKeys(5000, "")
	for _, viaDB := range []bool{false, true} {
		sfx := ""
		if viaDB {
			sfx = "-db"
		}
		if thorough || !viaDB {
			out = append(out, &dsSpec{Name: "hier1k-longkeys" + sfx, Keys: h1, ValSize: constSize(blockValue), Probes: probesAround(h1, step), Ranges: everyNth(h1, nr), Mutate: true, ViaDB: viaDB,
				Replay: map[string]any{"kind": "generated", "name": "hier1k-longkeys" + sfx}})
		}
		if thorough || viaDB {
			out = append(out, &dsSpec{Name: "hier5k" + sfx, Keys: h5, ValSize: func(i int) int { return 6000 + (i%7)*1500 }, Probes: probesAround(h5, step), Ranges: everyNth(h5, nr), Mutate: true, ViaDB: viaDB,
				Replay: map[string]any{"kind": "generated", "name": "hier5k" + sfx}})
		}
	}
	return out
}

// ---------------------------------------------------------------------------------------------

type collector struct {
	run    *ev.Run
	mu     sync.Mutex
	perKey map[string]int
	secs   map[string]float64
}

func (co *collector) take(r *dsResult) {
	run := co.run
	sp := r.spec
	run.Add("evaluations", r.evals)
	run.Add("engine_reads_compared", r.evals)
	run.Add("datasets", 1)
	run.Add("datasets_"+strings.TrimSuffix(sp.Name, "-db"), 1)
	co.mu.Lock()
	co.secs[sp.Name] += r.seconds
	co.mu.Unlock()
	run.DistinctN(1) // every data set is a different stored key set / access path
	run.Add("data_blocks_total", r.dataBlocks)
	run.Add("tables_with_two_level_index", r.twoLevel)
	run.Add("compactions", r.compacted)
	run.Add("move_compactions", r.moved)
	if r.cut != "" {
		run.Add("datasets_cut_by_deadline", 1)
		run.NotExhaustive(fmt.Sprintf("deadline: data set %s stopped %s", sp.Name, r.cut))
	}
	if r.infra != "" {
		run.Add("infrastructure_errors", 1)
		run.Note("infrastructure: " + sp.Name + ": " + r.infra)
		run.NotExhaustive("infrastructure error in a data set: " + r.infra)
	}
	if sp.OneKeyPerBlock {
		if r.blockOK {
			run.Add("datasets_one_key_per_block_verified", 1)
		} else if r.tablesDesc != "" {
			run.Add("datasets_block_layout_unexpected", 1)
			run.Note(fmt.Sprintf("block layout of %s %q: %s", sp.Name, sp.Keys, r.tablesDesc))
		}
	} else {
		run.Coverage["layout_"+sp.Name] = r.tablesDesc
	}
	if r.nMism == 0 {
		return
	}
	run.Add("datasets_with_mismatch", 1)
	run.Add("engine_mismatches", r.nMism)
	var keys []string
	for k := range r.byKey {
		keys = append(keys, k)
	}
	sort.Strings(keys)
	for _, key := range keys {
		run.Add("mismatches_"+key, r.byKey[key])
		co.mu.Lock()
		co.perKey[key]++
		n := co.perKey[key]
		co.mu.Unlock()
		if n > 40 {
			continue
		}
		first := r.firstByKey[key]
		rp := map[string]any{}
		for k, v := range sp.Replay {
			rp[k] = v
		}
		rp["stage"], rp["op"], rp["args_hex"] = first.Stage, first.Op, hexKeys(first.Args)
		run.Violate(ev.Violation{Key: key, Harness: harness,
			Message: fmt.Sprintf("data set %s keys=%s (values %d B, tables after flush: %s): %s  [%d reads of this class differ in this data set]",
				sp.Name, renderList(sp.Keys), sp.ValSize(0), r.tablesDesc, first.String(), r.byKey[key]),
			Replay: rp})
	}
}

var exitCode int

func main() {
	realMain()
	os.Exit(exitCode)
}

func realMain() {
	replay := flag.String("replay", "", "replay file")
	flag.BoolVar(&keepAll, "all", false, "with -replay: print every mismatching read, not only the first of each class")
	flag.Parse()
	oxh.Quiet()
	debug.SetGCPercent(400)
	if d := os.Getenv("VERIF_C11_PROF"); d != "" { // development aid
		runtime.SetBlockProfileRate(10000)
		runtime.SetMutexProfileFraction(10)
		f, _ := os.Create(d + "/cpu.prof")
		_ = pprof.StartCPUProfile(f)
		defer func() {
			pprof.StopCPUProfile()
			for _, n := range []string{"block", "mutex"} {
				g, _ := os.Create(d + "/" + n + ".prof")
				_ = pprof.Lookup(n).WriteTo(g, 0)
				g.Close()
			}
		}()
	}
	run := ev.NewRun("C11", "exploration")
	thorough := run.Tier == "thorough"
	budget := 50 * time.Second
	if thorough {
		budget = 18 * time.Minute
	}
	start := time.Now()
	deadline := start.Add(budget)
	hardDeadline = deadline.Add(budget / 10) // running data sets stop here; no new ones are submitted after deadline

	U3 := buildUniverse(alphabetFull, 3)
	U2 := buildUniverse(alphabetFull, 2)
	U1 := buildUniverse(alphabetFull, 1)

	if *replay != "" {
		os.Exit(doReplay(*replay, U3, U1))
	}

	// (1) laws
	lawU := U3
	if thorough {
		lawU = buildUniverse(alphabetFull, 4)
	}
	checkLaws(run, lawU, start.Add(budget/3))
	run.Coverage["law_universe_keys"] = len(lawU)
	// (3) contract diagnostic
	// keys longer than the 8-byte window of AbbreviatedKey: "aaaaaaa"/"aaaaaaaa" + every string of length <= 2 over {. / 0 a}
	T2 := buildUniverse([]byte{'.', '/', '0', 'a'}, 2)
	var W []string
	for _, pad := range []string{"aaaaaaa", "aaaaaaaa"} {
		for _, u := range T2 {
			W = append(W, pad+u)
		}
	}
	U3W := append(append([]string(nil), U3...), W...)
	cd := checkContract(run, U3W)
	run.Coverage["contract_universe_keys"] = len(U3W)

	// (2) engine
	theDiag = cd
	co := &collector{run: run, perKey: map[string]int{}, secs: map[string]float64{}}
	jobs := make(chan *dsSpec, 64)
	results := make(chan *dsResult, 64)
	nw := runtime.GOMAXPROCS(0)
	var wg sync.WaitGroup
	for i := 0; i < nw; i++ {
		wg.Add(1)
		go func(id int) {
			defer wg.Done()
			w := newWorker(id)
			defer w.f.Close()
			for sp := range jobs {
				results <- runDataset(w, sp)
			}
		}(i)
	}
	done := make(chan struct{})
	go func() {
		for r := range results {
			co.take(r)
		}
		close(done)
	}()
	cut := false
	submit := func(sp *dsSpec) bool {
		if time.Now().After(deadline) {
			cut = true
			return false
		}
		jobs <- sp
		return true
	}
	only := os.Getenv("VERIF_C11_ONLY") // development aid: comma separated suite names
	want := func(name string) bool { return only == "" || strings.Contains(","+only+",", ","+name+",") }
	if only != "" {
		run.NotExhaustive("VERIF_C11_ONLY=" + only)
	}
	// large data sets first (longest jobs)
	if want("big") {
		for _, sp := range bigSpecs(U3, thorough) {
			submit(sp)
		}
	}
	// every pair / every triple of a key universe
	sU3, sU3W := newSortedU(U3), newSortedU(U3W)
	storedW := append(append([]string(nil), T2[1:]...), W...)
	type suite struct {
		name   string
		arity  int
		stored []string
		full   bool
		probeU *sortedU
	}
	var suites []suite
	P3 := buildUniverse([]byte{'.', '/', '0', 'a'}, 3)
	if !thorough {
		suites = []suite{
			{"triples-T2-reduced", 3, T2[1:], false, sU3},
			{"pairs-U2-reduced", 2, U2[1:], false, sU3},
			{"pairs-W-reduced", 2, storedW, false, sU3W},
			{"pairs-T3-reduced", 2, P3[1:], false, sU3},
		}
	} else {
		suites = []suite{
			{"triples-T2-full", 3, T2[1:], true, sU3},
			{"pairs-U2-full", 2, U2[1:], true, sU3},
			{"pairs-W-full", 2, storedW, true, sU3W},
			{"pairs-U3-reduced", 2, U3[1:], false, sU3},
			{"triples-U2-reduced", 3, U2[1:], false, sU3},
		}
	}
	var cutNotes []string
	for _, su := range suites {
		if !want(su.name) {
			continue
		}
		n, total := 0, 0
		S := su.stored
		name := "pair"
		if su.arity == 3 {
			name = "triple"
		}
		if su.full {
			name += "-fullprobes"
		}
	enum:
		for i := 0; i < len(S); i++ {
			for j := i + 1; j < len(S); j++ {
				if su.arity == 2 {
					total++
					if cut || !submit(smallSpec(name, []string{S[i], S[j]}, su.full, su.probeU, U1[1:])) {
						break enum
					}
					n++
					continue
				}
				for k := j + 1; k < len(S); k++ {
					total++
					if cut || !submit(smallSpec(name, []string{S[i], S[j], S[k]}, su.full, su.probeU, U1[1:])) {
						break enum
					}
					n++
				}
			}
		}
		probes := "cut points and their neighbours in a universe of"
		if su.full {
			probes = "all of a universe of"
		}
		run.Coverage["suite_"+su.name] = fmt.Sprintf("%d data sets: every %d-subset of %d keys; probes: %s %d keys", n, su.arity, len(S), probes, len(su.probeU.keys))
		if cut {
			cutNotes = append(cutNotes, fmt.Sprintf("%s stopped after %d data sets", su.name, n))
		}
	}
	close(jobs)
	wg.Wait()
	close(results)
	<-done
	if cut {
		run.NotExhaustive("deadline reached: " + strings.Join(cutNotes, "; "))
	}
	for k, v := range co.secs {
		run.Coverage["worker_seconds_"+k] = fmt.Sprintf("%.1f", v)
	}
	run.Sample(map[string]any{"law": "antisymmetry/zero-iff-equal/segment-order/heap-less on every ordered pair, transitivity on every ordered triple", "universe": len(lawU)})
	run.Sample(map[string]any{"dataset": "pair", "keys": []string{q(P3[1]), q(P3[len(P3)-1])}, "value_bytes": blockValue, "stages": []string{"committed", "flushed", "compacted"},
		"reads": "Get(Equal) on keys and probes; Floor/Ceiling/Lower/Higher + SeekGE/SeekLT(+Next/Prev) per probe; List/RangeScan/ReverseScan per pair of end points"})
	run.Sample(map[string]any{"dataset": "hier5k", "first_keys": hierKeys(6, ""), "extra_stages": []string{"mutated", "mutated+flushed", "mutated+compacted"}})
	run.Assume = []string{
		"the empty key is never stored (\"\" means 'unbounded' in the scan API); it is used as a probe",
		"the segment-wise definition in specCmp is what 'hierarchical (slash) order' means (it agrees with the repo's unit tests)",
		"Pebble is trusted for a comparer that fulfils its contract; block cache size (64 MiB per worker) differs from production and only affects speed",
		"kv.DB has no reverse scan: the reverse scan of DB-level data sets goes to the KV underneath",
	}
	exitCode = run.Finish("laws: every ordered pair and triple of all strings of length <= 3 (thorough: <= 4) over {00 - . / 0 a b ff}; engine: every unordered pair of stored keys from the pair universe and every unordered triple of the triple universe, one key per 64 KiB block, each read API compared with a sorted reference after commit, flush and manual compaction for every probe of the probe universe; 5 large data sets; a data set counts as distinct because its stored key set (hence its index separators) differs")
}

func doReplay(path string, U3, U1 []string) int {
	var doc struct {
		First struct {
			Key    string `json:"key"`
			Replay struct {
				Kind    string   `json:"kind"`
				Name    string   `json:"name"`
				KeysHex []string `json:"keys_hex"`
			} `json:"replay"`
		} `json:"first"`
	}
	if err := ev.ReadJSON(path, &doc); err != nil {
		fmt.Println("cannot read replay:", err)
		return 2
	}
	rp := doc.First.Replay
	var sp *dsSpec
	switch rp.Kind {
	case "dataset":
		var keys []string
		for _, h := range rp.KeysHex {
			b, err := hex.DecodeString(h)
			if err != nil {
				fmt.Println("bad key hex:", err)
				return 2
			}
			keys = append(keys, string(b))
		}
		sp = smallSpec(rp.Name, keys, true, newSortedU(U3), U1[1:])
	case "generated":
		for _, s := range bigSpecs(U3, true) {
			if s.Name == rp.Name {
				sp = s
			}
		}
	default:
		fmt.Println("law violations replay by re-running the check (pure functions of the listed keys)")
		return 2
	}
	if sp == nil {
		fmt.Println("data set not found:", rp.Name)
		return 2
	}
	hardDeadline = time.Now().Add(time.Hour)
	w := newWorker(0)
	defer w.f.Close()
	r := runDataset(w, sp)
	if r.infra != "" {
		fmt.Println("infrastructure:", r.infra)
		return 2
	}
	if r.nMism > 0 {
		fmt.Printf("VIOLATION property=C11 replay=%s\n", path)
		var ks []string
		for k := range r.firstByKey {
			ks = append(ks, k)
		}
		sort.Strings(ks)
		for _, k := range ks {
			fmt.Printf("  key=%s %s keys=%s: %s (%d reads of this class differ)\n", k, sp.Name, renderList(sp.Keys), r.firstByKey[k].String(), r.byKey[k])
		}
		for _, l := range r.all {
			fmt.Println("    " + l)
		}
		return 1
	}
	fmt.Printf("replay passed (%d reads compared, tables: %s)\n", r.evals, r.tablesDesc)
	return 0
}
