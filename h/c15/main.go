// C15: secondary indexes mirror live records exactly; queries stay inside one index.
// E1 explicit-state search of write histories on a real leader controller (RF=1). After every
// step (1) the raw `__oxia/idx/...` keys are compared with the set of (index, secondary key,
// primary key) triples declared by the records of the model, and (2) List / RangeScan / Get x
// {EQUAL,FLOOR,CEILING,LOWER,HIGHER} with SecondaryIndexName are compared with a sorted reference.
package main

import (
	"context"
	"crypto/sha256"
	"errors"
	"flag"
	"fmt"
	"net/url"
	"os"
	"path/filepath"
	"sort"
	"strconv"
	"strings"
	"sync"
	"sync/atomic"
	"time"

	"github.com/oxia-db/oxia/common/compare"
	"github.com/oxia-db/oxia/proto"
	"github.com/oxia-db/oxia/server"
	"github.com/oxia-db/oxia/server/kv"
	"github.com/oxia-db/oxia/server/wal"

	"verif/lib/ev"
	"verif/lib/oxh"
	"verif/lib/seqx"
)

const shard int64 = 1

// ---------------------------------------------------------------------------------------------
// alphabet

type entry struct{ idx, sk string }

// The first six entries are the alphabet of the write-history configurations; the index-name
// configurations append theirs (entryIdx).
var stdIndexes = []string{"i", "j"}
var allEntries = []entry{{"i", "a"}, {"i", "b"}, {"i", "a/b"}, {"j", "a"}, {"j", "b"}, {"j", "a/b"}}
var stdPks = []string{"p", "q", "p/q"}

// probe keys for queries: below the first possible entry, every secondary key, keys between them
// and above the last one (slash order: 0 < a < b < c < a/a < a/b < a/c < b/a).
var stdProbes = []string{"", "0", "a", "b", "c", "a/a", "a/b", "a/c", "b/a"}

// Index-name universe of the "index-names" configurations. The raw key of an entry is
// `__oxia/idx/<name>/<secondary key>\x01<url-escaped primary key>` with the name written as it is, and the
// engine orders keys segment by segment (CompareWithSlash), so the entries of the indexes follow one
// another in the byte order of their names. Around the base name "i":
//   - "hi"  sorts directly before "i" and has it as a suffix;
//   - "i-", "i.", "i0", "ij" have "i" as a strict prefix; '-' and '.' are the bytes below '/', '0' the one above
//     (a guard or bound built with or without the trailing '/', or compared in plain byte order, tells them apart);
//   - "j" is the unrelated neighbour of the write-history configurations;
//   - "I" differs in case only;
//   - thorough tier: "i-j" (a chain i < i- < i-j of prefixes), "i~" (last printable extension),
//     "i%2F" (what escaping "i/" would give), "i\x01" (the separator of the secondary key inside a name).
var quickNames = []string{"I", "hi", "i", "i-", "i.", "i0", "ij", "j"}
var thoroughNames = []string{"I", "hi", "i", "i\x01", "i%2F", "i-", "i-j", "i.", "i0", "ij", "i~", "j"}

// Names containing '/' are written into the key unescaped as well: index "i/j" with secondary key "a" and
// index "i" with secondary key "j/a" produce the same key prefix. Explored by the "slash-names" configuration.
var slashNames = []string{"i", "i/j", "j"}

func entryIdx(idx, sk string) int {
	for n, e := range allEntries {
		if e.idx == idx && e.sk == sk {
			return n
		}
	}
	allEntries = append(allEntries, entry{idx, sk})
	return len(allEntries) - 1
}

var thoroughTier bool
var invertedQuick = map[[2]string]bool{{"b", "a"}: true, {"a/b", "a"}: true, {"c", ""}: true}

var cmpTypes = []proto.KeyComparisonType{proto.KeyComparisonType_EQUAL, proto.KeyComparisonType_FLOOR,
	proto.KeyComparisonType_CEILING, proto.KeyComparisonType_LOWER, proto.KeyComparisonType_HIGHER}

const (
	kPut = iota
	kEphPut
	kDelete
	kDeleteRange
	kCreateSession
	kCloseSession
	kBulk
)

type opDef struct {
	kind       int
	pk         string
	set        []int // indices into allEntries
	start, end string
	internal   bool // the range spans internal keys
	bulk       []bulkRec
	name       string
}

func setName(set []int) string {
	var s []string
	for _, e := range set {
		s = append(s, allEntries[e].idx+":"+allEntries[e].sk)
	}
	return "{" + strings.Join(s, ",") + "}"
}

const nStdEntries = 6

func allSets() [][]int {
	out := [][]int{{}}
	for a := 0; a < nStdEntries; a++ {
		out = append(out, []int{a})
	}
	for a := 0; a < nStdEntries; a++ {
		for b := a + 1; b < nStdEntries; b++ {
			out = append(out, []int{a, b})
		}
	}
	return out
}

// reducedSets: no entry, every single entry, three pairs (same key in both indexes, two keys in one
// index, flat + nested key across indexes).
func reducedSets() [][]int {
	return [][]int{{}, {0}, {1}, {2}, {3}, {4}, {5}, {0, 3}, {0, 1}, {1, 5}}
}

type config struct {
	name          string
	notifications bool
	depth         int
	ops           []opDef
	// query universe (zero values: the standard one)
	indexes      []string // index names queried after every step
	pks          []string
	probes       []string // keys of the comparison gets (the empty one is skipped)
	rangeProbes  []string // bounds of List / RangeScan
	allPairs     bool     // every (start,end) pair, inverted ones included
	orderedPairs bool     // only pairs with start <= end, in every tier
}

// ---------------------------------------------------------------------------------------------
// "bulk" configurations: more records than kv.DeleteRangeThreshold, then range deletes around the threshold.
// applyDeleteRange visits every record of the range (the visit removes its index entries) and switches from
// per-key deletes to one range tombstone above the threshold; a range that spans the internal `__oxia/` block is
// applied as two ranges (below / above the block), each with its own count.

type bulkRec struct {
	pk  string
	set []int
}

const thr = kv.DeleteRangeThreshold

func flatKey(n int) string   { return fmt.Sprintf("k%03d", n) }  // no '/': sorts below the internal block
func nestedKey(n int) string { return fmt.Sprintf("k/%03d", n) } // "k" > "__oxia": sorts above the internal block

// declared entries: flat record n: none when n%7==0, {i:s<n>, j:t<n>} when n%3==0, else {i:s<n>};
// nested record n: none when n%5==0, else {i:u<n>} plus {j:t/<n>} (nested secondary key) when n%4==0.
func flatSet(n int) []int {
	switch {
	case n%7 == 0:
		return []int{}
	case n%3 == 0:
		return []int{entryIdx("i", fmt.Sprintf("s%03d", n)), entryIdx("j", fmt.Sprintf("t%03d", n))}
	}
	return []int{entryIdx("i", fmt.Sprintf("s%03d", n))}
}

func nestedSet(n int) []int {
	switch {
	case n%5 == 0:
		return []int{}
	case n%4 == 0:
		return []int{entryIdx("i", fmt.Sprintf("u%03d", n)), entryIdx("j", fmt.Sprintf("t/%03d", n))}
	}
	return []int{entryIdx("i", fmt.Sprintf("u%03d", n))}
}

func bulkOp(nFlat, nNested int) opDef {
	o := opDef{kind: kBulk, name: fmt.Sprintf("Bulk(%d flat k001.., %d nested k/001.., one write request)", nFlat, nNested)}
	for n := 1; n <= nFlat; n++ {
		o.bulk = append(o.bulk, bulkRec{flatKey(n), flatSet(n)})
	}
	for n := 1; n <= nNested; n++ {
		o.bulk = append(o.bulk, bulkRec{nestedKey(n), nestedSet(n)})
	}
	return o
}

// bulkConfig: first step = one of the bulk layouts (only enabled on the empty DB), then range deletes that cover
// exactly the threshold, threshold+1, everything on one side / on both sides of the internal block, sub-ranges that
// start and end in the middle, a small range; single puts that re-create (or overwrite) records at the boundaries
// with the same / another / no entry; single deletes.
func bulkConfig(name string, notifications bool, depth int, layouts [][2]int, full bool) config {
	maxFlat, maxNested := 0, 0
	var ops []opDef
	for _, l := range layouts {
		ops = append(ops, bulkOp(l[0], l[1]))
		maxFlat, maxNested = max(maxFlat, l[0]), max(maxNested, l[1])
	}
	ranges := [][2]string{
		{flatKey(1), flatKey(thr + 1)},   // exactly the threshold
		{flatKey(1), flatKey(thr + 2)},   // threshold+1
		{"k", "l"},                       // every flat record
		{"k", "k/~"},                     // everything, spans the internal block
		{flatKey(20), flatKey(thr + 25)}, // starts and ends in the middle (threshold+5 records of the largest flat layout)
		{flatKey(31), nestedKey(41)},     // middle of the flat records .. middle of the nested ones, spans the internal block
	}
	if full {
		ranges = append(ranges, [2]string{"k/", "k/~"}, [2]string{flatKey(50), flatKey(60)}, [2]string{flatKey(2), flatKey(thr + 2)})
	}
	for _, r := range ranges {
		ops = append(ops, opDef{kind: kDeleteRange, start: r[0], end: r[1], name: fmt.Sprintf("DeleteRange[%s,%s)", r[0], r[1]),
			internal: inRange("__oxia/idx/i/a\x01p", r[0], r[1])})
	}
	type sp struct {
		pk  string
		set []int
	}
	singles := []sp{
		{flatKey(thr + 1), flatSet(thr + 1)},             // the 101st record again, same entry
		{flatKey(thr + 1), []int{entryIdx("j", "t000")}}, // ... with an entry in the other index instead
		{flatKey(1), []int{}},                            // first record, no entry
		{nestedKey(1), nestedSet(1)},                     // first nested record again
	}
	if full {
		singles = append(singles, sp{flatKey(thr + 30), []int{entryIdx("i", "s000")}}, sp{flatKey(thr), flatSet(thr)},
			sp{nestedKey(41), []int{entryIdx("i", "u999"), entryIdx("j", "t/000")}})
	}
	pkSet := map[string]bool{}
	for _, x := range singles {
		ops = append(ops, opDef{kind: kPut, pk: x.pk, set: x.set, name: fmt.Sprintf("Put(%s,%s)", x.pk, setName(x.set))})
		pkSet[x.pk] = true
	}
	for _, pk := range []string{flatKey(thr + 1), nestedKey(1)} {
		ops = append(ops, opDef{kind: kDelete, pk: pk, name: fmt.Sprintf("Delete(%s)", pk)})
	}
	var pks []string
	for n := 1; n <= max(maxFlat, thr+30); n++ {
		pks = append(pks, flatKey(n))
	}
	for n := 1; n <= max(maxNested, 41); n++ {
		pks = append(pks, nestedKey(n))
	}
	return config{name: name, notifications: notifications, depth: depth, ops: ops, indexes: stdIndexes, pks: pks, orderedPairs: true,
		probes:      []string{"", "s000", "s001", "s100", "s101", "s102", "s131", "t102", "u040", "u071", "t/004", "t/999"},
		rangeProbes: []string{"", "s001", "s101", "s102", "t", "u041", "v", "t/", "t/~"}}
}

func (c *config) fill() {
	if c.indexes == nil {
		c.indexes = stdIndexes
	}
	if c.pks == nil {
		c.pks = stdPks
	}
	if c.probes == nil {
		c.probes = stdProbes
	}
	if c.rangeProbes == nil {
		c.rangeProbes = c.probes
	}
}

// nameOps: the alphabet of the index-name configurations: Put(pk, S) for S = no entry, every single
// (name, secondary key) entry of the universe and the given pairs; Delete(pk).
func nameOps(pks, names, sks []string, pairs [][2]entry) []opDef {
	sets := [][]int{{}}
	for _, n := range names {
		for _, sk := range sks {
			sets = append(sets, []int{entryIdx(n, sk)})
		}
	}
	for _, p := range pairs {
		sets = append(sets, []int{entryIdx(p[0].idx, p[0].sk), entryIdx(p[1].idx, p[1].sk)})
	}
	var ops []opDef
	for _, pk := range pks {
		for _, s := range sets {
			ops = append(ops, opDef{kind: kPut, pk: pk, set: s, name: fmt.Sprintf("Put(%s,%s)", pk, setName(s))})
		}
	}
	for _, pk := range pks {
		ops = append(ops, opDef{kind: kDelete, pk: pk, name: fmt.Sprintf("Delete(%s)", pk)})
	}
	return ops
}

// pairs of the index-name configurations: one record in two indexes whose names are a prefix of one another
// (same and different secondary key), flat key in the longer name + nested key in the shorter one, and the
// suffix-related neighbour.
var namePairs = [][2]entry{{{"i", "a"}, {"i-", "a"}}, {{"i", "a/b"}, {"i0", "a"}}, {{"hi", "a"}, {"i", "a"}}}

var nameRangeProbes = []string{"", "a", "c", "a/b", "b/a"}

func nameConfig(name string, notifications bool, depth int, pks, names []string, allPairs bool) config {
	c := config{name: name, notifications: notifications, depth: depth, indexes: names, pks: pks, allPairs: allPairs,
		ops: nameOps(pks, names, []string{"a", "a/b"}, namePairs)}
	if !allPairs {
		c.rangeProbes = nameRangeProbes
	}
	return c
}

// slashConfig: index names {i, i/j, j}; secondary keys "a" and "j/a" (index "i/j" key "a" and index "i" key
// "j/a" share the raw prefix `__oxia/idx/i/j/a`), probes around both.
func slashConfig(name string, notifications bool, depth int) config {
	pks := []string{"p", "q"}
	return config{name: name, notifications: notifications, depth: depth, indexes: slashNames, pks: pks, allPairs: false,
		probes: []string{"", "a", "j", "k", "a/b", "j/a", "j/b", "k/a"},
		ops:    nameOps(pks, slashNames, []string{"a", "j/a"}, [][2]entry{{{"i", "j/a"}, {"i/j", "a"}}})}
}

func buildOps(sets [][]int, ephSets [][]int) []opDef {
	pks := stdPks
	var ops []opDef
	for _, pk := range pks {
		for _, s := range sets {
			ops = append(ops, opDef{kind: kPut, pk: pk, set: s, name: fmt.Sprintf("Put(%s,%s)", pk, setName(s))})
		}
	}
	for _, pk := range pks {
		ops = append(ops, opDef{kind: kDelete, pk: pk, name: fmt.Sprintf("Delete(%s)", pk)})
	}
	// range deletes in slash order: [p,q) = {p}; [p,r) = {p,q}; [p/,p/~) = {p/q};
	// [a,a/~) = every flat key >= "a" (p and q) and every nested key whose first segment sorts
	// before "a": that spares p/q but spans the internal keys "__oxia/...".
	for _, r := range [][2]string{{"p", "q"}, {"p", "r"}, {"p/", "p/~"}, {"a", "a/~"}} {
		ops = append(ops, opDef{kind: kDeleteRange, start: r[0], end: r[1], name: fmt.Sprintf("DeleteRange[%s,%s)", r[0], r[1]),
			internal: inRange("__oxia/idx/i/a\x01p", r[0], r[1])})
	}
	if len(ephSets) > 0 {
		ops = append(ops, opDef{kind: kCreateSession, name: "CreateSession"}, opDef{kind: kCloseSession, name: "CloseSession"})
		for _, pk := range pks {
			for _, s := range ephSets {
				ops = append(ops, opDef{kind: kEphPut, pk: pk, set: s, name: fmt.Sprintf("EphemeralPut(%s,%s)", pk, setName(s))})
			}
		}
	}
	return ops
}

func configs(tier string) []config {
	cs := configList(tier)
	for i := range cs {
		cs[i].fill()
	}
	return cs
}

func configList(tier string) []config {
	if tier == "thorough" {
		sessSets := [][]int{{}, {0}, {4}, {2, 3}, {0, 3}, {1, 5}}
		return []config{
			nameConfig("thorough/index-names/notifications-off", false, 3, []string{"p", "p/q"}, thoroughNames, true),
			nameConfig("thorough/index-names/notifications-on", true, 2, []string{"p", "p%2Fq"}, thoroughNames, true),
			slashConfig("thorough/slash-names/notifications-off", false, 3),
			slashConfig("thorough/slash-names/notifications-on", true, 3),
			bulkConfig("thorough/bulk/notifications-on", true, 4, [][2]int{{thr, 0}, {thr + 1, 0}, {thr + 30, 0}, {60, 70}, {thr + 5, thr + 5}}, true),
			bulkConfig("thorough/bulk/notifications-off", false, 3, [][2]int{{thr, 0}, {thr + 1, 0}, {thr + 30, 0}, {60, 70}, {thr + 5, thr + 5}}, true),
			{name: "thorough/sessions/6-sets", notifications: true, depth: 5, ops: buildOps(sessSets, [][]int{{3}, {0, 5}, {2}})},
			{name: "thorough/notifications-off/all-sets", notifications: false, depth: 3, ops: buildOps(allSets(), nil)},
			{name: "thorough/notifications-on/all-sets", notifications: true, depth: 3, ops: buildOps(allSets(), nil)},
			{name: "thorough/notifications-on/reduced-sets", notifications: true, depth: 4, ops: buildOps(reducedSets(), nil)},
			{name: "thorough/notifications-off/reduced-sets", notifications: false, depth: 4, ops: buildOps(reducedSets(), nil)},
			// one-off, not part of the tier (about 890 000 transitions): VERIF_CONFIG=all-sets-depth4
			{name: "thorough/notifications-on/all-sets-depth4", notifications: true, depth: 4, ops: buildOps(allSets(), nil)},
		}
	}
	return []config{
		nameConfig("quick/index-names/notifications-off", false, 2, []string{"p", "p/q"}, quickNames, false),
		nameConfig("quick/index-names/notifications-on", true, 2, []string{"p", "p%2Fq"}, quickNames, false),
		slashConfig("quick/slash-names/notifications-off", false, 2),
		bulkConfig("quick/bulk/notifications-on", true, 3, [][2]int{{thr, 0}, {thr + 1, 0}, {thr + 30, 0}, {60, 70}, {thr + 5, thr + 5}}, true),
		{name: "quick/notifications-on/reduced-sets", notifications: true, depth: 3, ops: buildOps(reducedSets(), nil)},
		{name: "quick/notifications-off/7-sets", depth: 3, ops: buildOps([][]int{{}, {0}, {1}, {2}, {3}, {5}, {0, 3}}, nil)},
		{name: "quick/sessions/small-sets", notifications: true, depth: 4, ops: buildOps([][]int{{}, {0}, {4}, {2, 3}}, [][]int{{3}, {0, 5}})},
	}
}

// ---------------------------------------------------------------------------------------------
// slash order on strings

func slashCmp(a, b string) int { return compare.CompareWithSlash([]byte(a), []byte(b)) }

// inRange reports start <= k < end in slash order.
func inRange(k, start, end string) bool { return slashCmp(start, k) <= 0 && slashCmp(k, end) < 0 }

// ---------------------------------------------------------------------------------------------
// soft (query) violations: queries are read-only, so the search continues through them.

type softCollector struct {
	mu    sync.Mutex
	first map[string]ev.Violation
	hist  map[string][]int
	count map[string]int64
}

var soft = &softCollector{first: map[string]ev.Violation{}, hist: map[string][]int{}, count: map[string]int64{}}

func lessHist(a, b []int) bool {
	if len(a) != len(b) {
		return len(a) < len(b)
	}
	for i := range a {
		if a[i] != b[i] {
			return a[i] < b[i]
		}
	}
	return false
}

func (c *softCollector) add(cfg *config, key, msg string, hist []int) {
	c.mu.Lock()
	defer c.mu.Unlock()
	c.count[key]++
	if old, ok := c.hist[key]; ok && !lessHist(hist, old) {
		return
	}
	h := append([]int{}, hist...)
	names := make([]string, len(h))
	for i, o := range h {
		names[i] = cfg.ops[o].name
	}
	c.hist[key] = h
	c.first[key] = ev.Violation{Key: key, Harness: "secidx-seq", Message: msg, Replay: map[string]any{"config": cfg.name, "ops": names, "indices": h}}
}

// states whose query oracle has been evaluated already (key: every key name of the DB plus the
// index declarations of every record; queries are a deterministic function of it).
var queryMemo sync.Map

var (
	nListQ, nScanQ, nGetQ, nGetNonTrivial, nEdgeGets, nRawChecks, nQueryStates, nOutOfScopeErr atomic.Int64
)

// ---------------------------------------------------------------------------------------------
// instance

type nullRPC struct{}

var errNoFollowers = errors.New("verif: RF=1 leader has no followers")

func (nullRPC) Close() error { return nil }
func (nullRPC) GetReplicateStream(context.Context, string, string, int64, int64) (proto.OxiaLogReplication_ReplicateClient, error) {
	return nil, errNoFollowers
}
func (nullRPC) SendSnapshot(context.Context, string, string, int64, int64) (proto.OxiaLogReplication_SendSnapshotClient, error) {
	return nil, errNoFollowers
}
func (nullRPC) Truncate(string, *proto.TruncateRequest) (*proto.TruncateResponse, error) {
	return nil, errNoFollowers
}

// ---------------------------------------------------------------------------------------------
// The leader's List/RangeScan goroutines signal completion to the caller *before* they close
// their engine iterator. The factory below counts open engine iterators so that an instance is
// only closed once they are all released (a condition variable, no sleeping).

type openCount struct {
	mu sync.Mutex
	c  *sync.Cond
	n  int
}

func newOpenCount() *openCount { o := &openCount{}; o.c = sync.NewCond(&o.mu); return o }
func (o *openCount) inc()      { o.mu.Lock(); o.n++; o.mu.Unlock() }
func (o *openCount) dec()      { o.mu.Lock(); o.n--; o.c.Broadcast(); o.mu.Unlock() }
func (o *openCount) wait() {
	o.mu.Lock()
	for o.n > 0 {
		o.c.Wait()
	}
	o.mu.Unlock()
}

type countFactory struct {
	*oxh.CapFactory
	oc *openCount
}

func (f *countFactory) NewKV(ns string, shardId int64) (kv.KV, error) {
	k, err := f.CapFactory.NewKV(ns, shardId)
	if err != nil {
		return nil, err
	}
	return &countKV{KV: k, oc: f.oc}, nil
}

type countKV struct {
	kv.KV
	oc *openCount
}

type countKeyIt struct {
	kv.KeyIterator
	oc *openCount
}

func (i *countKeyIt) Close() error { err := i.KeyIterator.Close(); i.oc.dec(); return err }

type countKVIt struct {
	kv.KeyValueIterator
	oc *openCount
}

func (i *countKVIt) Close() error { err := i.KeyValueIterator.Close(); i.oc.dec(); return err }

func (k *countKV) KeyRangeScan(l, u string) (kv.KeyIterator, error) {
	it, err := k.KV.KeyRangeScan(l, u)
	if err != nil {
		return nil, err
	}
	k.oc.inc()
	return &countKeyIt{it, k.oc}, nil
}

func (k *countKV) KeyIterator() (kv.KeyIterator, error) {
	it, err := k.KV.KeyIterator()
	if err != nil {
		return nil, err
	}
	k.oc.inc()
	return &countKeyIt{it, k.oc}, nil
}

func (k *countKV) RangeScan(l, u string) (kv.KeyValueIterator, error) {
	it, err := k.KV.RangeScan(l, u)
	if err != nil {
		return nil, err
	}
	k.oc.inc()
	return &countKVIt{it, k.oc}, nil
}

type rec struct {
	set      []int
	val      string
	ver, mod int64
	sess     int64 // -1: not ephemeral
}

type inst struct {
	cfg        *config
	dir        string
	lc         server.LeaderController
	kvf        *oxh.CapFactory
	oc         *openCount
	walf       wal.Factory
	recs       map[string]*rec
	sess       int64 // open session or -1
	deadSess   int64 // the session closed last, 0 if none
	nsess      int
	step       int
	hist       []int
	raw        []string // raw idx keys seen at the last step
	rangeCount int      // records the last range delete covered (model)
}

var dirCounter atomic.Int64
var scratch string

func newInst(cfg *config, worker int) *inst {
	in := &inst{cfg: cfg, dir: filepath.Join(scratch, fmt.Sprintf("w%d-%d", worker, dirCounter.Add(1))), recs: map[string]*rec{}, sess: -1}
	in.kvf = oxh.NewMemFactory()
	in.oc = newOpenCount()
	in.walf = wal.NewWalFactory(&wal.FactoryOptions{BaseWalDir: in.dir, Retention: time.Hour, SegmentSize: 64 * 1024, SyncData: false})
	lc, err := server.NewLeaderController(server.Config{NotificationsRetentionTime: time.Hour}, "default", shard, nullRPC{}, in.walf, &countFactory{in.kvf, in.oc})
	if err != nil {
		panic(err)
	}
	in.lc = lc
	if _, err := lc.NewTerm(&proto.NewTermRequest{Shard: shard, Term: 1, Options: &proto.NewTermOptions{EnableNotifications: cfg.notifications}}); err != nil {
		panic(err)
	}
	if _, err := lc.BecomeLeader(context.Background(), &proto.BecomeLeaderRequest{Shard: shard, Term: 1, ReplicationFactor: 1}); err != nil {
		panic(err)
	}
	return in
}

func (in *inst) Close() {
	in.oc.wait()
	_ = in.lc.Close()
	_ = in.kvf.Close()
	_ = in.walf.Close()
	_ = os.RemoveAll(in.dir)
}

func viol(key, msg string) *ev.Violation { return &ev.Violation{Key: key, Message: msg} }

func secIdx(set []int) []*proto.SecondaryIndex {
	var out []*proto.SecondaryIndex
	for _, e := range set {
		out = append(out, &proto.SecondaryIndex{IndexName: allEntries[e].idx, SecondaryKey: allEntries[e].sk})
	}
	return out
}

func (in *inst) write(req *proto.WriteRequest) (*proto.WriteResponse, error) {
	s := shard
	req.Shard = &s
	return in.lc.WriteBlock(context.Background(), req)
}

func (in *inst) Step(op int) (bool, *ev.Violation) {
	o := in.cfg.ops[op]
	switch o.kind {
	case kPut, kEphPut:
		if o.kind == kEphPut && in.sess < 0 {
			// no live session: the put names the session that was closed last (or one that never existed). It
			// must be refused with a status and leave no trace: the oracles compare records and raw index keys
			// with the unchanged model
			in.step++
			dead := in.deadSess
			if dead <= 0 {
				dead = 999
			}
			pr := &proto.PutRequest{Key: o.pk, Value: []byte(fmt.Sprintf("v%d", in.step)), SecondaryIndexes: secIdx(o.set), SessionId: &dead}
			res, err := in.write(&proto.WriteRequest{Puts: []*proto.PutRequest{pr}})
			if err != nil {
				return true, viol("write-error:put", fmt.Sprintf("%s naming dead session %d failed: %v", o.name, dead, err))
			}
			if res.Puts[0].Status != proto.Status_SESSION_DOES_NOT_EXIST {
				return true, viol("write-status:put-dead-session", fmt.Sprintf("%s naming dead session %d returned %v", o.name, dead, res.Puts[0].Status))
			}
			break
		}
		in.step++
		val := fmt.Sprintf("v%d", in.step)
		pr := &proto.PutRequest{Key: o.pk, Value: []byte(val), SecondaryIndexes: secIdx(o.set)}
		sess := int64(-1)
		if o.kind == kEphPut {
			sess = in.sess
			pr.SessionId = &sess
		}
		res, err := in.write(&proto.WriteRequest{Puts: []*proto.PutRequest{pr}})
		if err != nil {
			return true, viol("write-error:put", fmt.Sprintf("%s failed: %v", o.name, err))
		}
		if res.Puts[0].Status != proto.Status_OK {
			return true, viol("write-status:put", fmt.Sprintf("%s returned %v", o.name, res.Puts[0].Status))
		}
		in.recs[o.pk] = &rec{set: o.set, val: val, ver: res.Puts[0].Version.VersionId, mod: res.Puts[0].Version.ModificationsCount, sess: sess}
	case kBulk:
		if in.step != 0 {
			return false, nil // only on the empty DB
		}
		in.step++
		val := fmt.Sprintf("v%d", in.step)
		var puts []*proto.PutRequest
		for _, b := range o.bulk {
			puts = append(puts, &proto.PutRequest{Key: b.pk, Value: []byte(val), SecondaryIndexes: secIdx(b.set)})
		}
		res, err := in.write(&proto.WriteRequest{Puts: puts})
		if err != nil {
			return true, viol("write-error:bulk-put", fmt.Sprintf("%s failed: %v", o.name, err))
		}
		for n, b := range o.bulk {
			if res.Puts[n].Status != proto.Status_OK {
				return true, viol("write-status:bulk-put", fmt.Sprintf("%s: put %s returned %v", o.name, b.pk, res.Puts[n].Status))
			}
			in.recs[b.pk] = &rec{set: b.set, val: val, ver: res.Puts[n].Version.VersionId, mod: res.Puts[n].Version.ModificationsCount, sess: -1}
		}
	case kDelete:
		if in.recs[o.pk] == nil {
			return false, nil
		}
		in.step++
		res, err := in.write(&proto.WriteRequest{Deletes: []*proto.DeleteRequest{{Key: o.pk}}})
		if err != nil {
			return true, viol("write-error:delete", fmt.Sprintf("%s failed: %v", o.name, err))
		}
		if res.Deletes[0].Status != proto.Status_OK {
			return true, viol("write-status:delete", fmt.Sprintf("%s returned %v", o.name, res.Deletes[0].Status))
		}
		delete(in.recs, o.pk)
	case kDeleteRange:
		in.step++
		res, err := in.write(&proto.WriteRequest{DeleteRanges: []*proto.DeleteRangeRequest{{StartInclusive: o.start, EndExclusive: o.end}}})
		if err != nil && o.internal && in.cfg.notifications && strings.Contains(err.Error(), "failed to Deserialize storage entry") {
			// The range spans internal keys and the apply step fails on a notification batch: the
			// request is rejected as a whole and nothing changes. A failing write is property C13's
			// subject, not C15's; the state must still satisfy both oracles.
			nOutOfScopeErr.Add(1)
			break
		}
		if err != nil {
			return true, viol("write-error:delete-range", fmt.Sprintf("%s failed: %v", o.name, err))
		}
		if res.DeleteRanges[0].Status != proto.Status_OK {
			return true, viol("write-status:delete-range", fmt.Sprintf("%s returned %v", o.name, res.DeleteRanges[0].Status))
		}
		in.rangeCount = 0
		for pk := range in.recs {
			if inRange(pk, o.start, o.end) {
				delete(in.recs, pk)
				in.rangeCount++
			}
		}
	case kCreateSession:
		if in.sess >= 0 || in.nsess >= 2 {
			return false, nil
		}
		in.step++
		res, err := in.lc.CreateSession(&proto.CreateSessionRequest{Shard: shard, SessionTimeoutMs: 300_000, ClientIdentity: "c15"})
		if err != nil {
			return true, viol("session-create-error", err.Error())
		}
		in.sess = res.SessionId
		in.nsess++
	case kCloseSession:
		if in.sess < 0 {
			return false, nil
		}
		in.step++
		if _, err := in.lc.CloseSession(&proto.CloseSessionRequest{Shard: shard, SessionId: in.sess}); err != nil {
			return true, viol("session-close-error", err.Error())
		}
		for pk, r := range in.recs {
			if r.sess == in.sess {
				delete(in.recs, pk)
			}
		}
		in.deadSess = in.sess
		in.sess = -1
	}
	in.hist = append(in.hist, op)
	// the queries are evaluated on a state whose raw index is wrong as well: their answers show the symptom
	v := in.checkRaw(o)
	in.checkQueries()
	return true, v
}

// ---------------------------------------------------------------------------------------------
// oracle 1: raw index keys == triples declared by live records

type triple struct{ idx, sk, pk string }

func (in *inst) modelTriples() map[triple]bool {
	m := map[triple]bool{}
	for pk, r := range in.recs {
		for _, e := range r.set {
			m[triple{allEntries[e].idx, allEntries[e].sk, pk}] = true
		}
	}
	return m
}

const idxPrefix = "__oxia/idx/"

// parseIdxKey reads a raw key as `prefix / index / secondary \x01 url-escaped primary`, independently of the
// repo code. The index name is the text up to the first '/', except that a name of the configuration's universe
// which contains a '/' itself is recognised as well: such a key has more than one reading (the layout is
// ambiguous then) and all of them are returned.
func parseIdxKey(k string, names []string) []triple {
	rest := strings.TrimPrefix(k, idxPrefix)
	type cand struct {
		name string
		n    int // bytes of the key it takes
	}
	var cands []cand
	if sl := strings.IndexByte(rest, '/'); sl > 0 {
		cands = append(cands, cand{rest[:sl], sl})
		// a name written url-escaped (a layout that escapes the name keeps the keys unambiguous) is read as well
		if u, err := url.PathUnescape(rest[:sl]); err == nil && u != rest[:sl] {
			cands = append(cands, cand{u, sl})
		}
	}
	for _, n := range names {
		if strings.Contains(n, "/") && strings.HasPrefix(rest, n+"/") {
			cands = append(cands, cand{n, len(n)})
		}
	}
	var out []triple
	for _, c := range cands {
		name := c.name
		r := rest[c.n+1:]
		sep := strings.IndexByte(r, 1)
		if sep < 0 {
			continue
		}
		pk, err := url.PathUnescape(r[sep+1:])
		if err != nil {
			continue
		}
		out = append(out, triple{name, r[:sep], pk})
	}
	return out
}

func (in *inst) dumpKeys() (all []string, lines []string) {
	lines = oxh.DumpKV(in.kvf.Last(), oxh.DumpOpts{})
	for _, l := range lines {
		q, err := strconv.QuotedPrefix(l)
		if err != nil {
			panic("unparsable dump line " + l)
		}
		k, _ := strconv.Unquote(q)
		all = append(all, k)
	}
	return all, lines
}

func fmtTriples(m map[triple]bool) string {
	var s []string
	for t := range m {
		s = append(s, fmt.Sprintf("(%s,%s,%s)", t.idx, t.sk, t.pk))
	}
	sort.Strings(s)
	return "[" + strings.Join(s, " ") + "]"
}

func (in *inst) checkRaw(o opDef) *ev.Violation {
	nRawChecks.Add(1)
	keys, lines := in.dumpKeys()
	got := map[triple]bool{}
	wantTriples := in.modelTriples()
	in.raw = in.raw[:0]
	users := map[string]bool{}
	for i, k := range keys {
		switch {
		case strings.HasPrefix(k, idxPrefix):
			in.raw = append(in.raw, k)
			ts := parseIdxKey(k, in.cfg.indexes)
			if len(ts) == 0 {
				return viol("raw-index:unparsable-key", fmt.Sprintf("after %s: index key %q does not follow prefix/index/secondary\\x01primary", o.name, k))
			}
			// a key with several readings (index name containing '/') counts for the reading(s) the model declares;
			// without one, its first reading is reported as stale
			matched := false
			for _, t := range ts {
				if wantTriples[t] {
					got[t] = true
					matched = true
				}
			}
			if !matched {
				got[ts[0]] = true
			}
		case !strings.HasPrefix(k, "__oxia/"):
			users[k] = true
			// the stored record must declare what the model declares
			r := in.recs[k]
			if r == nil {
				return viol("records:unexpected-record", fmt.Sprintf("after %s: record %q exists, model has none", o.name, k))
			}
			var decl []string
			for _, e := range r.set {
				decl = append(decl, allEntries[e].idx+"="+allEntries[e].sk)
			}
			if want := fmt.Sprintf("idx=%v", decl); !strings.HasSuffix(lines[i], want) {
				return viol("records:declaration-mismatch", fmt.Sprintf("after %s: stored record %s, model declares %s", o.name, lines[i], want))
			}
		}
	}
	for pk := range in.recs {
		if !users[pk] {
			return viol("records:missing-record", fmt.Sprintf("after %s: record %q of the model is not stored", o.name, pk))
		}
	}
	want := wantTriples
	var stale, missing []string
	for t := range got {
		if !want[t] {
			stale = append(stale, fmt.Sprintf("(%s,%s,%s)", t.idx, t.sk, t.pk))
		}
	}
	for t := range want {
		if !got[t] {
			missing = append(missing, fmt.Sprintf("(%s,%s,%s)", t.idx, t.sk, t.pk))
		}
	}
	sort.Strings(stale)
	sort.Strings(missing)
	if len(stale)+len(missing) > 0 {
		key := "raw-index:"
		switch {
		case len(stale) > 0 && len(missing) > 0:
			key += "stale-and-missing-entries"
		case len(stale) > 0:
			key += "stale-entries"
		default:
			key += "missing-entries"
		}
		key += ":after-" + kindName(o)
		if o.kind == kDeleteRange && in.rangeCount > thr {
			key += "-of-more-than-threshold-records"
		}
		return viol(key, fmt.Sprintf("after %s: raw index entries %s, live records declare %s (stale=%v missing=%v)", o.name, fmtTriples(got), fmtTriples(want), stale, missing))
	}
	return nil
}

func kindName(o opDef) string {
	switch o.kind {
	case kPut:
		return "put"
	case kEphPut:
		return "ephemeral-put"
	case kDelete:
		return "delete"
	case kDeleteRange:
		if o.internal {
			return "delete-range-spanning-internal-keys"
		}
		return "delete-range"
	case kCreateSession:
		return "session-create"
	case kBulk:
		return "bulk-put"
	}
	return "session-close"
}

// ---------------------------------------------------------------------------------------------
// oracle 2: queries

type collector[T any] struct {
	items []T
	done  chan error
}

func newCollector[T any]() *collector[T]     { return &collector[T]{done: make(chan error, 1)} }
func (c *collector[T]) OnNext(t T) error     { c.items = append(c.items, t); return nil }
func (c *collector[T]) OnComplete(err error) { c.done <- err }

type idxEntry struct{ sk, pk string }

// reference: the entries of one index sorted by secondary key (slash order), ties by escaped primary key
func (in *inst) refIndex(idx string) []idxEntry {
	var out []idxEntry
	for pk, r := range in.recs {
		for _, e := range r.set {
			if allEntries[e].idx == idx {
				out = append(out, idxEntry{allEntries[e].sk, pk})
			}
		}
	}
	sort.Slice(out, func(a, b int) bool {
		if c := slashCmp(out[a].sk, out[b].sk); c != 0 {
			return c < 0
		}
		return url.PathEscape(out[a].pk) < url.PathEscape(out[b].pk)
	})
	return out
}

func (in *inst) memoKey(keys []string) [32]byte {
	var b strings.Builder
	for _, k := range keys {
		b.WriteString(k)
		b.WriteByte(0)
	}
	for _, pk := range in.cfg.pks {
		if r := in.recs[pk]; r != nil {
			fmt.Fprintf(&b, "|%s:%v:%v", pk, r.set, r.sess >= 0)
		}
	}
	// the queries asked depend on the configuration's universe
	fmt.Fprintf(&b, "|%q|%q|%q|%v", in.cfg.indexes, in.cfg.probes, in.cfg.rangeProbes, in.cfg.allPairs)
	return sha256.Sum256([]byte(b.String()))
}

func (in *inst) softViol(key, msg string) { soft.add(in.cfg, key, msg, in.hist) }

// origin says where a primary key that the index idx does not hold (under that secondary key; sk=nil: under any
// key) came from. The classes are different root causes and get different violation keys:
//   - "aliased": the record declares (other, sk') and the raw key prefix other/sk' reads as idx/<something> as well
//     (only possible when an index name contains '/': the name is not escaped in the key);
//   - "prefix-related": the record declares the same secondary key in an index whose name is a strict prefix or
//     a strict extension of idx (the walk or the bounds did not stop at the '/' that ends the name);
//   - "other": it declares it in an unrelated index.
func (in *inst) origin(idx string, sk *string, pk string) (class, other string) {
	r := in.recs[pk]
	if r == nil {
		return "", ""
	}
	rank := map[string]int{"": 0, "other": 1, "prefix-related": 2, "aliased": 3}
	for _, e := range r.set {
		en := allEntries[e]
		if en.idx == idx {
			continue
		}
		c := ""
		switch {
		case strings.HasPrefix(en.idx+"/"+en.sk, idx+"/"):
			// (the secondary key a get reports for such a key is itself one of several readings: not compared)
			c = "aliased"
		case sk != nil && en.sk != *sk:
		case strings.HasPrefix(en.idx, idx) || strings.HasPrefix(idx, en.idx):
			c = "prefix-related"
		default:
			c = "other"
		}
		if rank[c] > rank[class] {
			class, other = c, en.idx
		}
	}
	return class, other
}

// slashKey is the class of every query failure whose input has an index name containing '/': either the queried
// name does, or the answer is an aliased entry of such an index (one root cause: the name is not escaped in the key).
const slashKey = "index-name-containing-slash"

var originKey = map[string]string{"aliased": slashKey,
	"prefix-related": "entry-of-index-with-prefix-related-name", "other": "entry-of-other-index"}

func (in *inst) checkQueries() {
	keys, _ := in.dumpKeys()
	mk := in.memoKey(keys)
	if _, seen := queryMemo.LoadOrStore(mk, struct{}{}); seen {
		return
	}
	nQueryStates.Add(1)
	ctx := context.Background()
	s := shard
	for _, idx := range in.cfg.indexes {
		idx := idx
		ref := in.refIndex(idx)
		// ---- list and range scan over every (start,end) pair
		for _, st := range in.cfg.rangeProbes {
			for _, en := range in.cfg.rangeProbes {
				if in.cfg.orderedPairs && slashCmp(st, en) > 0 {
					continue
				}
				if !thoroughTier && !in.cfg.allPairs && slashCmp(st, en) > 0 && !invertedQuick[[2]string{st, en}] {
					continue // quick tier: only three of the inverted (start > end) ranges
				}
				var want []idxEntry
				for _, e := range ref {
					if inRange(e.sk, st, en) {
						want = append(want, e)
					}
				}
				lc := newCollector[string]()
				in.lc.List(ctx, &proto.ListRequest{Shard: &s, StartInclusive: st, EndExclusive: en, SecondaryIndexName: &idx}, lc)
				err := <-lc.done
				nListQ.Add(1)
				if err != nil {
					in.softViol("list:error", fmt.Sprintf("List(index=%s,[%q,%q)) failed: %v", idx, st, en, err))
				} else if why := in.compareList(idx, want, lc.items); why != "" {
					in.softViol("list:"+why, fmt.Sprintf("List(index=%s,[%q,%q)) = %q, reference %v (%s); index=%v", idx, st, en, lc.items, want, why, ref))
				}
				rc := newCollector[*proto.GetResponse]()
				in.lc.RangeScan(ctx, &proto.RangeScanRequest{Shard: &s, StartInclusive: st, EndExclusive: en, SecondaryIndexName: &idx}, rc)
				err = <-rc.done
				nScanQ.Add(1)
				if err != nil {
					in.softViol("range-scan:error", fmt.Sprintf("RangeScan(index=%s,[%q,%q)) failed: %v", idx, st, en, err))
					continue
				}
				var got []string
				bad := ""
				for _, gr := range rc.items {
					if gr.Key == nil {
						bad = "response without key"
						break
					}
					got = append(got, *gr.Key)
					if m := in.recordMismatch(*gr.Key, gr); m != "" {
						bad = m
					}
				}
				if bad != "" {
					in.softViol("range-scan:record-mismatch", fmt.Sprintf("RangeScan(index=%s,[%q,%q)): %s", idx, st, en, bad))
				} else if why := in.compareList(idx, want, got); why != "" {
					in.softViol("range-scan:"+why, fmt.Sprintf("RangeScan(index=%s,[%q,%q)) = %q, reference %v (%s); index=%v", idx, st, en, got, want, why, ref))
				}
			}
		}
		// ---- comparison gets (one read request per index)
		var gets []*proto.GetRequest
		for _, k := range in.cfg.probes {
			if k == "" {
				continue
			}
			for _, ct := range cmpTypes {
				gets = append(gets, &proto.GetRequest{Key: k, IncludeValue: true, ComparisonType: ct, SecondaryIndexName: &idx})
			}
		}
		gc := newCollector[*proto.GetResponse]()
		in.lc.Read(ctx, &proto.ReadRequest{Shard: &s, Gets: gets}, gc)
		if err := <-gc.done; err != nil || len(gc.items) != len(gets) {
			in.softViol("get:error", fmt.Sprintf("Read(index=%s) failed: %v (%d of %d responses)", idx, err, len(gc.items), len(gets)))
			continue
		}
		for n, g := range gets {
			nGetQ.Add(1)
			in.checkGet(idx, ref, g, gc.items[n])
		}
	}
}

// compareList checks that got is the reference sequence up to the order among equal secondary keys.
func (in *inst) compareList(idx string, want []idxEntry, got []string) string {
	mismatch := len(want) != len(got)
	for i := 0; !mismatch && i < len(want); {
		j := i
		for j < len(want) && want[j].sk == want[i].sk {
			j++
		}
		w := make([]string, 0, j-i)
		for _, e := range want[i:j] {
			w = append(w, e.pk)
		}
		g := append([]string{}, got[i:j]...)
		sort.Strings(w)
		sort.Strings(g)
		for x := range w {
			if w[x] != g[x] {
				mismatch = true
			}
		}
		i = j
	}
	if !mismatch {
		return ""
	}
	// classify
	in2 := map[string]bool{}
	for _, e := range in.refIndex(idx) {
		in2[e.pk] = true
	}
	worst, rank := "", map[string]int{"": 0, "other": 1, "prefix-related": 2, "aliased": 3}
	outside := false
	for _, pk := range got {
		if !in2[pk] {
			outside = true
			if c, _ := in.origin(idx, nil, pk); rank[c] > rank[worst] {
				worst = c
			}
		}
	}
	switch {
	case worst == "aliased" || strings.Contains(idx, "/"):
		return slashKey
	case worst == "prefix-related":
		return "result-is-" + originKey[worst]
	case outside:
		return "result-outside-index"
	}
	return "differs-from-reference"
}

func (in *inst) recordMismatch(pk string, gr *proto.GetResponse) string {
	r := in.recs[pk]
	if r == nil {
		return fmt.Sprintf("returned primary key %q which does not exist", pk)
	}
	if gr.Status != proto.Status_OK || gr.Version == nil {
		return fmt.Sprintf("record %q came back with status %v", pk, gr.Status)
	}
	if string(gr.Value) != r.val || gr.Version.VersionId != r.ver || gr.Version.ModificationsCount != r.mod {
		return fmt.Sprintf("record %q came back as (val=%q ver=%d mod=%d), model (val=%q ver=%d mod=%d)", pk, gr.Value,
			gr.Version.VersionId, gr.Version.ModificationsCount, r.val, r.ver, r.mod)
	}
	return ""
}

func refGet(ref []idxEntry, k string, ct proto.KeyComparisonType) (string, bool) {
	// ref is sorted by sk
	best, found := "", false
	for _, e := range ref {
		c := slashCmp(e.sk, k)
		switch ct {
		case proto.KeyComparisonType_EQUAL:
			if c == 0 {
				return e.sk, true
			}
		case proto.KeyComparisonType_FLOOR:
			if c <= 0 {
				best, found = e.sk, true
			}
		case proto.KeyComparisonType_LOWER:
			if c < 0 {
				best, found = e.sk, true
			}
		case proto.KeyComparisonType_CEILING:
			if c >= 0 && !found {
				best, found = e.sk, true
			}
		case proto.KeyComparisonType_HIGHER:
			if c > 0 && !found {
				best, found = e.sk, true
			}
		}
	}
	return best, found
}

func (in *inst) checkGet(idx string, ref []idxEntry, g *proto.GetRequest, gr *proto.GetResponse) {
	ct := g.ComparisonType
	wantSk, wantFound := refGet(ref, g.Key, ct)
	if len(ref) > 0 {
		nGetNonTrivial.Add(1)
		if slashCmp(g.Key, ref[0].sk) < 0 || slashCmp(g.Key, ref[len(ref)-1].sk) > 0 {
			nEdgeGets.Add(1)
		}
	}
	desc := fmt.Sprintf("Get(index=%s,%s %q)", idx, ct, g.Key)
	refs := fmt.Sprintf("index %s=%v", idx, ref)
	if strings.Contains(idx, "/") {
		in.checkGetSlashName(idx, ref, g, gr, desc, refs)
		return
	}
	if gr.Status == proto.Status_KEY_NOT_FOUND {
		if wantFound {
			in.softViol(fmt.Sprintf("get:%s:entry-not-found", ct), fmt.Sprintf("%s = not found, reference secondary key %q; %s", desc, wantSk, refs))
		}
		return
	}
	if gr.Status != proto.Status_OK || gr.Key == nil || gr.SecondaryIndexKey == nil {
		in.softViol("get:malformed-response", fmt.Sprintf("%s = status %v key=%v sk=%v", desc, gr.Status, gr.Key, gr.SecondaryIndexKey))
		return
	}
	gotPk, gotSk := *gr.Key, *gr.SecondaryIndexKey
	inIdx := false
	for _, e := range ref {
		if e.sk == gotSk && e.pk == gotPk {
			inIdx = true
		}
	}
	if inIdx && wantFound && gotSk == wantSk {
		if m := in.recordMismatch(gotPk, gr); m != "" {
			in.softViol("get:record-mismatch", desc+": "+m)
		}
		return
	}
	// wrong answer: say where it came from
	switch class, f := in.origin(idx, &gotSk, gotPk); {
	case inIdx:
		// an entry of the queried index, but not the one the reference gives
		in.softViol(fmt.Sprintf("get:%s:wrong-entry", ct), fmt.Sprintf("%s = (sk=%q, pk=%q), reference %s; %s", desc, gotSk, gotPk, wantStr(wantSk, wantFound), refs))
	case class == "aliased":
		in.softViol(fmt.Sprintf("get:%s:%s", ct, slashKey),
			fmt.Sprintf("%s = (sk=%q, pk=%q): the raw key of that record's entry in index %q reads as an entry of index %q too; reference %s; %s; index %s=%v", desc, gotSk, gotPk, f, idx, wantStr(wantSk, wantFound), refs, f, in.refIndex(f)))
	case class != "":
		in.softViol(fmt.Sprintf("get:%s:answers-with-%s", ct, originKey[class]),
			fmt.Sprintf("%s = (sk=%q, pk=%q) which is an entry of index %q, reference %s; %s; index %s=%v", desc, gotSk, gotPk, f, wantStr(wantSk, wantFound), refs, f, in.refIndex(f)))
	default:
		in.softViol(fmt.Sprintf("get:%s:returns-nonexistent-entry", ct), fmt.Sprintf("%s = (sk=%q, pk=%q) which no live record declares, reference %s; %s", desc, gotSk, gotPk, wantStr(wantSk, wantFound), refs))
	}
}

// checkGetSlashName: the same oracle for a queried index whose name contains '/'; every disagreement is one class.
func (in *inst) checkGetSlashName(idx string, ref []idxEntry, g *proto.GetRequest, gr *proto.GetResponse, desc, refs string) {
	wantSk, wantFound := refGet(ref, g.Key, g.ComparisonType)
	got := "not found"
	ok := !wantFound
	if gr.Status != proto.Status_KEY_NOT_FOUND {
		if gr.Status != proto.Status_OK || gr.Key == nil || gr.SecondaryIndexKey == nil {
			got, ok = fmt.Sprintf("status %v key=%v sk=%v", gr.Status, gr.Key, gr.SecondaryIndexKey), false
		} else {
			got, ok = fmt.Sprintf("(sk=%q, pk=%q)", *gr.SecondaryIndexKey, *gr.Key), false
			for _, e := range ref {
				if wantFound && e.sk == wantSk && e.sk == *gr.SecondaryIndexKey && e.pk == *gr.Key && in.recordMismatch(e.pk, gr) == "" {
					ok = true
				}
			}
		}
	}
	if !ok {
		in.softViol(fmt.Sprintf("get:%s:%s", g.ComparisonType, slashKey), fmt.Sprintf("%s = %s, reference %s; %s", desc, got, wantStr(wantSk, wantFound), refs))
	}
}

func wantStr(sk string, found bool) string {
	if !found {
		return "not found"
	}
	return fmt.Sprintf("secondary key %q", sk)
}

// ---------------------------------------------------------------------------------------------

func (in *inst) Key() string {
	var b strings.Builder
	for _, pk := range in.cfg.pks {
		if r := in.recs[pk]; r != nil {
			fmt.Fprintf(&b, "%s:%v:%v|", pk, r.set, r.sess >= 0)
		}
	}
	fmt.Fprintf(&b, "sess=%v n=%d|", in.sess >= 0, in.nsess)
	for _, k := range in.raw {
		b.WriteString(k)
		b.WriteByte(0)
	}
	return b.String()
}

func spec(cfg *config, depth int, deadline time.Time) seqx.Spec {
	return seqx.Spec{Name: "secidx-seq", Config: cfg.name, NOps: len(cfg.ops), OpName: func(i int) string { return cfg.ops[i].name },
		New: func(w int) seqx.Instance { return newInst(cfg, w) }, MaxDepth: depth, Deadline: deadline, MaxViolations: 1 << 30}
}

func main() {
	replay := flag.String("replay", "", "replay file")
	flag.Parse()
	oxh.Quiet()
	scratch = ev.Scratch("c15")
	defer os.RemoveAll(scratch)
	if *replay != "" {
		thoroughTier = true
		code := doReplay(*replay)
		_ = os.RemoveAll(scratch)
		os.Exit(code)
	}
	run := ev.NewRun("C15", "model_checking")
	cfgs := configs(run.Tier)
	thoroughTier = run.Tier == "thorough"
	budget, perConfig := 58*time.Second, 32*time.Second
	if run.Tier == "thorough" {
		budget, perConfig = 18*time.Minute, 6*time.Minute
	}
	deadline := time.Now().Add(budget)
	var depths []string
	for i := range cfgs {
		cfg := &cfgs[i]
		if f := os.Getenv("VERIF_CONFIG"); f != "" {
			if !strings.Contains(cfg.name, f) {
				continue
			}
		} else if strings.HasSuffix(cfg.name, "all-sets-depth4") {
			continue
		}
		t0 := time.Now()
		if d := os.Getenv("VERIF_DEPTH"); d != "" {
			fmt.Sscanf(d, "%d", &cfg.depth)
		}
		dl := deadline
		if cap := time.Now().Add(perConfig); cap.Before(dl) && os.Getenv("VERIF_CONFIG") == "" {
			dl = cap
		}
		sp := spec(cfg, cfg.depth, dl)
		res := seqx.Explore(sp)
		seqx.Report(run, sp, res)
		run.Add("distinct_states", res.States)
		depths = append(depths, fmt.Sprintf("%s: %d ops, depth %d, %d states, %d transitions, %.0fs", cfg.name, len(cfg.ops), cfg.depth, res.States, res.Transitions, time.Since(t0).Seconds()))
		fmt.Println(depths[len(depths)-1])
	}
	for _, k := range sortedKeys(soft.first) {
		v := soft.first[k]
		v.Message = fmt.Sprintf("%s [seen in %d distinct DB contents]", v.Message, soft.count[k])
		run.Violate(v)
	}
	run.Add("raw_index_checks", nRawChecks.Load())
	run.Add("query_states", nQueryStates.Load())
	run.Add("delete_range_apply_errors_out_of_scope", nOutOfScopeErr.Load())
	run.Add("list_queries", nListQ.Load())
	run.Add("range_scan_queries", nScanQ.Load())
	run.Add("get_queries", nGetQ.Load())
	run.Add("get_queries_on_nonempty_index", nGetNonTrivial.Load())
	run.Add("get_queries_outside_index_bounds", nEdgeGets.Load())
	run.Coverage["configs"] = depths
	run.Coverage["probe_keys"] = stdProbes
	names := map[string][]string{}
	for i := range cfgs {
		names[cfgs[i].name] = cfgs[i].indexes
	}
	run.Coverage["index_names_queried"] = names
	o := cfgs[0].ops
	run.Sample(map[string]any{"config": cfgs[0].name, "ops": []string{o[1].name, o[len(o)/3+7].name, o[len(o)-4].name}})
	run.Sample(map[string]any{"query": "Get(index=i, CEILING \"c\") with index i={a:p} and index i-={a:p/q} (the next key after the last entry of i belongs to an index whose name extends \"i\")", "reference": "not found"})
	run.Sample(map[string]any{"query": "Get(index=j, FLOOR \"0\") with index i={a:p} and j={b:q}", "reference": "not found"})
	run.Sample(map[string]any{"query": "List(index=i, [\"a\",\"a/c\")) with i={a:p, a/b:q, b:p/q}", "reference": []string{"p", "p/q", "q"}})
	run.Assume = []string{"single shard, RF=1 leader (no followers); in-memory Pebble, WAL on /dev/shm",
		"among entries with the same secondary key the property does not fix an order or which one a get returns: any is accepted",
		"query results are a deterministic function of the key names stored in the DB and the index declarations of the records; a DB content with the same key names and declarations is query-checked once (the raw index comparison runs after every step of every history)",
		"a delete-range that spans internal keys fails to apply while notifications are enabled (a stored notification batch does not parse as a record): the failed write is left to C13, the state must still satisfy both oracles"}
	run.DistinctN(run.Get("distinct_states"))
	_ = os.RemoveAll(scratch)
	os.Exit(run.Finish("index-names / slash-names configurations: BFS over Put(pk, one or two entries in any index of a universe of index names that are prefixes / extensions / byte-order neighbours of one another, or contain '/') and Delete, every index name of the universe queried; other configurations  over all write histories up to the depth from the alphabet {put pk with an index-entry set, delete pk, 4 range deletes (one spanning internal keys), create/close session, ephemeral indexed put}; after every step the raw __oxia/idx keys and the stored records are compared with the model and, once per distinct DB content, List+RangeScan over all probe (start,end) pairs and Get x 5 comparison types x probe keys are compared with a sorted reference, for every index name of the configuration; a state is distinct when records, declarations, ephemeral flags, session state or raw index keys differ"))
}

func sortedKeys(m map[string]ev.Violation) []string {
	var ks []string
	for k := range m {
		ks = append(ks, k)
	}
	sort.Strings(ks)
	return ks
}

func doReplay(path string) int {
	var doc struct {
		First struct {
			Key    string `json:"key"`
			Replay struct {
				Config  string `json:"config"`
				Indices []int  `json:"indices"`
			} `json:"replay"`
		} `json:"first"`
	}
	if err := ev.ReadJSON(path, &doc); err != nil {
		fmt.Println("cannot read replay:", err)
		return 2
	}
	for _, cfg := range append(configs("quick"), configs("thorough")...) {
		if cfg.name != doc.First.Replay.Config {
			continue
		}
		cfg := cfg
		v := seqx.Replay(spec(&cfg, 0, time.Time{}), doc.First.Replay.Indices)
		if v != nil {
			fmt.Printf("VIOLATION property=C15 replay=%s\n  %s: %s\n", path, v.Key, v.Message)
			return 1
		}
		if sv, ok := soft.first[doc.First.Key]; ok {
			fmt.Printf("VIOLATION property=C15 replay=%s\n  %s: %s\n", path, sv.Key, sv.Message)
			return 1
		}
		if len(soft.first) > 0 {
			for _, k := range sortedKeys(soft.first) {
				fmt.Printf("VIOLATION property=C15 replay=%s\n  %s: %s\n", path, k, soft.first[k].Message)
			}
			return 1
		}
		fmt.Println("replay passed")
		return 0
	}
	fmt.Println("config not found:", doc.First.Replay.Config)
	return 2
}
