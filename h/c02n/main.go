// C02, protocol-event stage: version ids only grow, reads on a leader return the acknowledged state, a node that does not lead takes no write, for every sequence of node protocol events up to a depth (lib/nfsm).
package main

import (
	"os"

	"verif/lib/nfsm"
)

func main() {
	os.Exit(nfsm.Main("C02", map[string]bool{"version-id-not-increasing": true, "acked-write-lost": true, "write-accepted-by-non-leader": true, "harness-setup": true, "panic": true}))
}
