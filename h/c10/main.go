// C10: WAL recovery after crash or corruption yields a clean prefix or an error.
// E3a fault enumeration: a short history is run on the real WAL, then every crash image (durable
// image + any subset of dirty pages / any byte-prefix of the unsynced tail, optional index files
// and directory entries) and every single-field corruption of a cleanly written image is reopened
// with the real recovery code and read back completely.
//
// The parent process only plans jobs (one per base history) and merges results; every job runs in
// a child process of the same binary (failed opens leak the segment mapping + fd inside the WAL
// code, and mmap/munmap serialise on the per-process mm lock).
package main

import (
	"bytes"
	"context"
	"encoding/binary"
	"encoding/json"
	"flag"
	"fmt"
	"hash/fnv"
	"os"
	"os/exec"
	"path/filepath"
	"regexp"
	"runtime"
	"runtime/debug"
	"runtime/pprof"
	"sort"
	"strings"
	"sync"
	"syscall"
	"time"

	pb "google.golang.org/protobuf/proto"

	time2 "github.com/oxia-db/oxia/common/time"
	"github.com/oxia-db/oxia/proto"
	"github.com/oxia-db/oxia/server"
	"github.com/oxia-db/oxia/server/wal"
	"github.com/oxia-db/oxia/server/wal/codec"

	"verif/lib/ev"
	"verif/lib/oxh"
)

const (
	wns      = "ns"
	wshard   = 1
	pageSize = 4096
)

// ---------------------------------------------------------------------------------------------
// job description

type Hist struct {
	Mode    string `json:"mode"`    // crash | corrupt
	Codec   string `json:"codec"`   // v2 | v1
	Profile string `json:"profile"` // small | large
	Cap     int    `json:"cap"`     // records per segment
	K       int    `json:"k"`       // synced appends
	M       int    `json:"m"`       // un-synced appends (crash mode)
	Sync    string `json:"sync"`    // each (Append = AppendAsync+Sync per entry) | batch (k x AppendAsync, one Sync)
	Full256 bool   `json:"full256"` // corrupt mode: all 256 values for header and index bytes
	// v1 only: a length field >= 0xFFFFFFFC makes the v1 code allocate (and zero) a 4 GiB buffer or loop
	// forever (2.4 s / >1 GiB per evaluation). HeavyFull=false: lengths {0xFFFFFFFC, 0xFFFFFFFF} with the nil
	// provider only; true: all four lengths with providers {nil, -1} (v1 recovery ignores the commit offset).
	HeavyFull bool `json:"heavyFull,omitempty"`
	// runs mode: run starts at every byte offset (thorough) instead of record/payload starts, +-1 and every 8th offset
	AllOffsets bool `json:"allOffsets,omitempty"`
	Part       int  `json:"part,omitempty"` // corrupt mode: evaluate images with index % Parts == Part
	Parts      int  `json:"parts,omitempty"`
	// mixed mode (mixed.go): Cap = number of large records per segment; one letter per entry, S = small value,
	// L = large value; empty = every one of the 2^(K+M) size vectors (a job part takes vectors with index % Parts == Part)
	Sizes string `json:"sizes,omitempty"`
}

// cleanLog: the base image is a cleanly closed log of K synced entries (single-field and run corruption)
func (h Hist) cleanLog() bool { return h.Mode == "corrupt" || h.Mode == "runs" }

func (h Hist) ID() string {
	if h.Mode == "ctrl" {
		return fmt.Sprintf("ctrl/v2/seg%d/k%d", h.Cap, h.K)
	}
	if h.Mode == "mixed" {
		s := fmt.Sprintf("mixed/%s/capL%d/k%dm%d", h.Codec, h.Cap, h.K, h.M)
		if h.Sizes != "" {
			s += "/" + h.Sizes
		}
		if h.Parts > 1 {
			s += fmt.Sprintf("/part%d", h.Part)
		}
		return s
	}
	s := fmt.Sprintf("%s/%s/%s/cap%d/k%d", h.Mode, h.Codec, h.Profile, h.Cap, h.K)
	if h.Mode == "crash" {
		s += fmt.Sprintf("m%d/%s", h.M, h.Sync)
	} else if h.Full256 {
		s += "/full256"
	}
	if h.Mode == "runs" && h.AllOffsets {
		s += "/all-offsets"
	}
	if h.Mode == "runs" && h.Profile == "large" && !h.AllOffsets {
		s += "/boundaries"
	}
	if h.Parts > 1 {
		s += fmt.Sprintf("/part%d", h.Part)
	}
	return s
}

type Job struct {
	Hist     Hist   `json:"hist"`
	Only     string `json:"only,omitempty"`     // replay: evaluate only this image descriptor
	OnlyProv string `json:"onlyProv,omitempty"` // replay: and only this provider
	Deadline int64  `json:"deadline"`           // unix seconds, 0 = none
	StartAt  int64  `json:"startAt,omitempty"`  // resume: skip evaluations with a lower index (already done by a child that had to exit)
	Verbose  bool   `json:"verbose,omitempty"`
}

type JobResult struct {
	ID          string           `json:"id"`
	Evaluations int64            `json:"evaluations"`
	Images      int64            `json:"images"`
	Counters    map[string]int64 `json:"counters"`
	Violations  []ev.Violation   `json:"violations"`
	ViolCounts  map[string]int64 `json:"violCounts"`
	Samples     []any            `json:"samples"`
	Exhaustive  bool             `json:"exhaustive"`
	Infra       string           `json:"infra,omitempty"`
	WallMs      int64            `json:"wallMs"`
	ResumeAt    int64            `json:"resumeAt,omitempty"` // the child left after a non-terminating evaluation; run again from this index
}

// ---------------------------------------------------------------------------------------------
// entries

func tsOf(off int64) uint64 { return uint64(1_700_000_000_000 + 1000*off) }

func valueOf(off int64, size int) []byte {
	b := []byte(fmt.Sprintf("o%d.", off))
	for len(b) < size {
		b = append(b, byte('a'+(len(b)+int(off))%26))
	}
	return b[:size]
}

func entryOf(off int64, size int) *proto.LogEntry {
	return &proto.LogEntry{Term: 1 + off/2, Offset: off, Value: valueOf(off, size), Timestamp: tsOf(off)}
}

func sameEntry(a, b *proto.LogEntry) bool {
	return a.Term == b.Term && a.Offset == b.Offset && a.Timestamp == b.Timestamp && bytes.Equal(a.Value, b.Value)
}

func renderEntry(e *proto.LogEntry) string {
	v := e.Value
	if len(v) > 24 {
		v = v[:24]
	}
	return fmt.Sprintf("(off=%d term=%d ts=%d len=%d val=%q)", e.Offset, e.Term, e.Timestamp, len(e.Value), v)
}

// ---------------------------------------------------------------------------------------------
// base history

type recInfo struct {
	off  int64 // entry offset
	pos  int   // file position of the record header
	plen int   // payload length
}

type segInfo struct {
	base    int64
	txn     string // file name
	idx     string
	recs    []recInfo
	closed  bool // rolled over (index file written by the WAL)
	flushed bool // an msync through ReadWriteSegment.Flush was observed
}

type base struct {
	h          Hist
	n          int
	entries    []*proto.LogEntry
	payloads   [][]byte
	hdr        int
	rs         int // record size
	segSize    int
	lastSynced int64
	ext, iext  string
	segs       []*segInfo
	cur        map[string][]byte // files as they are at the crash instant / after the clean close
	dur        map[string][]byte // txn files as of their last msync (zero file when never msynced)
	optional   map[string]bool   // txn files never msynced: directory entry optional
}

type cprov struct{ v int64 }

func (c cprov) CommitOffset() int64 { return c.v }

var scratch string

func walDir(root string) string {
	return filepath.Join(root, wns, fmt.Sprint("shard-", wshard))
}

func openWal(root string, segSize int, p wal.CommitOffsetProvider) (wal.Wal, error) {
	return wal.VerifNewWal(wns, wshard, &wal.FactoryOptions{BaseWalDir: root, Retention: time.Hour,
		SegmentSize: int32(segSize), SyncData: true}, p, &time2.MockedClock{}, time.Hour)
}

func infra(format string, a ...any) {
	panic("INFRA: " + fmt.Sprintf(format, a...))
}

func runHistory(h Hist) *base {
	b := &base{h: h, cur: map[string][]byte{}, dur: map[string][]byte{}, optional: map[string]bool{}}
	vsize := 6
	if h.Profile == "large" {
		vsize = 3000
	}
	b.n = h.K + h.M
	if h.cleanLog() {
		b.n = h.K
	}
	ci := 0
	if h.Codec == "v1" {
		ci = 1
	}
	cd := codec.SupportedCodecs[ci]
	b.hdr = int(cd.GetHeaderSize())
	b.ext, b.iext = cd.GetTxnExtension(), cd.GetIdxExtension()
	// proto3 omits zero fields (offset 0): pad the value so that every record has the same size
	t1, _ := pb.Marshal(entryOf(1, vsize))
	b.rs = b.hdr + len(t1)
	for i := 0; i < b.n; i++ {
		e := entryOf(int64(i), vsize)
		p, err := pb.Marshal(e)
		if err != nil {
			infra("marshal: %v", err)
		}
		if d := len(t1) - len(p); d != 0 {
			e = entryOf(int64(i), vsize+d)
			p, _ = pb.Marshal(e)
		}
		if b.rs != b.hdr+len(p) {
			infra("record sizes differ")
		}
		b.entries = append(b.entries, e)
		b.payloads = append(b.payloads, p)
	}
	b.segSize = h.Cap*b.rs + 3
	b.lastSynced = int64(h.K) - 1

	root := filepath.Join(scratch, "base")
	_ = os.RemoveAll(root)
	dir := walDir(root)
	// v1 segments: codec.GetOrCreate picks the codec from the extension of an existing segment file,
	// so a zero-filled `<base>.txn` (exactly what newReadWriteSegment+initFileWithZeroes would have
	// produced for a new segment under the v1 code) is put in place right before the WAL needs it.
	precreate := func(baseOff int) {
		if h.Codec != "v1" {
			return
		}
		if err := os.MkdirAll(dir, 0o755); err != nil {
			infra("mkdir: %v", err)
		}
		if err := os.WriteFile(filepath.Join(dir, fmt.Sprintf("%d%s", baseOff, b.ext)), make([]byte, b.segSize+1), 0o644); err != nil {
			infra("precreate: %v", err)
		}
	}
	precreate(0)
	w, err := openWal(root, b.segSize, cprov{-1})
	if err != nil {
		infra("open for history: %v", err)
	}
	flushed := map[int64]bool{}
	hook := func(baseOff int64) {
		name := fmt.Sprintf("%d%s", baseOff, b.ext)
		c, err := os.ReadFile(filepath.Join(dir, name))
		if err != nil {
			infra("flush hook: %v", err)
		}
		b.dur[name] = c
		flushed[baseOff] = true
	}
	wal.VerifC10WrapCurrent(w, hook)
	for i := 0; i < b.n; i++ {
		if i > 0 && i%h.Cap == 0 {
			precreate(i) // this append rolls over
		}
		if err := w.AppendAsync(b.entries[i]); err != nil {
			infra("append %d: %v", i, err)
		}
		wal.VerifC10WrapCurrent(w, hook)
		synced := i < h.K
		if synced && (h.Sync == "each" || i == h.K-1) {
			if err := w.Sync(bgCtx); err != nil {
				infra("sync: %v", err)
			}
			if w.LastOffset() != int64(i) {
				infra("LastOffset %d after sync of %d", w.LastOffset(), i)
			}
		}
	}
	if w.LastOffset() != b.lastSynced {
		infra("LastOffset %d, expected %d", w.LastOffset(), b.lastSynced)
	}
	if h.cleanLog() {
		if err := w.Close(); err != nil {
			infra("close: %v", err)
		}
		w = nil
	}
	des, err := os.ReadDir(dir)
	if err != nil {
		infra("readdir: %v", err)
	}
	for _, de := range des {
		c, err := os.ReadFile(filepath.Join(dir, de.Name()))
		if err != nil {
			infra("read: %v", err)
		}
		b.cur[de.Name()] = c
	}
	if w != nil {
		_ = w.Close()
	}
	_ = os.RemoveAll(root)

	// layout
	nseg := (b.n + h.Cap - 1) / h.Cap
	if nseg == 0 {
		nseg = 1
	}
	for s := 0; s < nseg; s++ {
		si := &segInfo{base: int64(s * h.Cap)}
		si.txn = fmt.Sprintf("%d%s", si.base, b.ext)
		si.idx = fmt.Sprintf("%d%s", si.base, b.iext)
		si.flushed = flushed[si.base]
		si.closed = s < nseg-1 || h.cleanLog()
		for i := s * h.Cap; i < b.n && i < (s+1)*h.Cap; i++ {
			si.recs = append(si.recs, recInfo{off: int64(i), pos: (i - s*h.Cap) * b.rs, plen: len(b.payloads[i])})
		}
		c, ok := b.cur[si.txn]
		if !ok || len(c) != b.segSize+1 {
			infra("segment file %s missing or wrong size (%d) in %v", si.txn, len(c), keys(b.cur))
		}
		for _, r := range si.recs {
			if int(binary.BigEndian.Uint32(c[r.pos:])) != r.plen || !bytes.Equal(c[r.pos+b.hdr:r.pos+b.hdr+r.plen], b.payloads[r.off]) {
				infra("layout mismatch in %s at %d", si.txn, r.pos)
			}
		}
		if _, ok := b.cur[si.idx]; ok != si.closed {
			infra("index file %s present=%v, closed=%v", si.idx, ok, si.closed)
		}
		if h.Mode == "crash" {
			if !si.flushed {
				b.dur[si.txn] = make([]byte, len(c))
				b.optional[si.txn] = true
			}
		}
		b.segs = append(b.segs, si)
	}
	ntxn := 0
	for name := range b.cur {
		if strings.HasSuffix(name, b.ext) {
			ntxn++
		}
	}
	if ntxn != nseg {
		infra("unexpected segment files %v", keys(b.cur))
	}
	return b
}

func keys(m map[string][]byte) []string {
	var o []string
	for k := range m {
		o = append(o, k)
	}
	sort.Strings(o)
	return o
}

// ---------------------------------------------------------------------------------------------
// images

type image struct {
	desc   string
	files  map[string][]byte // nil value = absent
	kind   string            // crash | corrupt
	region string            // corrupt: header | length | payload | free | idx | idx-trunc | idx-extend
	entry  int64             // corrupt: damaged entry offset (n for free space, -1 for index damage)
	closed bool              // corrupt: the damaged file belongs to a closed (read-only) segment
	zeroed bool              // corrupt: the record's length field reads 0 after the damage
	// crash: which never-synced artefacts of a rollover are incomplete in this image
	closedTailMissing bool   // a closed (rolled-over) segment lacks bytes it had when it was closed, or its file is absent
	idxBad            bool   // the index file of a closed segment is absent or short
	idxShort          bool   // ... short (a prefix)
	idxAbsent         bool   // ... absent
	v1class           string // runs: which v1 structure the changed bytes touch first (header | payload | free)
	zeroToEnd         bool   // runs: after the damage nothing but zeros from the first damaged record to the end of the segment
	heavy             bool   // v1 length field >= 0xFFFFFFFC (4 GiB allocation / endless loop): see Hist.HeavyFull
}

func cloneFiles(m map[string][]byte) map[string][]byte {
	o := make(map[string][]byte, len(m))
	for k, v := range m {
		o[k] = v
	}
	return o
}

func imageHash(files map[string][]byte) uint64 {
	h := fnv.New64a()
	ks := keys(files)
	for _, k := range ks {
		v := files[k]
		if v == nil {
			continue
		}
		h.Write([]byte(k))
		var l [4]byte
		binary.BigEndian.PutUint32(l[:], uint32(len(v)))
		h.Write(l[:])
		h.Write(v)
	}
	return h.Sum64()
}

// ---------------------------------------------------------------------------------------------
// observation

type panicInfo struct {
	phase string
	msg   string
	fn    string
}

const (
	stOK = iota
	stErr
	stMismatch
)

type obs struct {
	pan      *panicInfo
	openErr  error
	first    int64
	last     int64
	lo       int64
	st       []int    // per offset lo..last
	errs     []string // per offset
	mismatch string
	fwdN     int
	fwdErr   string
	revN     int
	revErr   string
	gen2Ran  bool
	gen2     string // second generation (the node goes on after this recovery): what went wrong, "" = nothing
}

func topOxiaFrame() string {
	pcs := make([]uintptr, 64)
	n := runtime.Callers(3, pcs)
	frames := runtime.CallersFrames(pcs[:n])
	var fs []string
	for {
		fr, more := frames.Next()
		if strings.Contains(fr.Function, "github.com/oxia-db/oxia/") && !strings.Contains(fr.Function, "Verif") {
			f := fr.Function
			f = strings.TrimPrefix(f, "github.com/oxia-db/oxia/server/")
			f = strings.TrimPrefix(f, "github.com/oxia-db/oxia/")
			f = strings.TrimPrefix(f, "wal/")
			fs = append(fs, f)
			if len(fs) == 2 {
				break
			}
		}
		if !more {
			break
		}
	}
	if len(fs) == 0 {
		return "?"
	}
	// the panicking function and, for the shared helpers, the callers that fed them
	if fs[0] == "codec.ReadInt" || fs[0] == "wal.fileOffset" {
		return strings.Join(fs, "<-")
	}
	return fs[0]
}

func callSafe(phase string, f func()) (p *panicInfo) {
	defer func() {
		if r := recover(); r != nil {
			msg := fmt.Sprint(r)
			if strings.HasPrefix(msg, "INFRA:") {
				panic(r)
			}
			p = &panicInfo{phase: phase, msg: msg, fn: topOxiaFrame()}
		}
	}()
	f()
	return nil
}

var evalCounter int

func (b *base) observe(root string, im *image, nilProv bool, commit int64) *obs {
	dir := walDir(root)
	_ = os.RemoveAll(dir)
	if err := os.MkdirAll(dir, 0o755); err != nil {
		infra("mkdir: %v", err)
	}
	for name, c := range im.files {
		if c == nil {
			continue
		}
		if err := os.WriteFile(filepath.Join(dir, name), c, 0o644); err != nil {
			infra("write: %v", err)
		}
	}
	o := &obs{first: -1, last: -1}
	var w wal.Wal
	var p wal.CommitOffsetProvider
	if !nilProv {
		p = cprov{commit}
	}
	o.pan = callSafe("open", func() { w, o.openErr = openWal(root, b.segSize, p) })
	if o.pan != nil || o.openErr != nil {
		return o
	}
	check := func(e *proto.LogEntry, off int64) string {
		if off < 0 || off >= int64(b.n) {
			return fmt.Sprintf("read of offset %d returned %s but only %d entries were ever appended", off, renderEntry(e), b.n)
		}
		if !sameEntry(e, b.entries[off]) {
			return fmt.Sprintf("read of offset %d returned %s, appended was %s", off, renderEntry(e), renderEntry(b.entries[off]))
		}
		return ""
	}
	o.pan = callSafe("read", func() {
		o.first, o.last = w.FirstOffset(), w.LastOffset()
		o.lo = o.first
		if o.lo < 0 {
			o.lo = 0
		}
		hi := o.last
		if hi > int64(b.n)+4 {
			hi = int64(b.n) + 4
		}
		for off := o.lo; off <= hi; off++ {
			st, es := stOK, ""
			r, err := w.NewReader(off - 1)
			switch {
			case err != nil:
				st, es = stErr, "NewReader: "+err.Error()
			case !r.HasNext():
				st, es = stErr, "HasNext false"
				_ = r.Close()
			default:
				e, err := r.ReadNext()
				_ = r.Close()
				if err != nil {
					st, es = stErr, err.Error()
				} else if s := check(e, off); s != "" {
					st, es = stMismatch, s
					if o.mismatch == "" {
						o.mismatch = s
					}
				}
			}
			o.st = append(o.st, st)
			o.errs = append(o.errs, es)
		}
		// one forward scan
		if r, err := w.NewReader(o.lo - 1); err != nil {
			o.fwdErr = "NewReader: " + err.Error()
		} else {
			next := o.lo
			for i := 0; r.HasNext() && i < b.n+8; i++ {
				e, err := r.ReadNext()
				if err != nil {
					o.fwdErr = err.Error()
					break
				}
				if s := check(e, next); s != "" && o.mismatch == "" {
					o.mismatch = "forward scan: " + s
				}
				next++
				o.fwdN++
			}
			_ = r.Close()
		}
		// one reverse scan
		if r, err := w.NewReverseReader(); err != nil {
			o.revErr = "NewReverseReader: " + err.Error()
		} else {
			next := o.last
			for i := 0; r.HasNext() && i < b.n+8; i++ {
				e, err := r.ReadNext()
				if err != nil {
					o.revErr = err.Error()
					break
				}
				if s := check(e, next); s != "" && o.mismatch == "" {
					o.mismatch = "reverse scan: " + s
				}
				next--
				o.revN++
			}
			_ = r.Close()
		}
	})
	if p2 := callSafe("close", func() { _ = w.Close() }); p2 != nil && o.pan == nil {
		o.pan = p2
	}
	if o.pan == nil && o.mismatch == "" && b.h.Codec != "v1" && o.last+1 < int64(b.n) && (o.last < 0 || o.first == 0) {
		b.secondGeneration(root, p, o)
	}
	return o
}

// secondGeneration: the recovery left out entries that had been appended (a torn or damaged uncommitted tail).
// The node goes on: it appends the next entry (as long as the one that stood at that offset, other content),
// syncs, closes, and starts again with the index file of the current segment not yet on disk (the state after a
// crash following the sync). The log must then end at the new entry: whatever lay behind the left-out record
// must not come back as entries nobody appended after it. v2 only (v1 records carry no checksum at all: the
// known v1 findings cover taking bytes after the tail at face value).
func (b *base) secondGeneration(root string, p wal.CommitOffsetProvider, o *obs) {
	o.gen2Ran = true
	next := o.last + 1
	old := b.entries[next]
	ne := &proto.LogEntry{Term: old.Term + 1, Offset: next, Value: bytes.Repeat([]byte{0xEE}, len(old.Value)), Timestamp: old.Timestamp}
	var w wal.Wal
	var err error
	pan := callSafe("second-generation", func() {
		if w, err = openWal(root, b.segSize, p); err != nil {
			o.gen2 = "open before the next append failed: " + err.Error()
			return
		}
		if err = w.Append(ne); err != nil {
			o.gen2 = fmt.Sprintf("append of offset %d after the recovery failed: %v", next, err)
			_ = w.Close()
			return
		}
		_ = w.Close()
		// the index of the segment that was being written is only written at close / roll-over
		names, _ := os.ReadDir(walDir(root))
		var maxBase int64 = -1
		for _, de := range names {
			var base int64
			if _, e := fmt.Sscanf(de.Name(), "%d.", &base); e == nil && base > maxBase {
				maxBase = base
			}
		}
		for _, de := range names {
			if strings.HasPrefix(de.Name(), fmt.Sprintf("%d.idx", maxBase)) {
				_ = os.Remove(filepath.Join(walDir(root), de.Name()))
			}
		}
		if w, err = openWal(root, b.segSize, p); err != nil {
			o.gen2 = fmt.Sprintf("open after the append of offset %d failed: %v", next, err)
			return
		}
		defer func() { _ = w.Close() }()
		if l := w.LastOffset(); l != next {
			o.gen2 = fmt.Sprintf("recovered last=%d, offset %d (term %d) appended and synced, restart: last=%d", o.last, next, ne.Term, l)
			if l > next {
				if r, e := w.NewReader(next); e == nil && r.HasNext() {
					if e2, e := r.ReadNext(); e == nil {
						o.gen2 += "; offset " + fmt.Sprint(next+1) + " reads " + renderEntry(e2) + ", which nobody appended after the new entry"
					}
					_ = r.Close()
				}
			}
			return
		}
		r, e := w.NewReader(next - 1)
		if e != nil {
			o.gen2 = "NewReader after restart: " + e.Error()
			return
		}
		defer func() { _ = r.Close() }()
		if !r.HasNext() {
			o.gen2 = fmt.Sprintf("offset %d appended and synced, not readable after restart", next)
			return
		}
		if got, e := r.ReadNext(); e != nil {
			o.gen2 = fmt.Sprintf("offset %d appended and synced, read after restart: %v", next, e)
		} else if !sameEntry(got, ne) {
			o.gen2 = fmt.Sprintf("offset %d appended %s, read after restart %s", next, renderEntry(ne), renderEntry(got))
		}
	})
	if pan != nil {
		o.gen2 = fmt.Sprintf("panic in %s (%s): %s", pan.phase, pan.fn, pan.msg)
	}
}

var reNum = regexp.MustCompile(`[0-9]+`)

func errClass(s string) string {
	s = strings.ReplaceAll(s, scratch, "")
	s = strings.ReplaceAll(s, "/eval/ns/shard-1/", "")
	s = strings.TrimPrefix(s, "failed to recover wal for shard ns / 1: ")
	s = reNum.ReplaceAllString(s, "N")
	parts := strings.Split(s, ": ")
	var keep []string
	for _, p := range parts {
		p = strings.TrimSpace(p)
		if p == "" || strings.HasPrefix(p, "open N.") || strings.HasPrefix(p, "expected ") {
			continue
		}
		// drop file names
		if i := strings.Index(p, " N."); i >= 0 {
			p = p[:i]
		}
		keep = append(keep, p)
	}
	if len(keep) > 3 {
		keep = append(keep[:2], keep[len(keep)-1])
	}
	s = strings.Join(keep, "|")
	if len(s) > 110 {
		s = s[:110]
	}
	return s
}

func (o *obs) summary() string {
	if o.pan != nil {
		return fmt.Sprintf("panic in %s (%s): %s", o.pan.phase, o.pan.fn, o.pan.msg)
	}
	if o.openErr != nil {
		return "open error: " + strings.ReplaceAll(o.openErr.Error(), scratch, "")
	}
	var sb strings.Builder
	fmt.Fprintf(&sb, "open ok first=%d last=%d reads[", o.first, o.last)
	for i, st := range o.st {
		switch st {
		case stOK:
			sb.WriteString("ok")
		case stErr:
			sb.WriteString("ERR(" + strings.ReplaceAll(o.errs[i], scratch, "") + ")")
		default:
			sb.WriteString("MISMATCH")
		}
		if i < len(o.st)-1 {
			sb.WriteString(",")
		}
	}
	fmt.Fprintf(&sb, "] fwd=%d", o.fwdN)
	if o.fwdErr != "" {
		sb.WriteString("(" + o.fwdErr + ")")
	}
	fmt.Fprintf(&sb, " rev=%d", o.revN)
	if o.revErr != "" {
		sb.WriteString("(" + o.revErr + ")")
	}
	return sb.String()
}

// ---------------------------------------------------------------------------------------------
// oracle

// judge returns a violation key ("" = property holds on this image) and a message, plus an
// outcome class used for the evidence counters.
func (b *base) judge(im *image, nilProv bool, commit int64, o *obs) (key, msg, outcome string) {
	key, msg, outcome = b.judge0(im, nilProv, commit, o)
	if key == "" && o.gen2 != "" {
		k := "second-generation:new-entry-not-kept:"
		if strings.Contains(o.gen2, "which nobody appended") {
			k = "second-generation:stale-entries-behind-the-new-tail:"
		}
		return k + b.h.Codec, o.gen2 + "; first generation: " + o.summary(), "stale-tail"
	}
	// v1 records and index files carry no checksum: every way in which damaged v1 bytes are taken at face
	// value in the *current* segment is one root cause per damaged structure (format limitation)
	if b.h.Codec == "v1" && im.kind == "corrupt" && key != "" && !strings.HasPrefix(key, "panic:") && !strings.HasPrefix(key, "hang:") &&
		!strings.HasPrefix(key, "uncommitted-damage-not-discarded:closed-segment") {
		switch {
		case isIdxRegion(im.region):
			key = "v1-index-damage-undetected"
		case im.region == "payload" || im.v1class == "payload":
			key = "v1-payload-damage-undetected"
		case im.region == "free" || im.v1class == "free":
			key = "v1-garbage-after-tail-accepted"
		default:
			key = "v1-header-damage-undetected"
		}
	}
	if b.h.Codec == "v1" && im.kind == "crash" && strings.HasPrefix(key, "crash:index-file-not-durable:") && im.idxShort {
		key = "v1-short-index-accepted" // a torn v1 index file (no checksum, no length) is taken at face value
	}
	return key, msg, outcome
}

func (b *base) judge0(im *image, nilProv bool, commit int64, o *obs) (key, msg, outcome string) {
	n := int64(b.n)
	cdc := b.h.Codec
	// (1) never panic
	if o.pan != nil {
		return "panic:" + o.pan.fn, o.summary(), "panic"
	}
	// (5) no returned entry differs from what was appended
	if o.mismatch != "" {
		if im.kind == "crash" {
			if cdc == "v1" {
				return "v1-torn-tail-accepted", o.mismatch, "mismatch"
			}
			return "crash:damaged-entry-returned-as-valid:" + cdc, o.mismatch, "mismatch"
		}
		if cdc == "v1" {
			switch im.region {
			case "payload":
				return "v1-payload-damage-undetected", o.mismatch, "mismatch"
			case "idx", "idx-trunc", "idx-extend":
				return "v1-index-damage-undetected", o.mismatch, "mismatch"
			default:
				return "v1-header-damage-undetected:" + im.region, o.mismatch, "mismatch"
			}
		}
		return "v2:damaged-entry-returned-as-valid:" + im.region, o.mismatch, "mismatch"
	}
	anyErr, firstErr, firstErrOff := false, "", int64(-1)
	for i, st := range o.st {
		if st == stErr {
			anyErr, firstErr, firstErrOff = true, o.errs[i], o.lo+int64(i)
			break
		}
	}
	if im.kind == "crash" {
		cause := "current-segment"
		switch {
		case im.closedTailMissing:
			cause = "closed-segment-not-durable"
		case im.idxBad:
			cause = "index-file-not-durable"
		}
		if o.openErr != nil {
			if nilProv {
				// no commit offset known to the WAL: every damage is an error by contract (offline tools only)
				return "", "", "nilprov-open-error"
			}
			k := "crash:" + cause + ":open-failed"
			if cause == "current-segment" {
				k += ":" + errClass(o.openErr.Error())
			}
			return k, o.summary(), "open-error"
		}
		if o.last > n-1 {
			return "crash:" + cause + ":phantom-entries", o.summary(), "phantom"
		}
		if o.last < b.lastSynced || (o.last >= 0 && o.first != 0 && b.lastSynced >= 0) {
			return "crash:" + cause + ":synced-entry-lost", fmt.Sprintf("synced up to %d, recovered first=%d last=%d; %s", b.lastSynced, o.first, o.last, o.summary()), "lost"
		}
		if o.last >= 0 && o.first != 0 {
			return "crash:" + cause + ":log-claims-entries-it-does-not-hold", fmt.Sprintf("recovered first=%d last=%d; %s", o.first, o.last, o.summary()), "phantom"
		}
		if anyErr {
			if cdc == "v1" && strings.HasPrefix(firstErr, "proto:") {
				return "v1-torn-tail-accepted", fmt.Sprintf("offset %d: %s", firstErrOff, o.summary()), "hole"
			}
			if nilProv {
				return "", "", "nilprov-read-error"
			}
			if firstErrOff <= b.lastSynced {
				return "crash:" + cause + ":synced-entry-lost", fmt.Sprintf("synced up to %d, offset %d unreadable; %s", b.lastSynced, firstErrOff, o.summary()), "lost"
			}
			k := "crash:" + cause + ":unreadable-entry-in-recovered-log"
			if cause == "current-segment" {
				k += ":" + errClass(firstErr)
			}
			return k, fmt.Sprintf("offset %d: %s", firstErrOff, o.summary()), "hole"
		}
		want := int(o.last - o.lo + 1)
		if o.last < 0 {
			want = 0
		}
		if o.fwdN != want || o.revN != want {
			return "crash:" + cause + ":reader-short", o.summary(), "reader-short"
		}
		return "", "", fmt.Sprintf("recovered-%d-of-%d-unsynced", o.last-b.lastSynced, b.h.M)
	}
	// corruption of a cleanly written image: all n entries are on disk
	if o.openErr == nil && o.last > n-1 {
		return "phantom-entries:" + cdc + ":" + im.region, o.summary(), "phantom"
	}
	if nilProv {
		// no commit offset is known to the WAL (offline tools): "committed" is undefined, so only the
		// unconditional clauses (no panic, no damaged/fabricated entry returned) apply
		switch {
		case o.openErr != nil:
			return "", "", "nilprov-open-error"
		case anyErr:
			return "", "", "nilprov-read-error"
		case o.last == n-1:
			return "", "", "nilprov-intact"
		default:
			return "", "", "nilprov-silently-truncated"
		}
	}
	c := commit
	if c > n-1 {
		c = n - 1
	}
	where := "current-segment"
	if im.closed {
		where = "closed-segment"
	}
	isIdx := strings.HasPrefix(im.region, "idx")
	e := im.entry
	if isIdx {
		e = n + 1 // index damage does not damage any entry
	}
	det := where + ":" + cdc + ":" + im.region
	if im.closed {
		// read-only segments have no discard logic at all: one root cause whatever the damage is
		det = where
	}
	dropDet := cdc + ":" + where + ":" + im.region
	if im.zeroed && im.zeroToEnd {
		// the damaged record and everything after it read as zeros: looks exactly like the end of the log
		dropDet = "zero-run-to-end-of-segment"
		if im.entry == 0 {
			// ... and nothing is left of the log at all: an empty segment 0, which is also what a new shard or a WAL
			// cleared after a snapshot looks like
			dropDet = "whole-log-zeroed"
		}
	} else if im.zeroed && strings.HasPrefix(im.region, "run-") {
		dropDet = "zero-length-record:" + im.region
	} else if im.zeroed {
		dropDet = "zero-length-record"
	} else if cdc == "v1" && !isIdxRegion(im.region) {
		dropDet = "v1-header-damage"
	}
	if o.openErr != nil {
		switch {
		case isIdx:
			return "", "", "idx-damage-open-error"
		case e <= c:
			return "", "", "committed-damage-open-error"
		default:
			return "uncommitted-damage-not-discarded:" + phaseIf(!im.closed, "open-error:") + det, fmt.Sprintf("damaged entry %d > commit offset %d; %s", im.entry, commit, o.summary()), "open-error"
		}
	}
	if n > 0 && (o.last < c || (c >= 0 && o.first != 0)) {
		return "committed-entries-silently-dropped:" + dropDet, fmt.Sprintf("commit offset %d (nil provider=%v), damaged entry %d, recovered first=%d last=%d without any error; %s", commit, nilProv, im.entry, o.first, o.last, o.summary()), "dropped"
	}
	if e > c && !isIdx {
		// the damage is in the uncommitted tail: discard, clean prefix
		if o.last < e-1 || (o.last >= 0 && o.first != 0) {
			return "uncommitted-damage-dropped-intact-entries:" + det, fmt.Sprintf("damaged entry %d, recovered last=%d; %s", im.entry, o.last, o.summary()), "over-dropped"
		}
		if anyErr {
			return "uncommitted-damage-not-discarded:" + phaseIf(!im.closed, "read-error:") + det, fmt.Sprintf("damaged entry %d > commit offset %d; offset %d: %s", im.entry, commit, firstErrOff, o.summary()), "read-error"
		}
		return "", "", "uncommitted-damage-discarded"
	}
	if isIdx {
		if anyErr {
			return "", "", "idx-damage-read-error"
		}
		if o.last == n-1 {
			return "", "", "idx-damage-repaired-or-ignored"
		}
		return "", "", "idx-damage-uncommitted-dropped"
	}
	// e <= c: an error must be reported at open or when e is read
	if o.last >= e && e >= o.lo {
		st := o.st[e-o.lo]
		if st == stErr {
			return "", "", "committed-damage-read-error"
		}
		return "", "", "committed-damage-harmless"
	}
	return "committed-entries-silently-dropped:" + dropDet, o.summary(), "dropped"
}

// lostWhere names the state of the segment holding the first missing synced entry.
func phaseIf(c bool, s string) string {
	if c {
		return s
	}
	return ""
}

func isIdxRegion(r string) bool { return strings.HasPrefix(r, "idx") }

func (b *base) lostWhere(o *obs) string {
	miss := o.last + 1
	if o.last >= 0 && o.first > 0 {
		miss = 0
	}
	if miss < 0 {
		miss = 0
	}
	for _, s := range b.segs {
		for _, r := range s.recs {
			if r.off == miss {
				switch {
				case s.closed && !s.flushed:
					return "closed-segment-never-flushed"
				case s.closed:
					return "closed-segment"
				case !s.flushed:
					return "current-segment-never-flushed"
				default:
					return "current-segment"
				}
			}
		}
	}
	return "?"
}

// ---------------------------------------------------------------------------------------------
// the per-job engine

type engine struct {
	b        *base
	job      Job
	res      *JobResult
	seen     map[uint64]bool
	root     string
	provs    []provSpec
	deadline time.Time
	stop     bool
	nviol    map[string]int
	evalIdx  int64
	inProc   int64
	imgIdx   int64
	timer    *time.Timer
}

type provSpec struct {
	nilp bool
	c    int64
}

func (p provSpec) String() string {
	if p.nilp {
		return "nil"
	}
	return fmt.Sprint(p.c)
}

func (en *engine) emit(im *image) {
	if en.stop {
		return
	}
	if en.job.Only != "" && en.job.Only != im.desc {
		return
	}
	if en.job.Hist.Parts > 1 && en.job.Only == "" { // a replay names its image: the partition does not matter
		en.imgIdx++
		if int(en.imgIdx)%en.job.Hist.Parts != en.job.Hist.Part {
			return
		}
	}
	hsh := imageHash(im.files)
	if en.seen[hsh] {
		if en.evalIdx >= en.job.StartAt {
			en.res.Counters["duplicate_images_skipped"]++
		}
		return
	}
	en.seen[hsh] = true
	if en.evalIdx >= en.job.StartAt {
		en.res.Images++
		en.res.Counters["images_"+im.kind]++
		if im.kind == "corrupt" {
			en.res.Counters["images_corrupt_"+im.region]++
		}
	}
	for _, p := range en.provs {
		if en.job.OnlyProv != "" && en.job.OnlyProv != p.String() {
			continue
		}
		if im.heavy && !(p.nilp || (en.job.Hist.HeavyFull && p.c == -1)) {
			continue
		}
		idx := en.evalIdx
		en.evalIdx++
		if idx < en.job.StartAt {
			continue // evaluated by an earlier child of the same job
		}
		if en.inProc++; en.inProc%256 == 0 && en.job.Only == "" && resourcesLow() {
			// failed opens leak the segment's fd and mapping inside the WAL code (no handle is returned that
			// could be closed): let a fresh child continue
			en.res.ResumeAt = idx
			en.res.Counters["child_restarts_for_leaked_fds_or_mappings"]++
			out, _ := json.Marshal(en.res)
			fmt.Println(string(out))
			_ = os.RemoveAll(scratch)
			os.Exit(0)
		}
		var release func()
		if im.heavy {
			release = acquireHeavySlot()
			en.res.Counters["heavy_evaluations"]++
		}
		o, stuck := en.observeGuarded(im, p)
		if stuck != "" {
			// recovery does not terminate (or allocates without bound): the goroutine cannot be stopped,
			// so report, tell the parent where to resume, and leave the process at once
			key := "hang:" + stuck
			en.res.Evaluations++
			en.res.Counters["outcome_hang"]++
			en.res.ViolCounts[key]++
			en.res.Violations = append(en.res.Violations, ev.Violation{Key: key, Harness: "c10",
				Message: fmt.Sprintf("[%s | %s | commit=%s] reopen/read did not return: heap grew beyond %d MiB or %v elapsed; stuck in %s", en.b.h.ID(), im.desc, p, hangHeapLimit>>20, hangTimeLimit, stuck),
				Replay:  map[string]any{"hist": en.b.h, "image": im.desc, "commit": p.String()}})
			en.res.ResumeAt = idx + 1
			out, _ := json.Marshal(en.res)
			fmt.Println(string(out))
			_ = os.RemoveAll(scratch)
			os.Exit(0)
		}
		if release != nil {
			debug.FreeOSMemory()
			release()
		} else if o.pan != nil && strings.HasSuffix(o.pan.fn, "ReadRecordWithValidation") {
			// a length field >= 0xFFFFFFFC makes the v1 reader allocate a 4 GiB payload buffer before it
			// panics; hand the (untouched) span back so that the next one is not zeroed page by page
			debug.FreeOSMemory()
		}
		en.res.Evaluations++
		key, msg, outcome := en.b.judge(im, p.nilp, p.c, o)
		en.res.Counters["outcome_"+outcome]++
		if o.gen2Ran {
			en.res.Counters["second_generation_append_and_restart"]++
		}
		if en.job.Verbose {
			fmt.Fprintf(os.Stderr, "%s | %s | commit=%s | %s | key=%q\n", en.b.h.ID(), im.desc, p, o.summary(), key)
		}
		if len(en.res.Samples) < 2 && (en.res.Evaluations%97 == 5 || en.job.Only != "") {
			en.res.Samples = append(en.res.Samples, map[string]any{"history": en.b.h.ID(), "image": im.desc, "commit": p.String(), "observed": o.summary(), "outcome": outcome})
		}
		if key != "" {
			en.res.ViolCounts[key]++
			if en.nviol[key] < 2 {
				en.nviol[key]++
				en.res.Violations = append(en.res.Violations, ev.Violation{Key: key, Harness: "c10", Message: fmt.Sprintf("[%s | %s | commit=%s] %s", en.b.h.ID(), im.desc, p, msg),
					Replay: map[string]any{"hist": en.b.h, "image": im.desc, "commit": p.String()}})
			}
		}
	}
	if en.res.Images%64 == 0 && !en.deadline.IsZero() && time.Now().After(en.deadline) {
		en.stop = true
		en.res.Exhaustive = false
	}
}

// resourcesLow reports that this process is getting close to the fd limit or the kernel's per-process
// mapping limit (vm.max_map_count, 65530 by default).
func resourcesLow() bool {
	fds, _ := os.ReadDir("/proc/self/fd")
	if len(fds) > 6000 {
		return true
	}
	maps, _ := os.ReadFile("/proc/self/maps")
	return bytes.Count(maps, []byte{'\n'}) > 30000
}

// acquireHeavySlot bounds the number of multi-GiB evaluations running at the same time on the machine
// (all children of all concurrently running C10 checks share the lock files).
func acquireHeavySlot() (release func()) {
	for {
		for i := 0; i < 3; i++ {
			f, err := os.OpenFile(fmt.Sprintf("/dev/shm/verif-c10-heavy-%d.lock", i), os.O_CREATE|os.O_RDWR, 0o666)
			if err != nil {
				infra("heavy slot: %v", err)
			}
			if syscall.Flock(int(f.Fd()), syscall.LOCK_EX|syscall.LOCK_NB) == nil {
				return func() { _ = syscall.Flock(int(f.Fd()), syscall.LOCK_UN); _ = f.Close() }
			}
			_ = f.Close()
		}
		time.Sleep(20 * time.Millisecond)
	}
}

const (
	hangHeapLimit = 1 << 30
	hangTimeLimit = 90 * time.Second
)

// observeGuarded runs observe in its own goroutine and watches it: an evaluation normally takes well
// under a millisecond; one that is still running after 200 ms is polled until it returns, the heap
// exceeds hangHeapLimit or hangTimeLimit elapses.
func (en *engine) observeGuarded(im *image, p provSpec) (*obs, string) {
	done := make(chan *obs, 1)
	go func() { done <- en.b.observe(en.root, im, p.nilp, p.c) }()
	if en.timer == nil {
		en.timer = time.NewTimer(200 * time.Millisecond)
	} else {
		en.timer.Reset(200 * time.Millisecond)
	}
	select {
	case o := <-done:
		if !en.timer.Stop() {
			select {
			case <-en.timer.C:
			default:
			}
		}
		return o, ""
	case <-en.timer.C:
	}
	start := time.Now()
	for {
		select {
		case o := <-done:
			return o, ""
		case <-time.After(50 * time.Millisecond):
		}
		var ms runtime.MemStats
		runtime.ReadMemStats(&ms)
		if time.Since(start) > hangTimeLimit {
			return nil, stuckFunction()
		}
		if ms.HeapAlloc > hangHeapLimit {
			// Index recovery of a segment of a few KiB that holds more than a GiB of heap is a loop that does
			// not advance. (Elsewhere a large heap is the single 4 GiB payload buffer that
			// ReadRecordWithValidation requests for a v1 length field >= 0xFFFFFFFC: slow to zero, but it ends
			// in a panic - keep waiting for that one.)
			if f := stuckFunction(); strings.HasSuffix(f, ".RecoverIndex") {
				return nil, f
			}
		}
	}
}

// stuckFunction names the innermost oxia function of the goroutine that is running observe.
func stuckFunction() string {
	buf := make([]byte, 1<<20)
	buf = buf[:runtime.Stack(buf, true)]
	for _, blk := range strings.Split(string(buf), "\n\n") {
		if !strings.Contains(blk, "main.(*base).observe") && !strings.Contains(blk, "main.(*mixedBase).observe") {
			continue
		}
		var fs []string
		for _, ln := range strings.Split(blk, "\n") {
			if strings.HasPrefix(ln, "github.com/oxia-db/oxia/") && !strings.Contains(ln, "Verif") {
				f := ln
				if i := strings.LastIndex(f, "("); i > 0 {
					f = f[:i]
				}
				f = strings.TrimPrefix(f, "github.com/oxia-db/oxia/server/")
				f = strings.TrimPrefix(f, "wal/")
				fs = append(fs, f)
			}
		}
		// the outermost function of package codec is the loop that does not end (the innermost frame is
		// whatever helper the sample happened to hit)
		for i := len(fs) - 1; i >= 0; i-- {
			if strings.HasPrefix(fs[i], "codec.") {
				return fs[i]
			}
		}
		if len(fs) > 0 {
			return fs[0]
		}
	}
	return "?"
}

// ----- crash images

type dirtyPage struct {
	file string
	page int
}

func (en *engine) crashImages() {
	b := en.b
	// providers: -1 .. lastSynced, and nil (relaxed oracle)
	for c := int64(-1); c <= b.lastSynced; c++ {
		en.provs = append(en.provs, provSpec{c: c})
	}
	en.provs = append(en.provs, provSpec{nilp: true})

	var txns []string
	for _, s := range b.segs {
		txns = append(txns, s.txn)
	}
	var closed []*segInfo
	for _, s := range b.segs {
		if s.closed {
			closed = append(closed, s)
		}
	}
	// index variants
	type idxVar struct {
		name string
		cut  int // -1 absent, else prefix length
	}
	smallSet := func(s *segInfo) []idxVar {
		l := len(b.cur[s.idx])
		return []idxVar{{"full", l}, {"absent", -1}, {"empty", 0}, {"half", l / 2}}
	}
	var idxCombos [][]idxVar
	if len(closed) <= 2 {
		combos := [][]idxVar{{}}
		for _, s := range closed {
			var next [][]idxVar
			for _, c := range combos {
				for _, v := range smallSet(s) {
					next = append(next, append(append([]idxVar{}, c...), v))
				}
			}
			combos = next
		}
		idxCombos = combos
	} else {
		// all segments the same variant, plus one segment deviating from all-full
		for vi := 0; vi < 4; vi++ {
			var c []idxVar
			for _, s := range closed {
				c = append(c, smallSet(s)[vi])
			}
			idxCombos = append(idxCombos, c)
		}
		for si := range closed {
			for vi := 1; vi < 4; vi++ {
				var c []idxVar
				for sj, s := range closed {
					if sj == si {
						c = append(c, smallSet(s)[vi])
					} else {
						c = append(c, smallSet(s)[0])
					}
				}
				idxCombos = append(idxCombos, c)
			}
		}
	}
	applyIdx := func(files map[string][]byte, combo []idxVar) string {
		var d []string
		for i, s := range closed {
			v := combo[i]
			if v.cut < 0 {
				files[s.idx] = nil
			} else {
				files[s.idx] = b.cur[s.idx][:v.cut]
			}
			if v.name != "full" {
				d = append(d, fmt.Sprintf("idx%d=%s", s.base, v.name))
			}
		}
		return strings.Join(d, ",")
	}
	// expand one txn state into index variants x optional-file absence
	expand := func(txn map[string][]byte, persisted map[string]bool, desc string, combos [][]idxVar) {
		var opt []string
		for _, f := range txns {
			if b.optional[f] && !persisted[f] {
				opt = append(opt, f)
			}
		}
		for mask := 0; mask < 1<<len(opt); mask++ {
			for _, combo := range combos {
				files := cloneFiles(txn)
				d := desc
				if s := applyIdx(files, combo); s != "" {
					d += ";" + s
				}
				var abs []string
				for i, f := range opt {
					if mask>>i&1 == 1 {
						files[f] = nil
						abs = append(abs, f)
					}
				}
				if len(abs) > 0 {
					d += ";absent=" + strings.Join(abs, "+")
				}
				im := &image{desc: d, files: files, kind: "crash"}
				for i, s := range closed {
					if files[s.txn] == nil || !bytes.Equal(files[s.txn], b.cur[s.txn]) {
						im.closedTailMissing = true
					}
					if combo[i].cut != len(b.cur[s.idx]) {
						im.idxBad = true
						if combo[i].cut >= 0 {
							im.idxShort = true
						} else {
							im.idxAbsent = true
						}
					}
				}
				en.emit(im)
			}
		}
	}
	fullCombo := [][]idxVar{idxCombos[0]}

	// A. every subset of dirty pages
	var dirty []dirtyPage
	for _, f := range txns {
		c, d := b.cur[f], b.dur[f]
		for p := 0; p*pageSize < len(c); p++ {
			lo, hi := p*pageSize, min((p+1)*pageSize, len(c))
			if !bytes.Equal(c[lo:hi], d[lo:hi]) {
				dirty = append(dirty, dirtyPage{f, p})
			}
		}
	}
	if len(dirty) > 8 {
		infra("too many dirty pages (%d) in %s", len(dirty), b.h.ID())
	}
	en.res.Counters["dirty_pages_max"] = int64(len(dirty))
	for mask := 0; mask < 1<<len(dirty); mask++ {
		txn := map[string][]byte{}
		persisted := map[string]bool{}
		for _, f := range txns {
			txn[f] = b.dur[f]
		}
		var sel []string
		for i, dp := range dirty {
			if mask>>i&1 == 1 {
				if !persisted[dp.file] {
					txn[dp.file] = append([]byte{}, b.dur[dp.file]...)
					persisted[dp.file] = true
				}
				lo, hi := dp.page*pageSize, min((dp.page+1)*pageSize, len(b.cur[dp.file]))
				copy(txn[dp.file][lo:hi], b.cur[dp.file][lo:hi])
				sel = append(sel, fmt.Sprintf("%s#%d", dp.file, dp.page))
			}
		}
		expand(txn, persisted, "crash:pages=["+strings.Join(sel, ",")+"]", idxCombos)
	}

	// B. torn write at every byte of the not-yet-durable records, in write order
	type bytePos struct {
		file string
		pos  int
	}
	var seq []bytePos
	var marks []int // interesting positions for the large profile
	for _, s := range b.segs {
		for _, r := range s.recs {
			if bytes.Equal(b.cur[s.txn][r.pos:r.pos+b.rs], b.dur[s.txn][r.pos:r.pos+b.rs]) {
				continue
			}
			st := len(seq)
			for i := 0; i < b.rs; i++ {
				seq = append(seq, bytePos{s.txn, r.pos + i})
				if (r.pos+i)%pageSize == 0 {
					marks = append(marks, st+i-1, st+i, st+i+1)
				}
			}
			marks = append(marks, st, st+1, st+3, st+4, st+b.hdr-1, st+b.hdr, st+b.hdr+1, st+b.hdr+2, st+b.rs/2, st+b.rs-1)
		}
	}
	var cuts []int
	if b.h.Profile == "small" {
		for t := 0; t <= len(seq); t++ {
			cuts = append(cuts, t)
		}
	} else {
		marks = append(marks, len(seq))
		sort.Ints(marks)
		for i, m := range marks {
			if m >= 0 && m <= len(seq) && (i == 0 || m != marks[i-1]) {
				cuts = append(cuts, m)
			}
		}
	}
	for _, t := range cuts {
		txn := map[string][]byte{}
		persisted := map[string]bool{}
		for _, f := range txns {
			txn[f] = b.dur[f]
		}
		for _, bp := range seq[:t] {
			if !persisted[bp.file] {
				txn[bp.file] = append([]byte{}, b.dur[bp.file]...)
				persisted[bp.file] = true
			}
			txn[bp.file][bp.pos] = b.cur[bp.file][bp.pos]
		}
		expand(txn, persisted, fmt.Sprintf("crash:torn=%d/%d", t, len(seq)), idxCombos)
	}

	// C. every prefix of each index file, with nothing / everything else persisted
	for ci, s := range closed {
		for cut := 0; cut <= len(b.cur[s.idx]); cut++ {
			for _, all := range []bool{false, true} {
				txn := map[string][]byte{}
				persisted := map[string]bool{}
				for _, f := range txns {
					if all {
						txn[f] = b.cur[f]
						persisted[f] = true
					} else {
						txn[f] = b.dur[f]
					}
				}
				combo := append([]idxVar{}, fullCombo[0]...)
				combo[ci] = idxVar{fmt.Sprintf("prefix%d", cut), cut}
				expand(txn, persisted, fmt.Sprintf("crash:all-dirty=%v", all), [][]idxVar{combo})
			}
		}
	}

	// D. a rollover (or the very first open) interrupted between the creation of the next segment file and the
	// end of its zero fill: the file is there with no bytes in it. The segment that was closed had been flushed.
	if last := b.segs[len(b.segs)-1]; b.n == 0 || len(last.recs) >= b.h.Cap {
		files := cloneFiles(b.cur)
		name := fmt.Sprintf("%d%s", b.n, filepath.Ext(last.txn))
		files[name] = []byte{}
		en.emit(&image{desc: "crash:all-persisted;next-segment-file-created-empty=" + name, files: files, kind: "crash"})
	}
}

// ----- corruption images

func reducedValues(orig byte) []byte {
	cands := []byte{0x00, 0xff, orig ^ 0x01, orig ^ 0x80, orig + 1}
	var out []byte
	for _, c := range cands {
		dup := c == orig
		for _, o := range out {
			if o == c {
				dup = true
			}
		}
		if !dup {
			out = append(out, c)
		}
	}
	return out
}

func allValues(orig byte) []byte {
	var out []byte
	for v := 0; v < 256; v++ {
		if byte(v) != orig {
			out = append(out, byte(v))
		}
	}
	return out
}

func (en *engine) corruptImages() {
	b := en.b
	en.provs = append(en.provs, provSpec{nilp: true})
	for c := int64(-1); c <= int64(b.n)-1; c++ {
		en.provs = append(en.provs, provSpec{c: c})
	}
	hvals := reducedValues
	if b.h.Full256 {
		hvals = allValues
	}
	mutate := func(file string, pos int, repl []byte) map[string][]byte {
		files := cloneFiles(b.cur)
		nb := append([]byte{}, b.cur[file]...)
		copy(nb[pos:], repl)
		files[file] = nb
		return files
	}
	lengthSet := func(pos, plen int) []uint32 {
		rem1 := int64(b.segSize - pos)
		H := int64(b.hdr)
		c := []int64{0, 1, int64(plen) - 1, int64(plen) + 1, rem1 - H - 1, rem1 - H, rem1 - H + 1, rem1 - H + 2, rem1 - 1, rem1, rem1 + 1, rem1 + 2,
			1<<31 - 1, 1 << 31, 1<<31 + 1}
		for v := int64(0xFFFFFFF0); v <= 0xFFFFFFFF; v++ {
			c = append(c, v)
		}
		c = append(c, 0xFFFFFFFF-H, 0xFFFFFFFF-H+1, 0xFFFFFFFF-H-1)
		var out []uint32
		seen := map[int64]bool{int64(plen): true}
		for _, v := range c {
			if v < 0 || v > 0xFFFFFFFF || seen[v] {
				continue
			}
			seen[v] = true
			out = append(out, uint32(v))
		}
		return out
	}
	for si, s := range b.segs {
		isClosed := si < len(b.segs)-1 // on reopen only the last segment is read-write
		c := b.cur[s.txn]
		for _, r := range s.recs {
			// header bytes
			for i := 0; i < b.hdr; i++ {
				for _, v := range hvals(c[r.pos+i]) {
					files := mutate(s.txn, r.pos+i, []byte{v})
					zero := binary.BigEndian.Uint32(files[s.txn][r.pos:]) == 0
					en.emit(&image{desc: fmt.Sprintf("corrupt:%s@%d(entry %d header+%d)=0x%02x", s.txn, r.pos+i, r.off, i, v), files: files, kind: "corrupt",
						region: "header", entry: r.off, closed: isClosed, zeroed: zero})
				}
			}
			// the length field as a whole
			for _, l := range lengthSet(r.pos, r.plen) {
				heavy := b.h.Codec == "v1" && l >= 0xFFFFFFFC
				if heavy && !b.h.HeavyFull && l != 0xFFFFFFFC && l != 0xFFFFFFFF {
					continue
				}
				var lb [4]byte
				binary.BigEndian.PutUint32(lb[:], l)
				en.emit(&image{desc: fmt.Sprintf("corrupt:%s@%d(entry %d length)=0x%08x", s.txn, r.pos, r.off, l), files: mutate(s.txn, r.pos, lb[:]), kind: "corrupt",
					region: "length", entry: r.off, closed: isClosed, zeroed: l == 0, heavy: heavy})
			}
			// payload bytes
			for i := 0; i < r.plen; i++ {
				if b.h.Profile == "large" && i > 40 && i < r.plen-8 && (r.pos+b.hdr+i)%pageSize > 1 && (r.pos+b.hdr+i)%pageSize < pageSize-1 {
					continue
				}
				p := r.pos + b.hdr + i
				pvals := reducedValues
				if b.h.Full256 && b.h.HeavyFull {
					pvals = allValues // thorough tier
				}
				for _, v := range pvals(c[p]) {
					en.emit(&image{desc: fmt.Sprintf("corrupt:%s@%d(entry %d payload+%d)=0x%02x", s.txn, p, r.off, i, v), files: mutate(s.txn, p, []byte{v}), kind: "corrupt",
						region: "payload", entry: r.off, closed: isClosed})
				}
			}
		}
		// garbage in the free space right after the last record of the last segment
		if si == len(b.segs)-1 {
			end := len(s.recs) * b.rs
			for i := 0; i < b.hdr+4 && end+i < b.segSize; i++ {
				for _, v := range []byte{0x01, 0x80, 0xff} {
					en.emit(&image{desc: fmt.Sprintf("corrupt:%s@%d(free+%d)=0x%02x", s.txn, end+i, i, v), files: mutate(s.txn, end+i, []byte{v}), kind: "corrupt",
						region: "free", entry: int64(b.n), closed: false})
				}
			}
			if end+4 <= b.segSize {
				for _, l := range lengthSet(end, 0) {
					if l == 0 {
						continue
					}
					heavy := b.h.Codec == "v1" && l >= 0xFFFFFFFC
					if heavy && !b.h.HeavyFull && l != 0xFFFFFFFC {
						continue
					}
					var lb [4]byte
					binary.BigEndian.PutUint32(lb[:], l)
					en.emit(&image{desc: fmt.Sprintf("corrupt:%s@%d(free length)=0x%08x", s.txn, end, l), files: mutate(s.txn, end, lb[:]), kind: "corrupt",
						region: "free", entry: int64(b.n), closed: false, heavy: heavy})
				}
			}
		}
		// index file
		ix := b.cur[s.idx]
		for i := range ix {
			for _, v := range hvals(ix[i]) {
				en.emit(&image{desc: fmt.Sprintf("corrupt:%s@%d=0x%02x", s.idx, i, v), files: mutate(s.idx, i, []byte{v}), kind: "corrupt",
					region: "idx", entry: -1, closed: isClosed})
			}
		}
		for cut := 0; cut < len(ix); cut++ {
			files := cloneFiles(b.cur)
			files[s.idx] = ix[:cut]
			en.emit(&image{desc: fmt.Sprintf("corrupt:%s truncated to %d", s.idx, cut), files: files, kind: "corrupt", region: "idx-trunc", entry: -1, closed: isClosed})
		}
		for _, extra := range [][]byte{{0, 0, 0, 0}, {0xff, 0xff, 0xff, 0xff}, {0, 0, 0, byte(b.rs)}} {
			files := cloneFiles(b.cur)
			files[s.idx] = append(append([]byte{}, ix...), extra...)
			en.emit(&image{desc: fmt.Sprintf("corrupt:%s extended by %x", s.idx, extra), files: files, kind: "corrupt", region: "idx-extend", entry: -1, closed: isClosed})
		}
		{
			files := cloneFiles(b.cur)
			files[s.idx] = nil
			en.emit(&image{desc: fmt.Sprintf("corrupt:%s removed", s.idx), files: files, kind: "corrupt", region: "idx-trunc", entry: -1, closed: isClosed})
		}
	}
}

// ----- multi-byte damage: zero / 0xFF / pattern runs

var runLengths = []int{2, 4, 8, 12, 13, 16, 24, 64, 512, 4096}

func runFill(kind string, l int) []byte {
	r := make([]byte, l)
	for i := range r {
		switch kind {
		case "ff":
			r[i] = 0xff
		case "pattern":
			r[i] = byte(i*31 + 7)
		}
	}
	return r
}

// runImages overwrites [start, start+len) (clipped to the file) with zeros, 0xFF or the pattern i*31+7, for every
// length of runLengths and every start offset of the used part of every segment file and of every index file.
func (en *engine) runImages() {
	b := en.b
	en.provs = append(en.provs, provSpec{nilp: true})
	for c := int64(-1); c <= int64(b.n)-1; c++ {
		en.provs = append(en.provs, provSpec{c: c})
	}
	for si, s := range b.segs {
		isClosed := si < len(b.segs)-1
		c := b.cur[s.txn]
		used := len(s.recs) * b.rs
		starts := map[int]bool{}
		if b.h.AllOffsets {
			for p := 0; p < used; p++ {
				starts[p] = true
			}
		} else {
			step := 8
			if b.h.Profile == "large" {
				step = 512 // sectors
			}
			for p := 0; p < used; p += step {
				starts[p] = true
			}
			for _, r := range s.recs {
				for _, p := range []int{r.pos - 1, r.pos, r.pos + 1, r.pos + b.hdr - 1, r.pos + b.hdr, r.pos + b.hdr + 1} {
					starts[p] = true
				}
			}
			for p := pageSize; p < used; p += pageSize {
				starts[p-1], starts[p], starts[p+1] = true, true, true
			}
		}
		var ss []int
		for p := range starts {
			if p >= 0 && p < used {
				ss = append(ss, p)
			}
		}
		sort.Ints(ss)
		for _, start := range ss {
			for _, kind := range []string{"zero", "ff", "pattern"} {
				for _, l := range runLengths {
					end := min(start+l, len(c))
					nb := append([]byte{}, c...)
					copy(nb[start:end], runFill(kind, end-start))
					first := -1
					for p := start; p < end; p++ {
						if nb[p] != c[p] {
							first = p
							break
						}
					}
					if first < 0 {
						continue // nothing changed
					}
					im := &image{kind: "corrupt", region: "run-" + kind, closed: isClosed,
						desc: fmt.Sprintf("run:%s@%d+%d=%s", s.txn, start, l, kind)}
					// first damaged entry and, for v1 attribution, the structure hit first
					im.entry, im.v1class = int64(b.n), "free"
					if first < used {
						r := s.recs[first/b.rs]
						im.entry = r.off
						im.v1class = "payload"
						for _, r2 := range s.recs { // any header byte changed?
							for p := max(r2.pos, start); p < min(r2.pos+b.hdr, end); p++ {
								if nb[p] != c[p] {
									im.v1class = "header"
								}
							}
						}
						im.zeroed = binary.BigEndian.Uint32(nb[r.pos:]) == 0
						im.zeroToEnd = !bytes.ContainsFunc(nb[r.pos:b.segSize], func(x rune) bool { return x != 0 })
					}
					files := cloneFiles(b.cur)
					files[s.txn] = nb
					im.files = files
					en.emit(im)
				}
			}
		}
		// index file: every offset
		ix := b.cur[s.idx]
		for start := 0; start < len(ix); start++ {
			for _, kind := range []string{"zero", "ff", "pattern"} {
				for _, l := range runLengths {
					end := min(start+l, len(ix))
					nb := append([]byte{}, ix...)
					copy(nb[start:end], runFill(kind, end-start))
					if bytes.Equal(nb, ix) {
						continue
					}
					files := cloneFiles(b.cur)
					files[s.idx] = nb
					en.emit(&image{kind: "corrupt", region: "idx-run-" + kind, entry: -1, closed: isClosed, files: files,
						desc: fmt.Sprintf("run:%s@%d+%d=%s", s.idx, start, l, kind)})
				}
			}
		}
	}
}

func runJob(job Job) (res *JobResult) {
	res = &JobResult{ID: job.Hist.ID(), Counters: map[string]int64{}, ViolCounts: map[string]int64{}, Exhaustive: true}
	defer func() {
		if r := recover(); r != nil {
			res.Infra = fmt.Sprintf("%v\n%s", r, debug.Stack())
		}
	}()
	if job.Hist.Mode == "ctrl" {
		runCtrl(job, res)
		return res
	}
	if job.Hist.Mode == "mixed" {
		runMixed(job, res)
		return res
	}
	b := runHistory(job.Hist)
	en := &engine{b: b, job: job, res: res, seen: map[uint64]bool{}, root: filepath.Join(scratch, "eval"), nviol: map[string]int{}}
	if job.Deadline != 0 {
		en.deadline = time.Unix(job.Deadline, 0)
	}
	// the clean image itself must reopen to the full log (sanity of harness + oracle)
	if job.Hist.cleanLog() && (job.Only == "" || job.Only == "clean") && job.StartAt == 0 {
		o := b.observe(en.root, &image{files: b.cur, kind: "corrupt"}, false, int64(b.n)-1)
		if o.pan != nil || o.openErr != nil || o.last != int64(b.n)-1 || o.mismatch != "" || o.fwdN != b.n || o.revN != b.n {
			key := "clean-image-does-not-reopen:" + b.h.Codec
			if o.pan != nil {
				key = "panic:" + o.pan.fn
			}
			res.ViolCounts[key]++
			res.Violations = append(res.Violations, ev.Violation{Key: key, Harness: "c10", Message: fmt.Sprintf("[%s | undamaged image] %s", b.h.ID(), o.summary()),
				Replay: map[string]any{"hist": b.h, "image": "clean", "commit": fmt.Sprint(b.n - 1)}})
		}
		res.Evaluations++
	}
	if job.Only == "clean" {
		return res
	}
	switch job.Hist.Mode {
	case "crash":
		en.crashImages()
	case "runs":
		en.runImages()
	default:
		en.corruptImages()
	}
	return res
}

// ---------------------------------------------------------------------------------------------
// controller level: which commit offset do the real controllers hand to the WAL at open time?
//
// A real RF=1 leader writes K entries (all committed and applied: the DB commit offset is K-1), is
// closed cleanly, one record of the WAL is damaged, and the node is restarted through
// NewFollowerController / NewLeaderController over the damaged WAL directory and a copy of the DB.
// Every damaged entry is committed, so by the property the damage must be reported; what is observed is
// the head offset the restarted node reports in its NewTerm response versus the DB commit offset.

func snapshotDir(root string) map[string][]byte {
	out := map[string][]byte{}
	_ = filepath.Walk(root, func(p string, info os.FileInfo, err error) error {
		if err != nil || info.IsDir() {
			return nil
		}
		c, err := os.ReadFile(p)
		if err != nil {
			infra("snapshot: %v", err)
		}
		rel, _ := filepath.Rel(root, p)
		out[rel] = c
		return nil
	})
	return out
}

func restoreDir(root string, files map[string][]byte) {
	_ = os.RemoveAll(root)
	for rel, c := range files {
		if c == nil {
			continue
		}
		p := filepath.Join(root, rel)
		if err := os.MkdirAll(filepath.Dir(p), 0o755); err != nil {
			infra("restore: %v", err)
		}
		if err := os.WriteFile(p, c, 0o644); err != nil {
			infra("restore: %v", err)
		}
	}
}

type ctrlObs struct {
	pan     *panicInfo
	openErr error
	termErr error
	head    int64
}

func (o *ctrlObs) summary() string {
	switch {
	case o.pan != nil:
		return fmt.Sprintf("panic in %s (%s): %s", o.pan.phase, o.pan.fn, o.pan.msg)
	case o.openErr != nil:
		return "controller constructor failed: " + strings.ReplaceAll(o.openErr.Error(), scratch, "")
	case o.termErr != nil:
		return "NewTerm failed: " + o.termErr.Error()
	}
	return fmt.Sprintf("node restarted without error, NewTerm reports head offset %d", o.head)
}

func runCtrl(job Job, res *JobResult) {
	h := job.Hist
	walRoot := filepath.Join(scratch, "cwal")
	dbRoot := filepath.Join(scratch, "cdb")
	cfg := server.Config{NotificationsRetentionTime: time.Hour}
	newWalF := func() wal.Factory {
		return wal.NewWalFactory(&wal.FactoryOptions{BaseWalDir: walRoot, Retention: time.Hour, SegmentSize: int32(h.Cap), SyncData: true})
	}
	// --- history on a real leader
	kvf := oxh.NewDirFactory(dbRoot)
	rpc := server.NewReplicationRpcProvider(nil)
	lc, err := server.NewLeaderController(cfg, wns, wshard, rpc, newWalF(), kvf)
	if err != nil {
		infra("leader: %v", err)
	}
	if _, err := lc.NewTerm(&proto.NewTermRequest{Shard: wshard, Term: 1}); err != nil {
		infra("NewTerm: %v", err)
	}
	if _, err := lc.BecomeLeader(bgCtx, &proto.BecomeLeaderRequest{Shard: wshard, Term: 1, ReplicationFactor: 1, FollowerMaps: map[string]*proto.EntryId{}}); err != nil {
		infra("BecomeLeader: %v", err)
	}
	sh := int64(wshard)
	for i := 0; i < h.K; i++ {
		if _, err := lc.WriteBlock(bgCtx, &proto.WriteRequest{Shard: &sh, Puts: []*proto.PutRequest{{Key: fmt.Sprintf("k%d", i), Value: []byte(fmt.Sprintf("value-%d", i))}}}); err != nil {
			infra("write %d: %v", i, err)
		}
	}
	st, err := lc.GetStatus(&proto.GetStatusRequest{Shard: wshard})
	if err != nil {
		infra("GetStatus: %v", err)
	}
	commit, headBefore := st.CommitOffset, st.HeadOffset
	if err := lc.Close(); err != nil {
		infra("close leader: %v", err)
	}
	_ = kvf.Close()
	walFiles := snapshotDir(walRoot)
	dbFiles := snapshotDir(dbRoot)
	if commit != headBefore || commit < 0 {
		infra("RF=1 leader: commit %d head %d", commit, headBefore)
	}
	// --- records
	type crec struct {
		file      string
		pos, plen int
		off       int64
		last      bool // in the newest segment
	}
	var recs []crec
	var segBases []int64
	for name := range walFiles {
		if strings.HasSuffix(name, ".txnx") {
			var bo int64
			fmt.Sscanf(filepath.Base(name), "%d.txnx", &bo)
			segBases = append(segBases, bo)
		}
	}
	sort.Slice(segBases, func(a, b int) bool { return segBases[a] < segBases[b] })
	for si, bo := range segBases {
		name := filepath.Join(wns, fmt.Sprint("shard-", wshard), fmt.Sprintf("%d.txnx", bo))
		c := walFiles[name]
		pos, off := 0, bo
		for pos+12 <= len(c) {
			l := int(binary.BigEndian.Uint32(c[pos:]))
			if l == 0 {
				break
			}
			recs = append(recs, crec{file: name, pos: pos, plen: l, off: off, last: si == len(segBases)-1})
			pos += 12 + l
			off++
		}
	}
	if int64(len(recs)) != commit+1 {
		infra("parsed %d records, commit offset %d (files %v)", len(recs), commit, keys(walFiles))
	}
	res.Counters["ctrl_segments"] = int64(len(segBases))
	res.Counters["ctrl_entries"] = int64(len(recs))

	restart := func(kind string, wf map[string][]byte) *ctrlObs {
		restoreDir(walRoot, wf)
		restoreDir(dbRoot, dbFiles)
		o := &ctrlObs{head: -2}
		f := oxh.NewDirFactory(dbRoot)
		defer f.Close()
		o.pan = callSafe("restart", func() {
			if kind == "follower" {
				fc, err := server.NewFollowerController(cfg, wns, wshard, newWalF(), f)
				if err != nil {
					o.openErr = err
					return
				}
				r, err := fc.NewTerm(&proto.NewTermRequest{Shard: wshard, Term: 2})
				if err != nil {
					o.termErr = err
				} else {
					o.head = r.HeadEntryId.Offset
				}
				_ = fc.Close()
			} else {
				c, err := server.NewLeaderController(cfg, wns, wshard, server.NewReplicationRpcProvider(nil), newWalF(), f)
				if err != nil {
					o.openErr = err
					return
				}
				r, err := c.NewTerm(&proto.NewTermRequest{Shard: wshard, Term: 2})
				if err != nil {
					o.termErr = err
				} else {
					o.head = r.HeadEntryId.Offset
				}
				_ = c.Close()
			}
		})
		return o
	}
	for _, kind := range []string{"follower", "leader"} {
		o := restart(kind, walFiles)
		res.Evaluations++
		if o.pan != nil || o.openErr != nil || o.termErr != nil || o.head != commit {
			// the node cannot even restart over its own cleanly closed WAL: a property violation, not a harness problem
			key := "controller:undamaged-wal-does-not-restart"
			res.ViolCounts[key]++
			res.Violations = append(res.Violations, ev.Violation{Key: key, Harness: "c10", Message: fmt.Sprintf("[%s | undamaged | restart as %s] %s (DB commit offset %d)", h.ID(), kind, o.summary(), commit),
				Replay: map[string]any{"hist": h, "image": "clean", "commit": kind}})
			return
		}
	}
	seen := map[uint64]bool{}
	try := func(desc string, r crec, pos int, repl []byte) {
		if job.Only != "" && job.Only != desc {
			return
		}
		wf := cloneFiles(walFiles)
		nb := append([]byte{}, walFiles[r.file]...)
		copy(nb[pos:], repl)
		wf[r.file] = nb
		hsh := imageHash(wf)
		if seen[hsh] {
			return
		}
		seen[hsh] = true
		res.Images++
		res.Counters["images_ctrl"]++
		for _, kind := range []string{"follower", "leader"} {
			if job.OnlyProv != "" && job.OnlyProv != kind {
				continue
			}
			o := restart(kind, wf)
			res.Evaluations++
			key, outcome := "", ""
			where := "closed-segment"
			if r.last {
				where = "current-segment"
			}
			switch {
			case o.pan != nil:
				key, outcome = "panic:"+o.pan.fn, "ctrl-panic"
			case o.openErr != nil || o.termErr != nil:
				outcome = "ctrl-damage-reported-at-restart"
			case o.head < 0 && commit >= 0:
				// the damaged record is the first one of the only segment: recovery (commit offset not yet known to the
				// WAL) discards the whole log, and an *empty* log is what checkWalCoversCommitOffset (d3de459) accepts on
				// purpose (a WAL cleared by a snapshot install looks the same). Other root cause than a log that merely
				// ends below the commit offset, hence its own key.
				key = "controller:whole-log-discarded-silently:" + kind
				outcome = "ctrl-whole-log-silently-dropped"
			case o.head < commit:
				key = "controller:committed-damage-discarded-silently:" + kind
				outcome = "ctrl-committed-entries-silently-dropped"
			default:
				outcome = "ctrl-restart-ok-damage-latent-in-" + where
			}
			res.Counters["outcome_"+outcome]++
			if job.Verbose {
				fmt.Fprintf(os.Stderr, "%s | %s | %s | %s | key=%q\n", h.ID(), desc, kind, o.summary(), key)
			}
			if len(res.Samples) < 2 && res.Evaluations%41 == 7 {
				res.Samples = append(res.Samples, map[string]any{"history": h.ID(), "image": desc, "restart_as": kind, "db_commit_offset": commit, "observed": o.summary()})
			}
			if key != "" {
				res.ViolCounts[key]++
				if res.ViolCounts[key] <= 2 {
					res.Violations = append(res.Violations, ev.Violation{Key: key, Harness: "c10", Message: fmt.Sprintf("[%s | %s | restart as %s] entry %d is committed (DB commit offset %d) but %s", h.ID(), desc, kind, r.off, commit, o.summary()),
						Replay: map[string]any{"hist": h, "image": desc, "commit": kind}})
				}
			}
		}
	}
	for _, r := range recs {
		c := walFiles[r.file]
		for i := 0; i < 12; i++ {
			// (entries carry wall-clock timestamps, so header CRC bytes differ between runs: XOR masks keep the
			// number of images independent of the byte values)
			for _, m := range []byte{0x01, 0x80, 0xff, 0x10, 0x55} {
				try(fmt.Sprintf("ctrl:%s@%d(entry %d header+%d)^=0x%02x", filepath.Base(r.file), r.pos+i, r.off, i, m), r, r.pos+i, []byte{c[r.pos+i] ^ m})
			}
		}
		for _, l := range []uint32{0, 1, uint32(r.plen) + 3, 0x7fffffff} {
			var lb [4]byte
			binary.BigEndian.PutUint32(lb[:], l)
			try(fmt.Sprintf("ctrl:%s@%d(entry %d length)=0x%08x", filepath.Base(r.file), r.pos, r.off, l), r, r.pos, lb[:])
		}
		for _, i := range []int{0, r.plen / 2, r.plen - 1} {
			p := r.pos + 12 + i
			for _, m := range []byte{0x01, 0xff} {
				try(fmt.Sprintf("ctrl:%s@%d(entry %d payload+%d)^=0x%02x", filepath.Base(r.file), p, r.off, i, m), r, p, []byte{c[p] ^ m})
			}
		}
	}
}

// ---------------------------------------------------------------------------------------------
// planning + parent

func plan(tier string) []Hist {
	var hs []Hist
	caps := []int{7, 3, 2}
	if tier == "thorough" {
		caps = []int{7, 3, 2, 1}
	}
	for _, cd := range []string{"v2", "v1"} {
		for _, prof := range []string{"small", "large"} {
			for _, cp := range caps {
				for k := 0; k <= 3; k++ {
					for m := 0; m <= 3; m++ {
						for _, sy := range []string{"each", "batch"} {
							if sy == "batch" && k < 2 {
								continue // identical to "each"
							}
							if tier != "thorough" && (prof == "large" && (cp == 7 && k+m > 4 || cd == "v1") || sy == "batch" && k == 2) {
								continue // quick tier: v1 only with small records, batch sync only with k=3
							}
							hs = append(hs, Hist{Mode: "crash", Codec: cd, Profile: prof, Cap: cp, K: k, M: m, Sync: sy})
						}
					}
				}
			}
		}
	}
	type nc struct{ n, cap int }
	var ncs []nc
	if tier == "thorough" {
		for n := 1; n <= 6; n++ {
			for _, cp := range []int{7, 3, 2, 1} {
				if cp == 7 && n > 3 || cp == 1 && n > 4 {
					continue
				}
				ncs = append(ncs, nc{n, cp})
			}
		}
	} else {
		ncs = []nc{{1, 7}, {2, 7}, {3, 2}, {4, 2}, {3, 1}, {3, 3}}
	}
	for _, cd := range []string{"v2", "v1"} {
		for _, x := range ncs {
			full := tier == "thorough" || x.n <= 2
			parts := 1
			if full && cd == "v2" {
				parts = 1 + x.n/2
			}
			for pt := 0; pt < parts; pt++ {
				hs = append(hs, Hist{Mode: "corrupt", Codec: cd, Profile: "small", Cap: x.cap, K: x.n, Sync: "each", Full256: full, HeavyFull: tier == "thorough", Part: pt, Parts: parts})
			}
		}
		// large records: page-straddling payloads, reduced positions
		hs = append(hs, Hist{Mode: "corrupt", Codec: cd, Profile: "large", Cap: 2, K: 3, Sync: "each", HeavyFull: tier == "thorough"})
	}
	// multi-byte damage (zero / 0xFF / pattern runs) on the same clean shapes
	for _, cd := range []string{"v2", "v1"} {
		for _, x := range ncs {
			hs = append(hs, Hist{Mode: "runs", Codec: cd, Profile: "small", Cap: x.cap, K: x.n, Sync: "each", AllOffsets: true}) // small images: every offset in both tiers
		}
		if tier == "thorough" {
			for pt := 0; pt < 8; pt++ { // ~3 KiB records, every offset
				hs = append(hs, Hist{Mode: "runs", Codec: cd, Profile: "large", Cap: 2, K: 3, Sync: "each", AllOffsets: true, Part: pt, Parts: 8})
			}
		} else {
			hs = append(hs, Hist{Mode: "runs", Codec: cd, Profile: "large", Cap: 2, K: 3, Sync: "each"}) // ~3 KiB records: sector/page/record boundaries only
		}
	}
	// records of different sizes (mixed.go): every size vector in {S,L}^n, index files of every closed segment bad,
	// read everything / extend across a rollover / read / reopen / read (Cap = large records per segment)
	for _, cd := range []string{"v2", "v1"} {
		for _, capL := range []int{1, 2, 3} {
			lo, hi := 4, 6
			if tier == "thorough" {
				lo, hi = 2, 8
			}
			for n := lo; n <= hi; n++ {
				for _, m := range []int{0, 1, 2} {
					if tier != "thorough" && (m == 1 || capL == 1 && n != 6 || cd == "v1" && (capL == 3 || n == 6 && capL == 2)) {
						continue
					}
					if m > n {
						continue
					}
					parts := max(1, (1<<n)/16)
					for pt := 0; pt < parts; pt++ {
						hs = append(hs, Hist{Mode: "mixed", Codec: cd, Cap: capL, K: n - m, M: m, Part: pt, Parts: parts})
					}
				}
			}
		}
	}
	// controller level (Cap = WAL segment size in bytes here)
	hs = append(hs, Hist{Mode: "ctrl", Codec: "v2", Cap: 128, K: 4})
	if tier == "thorough" {
		hs = append(hs, Hist{Mode: "ctrl", Codec: "v2", Cap: 128 * 1024, K: 3}, Hist{Mode: "ctrl", Codec: "v2", Cap: 160, K: 5}, Hist{Mode: "ctrl", Codec: "v2", Cap: 256, K: 4})
	}
	return hs
}

var bgCtx = context.Background()

func main() {
	replay := flag.String("replay", "", "replay file")
	jobArg := flag.String("job", "", "internal: run one job (JSON) and print its result")
	flag.Parse()
	oxh.Quiet()
	debug.SetPanicOnFault(true)

	if *jobArg != "" {
		var job Job
		if err := json.Unmarshal([]byte(*jobArg), &job); err != nil {
			fmt.Fprintln(os.Stderr, "bad job:", err)
			os.Exit(2)
		}
		scratch = ev.Scratch("c10")
		var rl syscall.Rlimit
		if syscall.Getrlimit(syscall.RLIMIT_NOFILE, &rl) == nil && rl.Cur < rl.Max {
			rl.Cur = rl.Max
			_ = syscall.Setrlimit(syscall.RLIMIT_NOFILE, &rl)
		}
		t0 := time.Now()
		if pf := os.Getenv("VERIF_C10_PROFILE"); pf != "" {
			f, _ := os.Create(pf)
			_ = pprof.StartCPUProfile(f)
			defer pprof.StopCPUProfile()
		}
		res := runJob(job)
		res.WallMs = time.Since(t0).Milliseconds()
		_ = os.RemoveAll(scratch)
		out, _ := json.Marshal(res)
		fmt.Println(string(out))
		return
	}

	if *replay != "" {
		os.Exit(doReplay(*replay))
	}

	run := ev.NewRun("C10", "fault_enumeration")
	budget := 50 * time.Second
	if run.Tier == "thorough" {
		budget = 17 * time.Minute
	}
	deadline := time.Now().Add(budget)
	hs := plan(run.Tier)
	if f := os.Getenv("VERIF_C10_FILTER"); f != "" {
		var sel []Hist
		for _, h := range hs {
			if strings.Contains(h.ID(), f) {
				sel = append(sel, h)
			}
		}
		hs = sel
	}
	results := make([]*JobResult, len(hs))
	exe, err := os.Executable()
	if err != nil {
		fmt.Fprintln(os.Stderr, err)
		os.Exit(2)
	}
	// largest jobs first (corrupt/full256, then crash with most rollovers) for a balanced schedule
	order := make([]int, len(hs))
	for i := range order {
		order[i] = i
	}
	weight := func(h Hist) int {
		if h.Mode == "ctrl" {
			return 500000
		}
		if h.Mode == "mixed" {
			return 40000 * (1 << (h.K + h.M)) / max(h.Parts, 1) / 16
		}
		if h.Mode == "runs" {
			w := 3000 * h.K * (h.K + 2)
			if h.AllOffsets {
				w *= 8
			}
			return w
		}
		if h.Mode == "corrupt" {
			w := 200 * h.K * (h.K + 2)
			if h.Full256 {
				w *= 30 / max(h.Parts, 1)
			}
			if h.Codec == "v1" {
				w += 1000000 * h.K // long serial chain of multi-second evaluations: start first
			}
			return w
		}
		return (h.K + 2) * (1 << min(h.M+1, 5)) * (1 + (h.K+h.M)/h.Cap*4)
	}
	sort.SliceStable(order, func(a, b int) bool { return weight(hs[order[a]]) > weight(hs[order[b]]) })
	workers := runtime.NumCPU()
	if workers > 16 {
		workers = 16
	}
	var mu sync.Mutex
	next := 0
	skipped := 0
	var wg sync.WaitGroup
	for wk := 0; wk < workers; wk++ {
		wg.Add(1)
		go func() {
			defer wg.Done()
			for {
				mu.Lock()
				if next >= len(order) {
					mu.Unlock()
					return
				}
				i := order[next]
				next++
				if time.Now().After(deadline) {
					skipped++
					mu.Unlock()
					continue
				}
				mu.Unlock()
				results[i] = spawnAll(exe, Job{Hist: hs[i], Deadline: deadline.Unix()})
			}
		}()
	}
	wg.Wait()

	infraErr := false
	outcomes := map[string]int64{}
	nJobs := 0
	for i, r := range results {
		if r == nil {
			continue
		}
		nJobs++
		if r.Infra != "" {
			fmt.Fprintf(os.Stderr, "job %s: infrastructure error: %s\n", hs[i].ID(), r.Infra)
			infraErr = true
			continue
		}
		if os.Getenv("VERIF_C10_TIMES") != "" {
			fmt.Fprintf(os.Stderr, "%-44s %7d ms %8d evals %7d images\n", r.ID, r.WallMs, r.Evaluations, r.Images)
		}
		run.Add("evaluations", r.Evaluations)
		run.Add("distinct_images", r.Images)
		run.DistinctN(r.Images)
		for k, v := range r.Counters {
			if k == "dirty_pages_max" || k == "mixed_segments_max" {
				if int64(v) > run.Get(k) {
					run.Add(k, v-run.Get(k))
				}
				continue
			}
			if strings.HasPrefix(k, "outcome_") {
				outcomes[strings.TrimPrefix(k, "outcome_")] += v
				continue
			}
			run.Add(k, v)
		}
		if !r.Exhaustive {
			run.NotExhaustive("job " + r.ID + " stopped at the deadline")
		}
		for _, v := range r.Violations {
			run.Violate(v)
		}
		if i%9 == 0 {
			for _, s := range r.Samples {
				run.Sample(s)
			}
		}
	}
	if skipped > 0 {
		run.NotExhaustive(fmt.Sprintf("%d of %d base histories not started before the deadline", skipped, len(hs)))
	}
	run.Add("base_histories", int64(nJobs))
	run.Coverage["outcomes"] = outcomes
	run.Coverage["codecs"] = []string{"v2", "v1"}
	run.Assume = []string{
		"a page of a segment file is durable iff ReadWriteSegment.Flush (msync) was called on that segment after the write; index files and the directory entries of never-flushed segment files are never durable (the code never fsyncs them)",
		"segment files are never shorter than the configured size (initFileWithZeroes fsyncs the file before use)",
		"damage = one byte or the whole 4-byte length field of one record / one index file; crash = durable image + subset of dirty 4 KiB pages or byte-prefix (in write order) of the non-durable records",
		"nil commit-offset provider (offline tools) is evaluated with a relaxed oracle: errors are within contract, only panics, wrong contents and silent loss of entries of a cleanly written log count",
		"records are 33 bytes (v2 small), 25 (v1 small) or about 3 KiB (large, page-straddling) with 1/2/3/7 records per segment; segment size = cap*record+3",
		"mixed-size histories: two value sizes (6 and 46 bytes: 33/73-byte v2 records, 25/65-byte v1 records), every size vector in {S,L}^n, segments of 1/2/3 large records; entries appended after the reopen carry 25-byte values (52-byte v2 records) and go to v2 segments (a v1 log is continued in v2 segments, as in production); segment files of these images are intact (only the un-synced tail may be missing), only index files are missing/torn/damaged",
	}
	rc := run.Finish("every base history [k synced, m un-synced appends; k,m in 0..3; 1/2/3/7 records per segment; sync each/batch; codec v1/v2; small/large records] x {every subset of dirty pages, every byte-prefix of the non-durable records} x {index absent/empty/half/full, every index prefix} x {never-flushed segment file present/absent} x commit offset in {-1..lastSynced, nil}; and every clean image [n entries] x {every header byte x value set, length field x boundary set, every payload byte x 5 values, free-space garbage, every index byte x value set, every index truncation/extension/removal} x commit offset in {nil,-1..n-1}; and every mixed-size history [n = k synced + m un-synced entries, every size vector in {S,L}^n, 1/2/3 large records per segment, codec v1/v2] x directory state {crash with everything persisted, crash with only msynced bytes, clean close} x {each index file in turn absent/empty/3 bytes/half/last byte cut/first, middle, last byte flipped/zeroed/extended by 4 bytes; every combination of intact/absent/middle byte flipped over all index files (<= 4 files; more: all the same)} -> reopen, read every entry through its own reader + one forward + one reverse reader, append across >= 1 rollover, read everything again, close, reopen, read everything again; distinct = distinct image byte contents per base history")
	if infraErr {
		os.Exit(2)
	}
	os.Exit(rc)
}

// spawnAll runs a job to completion: a child that meets a non-terminating evaluation reports it and
// exits; the next child resumes right after it.
func spawnAll(exe string, job Job) *JobResult {
	var total *JobResult
	for round := 0; ; round++ {
		r := spawn(exe, job)
		if total == nil {
			total = r
		} else {
			total.Evaluations += r.Evaluations
			total.Images += r.Images
			total.WallMs += r.WallMs
			for k, v := range r.Counters {
				if k == "dirty_pages_max" || k == "mixed_segments_max" {
					total.Counters[k] = max(total.Counters[k], v)
				} else {
					total.Counters[k] += v
				}
			}
			for k, v := range r.ViolCounts {
				total.ViolCounts[k] += v
			}
			total.Violations = append(total.Violations, r.Violations...)
			total.Samples = append(total.Samples, r.Samples...)
			total.Exhaustive = total.Exhaustive && r.Exhaustive
			total.Infra = r.Infra
		}
		if r.Infra != "" || r.ResumeAt == 0 {
			return total
		}
		if round > 5000 {
			total.Infra = "too many resumptions"
			return total
		}
		job.StartAt = r.ResumeAt
	}
}

func spawn(exe string, job Job) *JobResult {
	js, _ := json.Marshal(job)
	cmd := exec.Command(exe, "-job", string(js))
	cmd.Env = append(os.Environ(), "GOMAXPROCS=2")
	var stderr bytes.Buffer
	cmd.Stderr = &stderr
	out, err := cmd.Output()
	res := &JobResult{ID: job.Hist.ID(), Counters: map[string]int64{}, ViolCounts: map[string]int64{}}
	if err != nil {
		// a fatal runtime error (not a recoverable panic) inside recovery code kills the child
		tail := stderr.String()
		if len(tail) > 1500 {
			tail = tail[:1500]
		}
		if strings.Contains(tail, "fatal error") || strings.Contains(tail, "SIGBUS") || strings.Contains(tail, "SIGSEGV") {
			res.Exhaustive = false
			res.Counters = map[string]int64{}
			res.Violations = []ev.Violation{{Key: "fatal-crash-in-recovery", Harness: "c10", Message: fmt.Sprintf("[%s] child died: %v: %s", job.Hist.ID(), err, tail), Replay: map[string]any{"hist": job.Hist}}}
			return res
		}
		res.Infra = fmt.Sprintf("child failed: %v: %s", err, tail)
		return res
	}
	lines := strings.Split(strings.TrimSpace(string(out)), "\n")
	if err := json.Unmarshal([]byte(lines[len(lines)-1]), res); err != nil {
		res.Infra = fmt.Sprintf("bad child output: %v: %.300s", err, out)
	}
	if job.Verbose {
		fmt.Fprint(os.Stderr, stderr.String())
	}
	return res
}

func doReplay(path string) int {
	var doc struct {
		First struct {
			Replay struct {
				Hist   Hist   `json:"hist"`
				Image  string `json:"image"`
				Commit string `json:"commit"`
			} `json:"replay"`
		} `json:"first"`
	}
	if err := ev.ReadJSON(path, &doc); err != nil {
		fmt.Println("cannot read replay:", err)
		return 2
	}
	exe, _ := os.Executable()
	rp := doc.First.Replay
	res := spawn(exe, Job{Hist: rp.Hist, Only: rp.Image, OnlyProv: rp.Commit, Verbose: true})
	if res.Infra != "" {
		fmt.Println("infrastructure error:", res.Infra)
		return 2
	}
	if len(res.Violations) > 0 {
		for _, v := range res.Violations {
			fmt.Printf("VIOLATION property=C10 replay=%s\n  key=%s: %s\n", path, v.Key, v.Message)
		}
		return 1
	}
	fmt.Printf("replay passed (%d evaluation(s))\n", res.Evaluations)
	return 0
}
