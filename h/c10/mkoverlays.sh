#!/bin/bash
# Re-creates the mutated / patched copies used with VERIF_EXTRA_OVERLAY from the diffs in this directory.
#   /dev/shm/mut-c10/<mutant>/{<file>.go,map.json,overlay.json}
#   /dev/shm/c10-patch/{*.go,all-map.json,all-overlay.json}     (all proposed patches P1..P6 together)
# Never touches /repo.
set -e
here=$(cd "$(dirname "$0")" && pwd)
mk() { # dir diff...   -> patched copies of every file named in the diffs, map.json + overlay.json
  local dir=$1; shift
  mkdir -p "$dir"; : > "$dir/.pairs"
  for d in "$@"; do
    src=$(grep -m1 '^--- ' "$d" | awk '{print $2}' | sed 's#^a/#/repo/#')
    dst="$dir/$(basename "$src")"
    [ -f "$dst.orig-done" ] || { cp "$src" "$dst"; touch "$dst.orig-done"; echo "$src $dst" >> "$dir/.pairs"; }
    patch -s "$dst" < "$d"
  done
  python3 - "$dir" <<'PY'
import json,sys
d=sys.argv[1]; m=dict(l.split() for l in open(d+'/.pairs'))
json.dump(m,open(d+'/map.json','w')); json.dump({"Replace":m},open(d+'/overlay.json','w'))
PY
  rm -f "$dir"/*.orig-done "$dir/.pairs"
}
rm -rf /dev/shm/mut-c10 /dev/shm/c10-patch
for d in "$here"/mutants/*.diff; do mk "/dev/shm/mut-c10/$(basename "$d" .diff)" "$d"; done
mk /dev/shm/c10-patch "$here"/patches/*.diff
cp /dev/shm/c10-patch/map.json /dev/shm/c10-patch/all-map.json
cp /dev/shm/c10-patch/overlay.json /dev/shm/c10-patch/all-overlay.json
echo "mutants: $(ls /dev/shm/mut-c10 | tr '\n' ' ')"; echo "patches: /dev/shm/c10-patch/all-map.json"
