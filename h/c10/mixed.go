// C10, mode "mixed": histories whose records have DIFFERENT sizes, so that record boundaries differ between
// consecutive segments, reopened with the index file of every closed segment missing / truncated / damaged
// (one at a time and in combinations), read completely, extended across at least one rollover, read again,
// closed, reopened and read a third time.
//
// Added after the seeded change /verif/seeded/c10c-rebuilt-index-buffer-returned-to-pool escaped: a rebuilt
// index that aliases a pooled buffer is overwritten by the next borrower with the offsets of *another*
// segment; with uniform record sizes (all other modes of this harness) the foreign offsets equal the
// original ones and nothing is visible.
package main

import (
	"encoding/binary"
	"encoding/json"
	"fmt"
	"os"
	"path/filepath"
	"runtime"
	"sort"
	"strings"
	"time"

	pb "google.golang.org/protobuf/proto"

	"github.com/oxia-db/oxia/proto"
	"github.com/oxia-db/oxia/server/wal"
	"github.com/oxia-db/oxia/server/wal/codec"

	"verif/lib/ev"
)

// value sizes: S and L for the entries of the history, P for the entries appended after the reopen (its record
// boundaries coincide with no S/L boundary: 33/73/52 bytes per v2 record, 25/65/44 per v1 record)
const (
	mixedSmall = 6
	mixedLarge = 46
	mixedPost  = 25
)

func mixedValueSize(c byte) int {
	if c == 'L' {
		return mixedLarge
	}
	return mixedSmall
}

// postEntry is the j-th entry appended after the reopen, at offset off.
func postEntry(off int64) *proto.LogEntry {
	v := []byte(fmt.Sprintf("p%d.", off))
	for len(v) < mixedPost {
		v = append(v, byte('A'+(len(v)+int(off))%26))
	}
	return &proto.LogEntry{Term: 100 + off, Offset: off, Value: v[:mixedPost], Timestamp: tsOf(off) + 7}
}

type mixedSeg struct {
	base int64
	txn  string
	idx  string
	nrec int
}

type mixedState struct {
	name  string
	files map[string][]byte
}

type mixedBase struct {
	h          Hist
	vec        string
	n          int
	entries    []*proto.LogEntry
	segSize    int
	lastSynced int64
	ext, iext  string
	segs       []*mixedSeg
	states     []mixedState
}

func (mb *mixedBase) id() string {
	h := mb.h
	h.Sizes = mb.vec
	h.Parts, h.Part = 0, 0
	return h.ID()
}

// mixedSegSize: Hist.Cap = number of large records that fit into one segment
func mixedSegSize(h Hist) int {
	ci := 0
	if h.Codec == "v1" {
		ci = 1
	}
	hdr := int(codec.SupportedCodecs[ci].GetHeaderSize())
	p, _ := pb.Marshal(entryOf(1, mixedLarge))
	return h.Cap*(hdr+len(p)) + 3
}

// runMixedHistory writes K synced + M un-synced entries whose value sizes follow vec through the real WAL
// and records three states of the directory: "cur" (crash, every written byte persisted), "dur" (crash, only
// what was msynced; the un-synced tail is missing) and "clean" (after Close).
func runMixedHistory(h Hist, vec string) *mixedBase {
	mb := &mixedBase{h: h, vec: vec, n: len(vec), lastSynced: int64(h.K) - 1}
	ci := 0
	if h.Codec == "v1" {
		ci = 1
	}
	cd := codec.SupportedCodecs[ci]
	hdr := int(cd.GetHeaderSize())
	mb.ext, mb.iext = cd.GetTxnExtension(), cd.GetIdxExtension()
	mb.segSize = mixedSegSize(h)
	var plen []int
	for i := 0; i < mb.n; i++ {
		e := entryOf(int64(i), mixedValueSize(vec[i]))
		p, err := pb.Marshal(e)
		if err != nil {
			infra("marshal: %v", err)
		}
		mb.entries = append(mb.entries, e)
		plen = append(plen, len(p))
	}
	root := filepath.Join(scratch, "mbase")
	_ = os.RemoveAll(root)
	dir := walDir(root)
	precreate := func(baseOff int) {
		if h.Codec != "v1" {
			return
		}
		if err := os.MkdirAll(dir, 0o755); err != nil {
			infra("mkdir: %v", err)
		}
		if err := os.WriteFile(filepath.Join(dir, fmt.Sprintf("%d%s", baseOff, mb.ext)), make([]byte, mb.segSize+1), 0o644); err != nil {
			infra("precreate: %v", err)
		}
	}
	precreate(0)
	w, err := openWal(root, mb.segSize, cprov{-1})
	if err != nil {
		infra("open for history: %v", err)
	}
	dur := map[string][]byte{}
	hook := func(baseOff int64) {
		name := fmt.Sprintf("%d%s", baseOff, mb.ext)
		c, err := os.ReadFile(filepath.Join(dir, name))
		if err != nil {
			infra("flush hook: %v", err)
		}
		dur[name] = c
	}
	wal.VerifC10WrapCurrent(w, hook)
	fill := 0
	for i := 0; i < mb.n; i++ {
		if fill+hdr+plen[i] > mb.segSize { // !HasSpace: this append rolls over
			precreate(i)
			fill = 0
		}
		fill += hdr + plen[i]
		if err := w.AppendAsync(mb.entries[i]); err != nil {
			infra("append %d: %v", i, err)
		}
		wal.VerifC10WrapCurrent(w, hook)
		if i < h.K {
			if err := w.Sync(bgCtx); err != nil {
				infra("sync: %v", err)
			}
			if w.LastOffset() != int64(i) {
				infra("LastOffset %d after sync of %d", w.LastOffset(), i)
			}
		}
	}
	snap := func() map[string][]byte {
		out := map[string][]byte{}
		des, err := os.ReadDir(dir)
		if err != nil {
			infra("readdir: %v", err)
		}
		for _, de := range des {
			c, err := os.ReadFile(filepath.Join(dir, de.Name()))
			if err != nil {
				infra("read: %v", err)
			}
			out[de.Name()] = c
		}
		return out
	}
	cur := snap()
	if err := w.Close(); err != nil {
		infra("close: %v", err)
	}
	clean := snap()
	_ = os.RemoveAll(root)

	// layout, parsed from the files
	total := 0
	for name, c := range cur {
		if !strings.HasSuffix(name, mb.ext) {
			continue
		}
		var bo int64
		if _, err := fmt.Sscanf(name, "%d"+mb.ext, &bo); err != nil {
			infra("segment name %q", name)
		}
		s := &mixedSeg{base: bo, txn: name, idx: fmt.Sprintf("%d%s", bo, mb.iext)}
		for pos := 0; pos+hdr <= mb.segSize; {
			l := int(binary.BigEndian.Uint32(c[pos:]))
			if l == 0 {
				break
			}
			if int(bo)+s.nrec >= mb.n || l != plen[int(bo)+s.nrec] {
				infra("layout mismatch in %s at %d", name, pos)
			}
			s.nrec++
			pos += hdr + l
		}
		total += s.nrec
		mb.segs = append(mb.segs, s)
	}
	sort.Slice(mb.segs, func(a, b int) bool { return mb.segs[a].base < mb.segs[b].base })
	if total != mb.n {
		infra("parsed %d records of %d (files %v)", total, mb.n, keys(cur))
	}
	for i, s := range mb.segs {
		if _, ok := cur[s.idx]; ok != (i < len(mb.segs)-1) {
			infra("index file %s present=%v", s.idx, ok)
		}
		if _, ok := clean[s.idx]; !ok {
			infra("index file %s missing after close", s.idx)
		}
	}
	durFiles := cloneFiles(cur)
	differs := false
	for _, s := range mb.segs {
		d, ok := dur[s.txn]
		if !ok {
			d = make([]byte, len(cur[s.txn])) // never msynced
		}
		if string(d) != string(cur[s.txn]) {
			differs = true
		}
		durFiles[s.txn] = d
	}
	mb.states = append(mb.states, mixedState{"cur", cur})
	if differs {
		mb.states = append(mb.states, mixedState{"dur", durFiles})
	}
	mb.states = append(mb.states, mixedState{"clean", clean})
	return mb
}

// ----- index variants

type mixedIdxVar struct {
	name  string
	short bool // a prefix of the file (torn write)
	dmg   bool // changed / extended bytes
	apply func(ix []byte) []byte
}

func flipAt(pos func(l int) int, mask byte) func([]byte) []byte {
	return func(ix []byte) []byte {
		nb := append([]byte{}, ix...)
		if len(nb) > 0 {
			nb[pos(len(nb))] ^= mask
		}
		return nb
	}
}

var mixedIdxVars = []mixedIdxVar{
	{name: "full", apply: func(ix []byte) []byte { return ix }},
	{name: "absent", apply: func([]byte) []byte { return nil }},
	{name: "flip-mid", dmg: true, apply: flipAt(func(l int) int { return l / 2 }, 0x40)},
	{name: "empty", short: true, apply: func(ix []byte) []byte { return ix[:0] }},
	{name: "cut3", short: true, apply: func(ix []byte) []byte { return ix[:min(3, len(ix))] }},
	{name: "half", short: true, apply: func(ix []byte) []byte { return ix[:len(ix)/2] }},
	{name: "cut-last", short: true, apply: func(ix []byte) []byte { return ix[:max(len(ix)-1, 0)] }},
	{name: "flip-first", dmg: true, apply: flipAt(func(int) int { return 0 }, 0x01)},
	{name: "flip-last", dmg: true, apply: flipAt(func(l int) int { return l - 1 }, 0x01)},
	{name: "zeros", dmg: true, apply: func(ix []byte) []byte { return make([]byte, len(ix)) }},
	{name: "ext4", dmg: true, apply: func(ix []byte) []byte { return append(append([]byte{}, ix...), 0, 0, 0, 0) }},
}

type mixedImage struct {
	desc     string
	state    string
	files    map[string][]byte
	variant  map[int64]*mixedIdxVar // by segment base; only non-full
	allPlain bool                   // every variant is full or absent
}

// ----- observation

type mixedPhase struct {
	name     string
	first    int64
	last     int64
	st       []int
	errs     []string
	mismatch string
	misOff   int64
	fwdN     int
	fwdErr   string
	revN     int
	revErr   string
}

type mixedObs struct {
	pan       *panicInfo
	openErr   error
	phases    []*mixedPhase
	appendErr string
	appended  int
	rollovers int
	reopenErr error
}

func readPhase(name string, w wal.Wal, expected []*proto.LogEntry) *mixedPhase {
	ph := &mixedPhase{name: name, first: w.FirstOffset(), last: w.LastOffset(), misOff: -1}
	check := func(e *proto.LogEntry, off int64) string {
		if off < 0 || off >= int64(len(expected)) {
			return fmt.Sprintf("read of offset %d returned %s but only %d entries were ever appended", off, renderEntry(e), len(expected))
		}
		if !sameEntry(e, expected[off]) {
			return fmt.Sprintf("read of offset %d returned %s, appended was %s", off, renderEntry(e), renderEntry(expected[off]))
		}
		return ""
	}
	note := func(how string, off int64, s string) {
		if s != "" && ph.mismatch == "" {
			ph.mismatch, ph.misOff = how+s, off
		}
	}
	lo := max(ph.first, 0)
	hi := min(ph.last, int64(len(expected))+4)
	// every entry through its own reader
	for off := lo; off <= hi; off++ {
		st, es := stOK, ""
		r, err := w.NewReader(off - 1)
		switch {
		case err != nil:
			st, es = stErr, "NewReader: "+err.Error()
		case !r.HasNext():
			st, es = stErr, "HasNext false"
			_ = r.Close()
		default:
			e, err := r.ReadNext()
			_ = r.Close()
			if err != nil {
				st, es = stErr, err.Error()
			} else if s := check(e, off); s != "" {
				st, es = stMismatch, s
				note("", off, s)
			}
		}
		ph.st = append(ph.st, st)
		ph.errs = append(ph.errs, es)
	}
	// one forward reader
	if r, err := w.NewReader(lo - 1); err != nil {
		ph.fwdErr = "NewReader: " + err.Error()
	} else {
		next := lo
		for i := 0; r.HasNext() && i < len(expected)+8; i++ {
			e, err := r.ReadNext()
			if err != nil {
				ph.fwdErr = fmt.Sprintf("offset %d: %v", next, err)
				break
			}
			note("forward reader: ", next, check(e, next))
			next++
			ph.fwdN++
		}
		_ = r.Close()
	}
	// one reverse reader
	if r, err := w.NewReverseReader(); err != nil {
		ph.revErr = "NewReverseReader: " + err.Error()
	} else {
		next := ph.last
		for i := 0; r.HasNext() && i < len(expected)+8; i++ {
			e, err := r.ReadNext()
			if err != nil {
				ph.revErr = fmt.Sprintf("offset %d: %v", next, err)
				break
			}
			note("reverse reader: ", next, check(e, next))
			next--
			ph.revN++
		}
		_ = r.Close()
	}
	return ph
}

// observe: write the image, reopen, read everything (A), append across at least one rollover, read everything
// (B), close, reopen, read everything (C), close.
func (mb *mixedBase) observe(root string, im *mixedImage, p provSpec) *mixedObs {
	dir := walDir(root)
	_ = os.RemoveAll(dir)
	if err := os.MkdirAll(dir, 0o755); err != nil {
		infra("mkdir: %v", err)
	}
	for name, c := range im.files {
		if c == nil {
			continue
		}
		if err := os.WriteFile(filepath.Join(dir, name), c, 0o644); err != nil {
			infra("write: %v", err)
		}
	}
	var prov wal.CommitOffsetProvider
	if !p.nilp {
		prov = cprov{p.c}
	}
	o := &mixedObs{}
	var w wal.Wal
	o.pan = callSafe("open", func() { w, o.openErr = openWal(root, mb.segSize, prov) })
	if o.pan != nil || o.openErr != nil {
		return o
	}
	expected := append([]*proto.LogEntry{}, mb.entries...)
	o.pan = callSafe("read", func() { o.phases = append(o.phases, readPhase("after-reopen", w, expected)) })
	if o.pan == nil {
		o.pan = callSafe("append", func() {
			last := w.LastOffset()
			if last < int64(len(expected))-1 && last >= -1 {
				expected = expected[:last+1] // the un-synced tail was not recovered: these offsets are written again
			}
			base := wal.VerifC10CurrentBase(w)
			sinceRoll := 0
			for j := 0; j < 16; j++ {
				off := w.LastOffset() + 1
				e := postEntry(off)
				if err := w.Append(e); err != nil {
					o.appendErr = fmt.Sprintf("Append(offset %d): %v", off, err)
					return
				}
				o.appended++
				for int64(len(expected)) < off { // only when the reopened log claimed entries that never existed
					expected = append(expected, &proto.LogEntry{Offset: -1})
				}
				expected = append(expected[:off], e)
				if nb := wal.VerifC10CurrentBase(w); nb != base {
					base = nb
					o.rollovers++
					sinceRoll = 0
				}
				sinceRoll++
				if o.rollovers >= 1 && sinceRoll >= 2 || o.rollovers >= 2 {
					return // (one post record per segment when only one large record fits: two rollovers then)
				}
			}
		})
	}
	if o.pan == nil && o.appendErr == "" {
		o.pan = callSafe("read", func() { o.phases = append(o.phases, readPhase("after-further-appends", w, expected)) })
	}
	if p2 := callSafe("close", func() { _ = w.Close() }); p2 != nil && o.pan == nil {
		o.pan = p2
	}
	if o.pan != nil || o.appendErr != "" {
		return o
	}
	// the commit offset can only have grown meanwhile; everything was appended with Append (= synced)
	var w2 wal.Wal
	o.pan = callSafe("reopen", func() { w2, o.reopenErr = openWal(root, mb.segSize, prov) })
	if o.pan != nil || o.reopenErr != nil {
		return o
	}
	o.pan = callSafe("read", func() { o.phases = append(o.phases, readPhase("after-second-reopen", w2, expected)) })
	if p2 := callSafe("close", func() { _ = w2.Close() }); p2 != nil && o.pan == nil {
		o.pan = p2
	}
	return o
}

func (ph *mixedPhase) summary() string {
	var sb strings.Builder
	fmt.Fprintf(&sb, "%s: first=%d last=%d reads[", ph.name, ph.first, ph.last)
	for i, st := range ph.st {
		switch st {
		case stOK:
			sb.WriteString("ok")
		case stErr:
			sb.WriteString("ERR(" + strings.ReplaceAll(ph.errs[i], scratch, "") + ")")
		default:
			sb.WriteString("MISMATCH")
		}
		if i < len(ph.st)-1 {
			sb.WriteString(",")
		}
	}
	fmt.Fprintf(&sb, "] fwd=%d", ph.fwdN)
	if ph.fwdErr != "" {
		sb.WriteString("(" + strings.ReplaceAll(ph.fwdErr, scratch, "") + ")")
	}
	fmt.Fprintf(&sb, " rev=%d", ph.revN)
	if ph.revErr != "" {
		sb.WriteString("(" + strings.ReplaceAll(ph.revErr, scratch, "") + ")")
	}
	return sb.String()
}

func (o *mixedObs) summary() string {
	if o.pan != nil {
		return fmt.Sprintf("panic in %s (%s): %s", o.pan.phase, o.pan.fn, o.pan.msg)
	}
	if o.openErr != nil {
		return "open error: " + strings.ReplaceAll(o.openErr.Error(), scratch, "")
	}
	var parts []string
	for _, ph := range o.phases {
		parts = append(parts, ph.summary())
	}
	if o.appendErr != "" {
		parts = append(parts, "append failed: "+strings.ReplaceAll(o.appendErr, scratch, ""))
	} else {
		parts = append(parts, fmt.Sprintf("appended %d entries, %d rollover(s)", o.appended, o.rollovers))
	}
	if o.reopenErr != nil {
		parts = append(parts, "second reopen failed: "+strings.ReplaceAll(o.reopenErr.Error(), scratch, ""))
	}
	return strings.Join(parts, " || ")
}

// ----- oracle

// segOf returns the segment of the history that holds entry off (nil: appended after the reopen).
func (mb *mixedBase) segOf(off int64) *mixedSeg {
	for _, s := range mb.segs {
		if off >= s.base && off < s.base+int64(s.nrec) {
			return s
		}
	}
	return nil
}

// judge: the segment files of a mixed image are never damaged (only the un-synced tail may be missing), so
// whatever happens to index files, every synced entry must come back bit-identical in every phase, the log
// must stay appendable, and nothing may panic.
func (mb *mixedBase) judge(im *mixedImage, p provSpec, o *mixedObs) (key, msg, outcome string) {
	key, msg, outcome, failOff := mb.judge0(im, p, o)
	if key == "" || mb.h.Codec != "v1" || strings.HasPrefix(key, "panic:") || strings.HasPrefix(key, "hang:") {
		return key, msg, outcome
	}
	// v1 index files carry neither a checksum nor a length: a torn or damaged one is taken at face value (known
	// format limitation) and also changes what the *neighbouring* segments appear to hold (a longer index claims
	// offsets of its successor), so every failure on an image with such a file is attributed to it. Images in
	// which index files are only intact or absent keep the general keys.
	_ = failOff
	short, dmg := false, false
	for _, v := range im.variant {
		short = short || v.short
		dmg = dmg || v.dmg
	}
	switch {
	case short:
		return "v1-short-index-accepted", msg, outcome
	case dmg:
		return "v1-index-damage-undetected", msg, outcome
	}
	return key, msg, outcome
}

func (mb *mixedBase) judge0(im *mixedImage, p provSpec, o *mixedObs) (key, msg, outcome string, failOff int64) {
	n := int64(mb.n)
	cdc := mb.h.Codec
	cause := "current-segment"
	if len(im.variant) > 0 {
		cause = "index-file-not-durable"
	}
	if o.pan != nil {
		return "panic:" + o.pan.fn, o.summary(), "panic", -1
	}
	for _, ph := range o.phases {
		if ph.mismatch != "" {
			return "crash:damaged-entry-returned-as-valid:" + cdc, ph.name + ": " + ph.mismatch + "; " + o.summary(), "mismatch", ph.misOff
		}
	}
	if o.openErr != nil {
		if p.nilp {
			return "", "", "nilprov-open-error", -1
		}
		return "crash:" + cause + ":open-failed", o.summary(), "open-error", -1
	}
	want := int64(-2)
	for pi, ph := range o.phases {
		sfx := ""
		if pi > 0 {
			sfx = ":" + ph.name
		}
		if pi == 0 {
			if ph.last > n-1 {
				return "crash:" + cause + ":phantom-entries", o.summary(), "phantom", -1
			}
			if ph.last < mb.lastSynced || (ph.last >= 0 && ph.first != 0) {
				return "crash:" + cause + ":synced-entry-lost", fmt.Sprintf("synced up to %d, recovered first=%d last=%d; %s", mb.lastSynced, ph.first, ph.last, o.summary()), "lost", -1
			}
			want = ph.last + int64(o.appended)
		} else if ph.last != want || ph.first != 0 {
			return "crash:" + cause + ":log-bounds-wrong" + sfx, fmt.Sprintf("expected first=0 last=%d; %s", want, o.summary()), "lost", -1
		}
		for i, st := range ph.st {
			if st != stErr {
				continue
			}
			off := max(ph.first, 0) + int64(i)
			if p.nilp {
				return "", "", "nilprov-read-error", off
			}
			if off <= mb.lastSynced || pi > 0 {
				return "crash:" + cause + ":synced-entry-lost" + sfx, fmt.Sprintf("synced up to %d, offset %d unreadable; %s", max(mb.lastSynced, want), off, o.summary()), "lost", off
			}
			return "crash:" + cause + ":unreadable-entry-in-recovered-log", fmt.Sprintf("offset %d: %s", off, o.summary()), "hole", off
		}
		cnt := int(ph.last - max(ph.first, 0) + 1)
		if ph.last < 0 {
			cnt = 0
		}
		if ph.fwdN != cnt || ph.revN != cnt {
			if p.nilp {
				return "", "", "nilprov-read-error", -1
			}
			if ph.fwdErr != "" || ph.revErr != "" {
				// every single-entry read succeeded, yet a reader that walks the log got an error for an entry
				return "crash:" + cause + ":scan-fails-on-readable-entry" + sfx, o.summary(), "lost", -1
			}
			return "crash:" + cause + ":reader-short" + sfx, o.summary(), "reader-short", -1
		}
		if pi == 0 && o.appendErr != "" {
			if p.nilp {
				return "", "", "nilprov-append-error", -1
			}
			return "crash:" + cause + ":recovered-log-not-appendable", o.summary(), "append-error", -1
		}
	}
	if o.reopenErr != nil {
		if p.nilp {
			return "", "", "nilprov-open-error", -1
		}
		return "crash:" + cause + ":open-failed:after-second-reopen", o.summary(), "open-error", -1
	}
	if len(o.phases) != 3 {
		infra("mixed: %d phases observed: %s", len(o.phases), o.summary())
	}
	return "", "", fmt.Sprintf("mixed-recovered-%d-of-%d-unsynced-then-extended", o.phases[0].last-mb.lastSynced, mb.h.M), -1
}

// ----- engine

type mixedEngine struct {
	job      Job
	res      *JobResult
	root     string
	deadline time.Time
	stop     bool
	nviol    map[string]int
	evalIdx  int64
	inProc   int64
	timer    *time.Timer
}

func (me *mixedEngine) exitForResume(at int64) {
	me.res.ResumeAt = at
	out, _ := json.Marshal(me.res)
	fmt.Println(string(out))
	_ = os.RemoveAll(scratch)
	os.Exit(0)
}

func (me *mixedEngine) guarded(mb *mixedBase, im *mixedImage, p provSpec) (*mixedObs, string) {
	done := make(chan *mixedObs, 1)
	go func() { done <- mb.observe(me.root, im, p) }()
	if me.timer == nil {
		me.timer = time.NewTimer(500 * time.Millisecond)
	} else {
		me.timer.Reset(500 * time.Millisecond)
	}
	select {
	case o := <-done:
		if !me.timer.Stop() {
			select {
			case <-me.timer.C:
			default:
			}
		}
		return o, ""
	case <-me.timer.C:
	}
	start := time.Now()
	for {
		select {
		case o := <-done:
			return o, ""
		case <-time.After(50 * time.Millisecond):
		}
		var ms runtime.MemStats
		runtime.ReadMemStats(&ms)
		if time.Since(start) > hangTimeLimit || ms.HeapAlloc > hangHeapLimit {
			return nil, stuckFunction()
		}
	}
}

func (me *mixedEngine) eval(mb *mixedBase, im *mixedImage, p provSpec) {
	idx := me.evalIdx
	me.evalIdx++
	if idx < me.job.StartAt {
		return
	}
	if me.inProc++; me.inProc%256 == 0 && me.job.Only == "" && resourcesLow() {
		me.res.Counters["child_restarts_for_leaked_fds_or_mappings"]++
		me.exitForResume(idx)
	}
	o, stuck := me.guarded(mb, im, p)
	res := me.res
	replay := func() map[string]any {
		h := mb.h
		h.Sizes, h.Parts, h.Part = mb.vec, 0, 0
		return map[string]any{"hist": h, "image": im.desc, "commit": p.String()}
	}
	if stuck != "" {
		key := "hang:" + stuck
		res.Evaluations++
		res.Counters["outcome_hang"]++
		res.ViolCounts[key]++
		res.Violations = append(res.Violations, ev.Violation{Key: key, Harness: "c10",
			Message: fmt.Sprintf("[%s | %s | commit=%s] reopen/read/append did not return; stuck in %s", mb.id(), im.desc, p, stuck), Replay: replay()})
		me.exitForResume(idx + 1)
	}
	res.Evaluations++
	key, msg, outcome := mb.judge(im, p, o)
	res.Counters["outcome_"+outcome]++
	if o.openErr == nil && o.pan == nil {
		res.Counters["mixed_entries_appended_after_reopen"] += int64(o.appended)
		res.Counters["mixed_rollovers_after_reopen"] += int64(o.rollovers)
		for _, ph := range o.phases {
			res.Counters["mixed_single_entry_reads"] += int64(len(ph.st))
			res.Counters["mixed_scan_reads"] += int64(ph.fwdN + ph.revN)
		}
	}
	if me.job.Verbose {
		fmt.Fprintf(os.Stderr, "%s | %s | commit=%s | %s | key=%q\n", mb.id(), im.desc, p, o.summary(), key)
	}
	if len(res.Samples) < 2 && (res.Evaluations%97 == 5 || me.job.Only != "") {
		res.Samples = append(res.Samples, map[string]any{"history": mb.id(), "image": im.desc, "commit": p.String(), "observed": o.summary(), "outcome": outcome})
	}
	if key != "" {
		res.ViolCounts[key]++
		if me.nviol[key] < 2 {
			me.nviol[key]++
			res.Violations = append(res.Violations, ev.Violation{Key: key, Harness: "c10",
				Message: fmt.Sprintf("[%s | %s | commit=%s] %s", mb.id(), im.desc, p, msg), Replay: replay()})
		}
	}
}

// images of one history: every state x {every variant for one index file, the others intact} + {every
// combination of full / absent / flip-mid over all index files (<= 4 files; beyond that: all the same)}
func (me *mixedEngine) images(mb *mixedBase) {
	seen := map[uint64]bool{}
	nseg := int64(len(mb.segs))
	if nseg > me.res.Counters["mixed_segments_max"] {
		me.res.Counters["mixed_segments_max"] = nseg
	}
	for _, st := range mb.states {
		var targets []*mixedSeg
		for _, s := range mb.segs {
			if _, ok := st.files[s.idx]; ok {
				targets = append(targets, s)
			}
		}
		var combos [][]int // variant index per target
		combos = append(combos, make([]int, len(targets)))
		for ti := range targets {
			for vi := 1; vi < len(mixedIdxVars); vi++ {
				c := make([]int, len(targets))
				c[ti] = vi
				combos = append(combos, c)
			}
		}
		if len(targets) >= 2 && len(targets) <= 4 {
			tot := 1
			for range targets {
				tot *= 3
			}
			for x := 0; x < tot; x++ {
				c := make([]int, len(targets))
				nz := 0
				for ti, y := 0, x; ti < len(targets); ti, y = ti+1, y/3 {
					c[ti] = y % 3
					if c[ti] != 0 {
						nz++
					}
				}
				if nz >= 2 {
					combos = append(combos, c)
				}
			}
		} else if len(targets) > 4 {
			for vi := 1; vi < len(mixedIdxVars); vi++ {
				c := make([]int, len(targets))
				for ti := range c {
					c[ti] = vi
				}
				combos = append(combos, c)
			}
		}
		for _, c := range combos {
			if me.stop {
				return
			}
			im := &mixedImage{state: st.name, files: cloneFiles(st.files), variant: map[int64]*mixedIdxVar{}, allPlain: true}
			var d []string
			for ti, s := range targets {
				v := &mixedIdxVars[c[ti]]
				if c[ti] == 0 {
					continue
				}
				im.files[s.idx] = v.apply(st.files[s.idx])
				im.variant[s.base] = v
				if v.name != "absent" {
					im.allPlain = false
				}
				d = append(d, fmt.Sprintf("idx%d=%s", s.base, v.name))
			}
			im.desc = "mixed:state=" + st.name
			if len(d) > 0 {
				im.desc += ";" + strings.Join(d, ",")
			}
			if me.job.Only != "" && me.job.Only != im.desc {
				continue
			}
			hsh := imageHash(im.files)
			if seen[hsh] {
				if me.evalIdx >= me.job.StartAt {
					me.res.Counters["duplicate_images_skipped"]++
				}
				continue
			}
			seen[hsh] = true
			if me.evalIdx >= me.job.StartAt {
				me.res.Images++
				me.res.Counters["images_mixed"]++
				if len(im.variant) >= 2 {
					me.res.Counters["images_mixed_several_index_files_bad"]++
				}
			}
			provs := []provSpec{{c: mb.lastSynced}}
			if im.allPlain {
				provs = append(provs, provSpec{c: -1}, provSpec{nilp: true})
			}
			for _, p := range provs {
				if me.job.OnlyProv != "" && me.job.OnlyProv != p.String() {
					continue
				}
				me.eval(mb, im, p)
			}
			if me.res.Images%64 == 0 && !me.deadline.IsZero() && time.Now().After(me.deadline) {
				me.stop = true
				me.res.Exhaustive = false
			}
		}
	}
}

func mixedVectors(h Hist) []string {
	if h.Sizes != "" {
		return []string{h.Sizes}
	}
	n := h.K + h.M
	var out []string
	for x := 0; x < 1<<n; x++ {
		b := make([]byte, n)
		for i := range b {
			b[i] = 'S'
			if x>>i&1 == 1 {
				b[i] = 'L'
			}
		}
		out = append(out, string(b))
	}
	return out
}

func runMixed(job Job, res *JobResult) {
	me := &mixedEngine{job: job, res: res, root: filepath.Join(scratch, "meval"), nviol: map[string]int{}}
	if job.Deadline != 0 {
		me.deadline = time.Unix(job.Deadline, 0)
	}
	h := job.Hist
	for vi, vec := range mixedVectors(h) {
		if h.Parts > 1 && vi%h.Parts != h.Part {
			continue
		}
		if len(vec) != h.K+h.M {
			infra("sizes %q do not match k+m=%d", vec, h.K+h.M)
		}
		mb := runMixedHistory(h, vec)
		if me.evalIdx >= job.StartAt {
			res.Counters["mixed_histories"]++
			if len(mb.segs) >= 2 {
				res.Counters["mixed_histories_with_closed_segments"]++
			}
		}
		me.images(mb)
		if me.stop {
			return
		}
	}
}
