package main

import (
	"context"
	"fmt"
	"io"
	"net/url"
	"os"
	"path/filepath"
	"runtime"
	"sync"
	"sync/atomic"
	"time"

	"github.com/cockroachdb/pebble/vfs"

	"github.com/oxia-db/oxia/proto"
	"github.com/oxia-db/oxia/server"
	"github.com/oxia-db/oxia/server/kv"
	"github.com/oxia-db/oxia/server/wal"

	"verif/lib/oxh"
)

func urlUnescape(s string) (string, error) { return url.PathUnescape(s) }

// noRpc: with replication factor 1 the leader never talks to anybody.
type noRpc struct{}

func (noRpc) Close() error { return nil }
func (noRpc) GetReplicateStream(context.Context, string, string, int64, int64) (proto.OxiaLogReplication_ReplicateClient, error) {
	return nil, io.ErrClosedPipe
}
func (noRpc) SendSnapshot(context.Context, string, string, int64, int64) (proto.OxiaLogReplication_SendSnapshotClient, error) {
	return nil, io.ErrClosedPipe
}
func (noRpc) Truncate(string, *proto.TruncateRequest) (*proto.TruncateResponse, error) {
	return nil, io.ErrClosedPipe
}

// R6: the same operation history through a real leader controller (RF=1: every entry commits at
// once), with a graceful restart + re-election in the middle. Its WAL is then read back and
// replayed on a fresh database; both must agree (timestamps are whatever the leader stamped).
func routeR6(j job, ref *leader, worker int, st *stats) *viol {
	const route = "R6-real-leader"
	base := filepath.Join(scratch, fmt.Sprintf("w%d-r6-%d", worker, dirSeq.Add(1)))
	defer os.RemoveAll(base)
	dir := regFS("r6", vfs.NewMem())
	defer fsReg.Delete(dir)
	pf := oxh.NewDirFactory(dir)
	defer pf.Close()
	trk := &iterTracker{}
	kvf := &trkFactory{Factory: pf, t: trk}
	walf := wal.NewWalFactory(&wal.FactoryOptions{BaseWalDir: base, Retention: time.Hour, SegmentSize: 256 * 1024, SyncData: false})
	defer walf.Close()
	cfg := server.Config{NotificationsRetentionTime: retention}
	var lc server.LeaderController
	term := int64(0)
	elect := func() error {
		var err error
		lc, err = server.NewLeaderController(cfg, ns, shard, noRpc{}, walf, kvf)
		if err != nil {
			return err
		}
		term++
		if _, err = lc.NewTerm(&proto.NewTermRequest{Namespace: ns, Shard: shard, Term: term, Options: &proto.NewTermOptions{EnableNotifications: true}}); err != nil {
			return err
		}
		_, err = lc.BecomeLeader(context.Background(), &proto.BecomeLeaderRequest{Namespace: ns, Shard: shard, Term: term, ReplicationFactor: 1, FollowerMaps: map[string]*proto.EntryId{}})
		return err
	}
	if err := elect(); err != nil {
		if lc != nil {
			trk.quiesce()
			_ = lc.Close()
		}
		return &viol{"route-error:" + route, "election: " + err.Error()}
	}
	defer func() { trk.quiesce(); _ = lc.Close() }()
	ctx := context.Background()
	var sessions []int64
	failed := map[int64]bool{}
	nextOff := int64(0)
	write := func(req *proto.WriteRequest) {
		req.Shard = oxh.I64(shard)
		if _, err := lc.WriteBlock(ctx, req); err != nil {
			failed[nextOff] = true
		}
		nextOff++
	}
	createSession := func() *viol {
		r, err := lc.CreateSession(&proto.CreateSessionRequest{Shard: shard, SessionTimeoutMs: 5 * 60 * 1000, ClientIdentity: "cid"})
		if err != nil {
			return &viol{"route-error:" + route, "create session: " + err.Error()}
		}
		if r.SessionId != nextOff {
			return &viol{"r6-session-id", fmt.Sprintf("session id %d, log offset %d", r.SessionId, nextOff)}
		}
		sessions = append(sessions, r.SessionId)
		nextOff++
		return nil
	}
	// preload, mirroring leader.preload
	if n := j.cfg.preload; n > 0 {
		if v := createSession(); v != nil {
			return v
		}
		// reuse the reference leader's request for the batch (same bytes a client would send)
		write(decode(ref.log[1])[0])
	}
	restartAt := len(j.hist) / 2
	for k, op := range j.hist {
		if k == restartAt && k > 0 {
			trk.quiesce()
			if err := lc.Close(); err != nil {
				return &viol{"route-error:" + route, "close: " + err.Error()}
			}
			if err := elect(); err != nil {
				// re-election replays from the stored commit offset; it cannot get past an entry the
				// previous leadership rejected (C13); otherwise it must succeed
				for _, f := range failed {
					if f {
						st.stuck++
						return nil
					}
				}
				return &viol{"r6-reelection-failed", "graceful restart + BecomeLeader failed without any rejected entry in the log: " + err.Error()}
			}
		}
		switch op {
		case opSessCreate:
			if v := createSession(); v != nil {
				return v
			}
		case opSessClose:
			sid := sessions[len(sessions)-1]
			sessions = sessions[:len(sessions)-1]
			if _, err := lc.CloseSession(&proto.CloseSessionRequest{Shard: shard, SessionId: sid}); err != nil {
				return &viol{"route-error:" + route, "close session: " + err.Error()}
			}
			nextOff++
		case opCasB:
			gr, err := server.VerifC06LeaderDB(lc).Get(&proto.GetRequest{Key: "b"})
			if err != nil {
				return &viol{"route-error:" + route, err.Error()}
			}
			v := int64(0)
			if gr.Status == proto.Status_OK {
				v = gr.Version.VersionId
			}
			write(&proto.WriteRequest{Puts: []*proto.PutRequest{{Key: "b", Value: []byte(fmt.Sprintf("b@%d", nextOff)), ExpectedVersionId: oxh.I64(v)}}})
		default:
			// the reference leader's request for this step is what the client sends (keys, values and
			// session ids are functions of the offset, which is the same here)
			idx := len(ref.log) - len(j.hist) + k
			write(decode(ref.log[idx])[0])
		}
	}
	// read the WAL back
	w := server.VerifC06LeaderWal(lc)
	rd, err := w.NewReader(-1)
	if err != nil {
		return &viol{"route-error:" + route, "wal reader: " + err.Error()}
	}
	var log []logEntry
	for rd.HasNext() {
		e, err := rd.ReadNext()
		if err != nil {
			_ = rd.Close()
			return &viol{"route-error:" + route, "wal read: " + err.Error()}
		}
		log = append(log, logEntry{off: e.Offset, ts: e.Timestamp, raw: e.Value})
	}
	_ = rd.Close()
	if int64(len(log)) != nextOff {
		return &viol{"r6-log-length", fmt.Sprintf("leader WAL holds %d entries, %d requests were logged", len(log), nextOff)}
	}
	f := oxh.NewMemFactory()
	defer f.Close()
	db, err := newDB(f)
	if err != nil {
		return &viol{"route-error:" + route, err.Error()}
	}
	defer db.Close()
	for k, e := range log {
		if e.off != int64(k) {
			return &viol{"r6-log-offsets", fmt.Sprintf("entry %d has offset %d", k, e.off)}
		}
		_, err := applyEntry(db, e)
		st.applied++
		switch {
		case err != nil && failed[e.off] && kv.IsInvalidRequestError(err):
			st.skipped++
			continue
		case err != nil && failed[e.off]:
			st.stuck++
			return nil
		case err != nil:
			return &viol{"apply-error:" + route, fmt.Sprintf("entry %d was applied by the real leader but fails on replay: %v", k, err)}
		case failed[e.off]:
			return &viol{"apply-error:" + route, fmt.Sprintf("entry %d was rejected by the real leader but is applied on replay", k)}
		}
	}
	st.dumpCmp++
	want := dump(server.VerifC06LeaderDB(lc))
	if got := dump(db); got != want {
		return &viol{"dump-divergence:" + route, fmt.Sprintf("replay of the real leader's WAL differs from the leader's own database: %s", firstDiff(want, got))}
	}
	return nil
}

var _ = kv.NoOpCallback

// ---- open iterator tracking -------------------------------------------------------------
// leaderController.list closes its iterator in its goroutine after it has signalled completion;
// closing the controller right after BecomeLeader (sessionManager.Initialize -> ListBlock) or after
// CloseSession can close Pebble underneath that iterator, which panics inside Pebble. R6 waits for
// every iterator handed out to be closed before it closes a controller (see NOTES.md).

type iterTracker struct{ open atomic.Int64 }

func (t *iterTracker) quiesce() {
	deadline := time.Now().Add(10 * time.Second)
	for t.open.Load() != 0 && time.Now().Before(deadline) {
		runtime.Gosched()
		time.Sleep(20 * time.Microsecond)
	}
}

type trkFactory struct {
	kv.Factory
	t *iterTracker
}

func (f *trkFactory) NewKV(namespace string, shardId int64) (kv.KV, error) {
	k, err := f.Factory.NewKV(namespace, shardId)
	if err != nil {
		return nil, err
	}
	return &trkKV{KV: k, t: f.t}, nil
}

type trkKV struct {
	kv.KV
	t *iterTracker
}

type trkCloser struct {
	t    *iterTracker
	once sync.Once
}

func (c *trkCloser) done() { c.once.Do(func() { c.t.open.Add(-1) }) }

type trkKeyIt struct {
	kv.KeyIterator
	c trkCloser
}

func (i *trkKeyIt) Close() error { err := i.KeyIterator.Close(); i.c.done(); return err }

type trkKVIt struct {
	kv.KeyValueIterator
	c trkCloser
}

func (i *trkKVIt) Close() error { err := i.KeyValueIterator.Close(); i.c.done(); return err }

type trkRevIt struct {
	kv.ReverseKeyIterator
	c trkCloser
}

func (i *trkRevIt) Close() error { err := i.ReverseKeyIterator.Close(); i.c.done(); return err }

func (k *trkKV) KeyRangeScan(lo, hi string) (kv.KeyIterator, error) {
	it, err := k.KV.KeyRangeScan(lo, hi)
	if err != nil {
		return nil, err
	}
	k.t.open.Add(1)
	return &trkKeyIt{KeyIterator: it, c: trkCloser{t: k.t}}, nil
}

func (k *trkKV) KeyIterator() (kv.KeyIterator, error) {
	it, err := k.KV.KeyIterator()
	if err != nil {
		return nil, err
	}
	k.t.open.Add(1)
	return &trkKeyIt{KeyIterator: it, c: trkCloser{t: k.t}}, nil
}

func (k *trkKV) KeyRangeScanReverse(lo, hi string) (kv.ReverseKeyIterator, error) {
	it, err := k.KV.KeyRangeScanReverse(lo, hi)
	if err != nil {
		return nil, err
	}
	k.t.open.Add(1)
	return &trkRevIt{ReverseKeyIterator: it, c: trkCloser{t: k.t}}, nil
}

func (k *trkKV) RangeScan(lo, hi string) (kv.KeyValueIterator, error) {
	it, err := k.KV.RangeScan(lo, hi)
	if err != nil {
		return nil, err
	}
	k.t.open.Add(1)
	return &trkKVIt{KeyValueIterator: it, c: trkCloser{t: k.t}}, nil
}
