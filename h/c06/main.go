// C06: replicas are deterministic state machines over the committed log.
//
// Differential E1: a "leader" instance (route R1) turns every operation history into a real
// log (marshalled LogEntryValue per offset, deterministic timestamps); the same log is then
// driven through the other routes (replay, graceful restart, crash + replay from the stored
// commit offset, snapshot transfer with several chunk sizes, real leader controller) and the
// full ordered dump of the resulting databases is compared. No expected values are written
// by hand: the only oracle is equality between routes.
package main

import (
	"crypto/sha256"
	"flag"
	"fmt"
	"os"
	"path/filepath"
	"runtime"
	"runtime/debug"
	"runtime/pprof"
	"sort"
	"strings"
	"sync"
	"sync/atomic"
	"time"

	"github.com/cockroachdb/pebble/vfs"

	"github.com/oxia-db/oxia/common/metric"
	time2 "github.com/oxia-db/oxia/common/time"
	"github.com/oxia-db/oxia/proto"
	"github.com/oxia-db/oxia/server"
	"github.com/oxia-db/oxia/server/kv"

	"verif/lib/ev"
	"verif/lib/oxh"
)

const (
	ns        = "ns"
	shard     = int64(1)
	retention = 24 * 365 * 100 * time.Hour // notifications are never trimmed by time
)

var (
	clock   = &time2.MockedClock{}
	scratch string
	fsReg   sync.Map // DataDir -> vfs.FS chosen by the harness
	dirSeq  atomic.Int64
)

func tsOf(off int64) uint64 { return uint64(1_000_000 + 1000*off) }

// ---------------------------------------------------------------------------------------
// log entries: exactly what the leader appends to its WAL (leader_controller.go:write)

type logEntry struct {
	off  int64
	ts   uint64
	raw  []byte // marshalled proto.LogEntryValue
	name string
}

func encode(req *proto.WriteRequest) []byte {
	lev := &proto.LogEntryValue{Value: &proto.LogEntryValue_Requests{Requests: &proto.WriteRequests{Writes: []*proto.WriteRequest{req}}}}
	b, err := lev.MarshalVT()
	if err != nil {
		panic(err)
	}
	return b
}

// decode does what followers and a newly elected leader do with a WAL entry.
func decode(e logEntry) []*proto.WriteRequest {
	lev := &proto.LogEntryValue{}
	if err := lev.UnmarshalVT(e.raw); err != nil {
		panic(err)
	}
	return lev.GetRequests().Writes
}

func applyEntry(db kv.DB, e logEntry) (*proto.WriteResponse, error) {
	var last *proto.WriteResponse
	for _, w := range decode(e) {
		r, err := db.ProcessWrite(w, e.off, e.ts, server.WrapperUpdateOperationCallback)
		if err != nil {
			return nil, err
		}
		last = r
	}
	return last, nil
}

func newDB(f kv.Factory) (kv.DB, error) { return kv.NewDB(ns, shard, f, retention, clock) }

func dump(db kv.DB) string {
	return strings.Join(oxh.DumpDB(db, oxh.DumpOpts{SkipTerm: true}), "\n")
}

func firstDiff(a, b string) string {
	la, lb := strings.Split(a, "\n"), strings.Split(b, "\n")
	for i := 0; i < len(la) || i < len(lb); i++ {
		var x, y string
		if i < len(la) {
			x = la[i]
		} else {
			x = "<missing>"
		}
		if i < len(lb) {
			y = lb[i]
		} else {
			y = "<missing>"
		}
		if x != y {
			return fmt.Sprintf("line %d: reference(live leader)=[%s] route=[%s]", i, x, y)
		}
	}
	return "no difference"
}

// ---------------------------------------------------------------------------------------
// alphabet: each operation builds the WriteRequest the leader would log in its current state

const (
	opPutA = iota
	opPutBIdx
	opPutAIfAbsent
	opCasB
	opDelA
	opDelBIfV0
	opDelRangeAC
	opDelRangeK
	opSessCreate
	opPutEphE
	opPutEphA
	opSessClose
	opSeq1
	opSeq2
	opPutThenBadSeq
	opMulti
	opPutKIdx
	nOps
)

var opNames = []string{"put(a)", "put(b,idx)", "put(a,if-absent)", "put(b,expected=current)", "delete(a)", "delete(b,expected=0)",
	"deleteRange[a,c)", "deleteRange[k,l)", "session-create", "put-ephemeral(e/x y,idx)", "put-ephemeral(a)", "session-close",
	"seq-put(s,+1)", "seq-put(s,+2,+1)", "put(a)+seq-put(s,+1)[rejected as a whole once two-delta keys exist]", "multi(put a,put b idx,delete a,deleteRange[e,f))",
	"put(k050,idx)"}

type config struct {
	name    string
	preload int   // number of k-keys preloaded by the first two log entries (0 = none)
	ops     []int // alphabet
	depth   int
	prune   func(prefix []int) bool // optional: subtrees left out (documented in the config name)
	minLen  int                     // optional: only histories of at least this length
}

type leader struct {
	db       kv.DB
	fac      *oxh.CapFactory
	log      []logEntry
	resps    []*proto.WriteResponse
	failed   []bool
	errs     []string
	dumps    []string // dumps[k] = dump after k entries were handled
	sessions []int64  // open sessions, oldest first
	phantom  int64    // version ids consumed by requests that failed as a whole
}

func newLeader() *leader {
	f := oxh.NewMemFactory()
	db, err := newDB(f)
	if err != nil {
		panic(err)
	}
	l := &leader{db: db, fac: f}
	l.dumps = append(l.dumps, dump(db))
	return l
}

func (l *leader) close() {
	_ = l.db.Close()
	_ = l.fac.Close()
}

// write = leader_controller.write without the quorum: marshal, append, then ProcessWrite of the
// very same request object; an error is reported to the client and the leader moves on.
func (l *leader) write(name string, supplier func(off int64) *proto.WriteRequest) {
	off := int64(len(l.log))
	req := supplier(off)
	e := logEntry{off: off, ts: tsOf(off), raw: encode(req), name: name}
	l.log = append(l.log, e)
	before := kv.VerifVersionIdTracker(l.db)
	resp, err := l.db.ProcessWrite(req, e.off, e.ts, server.WrapperUpdateOperationCallback)
	l.resps = append(l.resps, resp)
	l.failed = append(l.failed, err != nil)
	if err != nil {
		l.errs = append(l.errs, err.Error())
		l.phantom += kv.VerifVersionIdTracker(l.db) - before
	} else {
		l.errs = append(l.errs, "")
	}
	l.dumps = append(l.dumps, dump(l.db))
}

var sessionMeta = func() []byte {
	b, err := (&proto.SessionMetadata{TimeoutMs: 5000, Identity: "cid"}).MarshalVT()
	if err != nil {
		panic(err)
	}
	return b
}()

func idx(name, key string) []*proto.SecondaryIndex {
	return []*proto.SecondaryIndex{{IndexName: name, SecondaryKey: key}}
}

func (l *leader) sessionId() *int64 {
	if len(l.sessions) == 0 {
		return oxh.I64(7) // a session that never existed
	}
	return oxh.I64(l.sessions[len(l.sessions)-1])
}

func (l *leader) createSession() {
	// session_manager.go:createSession
	l.write(opNames[opSessCreate], func(off int64) *proto.WriteRequest {
		l.sessions = append(l.sessions, off)
		return &proto.WriteRequest{Shard: oxh.I64(shard), Puts: []*proto.PutRequest{{Key: server.SessionKey(server.SessionId(off)),
			// a private copy: ProcessWrite keeps the Value backing array in the StorageEntry pool and a later
			// Deserialize overwrites it (see NOTES.md), so request buffers must never be shared
			Value: append([]byte(nil), sessionMeta...)}}}
	})
	if l.failed[len(l.failed)-1] || l.resps[len(l.resps)-1].Puts[0].Status != proto.Status_OK {
		l.sessions = l.sessions[:len(l.sessions)-1]
	}
}

func (l *leader) closeSession() bool {
	if len(l.sessions) == 0 {
		return false
	}
	sid := l.sessions[len(l.sessions)-1]
	l.sessions = l.sessions[:len(l.sessions)-1]
	// session.go:delete
	sessionKey := server.SessionKey(server.SessionId(sid))
	it, err := l.db.List(&proto.ListRequest{Shard: oxh.I64(shard), StartInclusive: sessionKey + "/", EndExclusive: sessionKey + "//"})
	if err != nil {
		panic(err)
	}
	var deletes []*proto.DeleteRequest
	for ; it.Valid(); it.Next() {
		key := it.Key()
		un, err := urlUnescape(key[len(sessionKey)+1:])
		if err != nil {
			continue
		}
		if un != "" {
			deletes = append(deletes, &proto.DeleteRequest{Key: un})
		}
	}
	_ = it.Close()
	deletes = append(deletes, &proto.DeleteRequest{Key: sessionKey})
	req := &proto.WriteRequest{Shard: oxh.I64(shard), Deletes: deletes,
		DeleteRanges: []*proto.DeleteRangeRequest{{StartInclusive: sessionKey + "/", EndExclusive: sessionKey + "//"}}}
	l.write(opNames[opSessClose], func(int64) *proto.WriteRequest { return req })
	return true
}

func (l *leader) currentVersion(key string) int64 {
	gr, err := l.db.Get(&proto.GetRequest{Key: key})
	if err != nil {
		panic(err)
	}
	if gr.Status != proto.Status_OK {
		return 0
	}
	return gr.Version.VersionId
}

func (l *leader) step(op int) bool {
	off := int64(len(l.log))
	val := func(k string) []byte { return []byte(fmt.Sprintf("%s@%d", k, off)) }
	plain := func(req *proto.WriteRequest) bool {
		req.Shard = oxh.I64(shard)
		l.write(opNames[op], func(int64) *proto.WriteRequest { return req })
		return true
	}
	switch op {
	case opPutA:
		return plain(&proto.WriteRequest{Puts: []*proto.PutRequest{{Key: "a", Value: val("a")}}})
	case opPutBIdx:
		// the same index entry is declared twice (clients do that; the second is a no-op for the state)
		k := fmt.Sprintf("s%d", off%2)
		return plain(&proto.WriteRequest{Puts: []*proto.PutRequest{{Key: "b", Value: val("b"), SecondaryIndexes: append(idx("i1", k), idx("i1", k)...)}}})
	case opPutAIfAbsent:
		return plain(&proto.WriteRequest{Puts: []*proto.PutRequest{{Key: "a", Value: val("a"), ExpectedVersionId: oxh.I64(-1)}}})
	case opCasB:
		return plain(&proto.WriteRequest{Puts: []*proto.PutRequest{{Key: "b", Value: val("b"), ExpectedVersionId: oxh.I64(l.currentVersion("b"))}}})
	case opDelA:
		return plain(&proto.WriteRequest{Deletes: []*proto.DeleteRequest{{Key: "a"}}})
	case opDelBIfV0:
		return plain(&proto.WriteRequest{Deletes: []*proto.DeleteRequest{{Key: "b", ExpectedVersionId: oxh.I64(0)}}})
	case opDelRangeAC:
		return plain(&proto.WriteRequest{DeleteRanges: []*proto.DeleteRangeRequest{{StartInclusive: "a", EndExclusive: "c"}}})
	case opDelRangeK:
		return plain(&proto.WriteRequest{DeleteRanges: []*proto.DeleteRangeRequest{{StartInclusive: "k", EndExclusive: "l"}}})
	case opSessCreate:
		l.createSession()
		return true
	case opPutEphE:
		return plain(&proto.WriteRequest{Puts: []*proto.PutRequest{{Key: "e/x y", Value: val("e"), SessionId: l.sessionId(), ClientIdentity: oxh.Str("cid"),
			SecondaryIndexes: idx("i2", "t")}}})
	case opPutEphA:
		return plain(&proto.WriteRequest{Puts: []*proto.PutRequest{{Key: "a", Value: val("a"), SessionId: l.sessionId(), ClientIdentity: oxh.Str("cid")}}})
	case opSessClose:
		return l.closeSession()
	case opSeq1:
		return plain(&proto.WriteRequest{Puts: []*proto.PutRequest{{Key: "s", Value: val("s"), PartitionKey: oxh.Str("p"), SequenceKeyDelta: []uint64{1}}}})
	case opSeq2:
		return plain(&proto.WriteRequest{Puts: []*proto.PutRequest{{Key: "s", Value: val("s"), PartitionKey: oxh.Str("p"), SequenceKeyDelta: []uint64{2, 1},
			SecondaryIndexes: idx("i1", "q")}}})
	case opPutThenBadSeq:
		// passes the public write handler (well formed); ProcessWrite refuses it with ErrMissingSequenceDeltas,
		// after put(a) was prepared, when keys s-<n>-<m> exist
		return plain(&proto.WriteRequest{Puts: []*proto.PutRequest{{Key: "a", Value: val("a")},
			{Key: "s", Value: val("s"), PartitionKey: oxh.Str("p"), SequenceKeyDelta: []uint64{1}}}})
	case opMulti:
		return plain(&proto.WriteRequest{
			Puts:         []*proto.PutRequest{{Key: "a", Value: val("a")}, {Key: "b", Value: val("b"), SecondaryIndexes: idx("i1", "m")}},
			Deletes:      []*proto.DeleteRequest{{Key: "a"}},
			DeleteRanges: []*proto.DeleteRangeRequest{{StartInclusive: "e", EndExclusive: "f"}}})
	case opPutKIdx:
		return plain(&proto.WriteRequest{Puts: []*proto.PutRequest{{Key: "k050", Value: val("k"), SecondaryIndexes: idx("i1", "k")}}})
	}
	panic("bad op")
}

// preload logs a session and one client batch of n puts (k000 ephemeral+indexed, k001 indexed).
func (l *leader) preload(n int) {
	if n == 0 {
		return
	}
	l.createSession()
	var puts []*proto.PutRequest
	for i := 0; i < n; i++ {
		p := &proto.PutRequest{Key: fmt.Sprintf("k%03d", i), Value: []byte(fmt.Sprintf("pre%d", i))}
		switch i {
		case 0:
			p.SessionId = oxh.I64(l.sessions[0])
			p.ClientIdentity = oxh.Str("cid")
			p.SecondaryIndexes = idx("i1", "k0")
		case 1:
			p.SecondaryIndexes = idx("i1", "k1")
		}
		puts = append(puts, p)
	}
	l.write(fmt.Sprintf("preload(%d keys)", n), func(int64) *proto.WriteRequest { return &proto.WriteRequest{Shard: oxh.I64(shard), Puts: puts} })
}

func buildLeader(cfg config, hist []int) (*leader, bool) {
	l := newLeader()
	l.preload(cfg.preload)
	for _, op := range hist {
		if !l.step(op) {
			l.close()
			return nil, false
		}
	}
	return l, true
}

// lastOK returns the highest offset < i whose entry the leader applied successfully (-1 if none).
func (l *leader) lastOK(i int) int64 {
	for k := i - 1; k >= 0; k-- {
		if !l.failed[k] {
			return int64(k)
		}
	}
	return -1
}

// ---------------------------------------------------------------------------------------
// routes

type viol struct {
	key, msg string
}

type stats struct {
	applied, routeRuns, dumpCmp, respCmp, stuck, skipped, failing, phantom, behind, r4Survived, r4Lost int64
	perRoute                                                      map[string]int64
	commitOffsets                                                 map[int64]struct{}
}

func newStats() *stats { return &stats{perRoute: map[string]int64{}, commitOffsets: map[int64]struct{}{}} }

// resume re-executes log entries from..end on db exactly like a follower / new leader would and
// compares responses with the live leader's. reached=false: the replica is stuck on an entry that
// the leader could not apply either (C13's business), nothing to compare.
func resume(db kv.DB, l *leader, from int, route string, st *stats) (bool, *viol) {
	for k := from; k < len(l.log); k++ {
		resp, err := applyEntry(db, l.log[k])
		st.applied++
		switch {
		case err != nil && l.failed[k] && kv.IsInvalidRequestError(err):
			// follower_controller.processCommitRequest / applyAllEntriesIntoDBLoop: the request is refused
			// like on the leader that logged it and is skipped
			st.skipped++
			continue
		case err != nil && l.failed[k]:
			st.stuck++
			return false, nil
		case err != nil:
			return false, &viol{"apply-error:" + route, fmt.Sprintf("entry %d (%s) applied on the live leader but failed on route %s: %v", k, l.log[k].name, route, err)}
		case l.failed[k]:
			return false, &viol{"apply-error:" + route, fmt.Sprintf("entry %d (%s) failed on the live leader (%s) but was applied on route %s", k, l.log[k].name, l.errs[k], route)}
		}
		st.respCmp++
		if !resp.EqualVT(l.resps[k]) {
			return false, &viol{"response-divergence:" + route, fmt.Sprintf("entry %d (%s): live leader answered %v, route %s answered %v", k, l.log[k].name, l.resps[k], route, resp)}
		}
	}
	return true, nil
}

func compareFinal(db kv.DB, l *leader, route string, st *stats) *viol {
	st.dumpCmp++
	d := dump(db)
	if want := l.dumps[len(l.log)]; d != want {
		return &viol{"dump-divergence:" + route, fmt.Sprintf("after the same %d log entries the replica on route %s differs from the live leader: %s", len(l.log), route, firstDiff(want, d))}
	}
	return nil
}

// checkReopened validates the state right after a restart / snapshot installation and returns the offset to resume from.
func checkReopened(db kv.DB, l *leader, i int, route string, exact bool, st *stats) (int, *viol) {
	c, err := db.ReadCommitOffset()
	if err != nil {
		return 0, &viol{"route-error:" + route, "ReadCommitOffset: " + err.Error()}
	}
	st.commitOffsets[c] = struct{}{}
	if exact && c != l.lastOK(i) {
		// not demanded by C06 (replay simply starts earlier); reported as a counter only
		st.behind++
	}
	if c > l.lastOK(i) || c < -1 {
		return 0, &viol{"commit-offset:" + route, fmt.Sprintf("route %s split=%d: stored commit offset %d, last applied offset %d", route, i, c, l.lastOK(i))}
	}
	st.dumpCmp++
	if d, want := dump(db), l.dumps[c+1]; d != want {
		return 0, &viol{"dump-divergence-at-split:" + route, fmt.Sprintf("route %s split=%d commit offset %d: %s", route, i, c, firstDiff(want, d))}
	}
	return int(c + 1), nil
}

func routeR2(l *leader, st *stats) *viol {
	f := oxh.NewMemFactory()
	defer f.Close()
	db, err := newDB(f)
	if err != nil {
		return &viol{"route-error:R2-replay", err.Error()}
	}
	defer db.Close()
	if ok, v := resume(db, l, 0, "R2-replay", st); v != nil || !ok {
		return v
	}
	return compareFinal(db, l, "R2-replay", st)
}

func regFS(prefix string, fs vfs.FS) string {
	d := fmt.Sprintf("/%s/%d", prefix, dirSeq.Add(1))
	fsReg.Store(d, fs)
	return d
}

// R3: apply i entries, graceful close, reopen on the same files, apply the rest.
func routeR3(l *leader, i int, st *stats) *viol {
	const route = "R3-restart"
	dir := regFS("r3", vfs.NewMem())
	defer fsReg.Delete(dir)
	f := oxh.NewDirFactory(dir)
	defer f.Close()
	db, err := newDB(f)
	if err != nil {
		return &viol{"route-error:" + route, err.Error()}
	}
	for k := 0; k < i; k++ {
		_, err := applyEntry(db, l.log[k])
		st.applied++
		if (err != nil) != l.failed[k] {
			_ = db.Close()
			return &viol{"apply-error:" + route, fmt.Sprintf("entry %d outcome differs from the leader's: %v", k, err)}
		}
	}
	if err := db.Close(); err != nil {
		return &viol{"route-error:" + route, "close: " + err.Error()}
	}
	db, err = newDB(f)
	if err != nil {
		return &viol{"route-error:" + route, "reopen: " + err.Error()}
	}
	defer db.Close()
	from, v := checkReopened(db, l, i, route, true, st)
	if v != nil {
		return v
	}
	if ok, v := resume(db, l, from, route, st); v != nil || !ok {
		return v
	}
	return compareFinal(db, l, route, st)
}

// R4: apply f entries, flush, apply up to i, crash (everything not synced is lost), reopen,
// replay from the stored commit offset.
func routeR4(l *leader, f, i int, st *stats) *viol {
	const route = "R4-crash"
	mem := vfs.NewStrictMem()
	dir := regFS("r4", mem)
	defer fsReg.Delete(dir)
	makeDurableDir(mem, filepath.Join(dir, ns, fmt.Sprintf("shard-%d", shard)))
	fac := oxh.NewDirFactory(dir)
	defer fac.Close()
	db, err := newDB(fac)
	if err != nil {
		return &viol{"route-error:" + route, err.Error()}
	}
	for k := 0; k < i; k++ {
		if k == f && f > 0 {
			if err := kv.VerifKV(db).Flush(); err != nil {
				_ = db.Close()
				return &viol{"route-error:" + route, "flush: " + err.Error()}
			}
		}
		_, err := applyEntry(db, l.log[k])
		st.applied++
		if (err != nil) != l.failed[k] {
			_ = db.Close()
			return &viol{"apply-error:" + route, fmt.Sprintf("entry %d outcome differs from the leader's: %v", k, err)}
		}
	}
	if f == i && f > 0 {
		if err := kv.VerifKV(db).Flush(); err != nil {
			_ = db.Close()
			return &viol{"route-error:" + route, "flush: " + err.Error()}
		}
	}
	mem.SetIgnoreSyncs(true)
	_ = db.Close()
	mem.ResetToSyncedState()
	mem.SetIgnoreSyncs(false)
	db, err = newDB(fac)
	if err != nil {
		return &viol{"route-error:" + route, fmt.Sprintf("reopen after crash (flush after %d, crash after %d): %v", f, i, err)}
	}
	defer db.Close()
	from, v := checkReopened(db, l, i, route, false, st)
	if v != nil {
		v.msg = fmt.Sprintf("flush after %d entries, crash after %d: %s", f, i, v.msg)
		return v
	}
	if from > 0 {
		st.r4Survived++
	}
	if from < i {
		st.r4Lost++
	}
	if ok, v := resume(db, l, from, route, st); v != nil || !ok {
		return v
	}
	v = compareFinal(db, l, route, st)
	if v != nil {
		v.msg = fmt.Sprintf("flush after %d entries, crash after %d: %s", f, i, v.msg)
	}
	return v
}

// R5: a source node applies the log entry by entry; after every prefix i it takes a snapshot which
// is shipped, chunk by chunk, into a fresh node exactly like follower_cursor.sendSnapshot /
// follower_controller.handleSnapshot do; the fresh node replays the rest. The source keeps going
// (it has been flushed by the earlier snapshots, like a leader that served several followers).
// kv.MaxSnapshotChunkSize is a package variable: the caller guarantees that every concurrent R5
// uses the same value.
func routeR5(l *leader, worker int, st *stats, add func(*viol, string)) {
	route := fmt.Sprintf("R5-snapshot(chunk=%d)", kv.MaxSnapshotChunkSize)
	base := filepath.Join(scratch, fmt.Sprintf("w%d-%d", worker, dirSeq.Add(1)))
	defer os.RemoveAll(base)
	srcF := oxh.NewDirFactory(filepath.Join(base, "src"))
	defer srcF.Close()
	src, err := newDB(srcF)
	if err != nil {
		add(&viol{"route-error:" + route, err.Error()}, "R5")
		return
	}
	defer src.Close()
	for i := 0; i <= len(l.log); i++ {
		if i > 0 {
			_, err := applyEntry(src, l.log[i-1])
			st.applied++
			if (err != nil) != l.failed[i-1] {
				add(&viol{"apply-error:" + route, fmt.Sprintf("entry %d outcome differs from the leader's: %v", i-1, err)}, "R5")
				return
			}
		}
		add(snapshotInto(l, src, i, filepath.Join(base, fmt.Sprintf("dst%d", i)), route, st), "R5")
	}
	add(compareFinal(src, l, route+"-source", st), "R5-source")
}

func snapshotInto(l *leader, src kv.DB, i int, dstDir string, route string, st *stats) *viol {
	dstF := oxh.NewDirFactory(dstDir)
	defer dstF.Close()
	snap, err := src.Snapshot()
	if err != nil {
		return &viol{"route-error:" + route, "snapshot: " + err.Error()}
	}
	loader, err := dstF.NewSnapshotLoader(ns, shard)
	if err != nil {
		_ = snap.Close()
		return &viol{"route-error:" + route, "loader: " + err.Error()}
	}
	for ; snap.Valid(); snap.Next() {
		ch, err := snap.Chunk()
		if err != nil {
			_ = snap.Close()
			_ = loader.Close()
			return &viol{"route-error:" + route, "chunk: " + err.Error()}
		}
		// what travels in proto.SnapshotChunk
		if err := loader.AddChunk(ch.Name(), ch.Index(), ch.TotalCount(), ch.Content()); err != nil {
			_ = snap.Close()
			_ = loader.Close()
			return &viol{"route-error:" + route, "add chunk: " + err.Error()}
		}
	}
	_ = snap.Close()
	loader.Complete()
	dst, err := newDB(dstF)
	_ = loader.Close()
	if err != nil {
		return &viol{"snapshot-unloadable:" + route, fmt.Sprintf("split=%d: database does not open after loading the snapshot: %v", i, err)}
	}
	defer dst.Close()
	if err := dst.UpdateTerm(5, kv.TermOptions{NotificationsEnabled: true}); err != nil {
		return &viol{"route-error:" + route, "update term: " + err.Error()}
	}
	from, v := checkReopened(dst, l, i, route, true, st)
	if v != nil {
		return v
	}
	if ok, v := resume(dst, l, from, route, st); v != nil || !ok {
		return v
	}
	return compareFinal(dst, l, route, st)
}

// ---------------------------------------------------------------------------------------
// enumeration

type job struct {
	cfg  config
	hist []int
}

func names(h []int) []string {
	out := make([]string, len(h))
	for i, o := range h {
		out[i] = opNames[o]
	}
	return out
}

func enumerate(cfg config, f func(h []int)) {
	var rec func(h []int)
	rec = func(h []int) {
		if cfg.prune != nil && cfg.prune(h) {
			return
		}
		if len(h) > 0 && len(h) >= cfg.minLen {
			f(append([]int(nil), h...))
		}
		if len(h) == cfg.depth {
			return
		}
		for _, op := range cfg.ops {
			rec(append(h, op))
		}
	}
	rec(nil)
}

func nWorkers() int {
	n := 2 * runtime.NumCPU()
	if v := os.Getenv("VERIF_WORKERS"); v != "" {
		fmt.Sscanf(v, "%d", &n)
	}
	return n
}

var finalsLog *os.File // debugging aid: VERIF_DUMP_FINALS=<file>

var allPairs bool // R4: every (flush point, crash point) pair

type pass struct {
	name  string
	chunk int64  // 0 = the pass with R2,R3,R4 (+R6)
	skip  string // configs whose name starts with one of these (comma separated) are left out of this pass
	depth int    // >0: histories longer than this are left out of this pass
}

func (p pass) wants(c config) bool {
	if p.skip == "" {
		return true
	}
	for _, pre := range strings.Split(p.skip, ",") {
		if strings.HasPrefix(c.name, pre) {
			return false
		}
	}
	return true
}

// evalHistory runs every route of one pass for one history.
func evalHistory(j job, p pass, worker int, st *stats, withLeaderRoute bool) (vs []viol, enabled bool, finalDump string) {
	l, ok := buildLeader(j.cfg, j.hist)
	if !ok {
		return nil, false, ""
	}
	defer l.close()
	add := func(v *viol, route string) {
		st.routeRuns++
		st.perRoute[route]++
		if v != nil {
			vs = append(vs, *v)
		}
	}
	n := len(l.log)
	if p.chunk == 0 {
		for _, f := range l.failed {
			if f {
				st.failing++
			}
		}
		st.phantom += l.phantom
		add(routeR2(l, st), "R2")
		for i := 0; i <= n; i++ {
			add(routeR3(l, i, st), "R3")
			for f := 0; f <= i; f++ {
				if !allPairs && f != i && f != i-1 {
					continue // quick tier: flush right before the crash and one entry earlier (f=0: no flush at all)
				}
				add(routeR4(l, f, i, st), "R4")
			}
		}
		if withLeaderRoute {
			add(routeR6(j, l, worker, st), "R6")
		}
	} else {
		routeR5(l, worker, st, add)
	}
	return vs, true, l.dumps[n]
}

type agg struct {
	mu        sync.Mutex
	st        *stats
	histories int64
	disabled  int64
	finals    map[[32]byte]struct{}
	nondet    []string
}

func (a *agg) merge(s *stats) {
	a.mu.Lock()
	defer a.mu.Unlock()
	a.st.applied += s.applied
	a.st.routeRuns += s.routeRuns
	a.st.dumpCmp += s.dumpCmp
	a.st.respCmp += s.respCmp
	a.st.stuck += s.stuck
	a.st.skipped += s.skipped
	a.st.failing += s.failing
	a.st.phantom += s.phantom
	a.st.behind += s.behind
	a.st.r4Survived += s.r4Survived
	a.st.r4Lost += s.r4Lost
	for k, v := range s.perRoute {
		a.st.perRoute[k] += v
	}
	for k := range s.commitOffsets {
		a.st.commitOffsets[k] = struct{}{}
	}
}

func runPass(run *ev.Run, cfgs []config, p pass, a *agg, deadline time.Time, r6every int) {
	if p.chunk != 0 {
		kv.MaxSnapshotChunkSize = p.chunk
	}
	jobs := make(chan job, 256)
	var wg sync.WaitGroup
	var cut atomic.Bool
	var seq atomic.Int64
	for w := 0; w < nWorkers(); w++ {
		wg.Add(1)
		go func(w int) {
			defer wg.Done()
			st := newStats()
			defer a.merge(st)
			for j := range jobs {
				if cut.Load() || run.NViolations() >= 20 {
					continue
				}
				if time.Now().After(deadline) {
					cut.Store(true)
					continue
				}
				n := seq.Add(1)
				withR6 := r6every > 0 && n%int64(r6every) == 0
				vs, en, final := evalHistory(j, p, w, st, withR6)
				a.mu.Lock()
				if !en {
					a.disabled++
				} else {
					a.histories++
					a.finals[sha256.Sum256([]byte(j.cfg.name+"\x00"+final))] = struct{}{}
					if finalsLog != nil {
						fmt.Fprintf(finalsLog, "%s|%v|%x\n", j.cfg.name, j.hist, sha256.Sum256([]byte(final)))
					}
				}
				a.mu.Unlock()
				if len(vs) == 0 {
					continue
				}
				// a violation must reproduce: evaluate the same history two more times
				keep := map[string]int{}
				for rep := 0; rep < 2; rep++ {
					vs2, _, _ := evalHistory(j, p, w, newStats(), withR6)
					seen := map[string]bool{}
					for _, v := range vs2 {
						if !seen[v.key] {
							seen[v.key] = true
							keep[v.key]++
						}
					}
				}
				reported := map[string]bool{}
				for _, v := range vs {
					if reported[v.key] {
						continue
					}
					reported[v.key] = true
					if keep[v.key] < 2 {
						a.mu.Lock()
						a.nondet = append(a.nondet, fmt.Sprintf("%s on %v [%s] reproduced %d/2 times: %s", v.key, names(j.hist), j.cfg.name, keep[v.key], v.msg))
						a.mu.Unlock()
						continue
					}
					run.Violate(ev.Violation{Key: v.key, Harness: "c06-routes", Message: fmt.Sprintf("[%s] history %v: %s", j.cfg.name, names(j.hist), v.msg),
						Replay: map[string]any{"config": j.cfg.name, "pass": p.name, "chunk": p.chunk, "ops": names(j.hist), "indices": j.hist}})
				}
			}
		}(w)
	}
	for _, cfg := range cfgs {
		cfg := cfg
		if !p.wants(cfg) {
			continue
		}
		enumerate(cfg, func(h []int) {
			if p.depth == 0 || len(h) <= p.depth {
				jobs <- job{cfg, h}
			}
		})
	}
	close(jobs)
	wg.Wait()
	if cut.Load() {
		run.NotExhaustive(fmt.Sprintf("pass %s cut by the time budget", p.name))
	}
}

func configs(tier string) []config {
	full := make([]int, 0, nOps)
	for o := 0; o < nOps; o++ {
		if o != opPutKIdx {
			full = append(full, o)
		}
	}
	// reduced alphabets (<= 6 operations) focused on one interaction each
	sess := []int{opPutA, opSessCreate, opPutEphE, opPutEphA, opSessClose, opDelRangeAC}
	seqs := []int{opPutA, opSeq1, opSeq2, opPutThenBadSeq, opDelRangeAC, opCasB}
	idxs := []int{opPutBIdx, opCasB, opDelBIfV0, opMulti, opDelRangeAC, opPutAIfAbsent}
	big := []int{opDelRangeK, opPutKIdx, opPutEphA, opSessClose, opSeq2, opPutThenBadSeq}
	if tier == "thorough" {
		return []config{
			{"full/empty", 0, full, 4, nil, 0},
			{"sessions/empty", 0, sess, 5, nil, 0},
			{"sequences/empty", 0, seqs, 5, nil, 0},
			{"indexes/empty", 0, idxs, 5, nil, 0},
			{"range-delete/preload=101", 101, big, 4, nil, 0},
			{"range-delete/preload=100", 100, big, 4, nil, 0},
		}
	}
	// quick: the full alphabet without three operations whose effect class is covered by a sibling
	var most []int
	for _, o := range full {
		if o != opDelBIfV0 && o != opPutAIfAbsent && o != opSeq1 {
			most = append(most, o)
		}
	}
	return []config{
		{"full/empty", 0, most, 3, nil, 0},
		{"sessions/empty", 0, sess, 3, nil, 0},
		// depth 4 only below prefixes that create a session within the first two entries
		{"sessions/empty (length 4, session created in the first two entries)", 0, sess, 4, func(h []int) bool {
			return len(h) >= 2 && h[0] != opSessCreate && h[1] != opSessCreate
		}, 4},
		{"sequences/empty", 0, seqs, 3, nil, 0},
		{"indexes/empty", 0, idxs, 3, nil, 0},
		{"range-delete/preload=101", 101, big, 3, nil, 0},
		{"range-delete/preload=100", 100, big, 2, nil, 0},
	}
}

func main() {
	replay := flag.String("replay", "", "replay file")
	flag.Parse()
	oxh.Quiet()
	debug.SetGCPercent(400)
	metric.VerifUseNoopMeter()
	scratch = ev.Scratch("c06")
	defer os.RemoveAll(scratch)
	kv.VerifFSHook = func(dataDir string, _ bool, def vfs.FS) vfs.FS {
		if fs, ok := fsReg.Load(dataDir); ok {
			return fs.(vfs.FS)
		}
		return def
	}
	run := ev.NewRun("C06", "model_checking")
	if fn := os.Getenv("VERIF_DUMP_FINALS"); fn != "" {
		finalsLog, _ = os.Create(fn)
	}
	if pf := os.Getenv("VERIF_PPROF"); pf != "" {
		f, _ := os.Create(pf)
		_ = pprof.StartCPUProfile(f)
		runtime.SetMutexProfileFraction(5)
		runtime.SetBlockProfileRate(10000)
	}
	cfgs := configs(run.Tier)
	if d := os.Getenv("VERIF_DEPTH"); d != "" {
		var dd int
		fmt.Sscanf(d, "%d", &dd)
		for i := range cfgs {
			cfgs[i].depth = dd
		}
	}
	passes := []pass{{"routes R2,R3,R4,R6", 0, "", 0}, {"R5 chunk=7", 7, "", 0}, {"R5 chunk=1MiB (not full/, sessions/)", 1 << 20, "full/,sessions/", 0}}
	budget := 120 * time.Second // safety net only: ~10 s of work on 16 idle cores (~150 cpu-s)
	r6every := 40
	if run.Tier == "thorough" {
		allPairs = true
		passes = []pass{{"routes R2,R3,R4,R6", 0, "", 0}, {"R5 chunk=7", 7, "", 0}, {"R5 chunk=1MiB", 1 << 20, "", 0}, {"R5 chunk=4096 (not full/)", 4096, "full/", 0},
			{"R5 chunk=1 (not full/, histories of length<=3)", 1, "full/", 3}}
		budget = 22 * time.Minute
		r6every = 10
	}
	if spec := os.Getenv("VERIF_PRINT_HISTORY"); spec != "" {
		// debugging aid: VERIF_PRINT_HISTORY="<config name>|i,j,k" prints the live leader's final dump
		parts := strings.SplitN(spec, "|", 2)
		var h []int
		for _, f := range strings.Split(parts[1], ",") {
			var o int
			fmt.Sscanf(f, "%d", &o)
			h = append(h, o)
		}
		for _, c := range cfgs {
			if c.name == parts[0] {
				l, _ := buildLeader(c, h)
				fmt.Println(l.dumps[len(l.log)])
				l.close()
			}
		}
		os.RemoveAll(scratch)
		return
	}
	if *replay != "" {
		code := doReplay(*replay, cfgs, passes)
		os.RemoveAll(scratch)
		os.Exit(code)
	}
	if v := os.Getenv("VERIF_BUDGET_S"); v != "" {
		var sec int
		fmt.Sscanf(v, "%d", &sec)
		budget = time.Duration(sec) * time.Second
	}
	deadline := time.Now().Add(budget)
	a := &agg{st: newStats(), finals: map[[32]byte]struct{}{}}
	for i, p := range passes {
		a2 := a
		if i > 0 {
			// histories / final states are counted by the first pass only
			a2 = &agg{st: a.st, finals: map[[32]byte]struct{}{}}
		}
		runPass(run, cfgs, p, a2, deadline, r6every)
		if i > 0 {
			a.nondet = append(a.nondet, a2.nondet...)
		}
	}
	st := a.st
	run.Add("states", int64(len(a.finals)))
	run.Add("transitions", st.applied)
	run.Add("traces_validated_against_impl", st.dumpCmp)
	run.Add("evaluations", st.routeRuns)
	run.Add("histories", a.histories)
	run.Add("histories_with_disabled_op_skipped", a.disabled)
	run.Add("responses_compared", st.respCmp)
	run.Add("leader_entries_rejected", st.failing)
	run.Add("version_ids_consumed_by_rejected_entries", st.phantom)
	run.Add("replicas_stuck_on_entry_the_leader_rejected", st.stuck)
	run.Add("rejected_entries_skipped_by_replicas", st.skipped)
	run.Add("graceful_restart_or_snapshot_behind_applied_offset", st.behind)
	run.Add("crash_runs_where_some_entries_survived", st.r4Survived)
	run.Add("crash_runs_where_some_entries_were_lost", st.r4Lost)
	var rs []string
	for k := range st.perRoute {
		rs = append(rs, k)
	}
	sort.Strings(rs)
	for _, k := range rs {
		run.Add("route_runs_"+k, st.perRoute[k])
	}
	run.Add("distinct_commit_offsets_after_restart", int64(len(st.commitOffsets)))
	run.DistinctN(int64(len(a.finals)))
	var cn []string
	for _, c := range cfgs {
		cn = append(cn, fmt.Sprintf("%s depth<=%d alphabet=%d", c.name, c.depth, len(c.ops)))
	}
	run.Coverage["configs"] = cn
	var pn []string
	for _, p := range passes {
		pn = append(pn, p.name)
	}
	run.Coverage["passes"] = pn
	for _, s := range a.nondet {
		run.Note("nondeterministic (not reported as violation): " + s)
	}
	run.Sample(map[string]any{"config": "sessions/empty", "ops": names([]int{opSessCreate, opPutEphA, opPutA, opSessClose}),
		"routes": "R2 replay; R3 restart at every split; R4 flush-after-f/crash-after-i for all f<=i; R5 snapshot at every split x chunk sizes"})
	run.Sample(map[string]any{"config": "range-delete/preload=101", "ops": names([]int{opDelRangeK, opPutKIdx, opSeq2})})
	run.Assume = []string{
		"log entries carry what leader_controller.write logs: one WriteRequest per offset, timestamp fixed in the entry; session create/close requests are built as session_manager.go / session.go build them",
		"an entry that ProcessWrite refuses on the leader (kv.IsInvalidRequestError, e.g. a sequential put with fewer deltas than the existing keys) is skipped by replicas exactly like follower_controller.processCommitRequest / applyAllEntriesIntoDBLoop do; any other error stops the replica, which is then not compared (C13 covers that)",
		"__oxia/term and __oxia/term-options are not derived from the log and are excluded from the dumps",
		"notifications enabled on every replica; retention far in the future; one mocked clock",
		"crash = Pebble strict MemFS: everything not fsynced is lost (file data and directory entries)",
	}
	code := run.Finish("every operation history up to the configured depth over each alphabet (all lengths), for every split point i in 0..len(log): R2 full replay, R3 graceful restart at i, R4 flush after f<=i entries + crash after i + replay from the stored commit offset, R5 snapshot at i shipped with every chunk size and installed in a fresh node (source keeps going too), R6 real leader controller RF=1 for a systematic 1-in-N subset; oracle = equality of the full DB dump (and of every re-executed WriteResponse) with the live leader's")
	pprof.StopCPUProfile()
	if pf := os.Getenv("VERIF_PPROF"); pf != "" {
		mf, _ := os.Create(pf + ".mutex")
		_ = pprof.Lookup("mutex").WriteTo(mf, 0)
		mf.Close()
		bf, _ := os.Create(pf + ".block")
		_ = pprof.Lookup("block").WriteTo(bf, 0)
		bf.Close()
	}
	os.RemoveAll(scratch)
	os.Exit(code)
}

func doReplay(path string, cfgs []config, passes []pass) int {
	var doc struct {
		First struct {
			Replay struct {
				Config  string `json:"config"`
				Chunk   int64  `json:"chunk"`
				Indices []int  `json:"indices"`
			} `json:"replay"`
		} `json:"first"`
	}
	if err := ev.ReadJSON(path, &doc); err != nil {
		fmt.Println("cannot read replay:", err)
		return 2
	}
	for _, cfg := range cfgs {
		if cfg.name != doc.First.Replay.Config {
			continue
		}
		p := pass{"replay", doc.First.Replay.Chunk, "", 0}
		if p.chunk != 0 {
			kv.MaxSnapshotChunkSize = p.chunk
		}
		vs, en, _ := evalHistory(job{cfg, doc.First.Replay.Indices}, p, 0, newStats(), true)
		if !en {
			fmt.Println("history contains a disabled operation")
			return 2
		}
		if len(vs) > 0 {
			fmt.Printf("VIOLATION property=C06 replay=%s\n", path)
			for _, v := range vs {
				fmt.Printf("  %s: %s\n", v.key, v.msg)
			}
			return 1
		}
		fmt.Println("replay passed")
		return 0
	}
	fmt.Println("config not found")
	return 2
}

// makeDurableDir creates dir on the strict MemFS and fsyncs every ancestor so that the directory
// itself survives a crash (Pebble never syncs the parent of its data directory; on journaling
// filesystems the fsync of a file inside commits the creation of its parents, which the strict
// MemFS does not model).
func makeDurableDir(mem *vfs.MemFS, dir string) {
	if err := mem.MkdirAll(dir, 0o755); err != nil {
		panic(err)
	}
	p := dir
	for {
		parent := mem.PathDir(p)
		d, err := mem.OpenDir(parent)
		if err != nil {
			panic(err)
		}
		if err := d.Sync(); err != nil {
			panic(err)
		}
		_ = d.Close()
		if parent == p || parent == "/" || parent == "." {
			break
		}
		p = parent
	}
}
