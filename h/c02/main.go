// C02: per-shard operations are linearizable; reads never see rolled-back data.
// E2 exploration of the real cluster (see h/c05) with concurrent client writers and one
// fault per scenario; clients put and get colliding keys. Oracle: porcupine linearizability
// per key (unknown outcomes may take effect at most once or never), stale reads only from
// deposed leaders, no read of data absent from the final committed log.
package main

import (
	"flag"
	"os"
	"time"

	"github.com/oxia-db/oxia/zzverif/vsched"

	"verif/lib/oxc"
	"verif/lib/oxh"
	"verif/lib/sched"
)

func coarse(k vsched.Kind, obj uint64) bool {
	switch k {
	case vsched.KLock, vsched.KRLock, vsched.KAtomic, vsched.KWait, vsched.KCond, vsched.KClose:
		return false
	}
	return true
}

func scenarios(tier string) []sched.Scenario {
	cfg := vsched.Config{MaxSteps: 400000, Filter: coarse, OnPoint: oxc.PointHook, MaxTime: int64(10 * time.Minute)}
	mk := func() []oxc.Oracle { return []oxc.Oracle{&oxc.LinOracle{}} }
	specs := []oxc.ScenarioSpec{
		{Name: "failed-become-leader", Fault: "failed-become-leader", Clients: 0, PerCli: 0, SyncData: true},
		{Name: "lost-newterm-response", Fault: "lost-newterm-response", Clients: 2, PerCli: 2, SyncData: true, Reads: true, SameKeys: true},
		{Name: "steady-connection-drop", Fault: "none", Clients: 2, PerCli: 2, SyncData: true, Reads: true, SameKeys: true, Breaks: 1},
		{Name: "rolling-isolation", Fault: "rolling-isolation", Clients: 0, PerCli: 0, SyncData: true},
		{Name: "leader-crash", Fault: "leader-crash", Clients: 2, PerCli: 2, SyncData: true, Reads: true, SameKeys: true},
		{Name: "spurious-failover", Fault: "spurious-failover", Clients: 2, PerCli: 2, SyncData: true, Reads: true, SameKeys: true},
		{Name: "swap", Fault: "swap", Clients: 2, PerCli: 2, SyncData: true, Reads: true, SameKeys: true},
		{Name: "leader-swap", Fault: "leader-swap", Clients: 2, PerCli: 2, SyncData: true, Reads: true, SameKeys: true},
		{Name: "leader-crash-restart", Fault: "leader-crash-restart", Clients: 2, PerCli: 2, SyncData: true, Reads: true, SameKeys: true},
		{Name: "coord-crash", Fault: "coord-crash", Clients: 2, PerCli: 2, SyncData: true, Reads: true, SameKeys: true},
	}
	dev := 1
	if tier == "thorough" {
		dev = 2
		specs = append(specs, oxc.ScenarioSpec{Name: "steady-2x2", Fault: "none", Clients: 3, PerCli: 2, SyncData: true, Reads: true, SameKeys: true},
			oxc.ScenarioSpec{Name: "follower-crash-restart", Fault: "follower-crash-restart", Clients: 2, PerCli: 2, SyncData: true, Reads: true, SameKeys: true})
	}
	var out []sched.Scenario
	for _, sp := range specs {
		out = append(out, sched.Scenario{Name: sp.Name, Cfg: cfg, MaxDev: dev, Body: oxc.Body(sp, mk)})
	}
	return out
}

func main() {
	replay := flag.String("replay", "", "replay file")
	flag.Parse()
	oxh.Quiet()
	su := sched.Suite{Property: "C02", Scenarios: scenarios,
		Budget: func(tier string) time.Duration {
			if tier == "thorough" {
				return 28 * time.Minute
			}
			return 110 * time.Second
		},
		Rule:   "every schedule with at most max_dev non-default choices at coarse points (RPC delivery, stream/channel operations, selects, timers) of a real 3(+1)-node cluster with 2 concurrent client writers and one fault (leader crash, crash+restart, spurious failover, node swap of a follower / of the leader, coordinator crash mid-election); client histories (invoke/return stamped with the scheduler step) are checked for per-key linearizability with porcupine; no read may return a value that is not in the final committed log",
		Assume: []string{"sequentially consistent memory", "in-process transports replace gRPC", "a crashed node keeps its disk: Pebble loses what it had not synced, the WAL keeps what was appended", "coarse granularity; virtual time"}}
	os.Exit(sched.Main(su, *replay))
}
