// C06, schedule stage: on a live cluster every replica's database equals the fold of the
// committed log up to the commit offset that database records, whatever the schedule and the
// fault (the sequential stage h/c06 decides that ProcessWrite is a function of the log entry;
// this stage decides that leaders and followers actually apply every committed entry, once,
// and nothing else: client cancellation, failed elections, truncation of a divergent tail,
// crash and restart). Same cluster harness as C01-C03/C05 (lib/oxc) with the fold oracle only.
package main

import (
	"flag"
	"os"
	"time"

	"github.com/oxia-db/oxia/zzverif/vsched"

	"verif/lib/fsnap"
	"verif/lib/oxc"
	"verif/lib/oxh"
	"verif/lib/pipeh"
	"verif/lib/sched"
)

func coarse(k vsched.Kind, obj uint64) bool {
	switch k {
	case vsched.KLock, vsched.KRLock, vsched.KAtomic, vsched.KWait, vsched.KCond, vsched.KClose:
		return false
	}
	return true
}

func scenarios(tier string) []sched.Scenario {
	cfg := vsched.Config{MaxSteps: 400000, Filter: coarse, OnPoint: oxc.PointHook, MaxTime: int64(10 * time.Minute)}
	mk := func() []oxc.Oracle { return []oxc.Oracle{&oxc.FoldOracle{}} }
	specs := []oxc.ScenarioSpec{
		{Name: "client-cancel", Fault: "client-cancel", Clients: 2, PerCli: 2, SyncData: true},
		{Name: "failed-become-leader", Fault: "failed-become-leader", Clients: 0, PerCli: 0, SyncData: true},
		{Name: "rolling-isolation", Fault: "rolling-isolation", Clients: 0, PerCli: 0, SyncData: true},
		{Name: "leader-crash-restart", Fault: "leader-crash-restart", Clients: 2, PerCli: 1, SyncData: true},
		{Name: "follower-crash-restart", Fault: "follower-crash-restart", Clients: 2, PerCli: 1, SyncData: true},
		{Name: "spurious-failover", Fault: "spurious-failover", Clients: 2, PerCli: 1, SyncData: true},
		// the node swapped in is empty: it is restored from a snapshot of the leader and replays the rest
		{Name: "swap", Fault: "swap", Clients: 2, PerCli: 1, SyncData: true},
		{Name: "swap-snapshot-lead", Fault: "swap-snapshot-lead", Clients: 0, PerCli: 0, SyncData: true, RealDisk: true},
	}
	dev := 1
	if tier == "thorough" {
		dev = 2
		specs = append(specs, oxc.ScenarioSpec{Name: "steady-2x2", Fault: "none", Clients: 2, PerCli: 2, SyncData: true},
			oxc.ScenarioSpec{Name: "leader-swap", Fault: "leader-swap", Clients: 2, PerCli: 1, SyncData: true})
	}
	var out []sched.Scenario
	for _, sp := range specs {
		out = append(out, sched.Scenario{Name: sp.Name, Cfg: cfg, MaxDev: dev, Body: oxc.Body(sp, mk)})
	}
	// fine-grained schedules of the leader's own apply path (last: they inherit the budget the cluster
	// scenarios did not use): two or three writers colliding on one key on a real RF=3 leader; the state
	// the leader applied live must equal the fold of its log
	// a follower restored from a snapshot in a namespace with notifications disabled (real directory)
	out = append(out, fsnap.NotificationsOffScenarios(tier)...)
	return append(out, pipeh.ScenariosFor(tier, map[string]bool{"leader-state-not-fold-of-log": true, "apply-out-of-order": true,
		"committed-entry-not-applied": true, "harness-setup": true})...)
}

func main() {
	replay := flag.String("replay", "", "replay file")
	flag.Parse()
	oxh.Quiet()
	su := sched.Suite{Property: "C06", Scenarios: scenarios, Stage2: os.Getenv("VERIF_STAGE2") != "",
		Budget: func(tier string) time.Duration {
			if tier == "thorough" {
				return 25 * time.Minute
			}
			return 100 * time.Second
		},
		Rule:   "every schedule with at most max_dev non-default choices at coarse points (RPC delivery, stream/channel operations, selects, timers) of a real 3-node cluster with concurrent client writers and one fault (client cancellation, failed BecomeLeader, rolling isolation, crash+restart of leader / follower, spurious failover); at the end the database of every replica is compared, key by key and version by version, with the fold of the final leader's log up to the commit offset stored in that database",
		Assume: []string{"sequentially consistent memory", "in-process transports replace gRPC", "a crashed node keeps its disk: Pebble loses what it had not synced, the WAL keeps what was appended", "coarse granularity; virtual time"}}
	os.Exit(sched.Main(su, *replay))
}
