// C03, schedule stage: the election of a real leader controller against checking followers (lib/lfsm) with
// the threads of the election - BecomeLeader, the follower cursors, the snapshot sender, the ack receivers,
// the followers' handlers - interleaved in every way up to the deviation bound. The event-level stage
// (h/c03l) runs each election under one schedule only; what a follower is sent after a snapshot, or while
// the candidate's uncommitted tail is being acknowledged, depends on the order of those threads.
package main

import (
	"flag"
	"os"
	"time"

	"github.com/oxia-db/oxia/server/kv"

	"verif/lib/fsnap"
	"verif/lib/lfsm"
	"verif/lib/oxh"
	"verif/lib/sched"
)

func main() {
	replay := flag.String("replay", "", "replay file")
	flag.Parse()
	oxh.Quiet()
	kv.VerifMemTableSize = 1 << 20
	kv.VerifNoAutoCompactions = true
	keep := map[string]bool{"truncate-with-wrong-term": true, "truncate-to-entry-follower-does-not-hold": true, "truncate-to-entry-follower-does-not-hold:entry-of-a-term-the-leader-sat-out": true, "append-with-wrong-term": true,
		"resent-entry-differs": true, "append-gap": true, "snapshot-with-wrong-term": true, "snapshot-unusable": true, "follower-not-caught-up": true,
		"follower-log-diverges": true, "become-leader-stuck": true, "become-leader-failed": true, "harness-setup": true, "panic": true}
	su := sched.Suite{Property: "C03", Stage2: os.Getenv("VERIF_STAGE2") != "",
		// the follower side first (cheap): what it acknowledges is covered by a completed flush of its log
		Scenarios: func(tier string) []sched.Scenario {
			return append(fsnap.AckDurabilityScenarios(tier), lfsm.SchedScenarios(tier, keep)...)
		},
		Budget: func(tier string) time.Duration {
			if tier == "thorough" {
				return 20 * time.Minute
			}
			return 80 * time.Second
		},
		Rule:   "every schedule with at most max_dev non-default scheduling choices of one election (BecomeLeader on a real leader controller, its follower cursors, snapshot sender and ack receivers, two checking followers) from a preloaded two-term log, with and without an uncommitted tail; the followers check every truncation, append and snapshot they are sent, and at quiescence hold exactly the leader's log",
		Assume: []string{"sequentially consistent memory", "deviation-bounded schedules", "followers are checking scripts, not real follower controllers", "real directory; the storage engine's background compactions are off"}}
	os.Exit(sched.Main(su, *replay))
}
