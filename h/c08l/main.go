// C08, leader-conformance stage: the commit offset equals the highest offset whose whole prefix is stored on
// the leader and acknowledged by a majority - also right after followers are attached, truncated or restored
// from a snapshot. A real leader controller against checking followers (lib/lfsm), every sequence of leader
// protocol events up to a depth; after every event the commit offset must be held by the leader and at least
// one follower.
package main

import (
	"os"

	"verif/lib/lfsm"
)

func main() {
	os.Exit(lfsm.Main("C08", map[string]bool{"commit-offset-not-held-by-quorum": true, "write-acknowledged-without-quorum": true,
		"leader-installed-without-quorum": true, "uncommitted-entries-applied-before-quorum": true, "write-failed": true, "harness-setup": true, "panic": true}))
}
