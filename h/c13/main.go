// C13: every request accepted into the log can be applied by every replica.
//
// Input enumeration + depth-2 (thorough: depth-3 on the sequence family) search over a grammar of
// syntactically valid proto.WriteRequest values, applied to a real kv.DB with the callback the real
// leader / follower use (server.WrapperUpdateOperationCallback). Neither the public RPC server
// (server/public_rpc_server.go: Write, WriteStream) nor leaderController.write validate anything
// before the request is appended to the WAL, so every request of the grammar reaches the log.
package main

import (
	"context"
	"errors"
	"flag"
	"fmt"
	"math"
	"os"
	"path/filepath"
	"runtime"
	"sort"
	"strings"
	"sync"
	"sync/atomic"
	"time"

	"github.com/cockroachdb/pebble/vfs"
	"google.golang.org/grpc"

	"github.com/oxia-db/oxia/common/metric"
	time2 "github.com/oxia-db/oxia/common/time"
	"github.com/oxia-db/oxia/proto"
	"github.com/oxia-db/oxia/server"
	"github.com/oxia-db/oxia/server/kv"
	"github.com/oxia-db/oxia/server/wal"

	"verif/lib/ev"
	"verif/lib/oxh"
)

// ---------------------------------------------------------------------------------------------
// stores: in-memory Pebble whose filesystem survives Close (needed for close+reopen)

var fsReg sync.Map // dataDir -> vfs.FS
var storeCtr atomic.Int64
var clock = &time2.MockedClock{}

func init() {
	kv.VerifFSHook = func(dataDir string, _ bool, def vfs.FS) vfs.FS {
		if v, ok := fsReg.Load(dataDir); ok {
			return v.(vfs.FS)
		}
		return def
	}
}

type store struct {
	dir string
	f   kv.Factory
}

func newStore() *store {
	dir := fmt.Sprintf("/verifmem/c13-%d", storeCtr.Add(1))
	fsReg.Store(dir, vfs.NewMem())
	f, err := kv.NewPebbleKVFactory(&kv.FactoryOptions{DataDir: dir, CacheSizeMB: 1, InMemory: true})
	if err != nil {
		panic(err)
	}
	return &store{dir: dir, f: f}
}

func (s *store) open() (kv.DB, error) { return kv.NewDB("ns", 1, s.f, time.Hour, clock) }

func (s *store) close() {
	_ = s.f.Close()
	fsReg.Delete(s.dir)
}

// ---------------------------------------------------------------------------------------------
// grammar

type gen struct {
	name   string
	family string
	seq    bool // member of the reduced (sequence) grammar used for depth 3
	nondet bool // range with both bounds empty: outcome depends on Pebble's iterator recycling (see probeEmptyBounds)
	build  func() *proto.WriteRequest
}

var gens []gen
var genByName = map[string]int{}

func add(family, name string, seq bool, build func() *proto.WriteRequest) {
	if _, dup := genByName[name]; dup {
		panic("duplicate generator " + name)
	}
	genByName[name] = len(gens)
	gens = append(gens, gen{name: name, family: family, seq: seq, build: build})
}

var shard int64 = 1

func wr(puts []*proto.PutRequest, dels []*proto.DeleteRequest, ranges []*proto.DeleteRangeRequest) *proto.WriteRequest {
	return &proto.WriteRequest{Shard: &shard, Puts: puts, Deletes: dels, DeleteRanges: ranges}
}

func put(key, val string) *proto.PutRequest { return &proto.PutRequest{Key: key, Value: []byte(val)} }

func onePut(p *proto.PutRequest) *proto.WriteRequest { return wr([]*proto.PutRequest{p}, nil, nil) }

func oneDel(key string, ev *int64) *proto.WriteRequest {
	return wr(nil, []*proto.DeleteRequest{{Key: key, ExpectedVersionId: ev}}, nil)
}

func oneRange(a, b string) *proto.WriteRequest {
	return wr(nil, nil, []*proto.DeleteRangeRequest{{StartInclusive: a, EndExclusive: b}})
}

const (
	seq1 = "p-00000000000000000001"
	seq2 = "p-00000000000000000001-00000000000000000002"
	seq4 = "p-00000000000000000001-00000000000000000002-00000000000000000003-00000000000000000004"
)

func sessionMeta() []byte {
	b, _ := (&proto.SessionMetadata{TimeoutMs: 30000, Identity: "c13"}).MarshalVT()
	return b
}

func buildGrammar() {
	// --- plain operations, conditional operations, nil optionals
	add("plain", "put(a)", false, func() *proto.WriteRequest { return onePut(put("a", "1")) })
	add("plain", "put(a,nil value,nil shard)", false, func() *proto.WriteRequest {
		return &proto.WriteRequest{Puts: []*proto.PutRequest{{Key: "a"}}}
	})
	add("plain", "put(a,ev=-1)", false, func() *proto.WriteRequest {
		p := put("a", "2")
		p.ExpectedVersionId = oxh.I64(-1)
		return onePut(p)
	})
	add("plain", "put(a,ev=7)", false, func() *proto.WriteRequest {
		p := put("a", "3")
		p.ExpectedVersionId = oxh.I64(7)
		return onePut(p)
	})
	add("plain", "put(a,ev=minint64)", false, func() *proto.WriteRequest {
		p := put("a", "3")
		p.ExpectedVersionId = oxh.I64(math.MinInt64)
		return onePut(p)
	})
	add("plain", "put(a,pk,client-identity)", false, func() *proto.WriteRequest {
		p := put("a", "4")
		p.PartitionKey, p.ClientIdentity = oxh.Str("zz"), oxh.Str("me")
		return onePut(p)
	})
	add("plain", "delete(a)", false, func() *proto.WriteRequest { return oneDel("a", nil) })
	add("plain", "delete(a,ev=0)", false, func() *proto.WriteRequest { return oneDel("a", oxh.I64(0)) })
	add("plain", "delete(a,ev=-1)", false, func() *proto.WriteRequest { return oneDel("a", oxh.I64(-1)) })
	add("plain", "delete(zz absent)", false, func() *proto.WriteRequest { return oneDel("zz", nil) })
	add("plain", "empty request", false, func() *proto.WriteRequest { return &proto.WriteRequest{} })
	// --- empty key
	add("emptykey", "put(<empty key>)", false, func() *proto.WriteRequest { return onePut(put("", "e")) })
	add("emptykey", "delete(<empty key>)", false, func() *proto.WriteRequest { return oneDel("", nil) })
	// --- duplicate keys in one request
	add("dup", "put(a)+put(a)", false, func() *proto.WriteRequest {
		return wr([]*proto.PutRequest{put("a", "x"), put("a", "y")}, nil, nil)
	})
	add("dup", "put(a,ev=-1)+put(a,ev=-1)", false, func() *proto.WriteRequest {
		a, b := put("a", "x"), put("a", "y")
		a.ExpectedVersionId, b.ExpectedVersionId = oxh.I64(-1), oxh.I64(-1)
		return wr([]*proto.PutRequest{a, b}, nil, nil)
	})
	add("dup", "delete(a)+delete(a)", false, func() *proto.WriteRequest {
		return wr(nil, []*proto.DeleteRequest{{Key: "a"}, {Key: "a"}}, nil)
	})
	add("dup", "put(a)+delete(a)+range[a,b)+range[a,b)", false, func() *proto.WriteRequest {
		return wr([]*proto.PutRequest{put("a", "x")}, []*proto.DeleteRequest{{Key: "a"}},
			[]*proto.DeleteRangeRequest{{StartInclusive: "a", EndExclusive: "b"}, {StartInclusive: "a", EndExclusive: "b"}})
	})
	// --- ranges: plain, empty, inverted, unbounded, inside __oxia/, user range that spans __oxia/
	// (in oxia's slash order  a < b < __oxia/... < a/b  because keys without '/' sort first and "__oxia" < "a")
	for _, r := range [][2]string{{"a", "c"}, {"a", "a"}, {"c", "a"}, {"", ""}, {"", "b"}, {"a", ""},
		{"a", "a/c"}, {"a/", "a//"}, {"a/c", "a"},
		{"__oxia/notifications/", "__oxia/notifications//"}, {"__oxia/", "__oxia//"}, {"__oxia/term", "__oxia/term-options"}} {
		r := r
		fam := "range"
		switch {
		case strings.HasPrefix(r[0], "__oxia/"):
			fam = "range-internal"
		case r[1] == "a/c":
			fam = "range-spanning-internal"
		}
		add(fam, fmt.Sprintf("range[%s,%s)", r[0], r[1]), false, func() *proto.WriteRequest { return oneRange(r[0], r[1]) })
		if r[0] == "" && r[1] == "" {
			gens[len(gens)-1].nondet = true
		}
	}
	add("range", "put(a)+put(a/b)+range[a,b)+range[c,a)", false, func() *proto.WriteRequest {
		return wr([]*proto.PutRequest{put("a", "x"), put("a/b", "y")}, nil,
			[]*proto.DeleteRangeRequest{{StartInclusive: "a", EndExclusive: "b"}, {StartInclusive: "c", EndExclusive: "a"}})
	})
	// --- sequence puts: {partition key absent/present} x {expected version unset/set} x deltas
	deltas := []struct {
		n string
		d []uint64
	}{{"[]", nil}, {"[0]", []uint64{0}}, {"[1]", []uint64{1}}, {"[0,1]", []uint64{0, 1}}, {"[1,0]", []uint64{1, 0}},
		{"[2^64-1]", []uint64{math.MaxUint64}}, {"[1,2,3]", []uint64{1, 2, 3}}}
	for _, pk := range []bool{false, true} {
		for _, evSet := range []bool{false, true} {
			for _, d := range deltas {
				pk, evSet, d := pk, evSet, d
				name := fmt.Sprintf("seqput(p,pk=%v,ev=%v,deltas=%s)", pk, evSet, d.n)
				add("seqput", name, true, func() *proto.WriteRequest {
					p := put("p", "v")
					if pk {
						p.PartitionKey = oxh.Str("p")
					}
					if evSet {
						p.ExpectedVersionId = oxh.I64(-1)
					}
					p.SequenceKeyDelta = append([]uint64(nil), d.d...)
					return onePut(p)
				})
			}
		}
	}
	// two sequence puts on the same prefix in one request, a sequence on a prefix with '/', on the empty prefix
	add("seqput", "seqput(p,pk,[1])+seqput(p,pk,[2])", true, func() *proto.WriteRequest {
		a, b := put("p", "v1"), put("p", "v2")
		a.PartitionKey, b.PartitionKey = oxh.Str("p"), oxh.Str("p")
		a.SequenceKeyDelta, b.SequenceKeyDelta = []uint64{1}, []uint64{2}
		return wr([]*proto.PutRequest{a, b}, nil, nil)
	})
	// a request whose first operations succeed before a later sequence put is refused: nothing of it may stay
	add("seqput", "put(a)+seqput(p,pk,[1])", true, func() *proto.WriteRequest {
		b := put("p", "v")
		b.PartitionKey, b.SequenceKeyDelta = oxh.Str("p"), []uint64{1}
		return wr([]*proto.PutRequest{put("a", "x"), b}, nil, nil)
	})
	add("seqput", "seqput(p,pk,[1])+seqput(p,pk,[2^64-1])", true, func() *proto.WriteRequest {
		a, b := put("p", "v1"), put("p", "v2")
		a.PartitionKey, b.PartitionKey = oxh.Str("p"), oxh.Str("p")
		a.SequenceKeyDelta, b.SequenceKeyDelta = []uint64{1}, []uint64{math.MaxUint64}
		return wr([]*proto.PutRequest{a, b}, nil, nil)
	})
	add("seqput", "seqput(q/s,pk,[1])", true, func() *proto.WriteRequest {
		a := put("q/s", "v")
		a.PartitionKey, a.SequenceKeyDelta = oxh.Str("q"), []uint64{1}
		return onePut(a)
	})
	add("seqput", "seqput(q/s,pk,[1,1])", true, func() *proto.WriteRequest {
		a := put("q/s", "v")
		a.PartitionKey, a.SequenceKeyDelta = oxh.Str("q"), []uint64{1, 1}
		return onePut(a)
	})
	add("seqput", "seqput(<empty key>,pk,[1])", true, func() *proto.WriteRequest {
		a := put("", "v")
		a.PartitionKey, a.SequenceKeyDelta = oxh.Str("q"), []uint64{1}
		return onePut(a)
	})
	add("seqput", "seqput(p,pk,[1],session=999)", true, func() *proto.WriteRequest {
		a := put("p", "v")
		a.PartitionKey, a.SequenceKeyDelta, a.SessionId = oxh.Str("p"), []uint64{1}, oxh.I64(999)
		return onePut(a)
	})
	// --- plain puts of keys that look like members of the sequence "p"
	for _, k := range []string{"p", "p-5", "p-x", "p-!", "p-", "p-0x", "p+x-y", seq1, seq2, seq4, "p-18446744073709551615", "+a-b", "q/s-1", "q/s-z",
		// numeric-overflow shapes: all digits (or nearly) but not a 64-bit sequence number. Whether the lookup picks them as
		// the last key of the sequence depends on how they sort against "<prefix>-18446744073709551615."
		"p-18446744073709551616", "p-99999999999999999999", // 20 digits above MaxUint64
		"p-000000000000000000001", "p-100000000000000000000", // 21 digits starting with 0 / 1
		"p-0000000000000000000000001", "p-1000000000000000000000000", // 25 digits
		"p-+5", "p--5", "p- 5", "p-5 ", "p-0x10", "p-\u0665", "p-\uff15", // signs, spaces, hex prefix, Arabic-Indic and full-width digit
		seq1 + "-99999999999999999999", seq1 + "-100000000000000000000", // second part overflows
		"q/s-100000000000000000000", "q/s-99999999999999999999", "q/s-00000000000000000001-100000000000000000000", // second prefix
	} {
		k := k
		add("lookalike", fmt.Sprintf("put(%q)", k), true, func() *proto.WriteRequest { return onePut(put(k, "plain")) })
	}
	// --- ranges with one bound inside the internal key space and the other outside it (the validator and the
	// carve-out of applyDeleteRange must agree on who refuses / splits them)
	for _, r := range [][2]string{{"__oxia/notifications/", "__oxia0/"}, {"__oxia/", "a/b"}, {"__oxia/session/", "b/"}, {"__oxia/a", "__oxib/"},
		{"__oxi", "__oxia/notifications/0000000000000001"}, {"__oxia", "__oxia/z"}} {
		r := r
		add("internal-range", fmt.Sprintf("range[%q,%q)", r[0], r[1]), false, func() *proto.WriteRequest { return oneRange(r[0], r[1]) })
	}
	// --- strings that are not valid UTF-8 (the wire codec does not validate them; a log entry may be
	// decoded by another decoder on another route)
	add("encoding", `put("a\xff")`, false, func() *proto.WriteRequest { return onePut(put("a\xff", "v")) })
	add("encoding", `put(a,value="\xff\xfe")`, false, func() *proto.WriteRequest { return onePut(put("a", "\xff\xfe")) })
	add("encoding", `delete("a\xff")`, false, func() *proto.WriteRequest { return oneDel("a\xff", nil) })
	add("encoding", `range["a\xff","b\xff")`, false, func() *proto.WriteRequest { return oneRange("a\xff", "b\xff") })
	add("encoding", `put(a,pk="p\xff")`, false, func() *proto.WriteRequest {
		a := put("a", "v")
		a.PartitionKey = oxh.Str("p\xff")
		return onePut(a)
	})
	add("encoding", `put(a,idx i:"s\xff")`, false, func() *proto.WriteRequest {
		a := put("a", "v")
		a.SecondaryIndexes = []*proto.SecondaryIndex{{IndexName: "i", SecondaryKey: "s\xff"}}
		return onePut(a)
	})
	add("encoding", `put(a,idx "i\xff":s)`, false, func() *proto.WriteRequest {
		a := put("a", "v")
		a.SecondaryIndexes = []*proto.SecondaryIndex{{IndexName: "i\xff", SecondaryKey: "s"}}
		return onePut(a)
	})
	// --- sessions: unknown session, negative id, fabricated session record, ephemeral put under it
	add("session", "put(e,session=999)", false, func() *proto.WriteRequest {
		p := put("e", "eph")
		p.SessionId = oxh.I64(999)
		return onePut(p)
	})
	add("session", "put(e,session=-1)", false, func() *proto.WriteRequest {
		p := put("e", "eph")
		p.SessionId = oxh.I64(-1)
		return onePut(p)
	})
	add("session", "put(__oxia/session/<999>,metadata)", false, func() *proto.WriteRequest {
		return onePut(&proto.PutRequest{Key: server.SessionKey(999), Value: sessionMeta()})
	})
	add("session", "put(__oxia/session/<999>,garbage)", false, func() *proto.WriteRequest {
		return onePut(put(server.SessionKey(999), "\xff\xff\xff"))
	})
	add("session", "put(__oxia/session/<999>/e shadow)", false, func() *proto.WriteRequest {
		return onePut(put(server.ShadowKey(999, "e"), "x"))
	})
	add("session", "delete(__oxia/session/<999>)", false, func() *proto.WriteRequest { return oneDel(server.SessionKey(999), nil) })
	add("session", "range[__oxia/session/,__oxia/session//)", false, func() *proto.WriteRequest {
		return oneRange("__oxia/session/", "__oxia/session//")
	})
	// --- secondary indexes
	add("index", "put(a,idx=i:s1)", false, func() *proto.WriteRequest {
		p := put("a", "i")
		p.SecondaryIndexes = []*proto.SecondaryIndex{{IndexName: "i", SecondaryKey: "s1"}}
		return onePut(p)
	})
	add("index", "put(a,idx=<empty>:<empty>,twice)", false, func() *proto.WriteRequest {
		p := put("a", "i")
		p.SecondaryIndexes = []*proto.SecondaryIndex{{}, {}}
		return onePut(p)
	})
	add("index", "put(a/b,idx=i/j:s/1)", false, func() *proto.WriteRequest {
		p := put("a/b", "i")
		p.SecondaryIndexes = []*proto.SecondaryIndex{{IndexName: "i/j", SecondaryKey: "s/1"}}
		return onePut(p)
	})
	add("index", "range[__oxia/idx/,__oxia/idx//)", false, func() *proto.WriteRequest {
		return oneRange("__oxia/idx/", "__oxia/idx//")
	})
	// --- keys inside __oxia/
	for _, k := range []string{"__oxia/commit-offset", "__oxia/last-version-id", "__oxia/term", "__oxia/term-options",
		"__oxia/notifications/0000000000000000", "__oxia/zzz"} {
		k := k
		add("internal-put", fmt.Sprintf("put(%s,garbage)", k), false, func() *proto.WriteRequest { return onePut(put(k, "zzz")) })
		add("internal-del", fmt.Sprintf("delete(%s)", k), false, func() *proto.WriteRequest { return oneDel(k, nil) })
	}
	add("internal-put", "put(__oxia/term,ev=-1)", false, func() *proto.WriteRequest {
		p := put("__oxia/term", "9")
		p.ExpectedVersionId = oxh.I64(-1)
		return onePut(p)
	})
}

// roundtrip encodes and decodes the request the way the WAL does (the leader applies the object
// decoded by gRPC, followers and replays apply the object decoded from the log entry).
func roundtrip(r *proto.WriteRequest) *proto.WriteRequest {
	lev := &proto.LogEntryValue{Value: &proto.LogEntryValue_Requests{Requests: &proto.WriteRequests{Writes: []*proto.WriteRequest{r}}}}
	b, err := lev.MarshalVT()
	if err != nil {
		panic(err)
	}
	out := &proto.LogEntryValue{}
	if err := out.UnmarshalVT(b); err != nil {
		panic(err)
	}
	return out.GetRequests().Writes[0]
}

// ---------------------------------------------------------------------------------------------
// oracle

type outcome struct {
	viols []ev.Violation
	sig   string // outcome signature of the log (statuses / error classes), for distinct counting
	rejs  []rejection
}

// rejection: ProcessWrite refused the last request of log with an error for which kv.IsInvalidRequestError holds
// and left no trace. That is an acceptable per-request outcome provided the end-to-end routes cope with it.
type rejection struct {
	key string
	log []int
}

func apply(db kv.DB, req *proto.WriteRequest, off int64) (resp *proto.WriteResponse, err error, pan any) {
	defer func() {
		if r := recover(); r != nil {
			pan = fmt.Sprintf("%v", r)
		}
	}()
	resp, err = db.ProcessWrite(req, off, uint64(1000+off), server.WrapperUpdateOperationCallback)
	return
}

func hasSeqPut(r *proto.WriteRequest) bool {
	for _, p := range r.Puts {
		if len(p.SequenceKeyDelta) > 0 {
			return true
		}
	}
	return false
}

// classifyErr maps an infrastructure error of ProcessWrite to the violation key of its root cause.
func classifyErr(g gen, req *proto.WriteRequest, err error) string {
	switch {
	case errors.Is(err, kv.ErrMissingPartitionKey):
		return "seqkey:missing-partition-key-infra-error"
	case errors.Is(err, kv.ErrSequenceDeltaIsZero):
		return "seqkey:zero-first-delta-infra-error"
	case errors.Is(err, kv.ErrMissingSequenceDeltas):
		return "seqkey:too-few-deltas-infra-error"
	case errors.Is(err, kv.ErrInvalidSequenceKey):
		return "seqkey:unparsable-suffix-infra-error"
	case errors.Is(err, kv.ErrSequenceOverflow):
		return "seqkey:sequence-overflow-infra-error"
	}
	s := err.Error()
	if hasSeqPut(req) && (strings.Contains(s, "expected integer") || strings.Contains(s, "EOF") || strings.Contains(s, "unexpected") ||
		strings.Contains(s, "out of range") || strings.Contains(s, "input does not match")) {
		return "seqkey:unparsable-suffix-infra-error"
	}
	undecodable := strings.Contains(s, "Deserialize") || strings.Contains(s, "proto:")
	if len(req.DeleteRanges) > 0 && undecodable {
		// the range covers __oxia/notifications/... whose values are NotificationBatch, not StorageEntry
		for _, r := range req.DeleteRanges {
			if strings.HasPrefix(r.StartInclusive, "__oxia/") {
				return "delete-range:internal-range-undecodable-entry-infra-error"
			}
		}
		// a range that starts in user space and merely spans the internal keys in slash order
		return "delete-range:user-range-spanning-internal-keys-infra-error"
	}
	if undecodable {
		for _, p := range req.Puts {
			if strings.HasPrefix(p.Key, "__oxia/notifications/") {
				return "internal-key:op-on-notification-record-infra-error"
			}
		}
		for _, d := range req.Deletes {
			if strings.HasPrefix(d.Key, "__oxia/notifications/") {
				return "internal-key:op-on-notification-record-infra-error"
			}
		}
	}
	if len(s) > 48 {
		s = s[:48]
	}
	return "process-write-error:" + g.family + ":" + s
}

func statuses(resp *proto.WriteResponse) string {
	var b strings.Builder
	for _, p := range resp.Puts {
		fmt.Fprintf(&b, "P%d", p.Status)
		if p.Key != nil {
			b.WriteString("k")
		}
	}
	for _, d := range resp.Deletes {
		fmt.Fprintf(&b, "D%d", d.Status)
	}
	for _, d := range resp.DeleteRanges {
		fmt.Fprintf(&b, "R%d", d.Status)
	}
	return b.String()
}

func names(log []int) []string {
	o := make([]string, len(log))
	for i, g := range log {
		o[i] = gens[g].name
	}
	return o
}

const dbTerm = 5

var dumpOpts = oxh.DumpOpts{SkipTerm: true} // UpdateTerm stamps the term records with the wall clock

// checkInternal: what a restarting node reads before it can build its controllers must stay readable.
// (A term record *erased* by a client delete makes ReadTerm return -1, i.e. the node forgets its fencing
// term; that does not stop it from becoming leader, so it is only counted, see termErased.)
func checkInternal(db kv.DB, wantCommit int64, where string, countErased bool) (string, string) {
	co, err := db.ReadCommitOffset()
	if err != nil {
		return "internal-key:commit-offset-unreadable", fmt.Sprintf("%s: ReadCommitOffset fails: %v", where, err)
	}
	if co != wantCommit {
		return "internal-key:commit-offset-wrong", fmt.Sprintf("%s: ReadCommitOffset=%d, applied up to %d", where, co, wantCommit)
	}
	t, _, err := db.ReadTerm()
	if err != nil {
		return "internal-key:term-unreadable-after-client-write", fmt.Sprintf("%s: ReadTerm fails: %v (a restarted node cannot create its leader/follower controller)", where, err)
	}
	if t != dbTerm && countErased {
		termErased.Add(1)
	}
	return "", ""
}

var termErased atomic.Int64

// runLog applies the log on replica A (leader route: keeps going after a failed request, like the
// real leader does), then on replica B (follower route) and on replica C with a close+reopen after every entry.
func runLog(log []int) outcome {
	var out outcome
	replay := map[string]any{"log": names(log), "indices": log}
	nondet := false
	for _, g := range log {
		nondet = nondet || gens[g].nondet
	}
	viol := func(key, msg string) {
		if nondet && (strings.HasPrefix(key, "replica-divergence") || strings.HasPrefix(key, "reopen")) {
			// one root cause: PebbleBatch.RangeScan hands Pebble two empty non-nil bounds
			key = "delete-range:empty-bounds-nondeterministic"
		}
		if nondet && key != "delete-range:empty-bounds-nondeterministic" {
			// whatever else such a log shows is shown by logs whose outcome is a function of the input
			return
		}
		out.viols = append(out.viols, ev.Violation{Key: key, Harness: "c13-grammar", Message: msg, Replay: replay})
	}
	var sig strings.Builder
	A := newStore()
	defer A.close()
	dbA, err := A.open()
	if err != nil {
		panic(err)
	}
	defer func() { _ = dbA.Close() }()
	if err := dbA.UpdateTerm(dbTerm, kv.TermOptions{NotificationsEnabled: true}); err != nil {
		panic(err)
	}
	failed := false
	commit := int64(-1)
	outcomesA := make([]string, len(log)) // "ok" or the class of the typed rejection
	for i, gi := range log {
		g := gens[gi]
		req := roundtrip(g.build())
		nP, nD, nR := len(req.Puts), len(req.Deletes), len(req.DeleteRanges)
		dumpBefore := strings.Join(oxh.DumpDB(dbA, oxh.DumpOpts{}), "\n")
		verBefore := kv.VerifVersionIdTracker(dbA)
		resp, err, pan := apply(dbA, req, int64(i))
		where := fmt.Sprintf("request #%d %s of log %v", i, g.name, names(log))
		switch {
		case pan != nil:
			failed = true
			viol("panic:"+g.family, fmt.Sprintf("%s: ProcessWrite panicked: %v", where, pan))
			fmt.Fprintf(&sig, "|panic")
		case err != nil && kv.IsInvalidRequestError(err):
			// typed per-request rejection: acceptable iff it leaves no trace (and the end-to-end routes cope, see main)
			key := classifyErr(g, req, err)
			dumpAfter := strings.Join(oxh.DumpDB(dbA, oxh.DumpOpts{}), "\n")
			verAfter := kv.VerifVersionIdTracker(dbA)
			if dumpAfter != dumpBefore || verAfter != verBefore {
				failed = true
				viol(key, fmt.Sprintf("%s: ProcessWrite refused the request (%v) but left a trace: version counter %d -> %d\n--- before\n%s\n--- after\n%s", where, err, verBefore, verAfter, dumpBefore, dumpAfter))
			} else if !nondet {
				out.rejs = append(out.rejs, rejection{key: key, log: append([]int{}, log[:i+1]...)})
			}
			outcomesA[i] = key
			fmt.Fprintf(&sig, "|rejected:%s", key)
		case err != nil:
			failed = true
			key := classifyErr(g, req, err)
			viol(key, fmt.Sprintf("%s: ProcessWrite returned an infrastructure error instead of a per-operation status: %v", where, err))
			fmt.Fprintf(&sig, "|%s", key)
		default:
			commit = int64(i)
			outcomesA[i] = "ok"
			if len(resp.Puts) != nP || len(resp.Deletes) != nD || len(resp.DeleteRanges) != nR {
				viol("status-count-mismatch:"+g.family, fmt.Sprintf("%s: %d/%d/%d operations but %d/%d/%d statuses", where, nP, nD, nR,
					len(resp.Puts), len(resp.Deletes), len(resp.DeleteRanges)))
			}
			for _, p := range resp.Puts {
				if _, ok := proto.Status_name[int32(p.Status)]; !ok {
					viol("undefined-status:"+g.family, fmt.Sprintf("%s: put status %d", where, p.Status))
				}
				if p.Status == proto.Status_OK && p.Version == nil {
					viol("ok-without-version:"+g.family, where)
				}
			}
			if g.nondet {
				sig.WriteString("|R?") // outcome not a function of the input, keep it out of the distinct count
			} else {
				fmt.Fprintf(&sig, "|%s", statuses(resp))
			}
		}
		if pan == nil {
			if k, m := checkInternal(dbA, commit, where, !nondet); k != "" {
				viol(k, m)
				fmt.Fprintf(&sig, "|%s", k)
				failed = true
			}
		}
	}
	out.sig = sig.String()
	if nondet {
		out.sig = "|outcome-not-a-function-of-the-input" // keep run-to-run noise out of the distinct count
	}
	if failed {
		// the follower route stops at the failing entry by construction (applyAllCommittedEntries returns);
		// nothing more to compare
		return out
	}
	dumpA := strings.Join(oxh.DumpDB(dbA, dumpOpts), "\n")
	verA := kv.VerifVersionIdTracker(dbA)

	// replica B: follower route, fresh decode of every entry
	B := newStore()
	defer B.close()
	dbB, err := B.open()
	if err != nil {
		panic(err)
	}
	_ = dbB.UpdateTerm(dbTerm, kv.TermOptions{NotificationsEnabled: true})
	okB := true
	// outcomeOf: "ok", the class of a typed rejection (the apply loops skip such an entry), or "" for anything else
	outcomeOf := func(gi int, req *proto.WriteRequest, err error, pan any) string {
		switch {
		case pan != nil:
			return ""
		case err == nil:
			return "ok"
		case kv.IsInvalidRequestError(err):
			return classifyErr(gens[gi], req, err)
		}
		return ""
	}
	for i, gi := range log {
		req := roundtrip(gens[gi].build())
		_, err, pan := apply(dbB, req, int64(i))
		if got := outcomeOf(gi, req, err, pan); got != outcomesA[i] {
			viol("replica-divergence:apply-outcome", fmt.Sprintf("log %v: entry %d: outcome %q on the first replica, on the second: %q err=%v panic=%v", names(log), i, outcomesA[i], got, err, pan))
			okB = false
			break
		}
	}
	if okB {
		dumpB := strings.Join(oxh.DumpDB(dbB, dumpOpts), "\n")
		if dumpA != dumpB {
			viol("replica-divergence:state", fmt.Sprintf("log %v: replicas differ\n--- A\n%s\n--- B\n%s", names(log), dumpA, dumpB))
		}
	}
	_ = dbB.Close()

	// replica C: close + reopen after every entry
	C := newStore()
	defer C.close()
	dbC, err := C.open()
	if err != nil {
		panic(err)
	}
	defer func() { _ = dbC.Close() }()
	_ = dbC.UpdateTerm(dbTerm, kv.TermOptions{NotificationsEnabled: true})
	commitC := int64(-1)
	for i, gi := range log {
		req := roundtrip(gens[gi].build())
		_, err, pan := apply(dbC, req, int64(i))
		if got := outcomeOf(gi, req, err, pan); got != outcomesA[i] {
			viol("reopen-divergence:apply-outcome", fmt.Sprintf("log %v: entry %d: outcome %q on the first replica, after reopen: %q err=%v panic=%v", names(log), i, outcomesA[i], got, err, pan))
			return out
		}
		if outcomesA[i] == "ok" {
			commitC = int64(i)
		}
		if err := dbC.Close(); err != nil {
			viol("reopen:close-failed", fmt.Sprintf("log %v: close after entry %d: %v", names(log), i, err))
		}
		dbC, err = C.open()
		if err != nil {
			viol("reopen:open-failed", fmt.Sprintf("log %v: NewDB after entry %d failed: %v", names(log), i, err))
			dbC = nopDB{}
			return out
		}
		if k, m := checkInternal(dbC, commitC, fmt.Sprintf("log %v after reopen at entry %d", names(log), i), false); k != "" {
			viol(k, m)
		}
	}
	dumpC := strings.Join(oxh.DumpDB(dbC, dumpOpts), "\n")
	verC := kv.VerifVersionIdTracker(dbC)
	if dumpA != dumpC || verA != verC {
		viol("reopen-divergence:state", fmt.Sprintf("log %v: state after close+reopen differs (version tracker %d vs %d)\n--- A\n%s\n--- C\n%s", names(log), verA, verC, dumpA, dumpC))
	}
	return out
}

type nopDB struct{ kv.DB }

func (nopDB) Close() error { return nil }

// probeEmptyBounds demonstrates, without relying on luck, that the effect of DeleteRange("", "") is not a
// function of the request and the state: PebbleBatch.RangeScan passes []byte("") for both bounds; Pebble copies the
// bounds into a per-iterator buffer that is nil on a freshly allocated iterator (=> both bounds nil => unbounded) and
// non-nil on an iterator recycled from its sync.Pool (=> upper bound "" => empty range).
// Notifications are disabled on these databases so that the unbounded variant does not additionally trip over
// the notification records (that is a different defect).
func probeEmptyBounds(run *ev.Run) *ev.Violation {
	outcomes := map[string]int{}
	var seq []string
	for i := 0; i < 8; i++ {
		st := newStore()
		db, err := st.open()
		if err != nil {
			panic(err)
		}
		db.EnableNotifications(false)
		if _, err, pan := apply(db, wr([]*proto.PutRequest{put("a", "1"), put("b", "2")}, nil, nil), 0); err != nil || pan != nil {
			panic(fmt.Sprint(err, pan))
		}
		if i%2 == 0 {
			runtime.GC() // two cycles empty every sync.Pool (primary and victim cache)
			runtime.GC()
		} else {
			b := kv.VerifKV(db).NewWriteBatch()
			it, err := b.RangeScan("a", "c")
			if err != nil {
				panic(err)
			}
			for ; it.Valid(); it.Next() {
			}
			_ = it.Close()
			_ = b.Close()
		}
		_, err, pan := apply(db, oneRange("", ""), 1)
		gr, gerr := db.Get(&proto.GetRequest{Key: "a"})
		o := fmt.Sprintf("err=%v panic=%v get(a)=%v/%v", err, pan, gr.GetStatus(), gerr)
		outcomes[o]++
		seq = append(seq, o)
		_ = db.Close()
		st.close()
		run.Add("evaluations", 1)
	}
	run.Add("empty_bounds_probe_runs", 8)
	if len(outcomes) > 1 {
		return &ev.Violation{Key: "delete-range:empty-bounds-nondeterministic", Harness: "c13-empty-bounds-probe",
			Message: fmt.Sprintf("the same request range[\"\",\"\") applied to the same state {a,b} gives different results depending on whether Pebble recycles an iterator: %v", seq),
			Replay:  map[string]any{"log": []string{"put(a)+put(b)", "range[,)"}, "probe": "empty-bounds", "outcomes": seq}}
	}
	return nil
}

// ---------------------------------------------------------------------------------------------
// end-to-end consequence through a real leader controller (RF=1)

type e2eResult struct {
	WriteErrs       []string `json:"write_results"`
	BecomeLeader2   string   `json:"election_on_running_node_become_leader_term2"`
	LaterWrite1     string   `json:"election_route_later_write"`
	Restart         string   `json:"restart_new_leader_controller"`
	BecomeLeader3   string   `json:"restart_become_leader_term2"`
	LaterWrite2     string   `json:"restart_route_later_write"`
	Follower        string   `json:"follower_route"`
	LeaderBlocked   bool     `json:"leader_blocked"`
	RestartBlocked  bool     `json:"restart_blocked"`
	FollowerBlocked bool     `json:"follower_blocked"`
}

func (r e2eResult) String() string {
	return fmt.Sprintf("write results %v; election on the running node NewTerm(2)+BecomeLeader(2): %s, later write: %s; restart right after the writes: NewLeaderController: %s, NewTerm(2)+BecomeLeader(2): %s, later write: %s; real follower fed the leader's WAL (+ one later entry): %s",
		r.WriteErrs, r.BecomeLeader2, r.LaterWrite1, r.Restart, r.BecomeLeader3, r.LaterWrite2, r.Follower)
}

func errStr(err error) string {
	if err == nil {
		return "ok"
	}
	return "ERROR: " + err.Error()
}

type node struct {
	st   *store
	wdir string
	walF wal.Factory
	rpc  server.ReplicationRpcProvider
	lc   server.LeaderController
}

var noFollowers = map[string]*proto.EntryId{}

type reqBuilder = func() *proto.WriteRequest

func buildersOf(log []int) []reqBuilder {
	var b []reqBuilder
	for _, gi := range log {
		b = append(b, gens[gi].build)
	}
	return b
}

const laterKey = "zz-later"

// laterRequest is the healthy entry that must still be applied after whatever the log under test contains.
func laterRequest() *proto.WriteRequest { return onePut(put(laterKey, "later")) }

// startLeader builds a real RF=1 leader (term 1) on a fresh in-memory KV and a WAL under scratch and sends the
// requests through the real public RPC handlers.
func startLeader(scratch string, reqs []reqBuilder) (*node, []string) {
	n := &node{st: newStore(), wdir: filepath.Join(scratch, fmt.Sprintf("e2e-%d", storeCtr.Add(1)))}
	n.walF = wal.NewWalFactory(&wal.FactoryOptions{BaseWalDir: n.wdir, Retention: time.Hour, SegmentSize: 128 * 1024, SyncData: false})
	n.rpc = server.NewReplicationRpcProvider(nil)
	var err error
	n.lc, err = server.NewLeaderController(server.Config{NotificationsRetentionTime: time.Hour}, "ns", 1, n.rpc, n.walF, n.st.f)
	if err != nil {
		panic(err)
	}
	if _, err := n.lc.NewTerm(&proto.NewTermRequest{Shard: 1, Term: 1}); err != nil {
		panic(err)
	}
	if _, err := n.lc.BecomeLeader(context.Background(), &proto.BecomeLeaderRequest{Shard: 1, Term: 1, ReplicationFactor: 1, FollowerMaps: noFollowers}); err != nil {
		panic(err)
	}
	var werrs []string
	for _, b := range reqs {
		_, err, pan := publicWrite(n.lc, roundtrip(b()))
		if pan != nil {
			werrs = append(werrs, fmt.Sprintf("PANIC: %v", pan))
		} else {
			werrs = append(werrs, errStr(err))
		}
	}
	return n, werrs
}

// publicWrite sends the request through the real public RPC handlers (no network): the unary Write handler, or
// the WriteStream body when the request carries no shard id (on that route the shard comes from the call metadata).
func publicWrite(lc server.LeaderController, req *proto.WriteRequest) (resp *proto.WriteResponse, err error, pan any) {
	defer func() {
		if r := recover(); r != nil {
			pan = r
		}
	}()
	ctx, cancel := context.WithTimeout(context.Background(), 60*time.Second) // safety net only, never an oracle
	defer cancel()
	if req.Shard == nil {
		resp, err = server.VerifC13PublicWriteStream(ctx, lc, req)
	} else {
		resp, err = server.VerifC13PublicWrite(ctx, lc, req)
	}
	return
}

// acceptedIntoLog decides, by running the code under test, whether the public RPC layer lets the request reach the WAL.
func acceptedIntoLog(scratch string, gi int) (accepted bool, detail string) {
	n, _ := startLeader(scratch, nil)
	defer n.stop()
	w := server.VerifLeaderWal(n.lc)
	before := w.LastOffset()
	_, err, pan := publicWrite(n.lc, roundtrip(gens[gi].build()))
	after := w.LastOffset()
	return after > before, fmt.Sprintf("err=%v panic=%v wal %d->%d", err, pan, before, after)
}

func (n *node) stop() {
	if n.lc != nil {
		_ = n.lc.Close()
	}
	_ = n.rpc.Close()
	_ = n.walF.Close()
	// The KV factory (1 MiB block cache) is deliberately not closed: leaderController.list closes its iterator from a
	// goroutine that may still be running after Close() returned (session manager Initialize -> ListBlock), and an
	// iterator closed after the cache was released crashes inside Pebble. The databases themselves are closed by lc.Close().
	fsReg.Delete(n.st.dir)
	_ = os.RemoveAll(n.wdir)
}

// laterWrite: after the node became leader again a healthy write must be applied.
func laterWrite(lc server.LeaderController) (string, bool) {
	resp, err, pan := publicWrite(lc, laterRequest())
	if pan != nil || err != nil {
		return fmt.Sprintf("ERROR: err=%v panic=%v", err, pan), false
	}
	if len(resp.Puts) != 1 || resp.Puts[0].Status != proto.Status_OK {
		return fmt.Sprintf("ERROR: response %v", resp), false
	}
	gr, err := server.VerifLeaderDB(lc).Get(&proto.GetRequest{Key: laterKey, IncludeValue: true})
	if err != nil || gr.Status != proto.Status_OK || string(gr.Value) != "later" {
		return fmt.Sprintf("ERROR: later entry not readable: %v %v", gr, err), false
	}
	return "ok", true
}

// e2e shows the consequence of a log on the real controllers through three routes:
//  1. election on the running node: NewTerm(2) + BecomeLeader(2) (replays the WAL from the DB's commit offset), then one more write;
//  2. process restart right after the writes: a new controller on the same WAL and database, NewTerm(2) + BecomeLeader(2), one more write;
//  3. a real follower controller is fed the leader's WAL (log + one later entry) over a scripted Replicate stream:
//     it must apply up to the later entry and end with the leader's database content.
func e2e(scratch string, log []int) (res e2eResult) {
	defer func() {
		if r := recover(); r != nil {
			res.Follower += fmt.Sprintf(" PANIC: %v", r)
			res.FollowerBlocked = true
		}
	}()
	ctx := context.Background()
	reqs := buildersOf(log)
	n1, werrs := startLeader(scratch, reqs)
	defer n1.stop()
	res.WriteErrs = werrs
	res.LaterWrite1, res.LaterWrite2 = "n/a", "n/a"
	if _, err := n1.lc.NewTerm(&proto.NewTermRequest{Shard: 1, Term: 2}); err != nil {
		res.BecomeLeader2 = "NewTerm " + errStr(err)
		res.LeaderBlocked = true
	} else {
		_, err = n1.lc.BecomeLeader(ctx, &proto.BecomeLeaderRequest{Shard: 1, Term: 2, ReplicationFactor: 1, FollowerMaps: noFollowers})
		res.BecomeLeader2 = errStr(err)
		res.LeaderBlocked = err != nil
		if err == nil {
			var ok bool
			res.LaterWrite1, ok = laterWrite(n1.lc)
			res.LeaderBlocked = !ok
		}
	}

	func() {
		n2, _ := startLeader(scratch, reqs)
		defer n2.stop()
		_ = n2.lc.Close()
		var err error
		n2.lc, err = server.NewLeaderController(server.Config{NotificationsRetentionTime: time.Hour}, "ns", 1, n2.rpc, n2.walF, n2.st.f)
		res.Restart = errStr(err)
		if err != nil {
			n2.lc = nil
			res.RestartBlocked = true
			res.BecomeLeader3 = "n/a"
			return
		}
		if _, err := n2.lc.NewTerm(&proto.NewTermRequest{Shard: 1, Term: 2}); err != nil {
			res.BecomeLeader3 = "NewTerm " + errStr(err)
			res.RestartBlocked = true
			return
		}
		_, err = n2.lc.BecomeLeader(ctx, &proto.BecomeLeaderRequest{Shard: 1, Term: 2, ReplicationFactor: 1, FollowerMaps: noFollowers})
		res.BecomeLeader3 = errStr(err)
		res.RestartBlocked = err != nil
		if err == nil {
			var ok bool
			res.LaterWrite2, ok = laterWrite(n2.lc)
			res.RestartBlocked = !ok
		}
	}()

	res.Follower, res.FollowerBlocked = followerRoute(scratch, append(append([]reqBuilder{}, reqs...), laterRequest))
	return res
}

// tailReplay: the requests are logged by a real leader; a second leader controller is then opened on the same
// WAL with an empty database and elected. Returns "" when it becomes leader and serves a later write.
func tailReplay(scratch string, log []int) (msg string) {
	defer func() {
		if r := recover(); r != nil {
			msg = fmt.Sprintf("PANIC: %v", r)
		}
	}()
	n, _ := startLeader(scratch, buildersOf(log))
	defer n.stop()
	_ = n.lc.Close()
	n.lc = nil
	fresh := newStore()
	// as in node.stop: the factory (block cache) stays open; a BecomeLeader that fails after the session manager
	// started its listing leaves that goroutine behind, and its iterator must not outlive the cache
	defer fsReg.Delete(fresh.dir)
	lc, err := server.NewLeaderController(server.Config{NotificationsRetentionTime: time.Hour}, "ns", 1, n.rpc, n.walF, fresh.f)
	if err != nil {
		return "NewLeaderController: " + errStr(err)
	}
	defer func() { _ = lc.Close() }()
	if _, err := lc.NewTerm(&proto.NewTermRequest{Shard: 1, Term: 2}); err != nil {
		return "NewTerm: " + errStr(err)
	}
	if _, err := lc.BecomeLeader(context.Background(), &proto.BecomeLeaderRequest{Shard: 1, Term: 2, ReplicationFactor: 1, FollowerMaps: noFollowers}); err != nil {
		return "BecomeLeader: " + errStr(err)
	}
	if m, ok := laterWrite(lc); !ok {
		return "later write: " + m
	}
	return ""
}

// replStream is the server side of a scripted Replicate stream.
type replStream struct {
	grpc.ServerStream
	ctx  context.Context
	in   chan *proto.Append
	acks chan *proto.Ack
}

func (s *replStream) Context() context.Context { return s.ctx }
func (s *replStream) Send(a *proto.Ack) error {
	s.acks <- a
	return nil
}
func (s *replStream) Recv() (*proto.Append, error) {
	select {
	case a := <-s.in:
		return a, nil
	case <-s.ctx.Done():
		return nil, s.ctx.Err()
	}
}

const safety = 60 * time.Second // liveness safety net for the follower route; expiring is reported as blocked

// followerRoute: a leader applies the requests; its WAL (every accepted request, also the ones ProcessWrite refused) is
// then replicated entry by entry to a real follower controller, each entry advertised as committed. The follower must
// acknowledge and apply every entry up to the last one and end with the same database content as the leader.
func followerRoute(scratch string, reqs []reqBuilder) (string, bool) {
	n, _ := startLeader(scratch, reqs)
	defer n.stop()
	rd, err := server.VerifLeaderWal(n.lc).NewReader(wal.InvalidOffset)
	if err != nil {
		return "cannot read the leader WAL: " + err.Error(), true
	}
	var entries []*proto.LogEntry
	for rd.HasNext() {
		e, err := rd.ReadNext()
		if err != nil {
			_ = rd.Close()
			return "cannot read the leader WAL: " + err.Error(), true
		}
		entries = append(entries, e)
	}
	_ = rd.Close()
	if len(entries) == 0 {
		return "ok (nothing reached the log)", false
	}
	last := entries[len(entries)-1].Offset
	leaderDump := strings.Join(oxh.DumpDB(server.VerifLeaderDB(n.lc), dumpOpts), "\n")

	fst := newStore()
	fdir := filepath.Join(scratch, fmt.Sprintf("e2e-f-%d", storeCtr.Add(1)))
	fwal := wal.NewWalFactory(&wal.FactoryOptions{BaseWalDir: fdir, Retention: time.Hour, SegmentSize: 128 * 1024, SyncData: false})
	fc, err := server.NewFollowerController(server.Config{NotificationsRetentionTime: time.Hour}, "ns", 1, fwal, fst.f)
	if err != nil {
		return "NewFollowerController: " + err.Error(), true
	}
	ctx, cancel := context.WithCancel(context.Background())
	defer func() {
		cancel()
		_ = fc.Close()
		_ = fwal.Close()
		fsReg.Delete(fst.dir)
		_ = os.RemoveAll(fdir)
	}()
	if _, err := fc.NewTerm(&proto.NewTermRequest{Shard: 1, Term: 1}); err != nil {
		return "follower NewTerm: " + err.Error(), true
	}
	st := &replStream{ctx: ctx, in: make(chan *proto.Append), acks: make(chan *proto.Ack, 4096)}
	done := make(chan error, 1)
	go func() { done <- fc.Replicate(st) }()
	timeout := time.After(safety)
	for _, e := range entries {
		select {
		case st.in <- &proto.Append{Term: 1, Entry: e, CommitOffset: e.Offset}:
		case err := <-done:
			return fmt.Sprintf("ERROR: replication stream closed by the follower before entry %d of %d (commit offset %d): %v", e.Offset, last, fc.CommitOffset(), err), true
		case <-timeout:
			return fmt.Sprintf("ERROR: follower does not take entry %d", e.Offset), true
		}
		select {
		case a := <-st.acks:
			if a.Offset != e.Offset {
				return fmt.Sprintf("ERROR: ack %d for entry %d", a.Offset, e.Offset), true
			}
		case err := <-done:
			return fmt.Sprintf("ERROR: replication stream closed by the follower at entry %d of %d (commit offset %d): %v", e.Offset, last, fc.CommitOffset(), err), true
		case <-timeout:
			return fmt.Sprintf("ERROR: no ack for entry %d", e.Offset), true
		}
	}
	// every entry is in the follower's WAL and advertised as committed: wait until it is applied or the apply loop gave up
	for fc.CommitOffset() < last {
		select {
		case err := <-done:
			return fmt.Sprintf("ERROR: follower stopped applying at commit offset %d of %d: %v", fc.CommitOffset(), last, err), true
		case <-timeout:
			return fmt.Sprintf("ERROR: follower stuck at commit offset %d of %d", fc.CommitOffset(), last), true
		default:
			time.Sleep(100 * time.Microsecond)
		}
	}
	fdb := server.VerifFollowerDB(fc)
	gr, err := fdb.Get(&proto.GetRequest{Key: laterKey, IncludeValue: true})
	if err != nil || gr.Status != proto.Status_OK {
		return fmt.Sprintf("ERROR: follower reports commit offset %d but the later entry is not applied: %v %v", fc.CommitOffset(), gr, err), true
	}
	if d := strings.Join(oxh.DumpDB(fdb, dumpOpts), "\n"); d != leaderDump {
		return fmt.Sprintf("ERROR: follower and leader databases differ\n--- leader\n%s\n--- follower\n%s", leaderDump, d), true
	}
	return fmt.Sprintf("ok (%d entries applied)", len(entries)), false
}

// ---------------------------------------------------------------------------------------------

// less orders logs: shortest first, then by generator indices.
func lessLog(a, b []int) bool {
	if len(a) != len(b) {
		return len(a) < len(b)
	}
	for k := range a {
		if a[k] != b[k] {
			return a[k] < b[k]
		}
	}
	return false
}

// rejections seen so far: class -> (minimal rejecting log, number of logs)
var rejMin = map[string][]int{}
var rejCount = map[string]int64{}

func enumerate(run *ev.Run, logs [][]int, deadline time.Time, label string) []ev.Violation {
	var mu sync.Mutex
	var all []ev.Violation
	var next atomic.Int64
	next.Store(-1)
	var cut atomic.Bool
	var wg sync.WaitGroup
	results := make([]*outcome, len(logs))
	for w := 0; w < runtime.NumCPU(); w++ {
		wg.Add(1)
		go func() {
			defer wg.Done()
			for {
				i := int(next.Add(1))
				if i >= len(logs) {
					return
				}
				if time.Now().After(deadline) {
					cut.Store(true)
					return
				}
				o := runLog(logs[i])
				results[i] = &o
			}
		}()
	}
	wg.Wait()
	done := int64(0)
	for i, o := range results {
		if o == nil {
			continue
		}
		done++
		var fams []string
		for _, g := range logs[i] {
			fams = append(fams, gens[g].family)
		}
		run.Distinct(strings.Join(fams, ">") + o.sig)
		mu.Lock()
		all = append(all, o.viols...)
		mu.Unlock()
		for _, r := range o.rejs {
			rejCount[r.key]++
			if cur, ok := rejMin[r.key]; !ok || lessLog(r.log, cur) {
				rejMin[r.key] = r.log
			}
		}
	}
	run.Add("evaluations", done)
	run.Add("logs_"+label, done)
	if cut.Load() {
		run.NotExhaustive(fmt.Sprintf("%s: deadline reached after %d of %d logs", label, done, len(logs)))
	}
	return all
}

func main() {
	replayFile := flag.String("replay", "", "replay file")
	flag.Parse()
	oxh.Quiet()
	metric.VerifUseNoopMeter()
	buildGrammar()
	scratch := ev.Scratch("c13")
	defer os.RemoveAll(scratch)
	if *replayFile != "" {
		rc := doReplay(*replayFile)
		_ = os.RemoveAll(scratch)
		os.Exit(rc)
	}
	run := ev.NewRun("C13", "exploration")
	budget := 50 * time.Second
	if run.Tier == "thorough" {
		budget = 15 * time.Minute
	}
	deadline := time.Now().Add(budget)

	// which requests of the grammar are really accepted into the log? (ask the real public RPC handlers)
	var acc []int
	var rejected []string
	for gi := range gens {
		ok, detail := acceptedIntoLog(scratch, gi)
		if ok {
			acc = append(acc, gi)
		} else {
			rejected = append(rejected, gens[gi].name+": "+detail)
		}
	}
	run.Add("grammar_requests_accepted_into_log", int64(len(acc)))
	run.Add("grammar_requests_rejected_before_logging", int64(len(rejected)))
	run.Coverage["rejected_before_logging"] = rejected
	// the unary handler dereferences the optional shard field (not a C13 matter, recorded as an observation)
	func() {
		nd, _ := startLeader(scratch, nil)
		defer nd.stop()
		defer func() {
			if r := recover(); r != nil {
				run.Note(fmt.Sprintf("observation (outside C13): publicRpcServer.Write panics on a WriteRequest without shard id: %v", r))
			}
		}()
		_, _ = server.VerifC13PublicWrite(context.Background(), nd.lc, &proto.WriteRequest{Puts: []*proto.PutRequest{{Key: "a"}}})
	}()
	if v := probeEmptyBounds(run); v != nil {
		run.Violate(*v)
	} else {
		// the outcome of range["","") is a function of the input on this tree: no special treatment of the logs that contain it
		for i := range gens {
			gens[i].nondet = false
		}
	}
	n := len(gens)
	var logs [][]int
	for _, i := range acc {
		logs = append(logs, []int{i})
	}
	for _, i := range acc {
		for _, j := range acc {
			logs = append(logs, []int{i, j})
		}
	}
	viols := enumerate(run, logs, deadline, "depth1+2_full_grammar")
	nseq := 0
	if run.Tier == "thorough" {
		var sq []int
		for _, i := range acc {
			if gens[i].seq {
				sq = append(sq, i)
			}
		}
		nseq = len(sq)
		var l3 [][]int
		for _, a := range sq {
			for _, b := range sq {
				for _, c := range sq {
					l3 = append(l3, []int{a, b, c})
				}
			}
		}
		viols = append(viols, enumerate(run, l3, deadline, "depth3_sequence_grammar")...)
	}

	// stable order: by key, then shortest log, then generator indices
	logOf := func(v ev.Violation) []string { return v.Replay.(map[string]any)["log"].([]string) }
	idxOf := func(v ev.Violation) []int { return v.Replay.(map[string]any)["indices"].([]int) }
	sort.SliceStable(viols, func(i, j int) bool {
		if viols[i].Key != viols[j].Key {
			return viols[i].Key < viols[j].Key
		}
		a, b := idxOf(viols[i]), idxOf(viols[j])
		if na, nb := hasNondet(a), hasNondet(b); na != nb {
			return nb
		}
		return lessLog(a, b)
	})
	if f := os.Getenv("VERIF_C13_DUMP"); f != "" {
		var sb strings.Builder
		for _, v := range viols {
			fmt.Fprintf(&sb, "%s\t%v\n", v.Key, logOf(v))
		}
		_ = os.WriteFile(f, []byte(sb.String()), 0o644)
	}
	// end-to-end consequence for the minimal log of every violation key
	perKey := map[string]int{}
	e2eByKey := map[string]any{}
	for i := range viols {
		v := &viols[i]
		perKey[v.Key]++
		if perKey[v.Key] == 1 && v.Key != "delete-range:empty-bounds-nondeterministic" {
			var log []int
			for _, nm := range logOf(*v) {
				log = append(log, genByName[nm])
			}
			r := e2e(scratch, log)
			countE2E(run, r)
			v.Message += "\n  end-to-end (real public Write handler, real leader RF=1, real follower): " + r.String()
			rp := v.Replay.(map[string]any)
			rp["e2e"] = r
			e2eByKey[v.Key] = map[string]any{"log": logOf(*v), "result": r}
		}
		if perKey[v.Key] <= 25 {
			run.Violate(*v)
		}
	}
	for k, c := range perKey {
		run.Note(fmt.Sprintf("violation key %s: %d failing logs", k, c))
	}
	// typed rejections (kv.IsInvalidRequestError, no trace at DB level): acceptable iff all three end-to-end routes
	// cope with the minimal log of the class: later entries still applied by the follower, BecomeLeader succeeds on both
	// leader routes and a later write goes through. A failed route is a violation under the key of the class.
	var rejKeys []string
	for k := range rejMin {
		rejKeys = append(rejKeys, k)
	}
	sort.Strings(rejKeys)
	e2eByRej := map[string]any{}
	for _, k := range rejKeys {
		log := rejMin[k]
		r := e2e(scratch, log)
		countE2E(run, r)
		run.Add("typed_rejection_classes", 1)
		run.Add("typed_rejections_without_trace", rejCount[k])
		e2eByRej[k] = map[string]any{"log": names(log), "logs_with_this_rejection": rejCount[k], "result": r}
		if r.LeaderBlocked || r.RestartBlocked || r.FollowerBlocked {
			run.Violate(ev.Violation{Key: k, Harness: "c13-e2e", Replay: map[string]any{"log": names(log), "indices": log, "e2e": r},
				Message: fmt.Sprintf("log %v: ProcessWrite refuses the last request with a typed error and leaves no trace, but an end-to-end route does not cope with the logged entry: %s", names(log), r)})
		}
	}
	run.Coverage["e2e_by_typed_rejection_class"] = e2eByRej
	// tail-replay route: every accepted request, alone and after a plain put, is in the log of a node whose
	// database has applied none of it (a follower promoted before it applied its tail, or a database that lost
	// its unflushed state in a crash): NewTerm + BecomeLeader must replay the log and a later write must go through.
	for _, gi := range acc {
		for _, log := range [][]int{{gi}, {genByName["put(a)"], gi}} {
			if msg := tailReplay(scratch, log); msg != "" {
				run.Violate(ev.Violation{Key: "tail-replay:" + gens[gi].family + ":become-leader-blocked-by-logged-request", Harness: "c13-tail-replay",
					Replay:  map[string]any{"log": names(log), "indices": log},
					Message: fmt.Sprintf("log %v accepted through the public write handler; a node that holds it in its log and has applied none of it cannot become leader: %s", names(log), msg)})
			}
			run.Add("tail_replay_runs", 1)
		}
	}
	// control: a healthy log through the same end-to-end routes must not block anything
	ctl := e2e(scratch, []int{genByName["put(a)"], genByName["seqput(p,pk=true,ev=false,deltas=[1])"]})
	countE2E(run, ctl)
	if ctl.LeaderBlocked || ctl.RestartBlocked || ctl.FollowerBlocked {
		run.Violate(ev.Violation{Key: "e2e-control-failed", Harness: "c13-e2e", Message: fmt.Sprintf("healthy log blocks a route: %s", ctl)})
	}
	run.Add("logs_where_a_client_delete_erased_the_term_record", termErased.Load())
	run.Coverage["e2e_by_violation_key"] = e2eByKey
	run.Coverage["grammar_size"] = n
	run.Coverage["sequence_grammar_size"] = nseq
	fam := map[string]int{}
	for _, g := range gens {
		fam[g.family]++
	}
	run.Coverage["grammar_families"] = fam
	run.Sample(map[string]any{"log": []string{gens[0].name}})
	run.Sample(map[string]any{"log": []string{"put(\"p-!\")", "seqput(p,pk=true,ev=false,deltas=[1])"}})
	run.Sample(map[string]any{"log": []string{"put(a)", "range[a,a/c)"}})
	run.Assume = []string{
		"membership of a request in the grammar is decided by the code under test: each generator is sent through the real public RPC handlers (publicRpcServer.Write, procesWriteStream) to a real RF=1 leader and kept only if the WAL grew (see coverage.rejected_before_logging for the ones the handlers refuse)",
		"repeated fields never contain nil elements (impossible on the wire); every request is marshalled and unmarshalled before it is applied",
		"ProcessWrite is called with server.WrapperUpdateOperationCallback, the callback used by leader, follower and replay",
		"a replica that hit an infrastructure error is not compared further: the follower apply loop returns at that entry",
		"a ProcessWrite error for which kv.IsInvalidRequestError holds is a typed per-request rejection (the apply loops skip such entries): accepted iff it leaves no trace in the full dump and the version counter, all replicas agree on it, and the three end-to-end routes cope with the minimal log of its class",
	}
	_ = os.RemoveAll(scratch) // os.Exit skips deferred calls
	os.Exit(run.Finish("every request of the grammar applied in the empty state and after every single other request (all ordered pairs; thorough: all ordered triples of the sequence sub-grammar) on three replicas (leader route, follower route with fresh decode, close+reopen after every entry); a case is distinct when its (request families, per-operation statuses / error class) signature differs"))
}

func countE2E(run *ev.Run, r e2eResult) {
	run.Add("e2e_runs", 1)
	run.Add("evaluations", 1)
	if r.LeaderBlocked {
		run.Add("e2e_become_leader_failed", 1)
	}
	if r.RestartBlocked {
		run.Add("e2e_restart_blocked", 1)
	}
	if r.FollowerBlocked {
		run.Add("e2e_follower_blocked", 1)
	}
}

func hasNondet(log []int) bool {
	for _, g := range log {
		if gens[g].nondet {
			return true
		}
	}
	return false
}

func doReplay(path string) int {
	var doc struct {
		First struct {
			Key    string `json:"key"`
			Replay struct {
				Log   []string `json:"log"`
				Probe string   `json:"probe"`
			} `json:"replay"`
		} `json:"first"`
	}
	if err := ev.ReadJSON(path, &doc); err != nil {
		fmt.Println("cannot read replay:", err)
		return 2
	}
	if doc.First.Replay.Probe == "empty-bounds" {
		if v := probeEmptyBounds(ev.NewRun("C13", "exploration")); v != nil {
			fmt.Printf("VIOLATION property=C13 replay=%s\n  %s: %s\n", path, v.Key, v.Message)
			return 1
		}
		fmt.Println("replay passed")
		return 0
	}
	var log []int
	for _, nm := range doc.First.Replay.Log {
		i, ok := genByName[nm]
		if !ok {
			fmt.Println("unknown generator", nm)
			return 2
		}
		log = append(log, i)
	}
	scratch := ev.Scratch("c13r")
	defer os.RemoveAll(scratch)
	for _, gi := range log {
		if ok, detail := acceptedIntoLog(scratch, gi); !ok {
			fmt.Printf("replay passed: %s is refused by the public RPC handlers before logging (%s), so the log is outside the property\n", gens[gi].name, detail)
			return 0
		}
	}
	o := runLog(log)
	rc := 0
	for _, v := range o.viols {
		fmt.Printf("VIOLATION property=C13 replay=%s\n  %s: %s\n", path, v.Key, v.Message)
		rc = 1
	}
	for _, rj := range o.rejs {
		fmt.Printf("  typed rejection without trace (%s) at the last request of %v\n", rj.key, names(rj.log))
	}
	if rc == 1 || len(o.rejs) > 0 {
		r := e2e(scratch, log)
		fmt.Printf("  end-to-end (real public Write handler, real leader RF=1, real follower): %s\n", r)
		if rc == 0 && (r.LeaderBlocked || r.RestartBlocked || r.FollowerBlocked) {
			fmt.Printf("VIOLATION property=C13 replay=%s\n  %s: an end-to-end route does not cope with the rejected entry\n", path, o.rejs[0].key)
			rc = 1
		}
	}
	if rc == 0 {
		fmt.Println("replay passed")
	}
	return rc
}
