#!/bin/bash
# with_overlay.sh <map.json> [check args...]
# Runs `./check C20` on mutated / patched COPIES of repo files ({"/repo/x.go": "/path/copy.go"}).
#
# Why not plain VERIF_EXTRA_OVERLAY=<map> ./check C20: for INSTRUMENT harnesses ./check merges
# VERIF_EXTRA_OVERLAY *after* the instrumented rewrite, so the raw (un-instrumented) copy replaces
# the instrumented file and its goroutines / channels escape the scheduler (see NOTES.md,
# "Infrastructure"). This wrapper first lets the instrumenter rewrite the copies, then hands
# ./check a map that points at the rewritten copies (re-instrumenting them is a no-op).
set -u
ROOT="$(cd "$(dirname "$0")/../.." && pwd)"
cd "$ROOT" || exit 2
export VERIF_ROOT="$ROOT" GOFLAGS=-mod=mod GOPROXY=off
raw="$1"; shift
tmp="/dev/shm/c20-ov-$$"
mkdir -p "$tmp"
trap 'rm -rf "$tmp"' EXIT
VERIF_EXTRA_OVERLAY="$raw" ./lib/build_inst.sh c20 || { echo "instrumentation of the copies failed" >&2; exit 2; }
python3 - "$raw" "$tmp" "$ROOT/build/inst-c20/map.json" <<'EOF' || exit 2
import json, shutil, sys, os
raw, tmp, instmap = sys.argv[1:4]
inst = json.load(open(instmap))
out = {}
for k, v in json.load(open(raw)).items():
    src = inst.get(k, v)  # files the instrumenter did not touch are used as they are
    dst = os.path.join(tmp, k.strip('/').replace('/', '__'))
    shutil.copy(src, dst)
    out[k] = dst
json.dump(out, open(os.path.join(tmp, 'map.json'), 'w'))
EOF
VERIF_EXTRA_OVERLAY="$tmp/map.json" ./check C20 "$@"
