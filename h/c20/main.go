// C20: client batching and fan-out are transparent.
// E2: the real async client (clientImpl, batch managers, batchers, write/read batches,
// write-stream wrapper, executor) under the cooperative scheduler with a virtual clock,
// wired to fake executors / streams / shard managers (no network).
//
//	(a) batcher + write batch + read batch through the async client: callers x calls,
//	    count / byte limits, linger 0 or 5 ms (timer vs arrival is a scheduler choice),
//	    per-batch server outcome in {success, retriable error then success, permanent error};
//	(b) write-stream wrapper: concurrent Sends, in-order responses, stream failure at any
//	    stream event;
//	(c) fan-out over 2-3 shards: List, RangeScan, Get x {FLOOR, CEILING, LOWER, HIGHER,
//	    secondary index} with scripted per-shard results and errors on 0-2 shards.
//
// Inputs (outcome vectors, failure points, per-shard scripts) are enumerated inside each
// scenario as free data choices of the explorer; schedules are enumerated up to MaxDev
// deviations.
package main

import (
	"context"
	"errors"
	"flag"
	"fmt"
	"io"
	"os"
	"regexp"
	"sort"
	"strings"
	"syscall"
	"time"

	"google.golang.org/grpc"
	"google.golang.org/grpc/codes"
	"google.golang.org/grpc/health/grpc_health_v1"
	"google.golang.org/grpc/status"

	"github.com/oxia-db/oxia/common/compare"
	"github.com/oxia-db/oxia/oxia"
	"github.com/oxia-db/oxia/proto"
	"github.com/oxia-db/oxia/zzverif/vsched"

	"verif/lib/oxh"
	"verif/lib/sched"
)

// ---------------------------------------------------------------------------------
// common

type world struct {
	s        *vsched.Sched
	never    chan struct{}
	panicked bool
}

func newWorld(s *vsched.Sched) *world { return &world{s: s, never: make(chan struct{})} }

var nonAlnum = regexp.MustCompile(`[^a-z]+`)

// panicClass turns a panic value into a stable class: lower-case words only (indices,
// lengths and addresses are dropped).
func panicClass(v any) string {
	m := strings.ToLower(fmt.Sprint(v))
	m = strings.TrimPrefix(m, "runtime error: ")
	m = strings.Trim(nonAlnum.ReplaceAllString(m, "-"), "-")
	if len(m) > 48 {
		m = m[:48]
	}
	return m
}

// onPanic is installed as recover() hook in the client's completion callbacks and in the
// write-stream service goroutines: the panic becomes a violation with its own key and the
// panicking thread is parked for the rest of the execution (in production the process dies).
func (w *world) onPanic(scope string) func(where string, v any) {
	return func(where string, v any) {
		w.panicked = true
		w.s.Fail("panic:"+scope+"-"+where+":"+panicClass(v), fmt.Sprintf("panic in %s %s: %v", scope, where, v))
		vsched.Recv(w.never)
	}
}

func slashLess(a, b string) bool { return compare.CompareWithSlash([]byte(a), []byte(b)) < 0 }

type nilCloser struct{}

func (nilCloser) Close() error { return nil }

// shard manager: n shards 0..n-1; a key (or partition key) is routed by its last byte.
type fakeSM struct{ n int }

func (f *fakeSM) Close() error { return nil }
func (f *fakeSM) Get(key string) int64 {
	if key == "" || f.n == 1 {
		return 0
	}
	return int64(key[len(key)-1]) % int64(f.n)
}
func (f *fakeSM) GetAll() []int64 {
	out := make([]int64, f.n)
	for i := range out {
		out[i] = int64(i)
	}
	return out
}
func (f *fakeSM) Leader(int64) string { return "leader" }

// ---------------------------------------------------------------------------------
// (a) batcher + write batch + read batch

type op struct {
	kind  byte // 'p' put, 'd' delete, 'g' get
	key   string
	vsize int
}

func P(key string, vsize int) op { return op{'p', key, vsize} }
func D(key string) op            { return op{'d', key, 0} }
func G(key string) op            { return op{'g', key, 0} }

type aVariant struct {
	name     string
	linger   time.Duration
	maxReq   int
	maxBytes int
	callers  [][]op
	nFreeW   int // the first nFreeW write batches get a freely chosen server outcome
	nFreeR   int
	realExec bool // write path through the real executor + stream wrapper over a fake stream
	seq      bool // callers collect each result before submitting the next call (default: submit all, then collect)
	dev      [2]int
}

const (
	oS  = iota // success, positional echo
	oR         // retriable error on the first attempt, then success
	oP         // permanent error
	oR2        // reads only: first attempt delivers a partial stream, then a retriable error
)

var outcomeNames = [...]string{"S", "R", "P", "R2"}

type batchRec struct {
	ord      int
	keys     []string
	outcome  int
	attempts int
	failMsg  string
}

type opRes struct {
	done   bool
	n      int // values received before the channel was closed
	closed bool
	tag    int64
	mods   int64
	key    string
	val    string
	err    error
}

func tagOf(key string) int64 {
	var n int64
	for _, c := range key {
		if c >= '0' && c <= '9' {
			n = n*10 + int64(c-'0')
		}
	}
	return n
}

// deletes carry no payload: the status is the tag (d0 -> OK, d1 -> KEY_NOT_FOUND, d2 -> UNEXPECTED_VERSION_ID)
func delStatus(key string) proto.Status {
	switch tagOf(key) % 3 {
	case 1:
		return proto.Status_KEY_NOT_FOUND
	case 2:
		return proto.Status_UNEXPECTED_VERSION_ID
	}
	return proto.Status_OK
}

func delErr(key string) error {
	switch delStatus(key) {
	case proto.Status_KEY_NOT_FOUND:
		return oxia.ErrKeyNotFound
	case proto.Status_UNEXPECTED_VERSION_ID:
		return oxia.ErrUnexpectedVersionId
	}
	return nil
}

func echoWrite(req *proto.WriteRequest) *proto.WriteResponse {
	resp := &proto.WriteResponse{}
	for _, p := range req.Puts {
		resp.Puts = append(resp.Puts, &proto.PutResponse{Status: proto.Status_OK,
			Version: &proto.Version{VersionId: tagOf(p.Key), ModificationsCount: int64(len(p.Value))}})
	}
	for _, d := range req.Deletes {
		resp.Deletes = append(resp.Deletes, &proto.DeleteResponse{Status: delStatus(d.Key)})
	}
	for range req.DeleteRanges {
		resp.DeleteRanges = append(resp.DeleteRanges, &proto.DeleteRangeResponse{Status: proto.Status_OK})
	}
	return resp
}

func echoGet(g *proto.GetRequest) *proto.GetResponse {
	if strings.HasSuffix(g.Key, "x") {
		return &proto.GetResponse{Status: proto.Status_KEY_NOT_FOUND}
	}
	return &proto.GetResponse{Status: proto.Status_OK, Value: []byte("val-" + g.Key), Version: &proto.Version{VersionId: tagOf(g.Key)}}
}

// execA is the fake server of part (a).
type execA struct {
	w     *world
	v     *aVariant
	wb    []*batchRec
	rb    []*batchRec
	byReq map[any]*batchRec
}

func (e *execA) writeRec(req *proto.WriteRequest, free bool) *batchRec {
	rec := e.byReq[req]
	if rec == nil {
		rec = &batchRec{ord: len(e.wb)}
		for _, p := range req.Puts {
			rec.keys = append(rec.keys, p.Key)
		}
		for _, d := range req.Deletes {
			rec.keys = append(rec.keys, d.Key)
		}
		if free && rec.ord < e.v.nFreeW {
			rec.outcome = e.w.s.Choose(3, true)
		}
		e.wb = append(e.wb, rec)
		e.byReq[req] = rec
	}
	rec.attempts++
	return rec
}

func (e *execA) ExecuteWrite(_ context.Context, req *proto.WriteRequest) (*proto.WriteResponse, error) {
	rec := e.writeRec(req, true)
	e.w.s.Yield() // the RPC takes time
	switch {
	case rec.outcome == oR && rec.attempts == 1:
		return nil, status.Error(codes.Unavailable, fmt.Sprintf("retriable-w%d", rec.ord))
	case rec.outcome == oP:
		rec.failMsg = fmt.Sprintf("permanent-w%d", rec.ord)
		return nil, status.Error(codes.Internal, rec.failMsg)
	}
	return echoWrite(req), nil
}

type readStream struct {
	grpc.ClientStream
	msgs []*proto.ReadResponse
	i    int
	end  error
}

func (r *readStream) Recv() (*proto.ReadResponse, error) {
	if r.i < len(r.msgs) {
		r.i++
		return r.msgs[r.i-1], nil
	}
	if r.end != nil {
		return nil, r.end
	}
	return nil, io.EOF
}

func (e *execA) ExecuteRead(_ context.Context, req *proto.ReadRequest) (proto.OxiaClient_ReadClient, error) {
	rec := e.byReq[req]
	if rec == nil {
		rec = &batchRec{ord: len(e.rb)}
		for _, g := range req.Gets {
			rec.keys = append(rec.keys, g.Key)
		}
		if rec.ord < e.v.nFreeR {
			rec.outcome = e.w.s.Choose(4, true)
		}
		e.rb = append(e.rb, rec)
		e.byReq[req] = rec
	}
	rec.attempts++
	e.w.s.Yield()
	var msgs []*proto.ReadResponse
	for _, g := range req.Gets { // one get per stream message: the batch has to concatenate them
		msgs = append(msgs, &proto.ReadResponse{Gets: []*proto.GetResponse{echoGet(g)}})
	}
	switch {
	case rec.outcome == oR && rec.attempts == 1:
		return nil, status.Error(codes.Unavailable, fmt.Sprintf("retriable-r%d", rec.ord))
	case rec.outcome == oR2 && rec.attempts == 1:
		return &readStream{msgs: msgs[:1], end: status.Error(codes.Unavailable, fmt.Sprintf("retriable-r%d", rec.ord))}, nil
	case rec.outcome == oP:
		// a partial stream followed by a permanent error
		rec.failMsg = fmt.Sprintf("permanent-r%d", rec.ord)
		return &readStream{msgs: msgs[:1], end: status.Error(codes.Internal, rec.failMsg)}, nil
	}
	return &readStream{msgs: msgs}, nil
}

func (e *execA) ExecuteList(context.Context, *proto.ListRequest) (proto.OxiaClient_ListClient, error) {
	return nil, errors.New("not scripted")
}
func (e *execA) ExecuteRangeScan(context.Context, *proto.RangeScanRequest) (proto.OxiaClient_RangeScanClient, error) {
	return nil, errors.New("not scripted")
}

// fake connection pool / rpc client for the real executor: writes go through fake write streams
// (part (b) fake), reads are answered by execA.
type fakePool struct {
	e       *execA
	streams *streamFaults
}

func (p *fakePool) Close() error { return nil }
func (p *fakePool) GetClientRpc(string) (proto.OxiaClientClient, error) {
	return &fakeRpc{p: p}, nil
}
func (p *fakePool) GetHealthRpc(string) (grpc_health_v1.HealthClient, io.Closer, error) {
	return nil, nilCloser{}, errors.New("not supported")
}
func (p *fakePool) GetCoordinationRpc(string) (proto.OxiaCoordinationClient, error) {
	return nil, errors.New("not supported")
}
func (p *fakePool) GetReplicationRpc(string) (proto.OxiaLogReplicationClient, error) {
	return nil, errors.New("not supported")
}
func (p *fakePool) Clear(string) {}

type fakeRpc struct {
	proto.OxiaClientClient
	p *fakePool
}

func (r *fakeRpc) WriteStream(ctx context.Context, _ ...grpc.CallOption) (proto.OxiaClient_WriteStreamClient, error) {
	f := newFakeWS(r.p.e.w, ctx, r.p.streams)
	f.onSend = func(req *proto.WriteRequest) { r.p.e.writeRec(req, false) }
	return f, nil
}

func (r *fakeRpc) Read(ctx context.Context, in *proto.ReadRequest, _ ...grpc.CallOption) (proto.OxiaClient_ReadClient, error) {
	return r.p.e.ExecuteRead(ctx, in)
}

func bodyA(v aVariant) func(s *vsched.Sched) {
	return func(s *vsched.Sched) {
		w := newWorld(s)
		e := &execA{w: w, v: &v, byReq: map[any]*batchRec{}}
		sm := &fakeSM{n: 1}
		var ex oxia.VerifC20Executor = e
		var faults *streamFaults
		if v.realExec {
			nops := 0
			for _, c := range v.callers {
				nops += len(c)
			}
			// stream events: at most one Send and one response per write batch
			faults = &streamFaults{failAt: s.Choose(2*nops+1, true), allowFatal: false}
			ex = oxia.VerifC20NewRealExecutor(context.Background(), "default", &fakePool{e: e, streams: faults}, sm)
		}
		client := oxia.VerifC20NewClient(oxia.VerifC20Options{Linger: v.linger, MaxRequestsPerBatch: v.maxReq, MaxBatchSize: v.maxBytes,
			RequestTimeout: time.Hour, OnCallbackPanic: w.onPanic("callback")}, sm, ex)

		var ops []op
		var res []*opRes
		// submitting[c] = index (into ops) of the call caller c is currently inside, -1 otherwise
		submitting := make([]int, len(v.callers))
		callerOf := map[int]int{}
		for ci, c := range v.callers {
			c, ci := c, ci
			submitting[ci] = -1
			base := len(ops)
			for j := range c {
				callerOf[base+j] = ci
			}
			for _, o := range c {
				ops = append(ops, o)
				res = append(res, &opRes{})
			}
			vsched.Go(func() {
				// the async way: submit everything, then collect
				var waits []func()
				for j, o := range c {
					r := res[base+j]
					submitting[ci] = base + j
					switch o.kind {
					case 'p':
						ch := client.Put(o.key, make([]byte, o.vsize))
						waits = append(waits, func() {
							for {
								x, ok := vsched.Recv2(ch)
								if !ok {
									r.closed = true
									break
								}
								r.n++
								if r.n == 1 {
									r.key, r.tag, r.mods, r.err = x.Key, x.Version.VersionId, x.Version.ModificationsCount, x.Err
								}
							}
							r.done = true
						})
					case 'd':
						ch := client.Delete(o.key)
						waits = append(waits, func() {
							for {
								x, ok := vsched.Recv2(ch)
								if !ok {
									r.closed = true
									break
								}
								r.n++
								if r.n == 1 {
									r.err = x
								}
							}
							r.done = true
						})
					case 'g':
						ch := client.Get(o.key)
						waits = append(waits, func() {
							for {
								x, ok := vsched.Recv2(ch)
								if !ok {
									r.closed = true
									break
								}
								r.n++
								if r.n == 1 {
									r.key, r.tag, r.val, r.err = x.Key, x.Version.VersionId, string(x.Value), x.Err
								}
							}
							r.done = true
						})
					}
					submitting[ci] = -1
					if v.seq {
						waits[len(waits)-1]()
						waits = waits[:len(waits)-1]
					}
				}
				for _, f := range waits {
					f()
				}
			})
		}
		s.Sleep(time.Minute) // linger timers and retry back-offs (100 ms, 150 ms ...) all fall inside
		s.Settle()
		s.Explore(false)

		// ---- oracle at quiescence
		desc := func(bs []*batchRec) string {
			var parts []string
			for _, b := range bs {
				parts = append(parts, strings.Join(b.keys, ",")+":"+outcomeNames[b.outcome])
			}
			return strings.Join(parts, "|")
		}
		data := "W[" + desc(e.wb) + "] R[" + desc(e.rb) + "]"
		if faults != nil {
			data += fmt.Sprintf(" fail@%d/%s", faults.failAt, faults.fired)
		}
		if w.panicked {
			s.Data = data + " panicked"
			return
		}
		// A caller stuck inside a submit call wedges everything behind it; classify that first.
		wedged := false
		for ci, at := range submitting {
			if at < 0 {
				continue
			}
			wedged = true
			unreadGet := ""
			for i := range ops {
				if callerOf[i] == ci && i < at && ops[i].kind == 'g' && res[i].n == 0 {
					unreadGet = ops[i].key
				}
			}
			if unreadGet != "" {
				s.Fail("submit-blocked-behind-uncollected-get-result", fmt.Sprintf("caller %d is blocked inside %c(%s) (batcher call channel full) while the batcher is blocked delivering the result of its earlier, not yet collected Get(%s) on an unbuffered channel: neither ever proceeds; batches %s; blocked: %s",
					ci, ops[at].kind, ops[at].key, unreadGet, data, strings.Join(s.Blocked(), "; ")))
			} else {
				s.Fail("submit-blocked:"+string(ops[at].kind), fmt.Sprintf("caller %d never returned from submitting %c(%s); batches %s; blocked: %s", ci, ops[at].kind, ops[at].key, data, strings.Join(s.Blocked(), "; ")))
			}
		}
		for i, o := range ops {
			r := res[i]
			name := fmt.Sprintf("%c(%s)", o.kind, o.key)
			if wedged && !r.done {
				continue // collateral of the wedge reported above
			}
			bs := e.wb
			if o.kind == 'g' {
				bs = e.rb
			}
			var in []*batchRec
			for _, b := range bs {
				for _, k := range b.keys {
					if k == o.key {
						in = append(in, b)
					}
				}
			}
			if !r.done {
				if r.n > 0 {
					s.Fail("result-channel-not-closed:"+string(o.kind), fmt.Sprintf("%s delivered a result but its channel was never closed; batches %s", name, data))
				} else {
					s.Fail("op-pending:"+string(o.kind), fmt.Sprintf("%s never completed; batches %s; blocked: %s", name, data, strings.Join(s.Blocked(), "; ")))
				}
				continue
			}
			if r.n != 1 {
				s.Fail("completions!=1:"+string(o.kind), fmt.Sprintf("%s: result channel delivered %d values before closing; batches %s", name, r.n, data))
				continue
			}
			if len(in) != 1 {
				s.Fail("op-not-in-exactly-one-batch:"+string(o.kind), fmt.Sprintf("%s was sent to the server in %d batches; batches %s", name, len(in), data))
				continue
			}
			b := in[0]
			streamFailed := faults != nil && faults.fired != ""
			if b.failMsg != "" {
				// its batch failed for good: the operation must fail with the error of that very batch
				if r.err == nil || !strings.Contains(r.err.Error(), b.failMsg) {
					s.Fail("wrong-result:"+string(o.kind), fmt.Sprintf("%s was in batch %d which failed with %s, but it completed with err=%v version=%d; batches %s", name, b.ord, b.failMsg, r.err, r.tag, data))
				}
				continue
			}
			var ownErr error
			if o.kind == 'd' {
				ownErr = delErr(o.key)
			} else if o.kind == 'g' && strings.HasSuffix(o.key, "x") {
				ownErr = oxia.ErrKeyNotFound
			}
			if r.err != nil && !(ownErr != nil && errors.Is(r.err, ownErr)) {
				// not its own answer: only the failure of the stream that carried its batch is acceptable
				if !(streamFailed && (errors.Is(r.err, io.EOF) || strings.Contains(r.err.Error(), "stream-broken"))) {
					s.Fail("wrong-result:"+string(o.kind), fmt.Sprintf("%s was in batch %d, which did not fail, but completed with %v; batches %s", name, b.ord, r.err, data))
				}
				continue
			}
			switch o.kind {
			case 'p':
				if r.err != nil || r.tag != tagOf(o.key) || r.mods != int64(o.vsize) || r.key != o.key {
					s.Fail("wrong-result:p", fmt.Sprintf("%s (value size %d) completed with key=%q version=%d size-echo=%d err=%v; batches %s", name, o.vsize, r.key, r.tag, r.mods, r.err, data))
				}
			case 'd':
				if !errors.Is(r.err, delErr(o.key)) || (delErr(o.key) == nil && r.err != nil) {
					s.Fail("wrong-result:d", fmt.Sprintf("%s completed with %v, its own answer is %v; batches %s", name, r.err, delErr(o.key), data))
				}
			case 'g':
				if strings.HasSuffix(o.key, "x") {
					if !errors.Is(r.err, oxia.ErrKeyNotFound) {
						s.Fail("wrong-result:g", fmt.Sprintf("%s completed with %v %q, its own answer is key-not-found; batches %s", name, r.err, r.val, data))
					}
				} else if r.err != nil || r.val != "val-"+o.key || r.tag != tagOf(o.key) || r.key != o.key {
					s.Fail("wrong-result:g", fmt.Sprintf("%s completed with key=%q value=%q version=%d err=%v; batches %s", name, r.key, r.val, r.tag, r.err, data))
				}
			}
		}
		s.Data = data
	}
}

// ---------------------------------------------------------------------------------
// (b) write-stream wrapper

// streamFaults: the failAt-th stream event (a Send call or the delivery of a response)
// fails. What the failure looks like follows grpc.ClientStream:
//   - a response delivery that fails: Recv returns an error; the stream context is already
//     cancelled when Recv returns (RecvMsg finishes the stream);
//   - a Send that fails with a transport error: Send returns io.EOF, the context is NOT yet
//     cancelled; the next Recv reports the real error (and finishes the stream);
//   - a Send that fails with a client-side error (allowFatal): Send returns a status error
//     and has finished the stream (context cancelled) before returning.
type streamFaults struct {
	failAt     int // 0: never
	allowFatal bool
	events     int
	fired      string
	// gate, if set: the server is merely slow. Requests are accepted, responses are withheld until
	// the gate is closed (vsched.Close), then delivered in arrival order. The stream stays healthy.
	gate chan struct{}
}

type fakeWS struct {
	grpc.ClientStream
	w        *world
	ctx      context.Context
	cancel   context.CancelFunc
	faults   *streamFaults
	avail    chan struct{}
	brokenCh chan struct{}
	broken   bool
	queue    []*proto.WriteRequest
	onSend   func(*proto.WriteRequest)
	answered []int64
}

func newFakeWS(w *world, parent context.Context, faults *streamFaults) *fakeWS {
	f := &fakeWS{w: w, faults: faults, avail: make(chan struct{}, 64), brokenCh: make(chan struct{})}
	f.ctx, f.cancel = context.WithCancel(parent)
	return f
}

func (f *fakeWS) event() bool {
	f.faults.events++
	return f.faults.events == f.faults.failAt
}

var errStreamBroken = status.Error(codes.Unknown, "stream-broken")

func (f *fakeWS) Context() context.Context { return f.ctx }

func (f *fakeWS) Send(req *proto.WriteRequest) error {
	// SendMsg takes time before the message is on the wire: without this point a wrapper that
	// called Send outside its lock could never be overtaken (mutant m6 escaped)
	f.w.s.Yield()
	if f.onSend != nil {
		f.onSend(req)
	}
	if f.ctx.Err() != nil || f.broken {
		return io.EOF
	}
	if f.event() {
		if f.faults.allowFatal && f.w.s.Choose(2, true) == 1 {
			f.faults.fired = "send-fatal"
			f.broken = true
			f.cancel()
			return status.Error(codes.ResourceExhausted, "stream-broken (client-side send error)")
		}
		f.faults.fired = "send-eof"
		f.broken = true
		vsched.Close(f.brokenCh)
		return io.EOF
	}
	f.queue = append(f.queue, req)
	vsched.Send(f.avail)(struct{}{})
	return nil
}

func (f *fakeWS) Recv() (*proto.WriteResponse, error) {
	if f.faults.gate != nil {
		g := vsched.Select(false, vsched.RecvCase(f.faults.gate), vsched.RecvCase(f.brokenCh), vsched.RecvCase(f.ctx.Done()))
		if g.I != 0 {
			f.cancel()
			return nil, errStreamBroken
		}
	}
	r := vsched.Select(false, vsched.RecvCase(f.avail), vsched.RecvCase(f.brokenCh), vsched.RecvCase(f.ctx.Done()))
	if r.I != 0 || f.broken {
		f.cancel()
		return nil, errStreamBroken
	}
	if f.event() {
		f.faults.fired = "recv-error"
		f.broken = true
		f.cancel()
		return nil, errStreamBroken
	}
	req := f.queue[0]
	f.queue = f.queue[1:]
	return echoWrite(req), nil
}

type bVariant struct {
	name    string
	senders int
	per     int
	fatal   bool // a failing Send may also be a client-side error that finishes the stream (context cancelled inside Send)
	dev     [2]int
	// slow server: no stream failure; responses are withheld until a server thread opens the gate at
	// virtual time +100 ms; the sends listed in deadline carry a context that expires at +50 ms
	// (both are timers that may also fire early / late as scheduler alternatives)
	slow     bool
	deadline []int
	executor bool // Sends go through the real executorImpl.ExecuteWrite (stream creation + wrapper)
}

// deadlineCtx is a context that expires at a virtual-time deadline (context.WithTimeout would use
// the real clock).
func (w *world) deadlineCtx(d time.Duration) context.Context {
	ctx, cancel := context.WithCancelCause(context.Background())
	w.s.NewFuncTimer(d, func() { cancel(context.DeadlineExceeded) })
	return ctx
}

type sendRes struct {
	done bool
	resp *proto.WriteResponse
	err  error
}

func bodyB(v bVariant) func(s *vsched.Sched) {
	return func(s *vsched.Sched) {
		w := newWorld(s)
		n := v.senders * v.per
		faults := &streamFaults{allowFatal: v.fatal}
		if v.slow {
			faults.gate = make(chan struct{})
		} else {
			faults.failAt = s.Choose(2*n+1, true)
		}
		var send func(ctx context.Context, req *proto.WriteRequest) (*proto.WriteResponse, error)
		failed := func() bool { return false }
		if v.executor {
			e := &execA{w: w, v: &aVariant{}, byReq: map[any]*batchRec{}}
			ex := oxia.VerifC20NewRealExecutor(context.Background(), "default", &fakePool{e: e, streams: faults}, &fakeSM{n: 1})
			send = ex.ExecuteWrite
		} else {
			f := newFakeWS(w, context.Background(), faults)
			sw := oxia.VerifC20NewStreamWrapper(0, f, w.onPanic("write-stream"))
			send, failed = sw.Send, sw.Failed
		}
		ctxs := make([]context.Context, n)
		for k := range ctxs {
			ctxs[k] = context.Background()
		}
		res := make([]sendRes, n)
		for i := 0; i < v.senders; i++ {
			i := i
			vsched.Go(func() {
				for j := 0; j < v.per; j++ {
					k := i*v.per + j
					shard := int64(0)
					for _, d := range v.deadline {
						if d == k {
							ctxs[k] = w.deadlineCtx(50 * time.Millisecond)
						}
					}
					resp, err := send(ctxs[k], &proto.WriteRequest{Shard: &shard,
						Puts: []*proto.PutRequest{{Key: fmt.Sprintf("p%d", k+1), Value: []byte("v")}}})
					res[k] = sendRes{true, resp, err}
				}
			})
		}
		if v.slow {
			vsched.Go(func() { // the server catches up
				s.Sleep(100 * time.Millisecond)
				vsched.Close(faults.gate)
			})
			s.Sleep(time.Second)
		}
		s.Settle()
		s.Explore(false)
		var out []string
		for k, r := range res {
			switch {
			case !r.done:
				out = append(out, "hang")
			case r.err != nil:
				out = append(out, "err")
			default:
				out = append(out, "ok")
			}
			if w.panicked {
				continue
			}
			switch {
			case !r.done:
				s.Fail("send-pending", fmt.Sprintf("Send #%d never returned (failure: event %d %s); blocked: %s", k+1, faults.failAt, faults.fired, strings.Join(s.Blocked(), "; ")))
			case r.err != nil:
				timedOut := ctxs[k].Err() != nil && errors.Is(r.err, ctxs[k].Err())
				if faults.fired == "" && !timedOut {
					s.Fail("send-spurious-error", fmt.Sprintf("Send #%d failed with %v although the stream never failed and its context did not expire", k+1, r.err))
				}
			default:
				if len(r.resp.Puts) != 1 || r.resp.Puts[0].Version.VersionId != int64(k+1) {
					s.Fail("send-wrong-response", fmt.Sprintf("Send #%d returned the response %v (failure: event %d %s)", k+1, r.resp, faults.failAt, faults.fired))
				}
			}
		}
		if !w.panicked && faults.fired != "" && !v.executor && !failed() {
			s.Fail("stream-not-marked-failed", fmt.Sprintf("the stream failed (%s) but the wrapper is still handed out as healthy", faults.fired))
		}
		s.Data = fmt.Sprintf("fail@%d/%s %s", faults.failAt, faults.fired, strings.Join(out, ","))
		if w.panicked {
			s.Data = s.Data.(string) + " panicked"
		}
	}
}

// ---------------------------------------------------------------------------------
// (c) fan-out

const (
	errNone = -2
	errExec = -1 // Execute* itself returns the error; j >= 0: Recv fails after j items
)

type getAns struct {
	key string // "" = KEY_NOT_FOUND
	sk  string // secondary index key ("" = none)
}

type shardScript struct {
	keys  []string // list / range-scan: this shard's keys in slash order
	get   getAns
	errAt int
}

type cInput struct {
	op      string // list | scan | get
	cmp     proto.KeyComparisonType
	index   bool
	part    bool // PartitionKey given: single shard
	cancel  bool // extra (outside the property's quantifier): the caller's context is cancelled at a freely chosen scheduling point
	scripts []shardScript
}

func (in cInput) String() string {
	var parts []string
	for i, sc := range in.scripts {
		p := fmt.Sprintf("s%d:", i)
		if in.op == "get" {
			p += sc.get.key
			if sc.get.key == "" {
				p += "NF"
			}
			if sc.get.sk != "" {
				p += "@" + sc.get.sk
			}
		} else {
			p += "[" + strings.Join(sc.keys, " ") + "]"
		}
		switch {
		case sc.errAt == errExec:
			p += "!exec"
		case sc.errAt >= 0:
			p += fmt.Sprintf("!recv%d", sc.errAt)
		}
		parts = append(parts, p)
	}
	o := in.op
	if in.op == "get" {
		o += "-" + in.cmp.String()
	}
	if in.index {
		o += "-index"
	}
	if in.part {
		o += "-partition"
	}
	if in.cancel {
		o += "-ctxcancel"
	}
	return o + " " + strings.Join(parts, " ")
}

// shardErr: how a shard's call or stream fails. Odd shards end with Canceled, the code a client sees when
// the server side aborts a stream (the shard's leader is closed or steps down while it answers): that is a
// failure of the shard like any other, not the caller's own cancellation.
func shardErr(shard int64) error {
	if shard%2 == 1 {
		return status.Error(codes.Canceled, fmt.Sprintf("shard-%d-failed", shard))
	}
	return status.Error(codes.Internal, fmt.Sprintf("shard-%d-failed", shard))
}

type execC struct {
	w  *world
	in *cInput
}

// delete-range fan-out: errExec = the shard's batch fails, 0 = the shard answers with a non-OK status
func (e *execC) ExecuteWrite(_ context.Context, req *proto.WriteRequest) (*proto.WriteResponse, error) {
	e.w.s.Yield()
	sc := e.in.scripts[*req.Shard]
	if sc.errAt == errExec {
		return nil, shardErr(*req.Shard)
	}
	resp := echoWrite(req)
	if sc.errAt >= 0 {
		for _, d := range resp.DeleteRanges {
			d.Status = proto.Status_UNEXPECTED_VERSION_ID
		}
	}
	return resp, nil
}

func rec(key string) *proto.GetResponse {
	k := key
	return &proto.GetResponse{Status: proto.Status_OK, Key: &k, Value: []byte("v-" + key), Version: &proto.Version{VersionId: int64(len(key))}}
}

func (e *execC) ExecuteRead(_ context.Context, req *proto.ReadRequest) (proto.OxiaClient_ReadClient, error) {
	e.w.s.Yield()
	sc := e.in.scripts[*req.Shard]
	if sc.errAt == errExec {
		return nil, shardErr(*req.Shard)
	}
	if sc.errAt >= 0 {
		return &readStream{end: shardErr(*req.Shard)}, nil
	}
	resp := &proto.ReadResponse{}
	for range req.Gets {
		if sc.get.key == "" {
			resp.Gets = append(resp.Gets, &proto.GetResponse{Status: proto.Status_KEY_NOT_FOUND})
			continue
		}
		g := rec(sc.get.key)
		if sc.get.sk != "" {
			sk := sc.get.sk
			g.SecondaryIndexKey = &sk
		}
		resp.Gets = append(resp.Gets, g)
	}
	return &readStream{msgs: []*proto.ReadResponse{resp}}, nil
}

type listStream struct {
	grpc.ClientStream
	ctx  context.Context
	msgs []*proto.ListResponse
	i    int
	end  error
}

func (r *listStream) Recv() (*proto.ListResponse, error) {
	if r.ctx != nil && r.ctx.Err() != nil {
		return nil, status.FromContextError(r.ctx.Err()).Err()
	}
	if r.i < len(r.msgs) {
		r.i++
		return r.msgs[r.i-1], nil
	}
	if r.end != nil {
		return nil, r.end
	}
	return nil, io.EOF
}

type scanStream struct {
	grpc.ClientStream
	msgs []*proto.RangeScanResponse
	i    int
	end  error
}

func (r *scanStream) Recv() (*proto.RangeScanResponse, error) {
	if r.i < len(r.msgs) {
		r.i++
		return r.msgs[r.i-1], nil
	}
	if r.end != nil {
		return nil, r.end
	}
	return nil, io.EOF
}

// chunks of at most 2 items, cut at the error position
func chunks(keys []string, errAt int) [][]string {
	n := len(keys)
	if errAt >= 0 && errAt < n {
		n = errAt
	}
	var out [][]string
	for i := 0; i < n; i += 2 {
		j := i + 2
		if j > n {
			j = n
		}
		out = append(out, keys[i:j])
	}
	return out
}

func (e *execC) ExecuteList(ctx context.Context, req *proto.ListRequest) (proto.OxiaClient_ListClient, error) {
	e.w.s.Yield()
	sc := e.in.scripts[*req.Shard]
	if sc.errAt == errExec {
		return nil, shardErr(*req.Shard)
	}
	st := &listStream{}
	if e.in.cancel {
		st.ctx = ctx
	}
	for _, c := range chunks(sc.keys, sc.errAt) {
		st.msgs = append(st.msgs, &proto.ListResponse{Keys: c})
	}
	if sc.errAt >= 0 {
		st.end = shardErr(*req.Shard)
	}
	return st, nil
}

func (e *execC) ExecuteRangeScan(_ context.Context, req *proto.RangeScanRequest) (proto.OxiaClient_RangeScanClient, error) {
	e.w.s.Yield()
	sc := e.in.scripts[*req.Shard]
	if sc.errAt == errExec {
		return nil, shardErr(*req.Shard)
	}
	st := &scanStream{}
	for _, c := range chunks(sc.keys, sc.errAt) {
		m := &proto.RangeScanResponse{}
		for _, k := range c {
			m.Records = append(m.Records, rec(k))
		}
		st.msgs = append(st.msgs, m)
	}
	if sc.errAt >= 0 {
		st.end = shardErr(*req.Shard)
	}
	return st, nil
}

// compareAns orders get answers the way the property demands: by secondary key first (when
// an index is used), then by primary key, both in slash order.
func compareAns(a, b getAns) int {
	if a.sk != "" && b.sk != "" {
		if c := compare.CompareWithSlash([]byte(a.sk), []byte(b.sk)); c != 0 {
			return c
		}
	}
	return compare.CompareWithSlash([]byte(a.key), []byte(b.key))
}

type cVariant struct {
	name   string
	inputs []cInput
	dev    [2]int
}

func isShardErr(err error) bool {
	return err != nil && strings.Contains(err.Error(), "shard-") && strings.Contains(err.Error(), "-failed")
}

func bodyC(v cVariant) func(s *vsched.Sched) {
	return func(s *vsched.Sched) {
		w := newWorld(s)
		in := v.inputs[s.Choose(len(v.inputs), true)]
		e := &execC{w: w, in: &in}
		sm := &fakeSM{n: len(in.scripts)}
		client := oxia.VerifC20NewClient(oxia.VerifC20Options{Linger: 0, MaxRequestsPerBatch: 10, RequestTimeout: time.Hour,
			OnCallbackPanic: w.onPanic("callback")}, sm, e)
		nFail := 0
		for _, sc := range in.scripts {
			if sc.errAt != errNone {
				nFail++
			}
		}
		target := int64(0)
		if in.part {
			// route to the last shard: partition key ending in the byte n-1
			target = int64(len(in.scripts) - 1)
		}
		partKey := string([]byte{'k', byte(target)})
		listCtx := context.Background()
		if in.cancel {
			var cancel context.CancelFunc
			listCtx, cancel = context.WithCancel(listCtx)
			at := s.Steps() + 1 + s.Choose(30, true)
			onPoint = func(s *vsched.Sched) {
				if s.Steps() == at {
					cancel()
				}
			}
			s.OnEnd(func(vsched.Outcome) { onPoint = nil; cancel() })
		}
		done := false
		var items []oxia.GetResult
		var lists []oxia.ListResult
		vsched.Go(func() {
			switch in.op {
			case "get":
				var opts []oxia.GetOption
				switch in.cmp {
				case proto.KeyComparisonType_FLOOR:
					opts = append(opts, oxia.ComparisonFloor())
				case proto.KeyComparisonType_CEILING:
					opts = append(opts, oxia.ComparisonCeiling())
				case proto.KeyComparisonType_LOWER:
					opts = append(opts, oxia.ComparisonLower())
				case proto.KeyComparisonType_HIGHER:
					opts = append(opts, oxia.ComparisonHigher())
				}
				if in.index {
					opts = append(opts, oxia.UseIndex("idx"))
				}
				ch := client.Get("q", opts...)
				for {
					x, ok := vsched.Recv2(ch)
					if !ok {
						break
					}
					items = append(items, x)
				}
			case "scan":
				var opts []oxia.RangeScanOption
				if in.index {
					opts = append(opts, oxia.UseIndex("idx"))
				}
				if in.part {
					opts = append(opts, oxia.PartitionKey(partKey))
				}
				ch := client.RangeScan(context.Background(), "", "zzz", opts...)
				for {
					x, ok := vsched.Recv2(ch)
					if !ok {
						break
					}
					items = append(items, x)
				}
			case "delrange":
				ch := client.DeleteRange("", "zzz")
				for {
					x, ok := vsched.Recv2(ch)
					if !ok {
						break
					}
					items = append(items, oxia.GetResult{Err: x})
					if x == nil {
						items[len(items)-1].Key = "OK"
					}
				}
			case "list":
				var opts []oxia.ListOption
				if in.part {
					opts = append(opts, oxia.PartitionKey(partKey))
				}
				ch := client.List(listCtx, "", "zzz", opts...)
				for {
					x, ok := vsched.Recv2(ch)
					if !ok {
						break
					}
					lists = append(lists, x)
				}
			}
			done = true
		})
		s.Settle()
		s.Explore(false)

		desc := in.String()
		var got []string
		for _, it := range items {
			if it.Err != nil {
				got = append(got, "ERR")
			} else {
				got = append(got, it.Key)
			}
		}
		for _, l := range lists {
			if l.Err != nil {
				got = append(got, "ERR")
			} else {
				got = append(got, "["+strings.Join(l.Keys, " ")+"]")
			}
		}
		s.Data = desc + " => " + strings.Join(got, ",")
		if w.panicked {
			s.Data = s.Data.(string) + " panicked"
			return
		}
		if !done {
			class := "fanout"
			if in.part {
				class = "partition"
			}
			kinds := map[string]bool{}
			for i, sc := range in.scripts {
				if in.part && int64(i) != target {
					continue
				}
				switch {
				case sc.errAt == errExec:
					kinds["exec-error"] = true
				case sc.errAt >= 0:
					kinds["recv-error"] = true
				}
			}
			var ks []string
			for k := range kinds {
				ks = append(ks, k)
			}
			sort.Strings(ks)
			if len(ks) == 0 {
				ks = []string{"no-error"}
			}
			class += ":" + strings.Join(ks, "+")
			if len(got) > 0 {
				s.Fail(in.op+"-channel-not-closed:"+class, fmt.Sprintf("%s: the result channel delivered %v and was never closed; blocked: %s", desc, got, strings.Join(s.Blocked(), "; ")))
			} else {
				s.Fail(in.op+"-pending:"+class, fmt.Sprintf("%s: the result channel never delivered anything; blocked: %s", desc, strings.Join(s.Blocked(), "; ")))
			}
			return
		}
		if in.cancel {
			return // only: the channel is closed exactly once and nothing panics
		}
		// what the healthy shards hold, and everything scripted
		var all []string
		owner := map[string]int{}
		for i, sc := range in.scripts {
			if in.part && int64(i) != target {
				continue
			}
			for _, k := range sc.keys {
				all = append(all, k)
				owner[k] = i
			}
		}
		sort.Slice(all, func(i, j int) bool { return slashLess(all[i], all[j]) })
		if in.part {
			nFail = 0
			if in.scripts[target].errAt != errNone {
				nFail = 1
			}
		}
		switch in.op {
		case "delrange":
			if len(items) != 1 {
				s.Fail("delrange-completions!=1", fmt.Sprintf("%s: the result channel delivered %d values: %v", desc, len(items), got))
				return
			}
			r := items[0]
			if nFail == 0 && r.Err != nil {
				s.Fail("delrange-spurious-error", fmt.Sprintf("%s: no shard failed but the delete-range completed with %v", desc, r.Err))
			}
			if nFail > 0 && !isShardErr(r.Err) && !errors.Is(r.Err, oxia.ErrUnexpectedVersionId) {
				s.Fail("delrange-error-lost", fmt.Sprintf("%s: %d shards failed but the delete-range completed with %v", desc, nFail, r.Err))
			}
		case "get":
			if len(items) != 1 {
				s.Fail("get-completions!=1", fmt.Sprintf("%s: the result channel delivered %d values: %v", desc, len(items), got))
				return
			}
			r := items[0]
			if nFail > 0 {
				if !isShardErr(r.Err) {
					s.Fail("get-error-lost", fmt.Sprintf("%s: %d shards failed but the get completed with key=%q err=%v", desc, nFail, r.Key, r.Err))
				}
				return
			}
			var oks []getAns
			for _, sc := range in.scripts {
				if sc.get.key != "" {
					oks = append(oks, sc.get)
				}
			}
			if len(oks) == 0 {
				if !errors.Is(r.Err, oxia.ErrKeyNotFound) {
					s.Fail("get-wrong-answer", fmt.Sprintf("%s: no shard has an answer but the get completed with key=%q err=%v", desc, r.Key, r.Err))
				}
				return
			}
			if r.Err != nil {
				s.Fail("get-wrong-answer", fmt.Sprintf("%s: completed with error %v", desc, r.Err))
				return
			}
			if in.cmp == proto.KeyComparisonType_EQUAL {
				found := false
				for _, a := range oks {
					found = found || (a.key == r.Key && string(r.Value) == "v-"+a.key)
				}
				if !found {
					s.Fail("get-wrong-answer", fmt.Sprintf("%s: completed with key=%q value=%q which no shard answered", desc, r.Key, r.Value))
				}
				return
			}
			best := oks[0]
			for _, a := range oks[1:] {
				c := compareAns(a, best)
				if (in.cmp == proto.KeyComparisonType_FLOOR || in.cmp == proto.KeyComparisonType_LOWER) && c > 0 {
					best = a
				}
				if (in.cmp == proto.KeyComparisonType_CEILING || in.cmp == proto.KeyComparisonType_HIGHER) && c < 0 {
					best = a
				}
			}
			if r.Key != best.key || string(r.Value) != "v-"+best.key {
				s.Fail("get-wrong-answer", fmt.Sprintf("%s: completed with key=%q value=%q, the best per-shard answer is %q", desc, r.Key, r.Value, best.key))
			}
		case "scan":
			firstErr := -1
			for i, it := range items {
				if it.Err != nil {
					firstErr = i
					break
				}
			}
			if nFail == 0 && firstErr >= 0 {
				s.Fail("scan-spurious-error", fmt.Sprintf("%s: no shard failed but the scan reported %v", desc, items[firstErr].Err))
				return
			}
			if nFail > 0 && firstErr < 0 {
				s.Fail("scan-error-lost", fmt.Sprintf("%s: %d shards failed but the scan ended without reporting an error: %v", desc, nFail, got))
				return
			}
			recs := items
			if firstErr >= 0 {
				if !isShardErr(items[firstErr].Err) {
					s.Fail("scan-wrong-error", fmt.Sprintf("%s: reported %v", desc, items[firstErr].Err))
				}
				recs = items[:firstErr]
			}
			seen := map[string]bool{}
			for i, it := range recs {
				if _, ok := owner[it.Key]; !ok || string(it.Value) != "v-"+it.Key {
					s.Fail("scan-foreign-record", fmt.Sprintf("%s: record %q value %q was not scripted: %v", desc, it.Key, it.Value, got))
					return
				}
				if seen[it.Key] {
					s.Fail("scan-duplicate", fmt.Sprintf("%s: record %q delivered twice: %v", desc, it.Key, got))
					return
				}
				seen[it.Key] = true
				if !in.index && i > 0 && !slashLess(recs[i-1].Key, it.Key) {
					s.Fail("scan-out-of-order", fmt.Sprintf("%s: %q delivered after %q: %v", desc, it.Key, recs[i-1].Key, got))
					return
				}
			}
			if nFail == 0 {
				if len(recs) != len(all) {
					s.Fail("scan-loss", fmt.Sprintf("%s: %d of %d records delivered: %v", desc, len(recs), len(all), got))
				}
				return
			}
			// with a failure: nothing of a healthy shard that sorts before the last delivered record may be missing
			if len(recs) > 0 && !in.index {
				last := recs[len(recs)-1].Key
				for _, k := range all {
					if in.scripts[owner[k]].errAt == errNone && slashLess(k, last) && !seen[k] {
						s.Fail("scan-loss", fmt.Sprintf("%s: %q (healthy shard %d) sorts before the delivered %q but was skipped: %v", desc, k, owner[k], last, got))
						return
					}
				}
			}
		case "list":
			seen := map[string]int{}
			nErr := 0
			for _, l := range lists {
				if l.Err != nil {
					nErr++
					if !isShardErr(l.Err) {
						s.Fail("list-wrong-error", fmt.Sprintf("%s: reported %v", desc, l.Err))
					}
					continue
				}
				for _, k := range l.Keys {
					seen[k]++
					if _, ok := owner[k]; !ok {
						s.Fail("list-foreign-key", fmt.Sprintf("%s: key %q was not scripted: %v", desc, k, got))
						return
					}
					if seen[k] > 1 {
						s.Fail("list-duplicate", fmt.Sprintf("%s: key %q delivered twice: %v", desc, k, got))
						return
					}
				}
			}
			if nFail == 0 && nErr > 0 {
				s.Fail("list-spurious-error", fmt.Sprintf("%s: no shard failed but the list reported an error: %v", desc, got))
				return
			}
			if nFail > 0 && nErr == 0 {
				s.Fail("list-error-lost", fmt.Sprintf("%s: %d shards failed but the list ended without reporting an error: %v", desc, nFail, got))
				return
			}
			// every key of a healthy shard is delivered (the union)
			for _, k := range all {
				if in.scripts[owner[k]].errAt == errNone && seen[k] == 0 {
					s.Fail("list-loss", fmt.Sprintf("%s: key %q of healthy shard %d is missing: %v", desc, k, owner[k], got))
					return
				}
			}
		}
	}
}

// universe of keys, in slash order (byte order would be a, a/a, a/b, b)
var universe = []string{"a", "b", "a/a", "a/b"}

// all assignments of the universe to n shards
func assignments(n int) [][]int {
	var out [][]int
	var recf func(cur []int)
	recf = func(cur []int) {
		if len(cur) == len(universe) {
			out = append(out, append([]int{}, cur...))
			return
		}
		for i := 0; i < n; i++ {
			recf(append(cur, i))
		}
	}
	recf(nil)
	return out
}

func scriptsOf(asg []int, n int) []shardScript {
	sc := make([]shardScript, n)
	for i := range sc {
		sc[i].errAt = errNone
	}
	for ki, sh := range asg {
		sc[sh].keys = append(sc[sh].keys, universe[ki])
	}
	return sc
}

// error placements on at most two shards; positions per failing shard: at Execute, before the
// first item, after the first item
func withErrors(base []shardScript, positions []int) [][]shardScript {
	var out [][]shardScript
	n := len(base)
	opts := func(i int) []int {
		var o []int
		seen := map[int]bool{}
		for _, p := range positions {
			if p > len(base[i].keys) {
				p = len(base[i].keys)
			}
			if !seen[p] {
				seen[p] = true
				o = append(o, p)
			}
		}
		return o
	}
	clone := func() []shardScript { return append([]shardScript{}, base...) }
	for i := 0; i < n; i++ {
		for _, p := range opts(i) {
			c := clone()
			c[i].errAt = p
			out = append(out, c)
		}
	}
	for i := 0; i < n; i++ {
		for j := i + 1; j < n; j++ {
			for _, p := range opts(i) {
				for _, q := range opts(j) {
					c := clone()
					c[i].errAt, c[j].errAt = p, q
					out = append(out, c)
				}
			}
		}
	}
	return out
}

func streamInputs(op string, n int, index bool, allAssignments bool) []cInput {
	var out []cInput
	var reps [][]int
	if n == 2 {
		reps = [][]int{{0, 1, 0, 1}, {0, 0, 0, 0}, {0, 1, 1, 1}}
	} else {
		reps = [][]int{{0, 1, 2, 0}, {0, 1, 1, 2}}
	}
	if allAssignments {
		for _, a := range assignments(n) {
			out = append(out, cInput{op: op, index: index, scripts: scriptsOf(a, n)})
		}
	} else {
		for _, a := range reps {
			out = append(out, cInput{op: op, index: index, scripts: scriptsOf(a, n)})
		}
	}
	pos := []int{errExec, 0, 1}
	if n == 3 {
		pos = []int{errExec, 1}
	}
	for _, a := range reps {
		for _, sc := range withErrors(scriptsOf(a, n), pos) {
			out = append(out, cInput{op: op, index: index, scripts: sc})
		}
	}
	return out
}

func delRangeInputs(n int) []cInput {
	base := make([]shardScript, n)
	for i := range base {
		base[i].errAt = errNone
	}
	out := []cInput{{op: "delrange", scripts: base}}
	for _, sc := range withErrorsGet(base, []int{errExec, 0}) {
		out = append(out, cInput{op: "delrange", scripts: sc})
	}
	return out
}

func partitionInputs(op string) []cInput {
	var out []cInput
	base := scriptsOf([]int{1, 1, 1, 1}, 2) // the target shard (1) holds everything
	out = append(out, cInput{op: op, part: true, scripts: base})
	for _, p := range []int{errExec, 0, 1, 3} {
		c := append([]shardScript{}, base...)
		c[1].errAt = p
		out = append(out, cInput{op: op, part: true, scripts: c})
	}
	return out
}

var cmps = []proto.KeyComparisonType{proto.KeyComparisonType_FLOOR, proto.KeyComparisonType_CEILING, proto.KeyComparisonType_LOWER, proto.KeyComparisonType_HIGHER}

func getInputs(n int) []cInput {
	// candidate answers per shard; primary keys are disjoint across shards
	cand := [][]string{{"", "a", "a/b"}, {"", "b", "a/a"}, {"", "a/c"}}
	var out []cInput
	for _, cmp := range cmps {
		var recf func(i int, cur []shardScript)
		recf = func(i int, cur []shardScript) {
			if i == n {
				out = append(out, cInput{op: "get", cmp: cmp, scripts: append([]shardScript{}, cur...)})
				return
			}
			for _, k := range cand[i] {
				recf(i+1, append(cur, shardScript{get: getAns{key: k}, errAt: errNone}))
			}
		}
		recf(0, nil)
		// errors: the healthy shards answer with their first real key
		base := make([]shardScript, n)
		for i := range base {
			base[i] = shardScript{get: getAns{key: cand[i][1]}, errAt: errNone}
		}
		pos := []int{errExec, 0}
		if n == 3 {
			pos = []int{errExec}
		}
		for _, sc := range withErrorsGet(base, pos) {
			out = append(out, cInput{op: "get", cmp: cmp, scripts: sc})
		}
	}
	return out
}

func withErrorsGet(base []shardScript, positions []int) [][]shardScript {
	var out [][]shardScript
	n := len(base)
	clone := func() []shardScript { return append([]shardScript{}, base...) }
	for i := 0; i < n; i++ {
		for _, p := range positions {
			c := clone()
			c[i].errAt = p
			out = append(out, c)
		}
	}
	for i := 0; i < n; i++ {
		for j := i + 1; j < n; j++ {
			for _, p := range positions {
				for _, q := range positions {
					c := clone()
					c[i].errAt, c[j].errAt = p, q
					out = append(out, c)
				}
			}
		}
	}
	return out
}

func indexGetInputs() []cInput {
	// secondary keys in slash order: w < x < w/z; equal secondary keys fall back to the primary key
	cand := [][]getAns{
		// the last two records of shard 0 have the queried key ("q") as their *primary* key: an answer whose
		// key equals the query is no exact match when the query is a secondary key
		{{}, {key: "b", sk: "x"}, {key: "a/b", sk: "w/z"}, {key: "q", sk: "w"}, {key: "q", sk: "w/z"}},
		{{}, {key: "a", sk: "x"}, {key: "c", sk: "w"}},
	}
	var out []cInput
	all := append([]proto.KeyComparisonType{proto.KeyComparisonType_EQUAL}, cmps...)
	for _, cmp := range all {
		for _, a0 := range cand[0] {
			for _, a1 := range cand[1] {
				out = append(out, cInput{op: "get", cmp: cmp, index: true, scripts: []shardScript{{get: a0, errAt: errNone}, {get: a1, errAt: errNone}}})
			}
		}
		out = append(out, cInput{op: "get", cmp: cmp, index: true, scripts: []shardScript{{get: cand[0][1], errAt: errExec}, {get: cand[1][1], errAt: errNone}}})
		out = append(out, cInput{op: "get", cmp: cmp, index: true, scripts: []shardScript{{get: cand[0][1], errAt: errNone}, {get: cand[1][1], errAt: 0}}})
	}
	return out
}

// ---------------------------------------------------------------------------------

var onPoint func(s *vsched.Sched)

func scenarios(tier string) []sched.Scenario {
	t := 0
	if tier == "thorough" {
		t = 1
	}
	base := vsched.Config{MaxSteps: 20000, OnPoint: func(s *vsched.Sched) {
		if onPoint != nil {
			onPoint(s)
		}
	}}
	race := base
	race.TimersRace = true
	race.RaceWindow = int64(20 * time.Millisecond) // linger timers race with arrivals; retry back-offs (>=100 ms) and the harness sleep do not
	var out []sched.Scenario

	big := 1 << 20
	as := []aVariant{
		{name: "a-read-2x2-count2", linger: 5 * time.Millisecond, maxReq: 2, maxBytes: big, callers: [][]op{{G("g1"), G("g2")}, {G("gx"), G("g3")}}, nFreeR: 2, dev: [2]int{2, 3}},
		{name: "a-write-2x3-deletes-count3", linger: 5 * time.Millisecond, maxReq: 3, maxBytes: big, callers: [][]op{{D("d1"), P("p1", 2), D("d2")}, {P("p2", 3), D("d0"), P("p3", 1)}}, nFreeW: 1, dev: [2]int{2, 3}},
		{name: "a-write-3-bytes10-count3", linger: 5 * time.Millisecond, maxReq: 3, maxBytes: 10, callers: [][]op{{P("p1", 4), D("d1")}, {P("p2", 4)}, {D("d2"), P("p3", 1)}}, nFreeW: 2, dev: [2]int{2, 3}},
		{name: "a-realexec-write-2x2-count2", linger: 5 * time.Millisecond, maxReq: 2, maxBytes: big, callers: [][]op{{P("p1", 4), D("d1")}, {P("p2", 4), D("d0")}}, realExec: true, dev: [2]int{2, 3}},
		{name: "a-realexec-write-3x1-linger0", linger: 0, maxReq: 10, maxBytes: big, callers: [][]op{{P("p1", 4)}, {D("d1")}, {P("p2", 4)}}, realExec: true, dev: [2]int{2, 3}},
		{name: "a-read-3x1-count3", linger: 5 * time.Millisecond, maxReq: 3, maxBytes: big, callers: [][]op{{G("g1")}, {G("gx")}, {G("g2")}}, nFreeR: 2, dev: [2]int{2, 4}},
		{name: "a-write-3x1-count2", linger: 5 * time.Millisecond, maxReq: 2, maxBytes: big, callers: [][]op{{P("p1", 4)}, {D("d1")}, {P("p2", 4)}}, nFreeW: 2, dev: [2]int{2, 4}},
		{name: "a-write-2x2-linger0", linger: 0, maxReq: 10, maxBytes: big, callers: [][]op{{P("p1", 4), D("d1")}, {D("d0"), P("p2", 4)}}, nFreeW: 2, dev: [2]int{3, 4}},
		{name: "a-read-2x2-count2-seq", linger: 5 * time.Millisecond, maxReq: 2, maxBytes: big, callers: [][]op{{G("g1"), G("g2")}, {G("gx"), G("g3")}}, nFreeR: 2, seq: true, dev: [2]int{3, 4}},
		{name: "a-write-2x2-bytes10", linger: 5 * time.Millisecond, maxReq: 10, maxBytes: 10, callers: [][]op{{P("p1", 4), D("d0")}, {P("p2", 4), P("p3", 12)}}, nFreeW: 2, dev: [2]int{3, 4}},
		{name: "a-read-3x1-linger0", linger: 0, maxReq: 10, maxBytes: big, callers: [][]op{{G("g1")}, {G("gx")}, {G("g2")}}, nFreeR: 2, dev: [2]int{2, 4}},
		{name: "a-mixed-3x2-count2", linger: 5 * time.Millisecond, maxReq: 2, maxBytes: big, callers: [][]op{{P("p1", 4), G("g1")}, {D("d1"), G("g2")}, {P("p2", 4), D("d0")}}, nFreeW: 1, nFreeR: 1, dev: [2]int{2, 3}},
	}
	bs := []bVariant{
		{name: "b-stream-2senders", senders: 2, per: 1, dev: [2]int{3, 6}},
		{name: "b-stream-2senders-fatal-send", senders: 2, per: 1, fatal: true, dev: [2]int{3, 4}},
		{name: "b-stream-2x2sends", senders: 2, per: 2, dev: [2]int{2, 4}},
		{name: "b-stream-3senders", senders: 3, per: 1, dev: [2]int{2, 4}},
		{name: "b-stream-slow-server-timeout-2senders", senders: 2, per: 1, slow: true, deadline: []int{0}, dev: [2]int{3, 5}},
		{name: "b-stream-slow-server-timeout-2x2sends", senders: 2, per: 2, slow: true, deadline: []int{0}, dev: [2]int{2, 4}},
		{name: "b-stream-slow-server-timeouts-3senders", senders: 3, per: 1, slow: true, deadline: []int{0, 1}, dev: [2]int{2, 3}},
		{name: "b-executor-slow-server-timeout-2x2sends", senders: 2, per: 2, slow: true, deadline: []int{0}, executor: true, dev: [2]int{2, 3}},
	}
	cs := []cVariant{
		{"c-scan-partition", partitionInputs("scan"), [2]int{3, 5}},
		{"c-list-partition", partitionInputs("list"), [2]int{3, 5}},
		{"c-scan-3shards", streamInputs("scan", 3, false, true), [2]int{1, 2}},
		{"c-scan-index-2shards", streamInputs("scan", 2, true, false), [2]int{2, 3}},
		{"c-list-2shards", streamInputs("list", 2, false, false), [2]int{2, 3}},
		{"c-scan-2shards", streamInputs("scan", 2, false, true), [2]int{2, 3}},
		{"c-delrange-2shards", delRangeInputs(2), [2]int{2, 4}},
		{"c-delrange-3shards", delRangeInputs(3), [2]int{2, 3}},
		{"c-list-3shards", streamInputs("list", 3, false, false), [2]int{2, 3}},
		{"c-get-index-2shards", indexGetInputs(), [2]int{2, 4}},
		{"c-get-2shards", getInputs(2), [2]int{2, 4}},
		{"c-get-3shards", getInputs(3), [2]int{2, 3}},
	}
	if os.Getenv("VERIF_C20_EXTRA") != "" {
		// Outside the property's quantifier (it speaks of error placement, not of the caller cancelling
		// its context), kept out of the tiers; see NOTES.md "Observations".
		var ins []cInput
		for _, in := range streamInputs("list", 2, false, false)[:3] {
			in.cancel = true
			ins = append(ins, in)
		}
		cs = []cVariant{{"x-list-ctx-cancel-2shards", ins, [2]int{1, 2}}}
		as, bs = nil, nil
	}
	// cheap scenarios first: the explorer splits the remaining budget evenly over the scenarios
	// still to run, so whatever the small ones leave unused goes to the big ones at the end
	for _, v := range cs {
		out = append(out, sched.Scenario{Name: v.name, Cfg: base, MaxDev: v.dev[t], Body: bodyC(v)})
	}
	slowCfg := base
	slowCfg.TimersRace = true
	slowCfg.RaceWindow = int64(200 * time.Millisecond) // request deadline (+50 ms) and server catch-up (+100 ms) race with everything; the harness sleep (1 s) does not
	for _, v := range bs {
		cfg := base
		if v.slow {
			cfg = slowCfg
		}
		out = append(out, sched.Scenario{Name: v.name, Cfg: cfg, MaxDev: v.dev[t], Body: bodyB(v)})
	}
	for _, v := range as {
		cfg := base
		if v.linger > 0 {
			cfg = race
		}
		out = append(out, sched.Scenario{Name: v.name, Cfg: cfg, MaxDev: v.dev[t], Body: bodyA(v)})
	}
	if only := os.Getenv("VERIF_C20_ONLY"); only != "" {
		var f []sched.Scenario
		for _, sc := range out {
			if strings.HasPrefix(sc.Name, only) {
				f = append(f, sc)
			}
		}
		return f
	}
	return out
}

func main() {
	// oxia/batch sizes the batcher's call channel from GOMAXPROCS at package initialisation:
	// pin it (workers are started with GOMAXPROCS=1 anyway) so that master, workers and
	// -replay all see the same channel capacity.
	if os.Getenv("GOMAXPROCS") != "1" {
		_ = os.Setenv("GOMAXPROCS", "1")
		if err := syscall.Exec("/proc/self/exe", os.Args, os.Environ()); err != nil {
			fmt.Fprintln(os.Stderr, "re-exec failed:", err)
			os.Exit(2)
		}
	}
	replay := flag.String("replay", "", "replay file")
	flag.Parse()
	oxh.Quiet()
	su := sched.Suite{Property: "C20", Scenarios: scenarios,
		Budget: func(tier string) time.Duration {
			if tier == "thorough" {
				return 18 * time.Minute
			}
			return 85 * time.Second
		},
		Rule: "every schedule with at most max_dev non-default scheduling choices (a linger timer firing before an arrival is such a choice) of caller threads, batcher goroutines, write-stream goroutines and fan-out goroutines of the real client, for every input enumerated inside the scenario as a free choice (per-batch server outcome, failing stream event, per-shard scripted results and error placement); an execution is non-trivial when it deviates from the default schedule or input at least once",
		Assume: []string{"sequentially consistent memory (data races are outside a cooperative scheduler)", "deviation-bounded schedules",
			"fake server answers every batch with the right number of responses", "stream failures follow grpc.ClientStream semantics (see streamFaults)",
			"client Close() does not race with the calls", "batcher call channel capacity 1 (GOMAXPROCS=1)"}}
	os.Exit(sched.Main(su, *replay))
}
