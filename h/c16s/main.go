// C16 (stage 2): a sequence-update subscriber always eventually observes the latest
// generated key. Real leader controller (RF=1), GetSequenceUpdates subscriber and
// concurrent sequence writers under the cooperative scheduler.
package main

import (
	"context"
	"flag"
	"fmt"
	"os"
	"time"

	"github.com/oxia-db/oxia/proto"
	"github.com/oxia-db/oxia/server"
	"github.com/oxia-db/oxia/zzverif/vsched"

	"verif/lib/oxc"
	"verif/lib/oxh"
	"verif/lib/sched"
)

func seqPut() *proto.WriteRequest {
	return &proto.WriteRequest{Shard: oxh.I64(1), Puts: []*proto.PutRequest{{Key: "p", Value: []byte("v"), PartitionKey: oxh.Str("p"), SequenceKeyDelta: []uint64{1}}}}
}

// subscribe serves one subscription of prefix "p" through the real public RPC handler (which owns the
// waiter of the leader controller and forwards its updates to the client stream) until ctx ends.
func subscribe(ctx context.Context, lc server.LeaderController, onKey func(string)) {
	_ = server.VerifC16PublicSequenceUpdates(ctx, lc, &proto.GetSequenceUpdatesRequest{Shard: 1, Key: "p"}, onKey)
}

// deletesBody: a subscription that stays open while the highest records of the prefix are deleted: the
// next generated key is lower than one the subscriber has already seen, and it is the latest one.
func deletesBody() func(s *vsched.Sched) {
	return func(s *vsched.Sched) {
		s.Explore(false)
		env := oxc.NewEnv(s)
		kvf := oxc.NewObsFactory(env.Dir)
		lc, err := server.NewLeaderController(server.Config{NotificationsRetentionTime: time.Hour}, "ns", 1, oxc.NewNet(), env.WalFactory("n1", 64*1024, true), kvf)
		if err == nil {
			_, err = lc.NewTerm(&proto.NewTermRequest{Namespace: "ns", Shard: 1, Term: 1, Options: &proto.NewTermOptions{EnableNotifications: true}})
		}
		if err == nil {
			_, err = lc.BecomeLeader(context.Background(), &proto.BecomeLeaderRequest{Namespace: "ns", Shard: 1, Term: 1, ReplicationFactor: 1, FollowerMaps: map[string]*proto.EntryId{}})
		}
		var keys []string
		for i := 0; i < 3 && err == nil; i++ {
			var r *proto.WriteResponse
			if r, err = lc.WriteBlock(context.Background(), seqPut()); err == nil {
				keys = append(keys, r.Puts[0].GetKey())
			}
		}
		if err != nil {
			s.Fail("harness-setup", err.Error())
			return
		}
		last := ""
		var seen []string
		ctx, cancel := context.WithCancel(context.Background())
		vsched.Go(func() {
			subscribe(ctx, lc, func(k string) {
				last = k
				seen = append(seen, k)
			})
		})
		s.Settle()
		s.Explore(true)
		highest := ""
		vsched.Go(func() {
			// the two highest records go away, then a key is generated again
			if _, err := lc.WriteBlock(context.Background(), &proto.WriteRequest{Shard: oxh.I64(1), DeleteRanges: []*proto.DeleteRangeRequest{{StartInclusive: keys[1], EndExclusive: keys[2] + "~"}}}); err != nil {
				return
			}
			if r, err := lc.WriteBlock(context.Background(), seqPut()); err == nil && r.Puts[0].Status == proto.Status_OK {
				highest = r.Puts[0].GetKey()
			}
		})
		s.Settle()
		s.Explore(false)
		if highest != "" && highest >= keys[2] {
			s.Fail("harness-setup", fmt.Sprintf("expected a generated key below %q, got %q", keys[2], highest))
		}
		if highest != "" && last != highest {
			s.Fail("subscriber-missed-latest-key", fmt.Sprintf("records %q..%q deleted, the next generated key is %q; the subscriber that stayed connected holds %q at quiescence (received %v)", keys[1], keys[2], highest, last, seen))
		}
		s.Data = fmt.Sprintf("last=%s highest=%s", last, highest)
		cancel()
		_ = lc.Close()
	}
}

func body(writers int, preload int) func(s *vsched.Sched) {
	return func(s *vsched.Sched) {
		s.Explore(false)
		env := oxc.NewEnv(s)
		kvf := oxc.NewObsFactory(env.Dir)
		lc, err := server.NewLeaderController(server.Config{NotificationsRetentionTime: time.Hour}, "ns", 1, oxc.NewNet(), env.WalFactory("n1", 64*1024, true), kvf)
		if err == nil {
			_, err = lc.NewTerm(&proto.NewTermRequest{Namespace: "ns", Shard: 1, Term: 1, Options: &proto.NewTermOptions{EnableNotifications: true}})
		}
		if err == nil {
			_, err = lc.BecomeLeader(context.Background(), &proto.BecomeLeaderRequest{Namespace: "ns", Shard: 1, Term: 1, ReplicationFactor: 1, FollowerMaps: map[string]*proto.EntryId{}})
		}
		if err != nil {
			s.Fail("harness-setup", err.Error())
			return
		}
		for i := 0; i < preload; i++ {
			if _, err := lc.WriteBlock(context.Background(), seqPut()); err != nil {
				s.Fail("harness-setup", err.Error())
				return
			}
		}
		s.Settle()
		s.Explore(true)
		keys := make([]string, writers)
		for w := 0; w < writers; w++ {
			w := w
			vsched.Go(func() {
				r, err := lc.WriteBlock(context.Background(), seqPut())
				if err == nil && r.Puts[0].Status == proto.Status_OK {
					keys[w] = r.Puts[0].GetKey()
				}
			})
		}
		last := ""
		var seen []string
		ctx, cancel := context.WithCancel(context.Background())
		vsched.Go(func() {
			subscribe(ctx, lc, func(k string) {
				last = k
				seen = append(seen, k)
			})
		})
		s.Settle()
		s.Explore(false)
		highest := ""
		for _, k := range keys {
			if k > highest {
				highest = k
			}
		}
		if highest == "" && preload > 0 {
			highest = fmt.Sprintf("p-%020d", preload)
		}
		if highest != "" && last != highest {
			s.Fail("subscriber-missed-latest-key", fmt.Sprintf("at quiescence the subscriber's latest key is %q but the highest generated key is %q (received %v)", last, highest, seen))
		}
		for i := 1; i < len(seen); i++ {
			if seen[i] < seen[i-1] {
				s.Fail("subscriber-went-backwards", fmt.Sprintf("subscriber received %v", seen))
			}
		}
		s.Data = fmt.Sprintf("last=%s n=%d", last, len(seen))
		cancel()
		_ = lc.Close()
	}
}

// churn: several subscribers of one prefix come and go; the one that stays must keep observing
// the latest generated key whatever the others do.
func churnBody() func(s *vsched.Sched) {
	return func(s *vsched.Sched) {
		s.Explore(false)
		env := oxc.NewEnv(s)
		kvf := oxc.NewObsFactory(env.Dir)
		lc, err := server.NewLeaderController(server.Config{NotificationsRetentionTime: time.Hour}, "ns", 1, oxc.NewNet(), env.WalFactory("n1", 64*1024, true), kvf)
		if err == nil {
			_, err = lc.NewTerm(&proto.NewTermRequest{Namespace: "ns", Shard: 1, Term: 1, Options: &proto.NewTermOptions{EnableNotifications: true}})
		}
		if err == nil {
			_, err = lc.BecomeLeader(context.Background(), &proto.BecomeLeaderRequest{Namespace: "ns", Shard: 1, Term: 1, ReplicationFactor: 1, FollowerMaps: map[string]*proto.EntryId{}})
		}
		if err != nil {
			s.Fail("harness-setup", err.Error())
			return
		}
		type subscriber struct {
			last   string
			cancel context.CancelFunc
		}
		start := func() *subscriber {
			sb := &subscriber{}
			var ctx context.Context
			ctx, sb.cancel = context.WithCancel(context.Background())
			vsched.Go(func() { subscribe(ctx, lc, func(k string) { sb.last = k }) })
			return sb
		}
		s1 := start()
		s.Settle()
		s2 := start()
		s.Settle()
		s.Explore(true)
		// the first subscriber leaves, a third arrives, a key is generated: in any order
		vsched.Go(func() { s1.cancel() })
		var s3 *subscriber
		vsched.Go(func() { s3 = start() })
		key := ""
		vsched.Go(func() {
			r, err := lc.WriteBlock(context.Background(), seqPut())
			if err == nil && r.Puts[0].Status == proto.Status_OK {
				key = r.Puts[0].GetKey()
			}
		})
		s.Settle()
		// then the third leaves too and one more key is generated
		if s3 != nil {
			s3.cancel()
		}
		s.Settle()
		if r, err := lc.WriteBlock(context.Background(), seqPut()); err == nil && r.Puts[0].Status == proto.Status_OK {
			key = r.Puts[0].GetKey()
		}
		s.Settle()
		s.Explore(false)
		if key != "" && s2.last != key {
			s.Fail("subscriber-missed-latest-key", fmt.Sprintf("a subscriber that stayed connected while others came and went holds %q at quiescence, the highest generated key is %q", s2.last, key))
		}
		s.Data = fmt.Sprintf("last=%s key=%s", s2.last, key)
		s2.cancel()
		_ = lc.Close()
	}
}

// refusedBody: one request holds several sequence puts of a prefix and a later one is refused with a
// per-operation status (an expected version that does not match; an unknown session): the subscriber
// must end on the highest key that was actually created.
func refusedBody(viaSession bool) func(s *vsched.Sched) {
	return func(s *vsched.Sched) {
		s.Explore(false)
		env := oxc.NewEnv(s)
		kvf := oxc.NewObsFactory(env.Dir)
		lc, err := server.NewLeaderController(server.Config{NotificationsRetentionTime: time.Hour}, "ns", 1, oxc.NewNet(), env.WalFactory("n1", 64*1024, true), kvf)
		if err == nil {
			_, err = lc.NewTerm(&proto.NewTermRequest{Namespace: "ns", Shard: 1, Term: 1, Options: &proto.NewTermOptions{EnableNotifications: true}})
		}
		if err == nil {
			_, err = lc.BecomeLeader(context.Background(), &proto.BecomeLeaderRequest{Namespace: "ns", Shard: 1, Term: 1, ReplicationFactor: 1, FollowerMaps: map[string]*proto.EntryId{}})
		}
		if err != nil {
			s.Fail("harness-setup", err.Error())
			return
		}
		if _, err := lc.WriteBlock(context.Background(), seqPut()); err != nil {
			s.Fail("harness-setup", err.Error())
			return
		}
		last := ""
		ctx, cancel := context.WithCancel(context.Background())
		vsched.Go(func() { subscribe(ctx, lc, func(k string) { last = k }) })
		s.Settle()
		s.Explore(true)
		ok := seqPut().Puts[0]
		bad := seqPut().Puts[0]
		if viaSession {
			bad.SessionId = oxh.I64(999)
		} else {
			bad.ExpectedVersionId = oxh.I64(12345)
		}
		highest := ""
		vsched.Go(func() {
			r, err := lc.WriteBlock(context.Background(), &proto.WriteRequest{Shard: oxh.I64(1), Puts: []*proto.PutRequest{ok, bad}})
			if err == nil && len(r.Puts) == 2 && r.Puts[0].Status == proto.Status_OK {
				highest = r.Puts[0].GetKey()
				if r.Puts[1].Status == proto.Status_OK {
					highest = r.Puts[1].GetKey()
				}
			}
		})
		s.Settle()
		s.Explore(false)
		if highest != "" && last != highest {
			s.Fail("subscriber-missed-latest-key", fmt.Sprintf("request [seqput ok, seqput refused with a status]: the highest created key is %q, the subscriber holds %q at quiescence", highest, last))
		}
		s.Data = fmt.Sprintf("last=%s highest=%s", last, highest)
		cancel()
		_ = lc.Close()
	}
}

// applyRefusalBody: the prefix holds a key with two suffixes; a subscriber is attached; a sequential put with one
// delta is accepted into the log and refused when it is applied (too few deltas for the keys of the prefix). No key
// was generated: the subscriber must still hold the latest generated key afterwards.
func applyRefusalBody(okFirst bool) func(s *vsched.Sched) {
	return func(s *vsched.Sched) {
		s.Explore(false)
		env := oxc.NewEnv(s)
		kvf := oxc.NewObsFactory(env.Dir)
		lc, err := server.NewLeaderController(server.Config{NotificationsRetentionTime: time.Hour}, "ns", 1, oxc.NewNet(), env.WalFactory("n1", 64*1024, true), kvf)
		if err == nil {
			_, err = lc.NewTerm(&proto.NewTermRequest{Namespace: "ns", Shard: 1, Term: 1, Options: &proto.NewTermOptions{EnableNotifications: true}})
		}
		if err == nil {
			_, err = lc.BecomeLeader(context.Background(), &proto.BecomeLeaderRequest{Namespace: "ns", Shard: 1, Term: 1, ReplicationFactor: 1, FollowerMaps: map[string]*proto.EntryId{}})
		}
		if err != nil {
			s.Fail("harness-setup", err.Error())
			return
		}
		two := seqPut()
		two.Puts[0].SequenceKeyDelta = []uint64{1, 1}
		r, err := lc.WriteBlock(context.Background(), two)
		if err != nil || len(r.Puts) != 1 || r.Puts[0].Status != proto.Status_OK {
			s.Fail("harness-setup", fmt.Sprintf("%v %v", r, err))
			return
		}
		highest := r.Puts[0].GetKey()
		last := ""
		var seen []string
		ctx, cancel := context.WithCancel(context.Background())
		vsched.Go(func() { subscribe(ctx, lc, func(k string) { last = k; seen = append(seen, k) }) })
		s.Settle()
		s.Explore(true)
		outcome := ""
		vsched.Go(func() {
			req := seqPut()
			if okFirst {
				// a sequential put that generates a key, in front of the one that is refused: the request as a
				// whole is refused, the generated key never exists
				first := seqPut().Puts[0]
				first.SequenceKeyDelta = []uint64{1, 1}
				req.Puts = append([]*proto.PutRequest{first}, req.Puts...)
			}
			r, err := lc.WriteBlock(context.Background(), req)
			switch {
			case err != nil:
				outcome = "refused: " + err.Error()
			case len(r.Puts) >= 1 && r.Puts[len(r.Puts)-1].Status == proto.Status_OK:
				outcome = "created " + r.Puts[len(r.Puts)-1].GetKey()
				highest = r.Puts[len(r.Puts)-1].GetKey()
			default:
				outcome = fmt.Sprint(r)
			}
		})
		s.Settle()
		s.Explore(false)
		if last != highest {
			s.Fail("subscriber-missed-latest-key", fmt.Sprintf("prefix with the key %q, then a request (a generated key in front: %v) whose sequential put with one delta is refused when applied (%s): the latest generated key is %q, the subscriber was sent %q and holds %q at quiescence", highest, okFirst, outcome, highest, seen, last))
		}
		s.Data = fmt.Sprintf("last=%s highest=%s outcome=%s", last, highest, outcome)
		cancel()
		_ = lc.Close()
	}
}

func scenarios(tier string) []sched.Scenario {
	cfg := vsched.Config{MaxSteps: 50000}
	out := []sched.Scenario{
		{Name: "1writer-empty", Cfg: cfg, MaxDev: 2, Body: body(1, 0)},
		{Name: "1writer-preloaded", Cfg: cfg, MaxDev: 2, Body: body(1, 1)},
		{Name: "2writers-preloaded", Cfg: cfg, MaxDev: 2, Body: body(2, 1)},
		{Name: "subscriber-churn", Cfg: cfg, MaxDev: 2, Body: churnBody()},
		{Name: "subscription-across-deletes", Cfg: cfg, MaxDev: 2, Body: deletesBody()},
		{Name: "batch-last-seqput-refused-version", Cfg: cfg, MaxDev: 2, Body: refusedBody(false)},
		{Name: "batch-last-seqput-refused-session", Cfg: cfg, MaxDev: 2, Body: refusedBody(true)},
		{Name: "seqput-refused-when-applied", Cfg: cfg, MaxDev: 2, Body: applyRefusalBody(false)},
		{Name: "request-refused-after-a-key-was-generated", Cfg: cfg, MaxDev: 2, Body: applyRefusalBody(true)},
	}
	if tier == "thorough" {
		out[0].MaxDev = 3
		out[1].MaxDev = 3
	}
	return out
}

func main() {
	replay := flag.String("replay", "", "replay file")
	flag.Parse()
	oxh.Quiet()
	su := sched.Suite{Property: "C16", Scenarios: scenarios, Stage2: os.Getenv("VERIF_STAGE2") != "",
		Budget: func(tier string) time.Duration {
			if tier == "thorough" {
				return 15 * time.Minute
			}
			return 50 * time.Second
		},
		Rule:   "every schedule with at most max_dev non-default scheduling choices of one GetSequenceUpdates subscriber racing with 1-2 sequence writers on a real RF=1 leader",
		Assume: []string{"sequentially consistent memory", "deviation-bounded schedules"}}
	os.Exit(sched.Main(su, *replay))
}
