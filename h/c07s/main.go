// C07, schedule stage: on the live leader the effects of committed entries reach the
// database exactly once and in offset order under every schedule of the write pipeline
// (the crash-point stage is h/c07). Same harness as C08 (lib/pipeh); only the
// apply-order / applied-exactly-once oracles count here.
package main

import (
	"os"

	"github.com/oxia-db/oxia/server/kv"

	"verif/lib/fsnap"
	"verif/lib/pipeh"
)

func main() {
	// + a snapshot installation racing with the follower's own apply loop (real directory: the engine's
	// background compactions are off for deterministic replay)
	kv.VerifNoAutoCompactions = true
	pipeh.Extra = fsnap.BacklogScenarios
	keep := map[string]bool{"apply-out-of-order": true, "committed-entry-not-applied": true, "acked-write-missing": true,
		"duplicate-offset": true, "harness-setup": true, "follower-state-not-fold-of-log": true, "commit-offset-below-installed-snapshot": true}
	os.Exit(pipeh.Main("C07", os.Getenv("VERIF_STAGE2") != "", keep,
		"every schedule of writers, WAL sync thread, follower cursors and ack receivers with at most max_dev non-default scheduling choices on the real leader controller; every batch commit of the commit-offset record observed at the kv.Factory seam must be previous+1 (in order, exactly once) and every committed entry must be applied"))
}
