// C05: election safety — one leader per term, durable monotonic terms, best log wins.
// E2 exploration of a real 3(+1)-node cluster: real server.Server nodes (shards director,
// leader/follower controllers, WAL, Pebble on a crash-simulating FS), the real coordinator
// ShardController over a real StatusResource/metadata provider, in-process transports.
package main

import (
	"flag"
	"os"
	"time"

	"github.com/oxia-db/oxia/zzverif/vsched"

	"verif/lib/oxc"
	"verif/lib/oxh"
	"verif/lib/sched"
)

func coarse(k vsched.Kind, obj uint64) bool {
	switch k {
	case vsched.KLock, vsched.KRLock, vsched.KAtomic, vsched.KWait, vsched.KCond, vsched.KClose:
		return false
	}
	return true
}

func scenarios(tier string) []sched.Scenario {
	cfg := vsched.Config{MaxSteps: 400000, Filter: coarse, OnPoint: oxc.PointHook, MaxTime: int64(10 * time.Minute)}
	mk := func() []oxc.Oracle { return []oxc.Oracle{&oxc.ElectionOracle{}} }
	specs := []oxc.ScenarioSpec{
		{Name: "spurious-failover", Fault: "spurious-failover", Clients: 1, PerCli: 1, SyncData: true},
		{Name: "lost-newterm-response", Fault: "lost-newterm-response", Clients: 2, PerCli: 1, SyncData: true},
		{Name: "spurious-failover-lossy", Fault: "spurious-failover-lossy", Clients: 1, PerCli: 1, SyncData: true, LossyRPC: 1},
		{Name: "swap-lossy", Fault: "swap-lossy", Clients: 1, PerCli: 1, SyncData: true, LossyRPC: 1},
		{Name: "leader-crash", Fault: "leader-crash", Clients: 1, PerCli: 1, SyncData: true},
		{Name: "coord-crash", Fault: "coord-crash", Clients: 1, PerCli: 1, SyncData: true},
		{Name: "lost-become-leader-response", Fault: "lost-become-leader-response", Clients: 1, PerCli: 1, SyncData: true},
		{Name: "coord-crash-after-become-leader", Fault: "coord-crash-after-become-leader", Clients: 1, PerCli: 1, SyncData: true},
		{Name: "swap", Fault: "swap", Clients: 1, PerCli: 1, SyncData: true},
		{Name: "swap-unreachable", Fault: "swap-unreachable", Clients: 1, PerCli: 1, SyncData: true},
		{Name: "rolling-isolation", Fault: "rolling-isolation", Clients: 0, PerCli: 0, SyncData: true},
		{Name: "leader-crash-restart", Fault: "leader-crash-restart", Clients: 1, PerCli: 1, SyncData: true},
	}
	specs = append(specs, oxc.ScenarioSpec{Name: "swap-snapshot-restart", Fault: "swap-snapshot-restart", Clients: 0, PerCli: 0, SyncData: true, RealDisk: true, Breaks: 1})
	dev := 1
	if tier == "thorough" {
		dev = 2
		specs = append(specs, oxc.ScenarioSpec{Name: "swap-snapshot-restart-lossy", Fault: "swap-snapshot-restart", Clients: 0, PerCli: 0, SyncData: true, RealDisk: true, Breaks: 1, LossyRPC: 1})
		specs = append(specs, oxc.ScenarioSpec{Name: "leader-swap", Fault: "leader-swap", Clients: 1, PerCli: 1, SyncData: true},
			oxc.ScenarioSpec{Name: "follower-crash-restart", Fault: "follower-crash-restart", Clients: 1, PerCli: 1, SyncData: true})
	}
	var out []sched.Scenario
	for _, sp := range specs {
		out = append(out, sched.Scenario{Name: sp.Name, Cfg: cfg, MaxDev: dev, Body: oxc.Body(sp, mk)})
	}
	return out
}

func main() {
	replay := flag.String("replay", "", "replay file")
	flag.Parse()
	oxh.Quiet()
	su := sched.Suite{Property: "C05", Scenarios: scenarios,
		Budget: func(tier string) time.Duration {
			if tier == "thorough" {
				return 28 * time.Minute
			}
			return 110 * time.Second
		},
		Rule:   "every schedule with at most max_dev non-default choices at coarse points (thread start = RPC delivery, channel/stream operations, selects, timers, harness steps) of a real cluster running one client, one fault (spurious failover, leader crash, coordinator crash mid-election, node swap, crash+restart) and the elections it causes; monitors at every scheduling point and at every coordination RPC",
		Assume: []string{"sequentially consistent memory", "in-process transports replace gRPC; unary RPC delivery order = scheduling of handler threads", "coarse granularity: locks/atomics are not preemption points in this harness", "virtual time; context deadlines never fire"}}
	os.Exit(sched.Main(su, *replay))
}
