// C17 (stage 2): notifications under concurrency. Real leader controller (RF=1), a
// GetNotifications subscriber that disconnects and resumes, and concurrent writers, under
// the cooperative scheduler. At quiescence the subscriber must have received exactly one
// batch per committed request, in offset order, without loss or duplication.
package main

import (
	"context"
	"flag"
	"fmt"
	"os"
	"time"

	"google.golang.org/grpc"
	"google.golang.org/grpc/codes"
	"google.golang.org/grpc/status"

	"github.com/oxia-db/oxia/common/rpc"
	"github.com/oxia-db/oxia/oxia"
	"github.com/oxia-db/oxia/proto"
	"github.com/oxia-db/oxia/server"
	"github.com/oxia-db/oxia/server/kv"
	"github.com/oxia-db/oxia/zzverif/vsched"

	"verif/lib/oxc"
	"verif/lib/oxh"
	"verif/lib/sched"
)

type sub struct {
	got  []*proto.NotificationBatch
	done bool
	err  error
	stop int // cancel after this many batches (0 = never)
	ctx  context.Context
	cnl  context.CancelFunc
}

func (s *sub) OnNext(b *proto.NotificationBatch) error {
	s.got = append(s.got, b)
	if s.stop > 0 && len(s.got) >= s.stop {
		s.cnl()
	}
	return nil
}
func (s *sub) OnComplete(err error) { s.done = true; s.err = err }

func body(writers int, reconnect bool) func(s *vsched.Sched) {
	return func(s *vsched.Sched) {
		s.Explore(false)
		env := oxc.NewEnv(s)
		net := oxc.NewNet()
		kvf := oxc.NewObsFactory(env.Dir)
		lc, err := server.NewLeaderController(server.Config{NotificationsRetentionTime: time.Hour}, "ns", 1, net, env.WalFactory("n1", 64*1024, true), kvf)
		if err == nil {
			_, err = lc.NewTerm(&proto.NewTermRequest{Namespace: "ns", Shard: 1, Term: 1, Options: &proto.NewTermOptions{EnableNotifications: true}})
		}
		if err == nil {
			_, err = lc.BecomeLeader(context.Background(), &proto.BecomeLeaderRequest{Namespace: "ns", Shard: 1, Term: 1, ReplicationFactor: 1, FollowerMaps: map[string]*proto.EntryId{}})
		}
		if err != nil {
			s.Fail("harness-setup", err.Error())
			return
		}
		// one committed write before the subscriber starts (so that it resumes from an offset)
		if _, err := lc.WriteBlock(context.Background(), &proto.WriteRequest{Shard: oxh.I64(1), Puts: []*proto.PutRequest{{Key: "pre", Value: []byte("x")}}}); err != nil {
			s.Fail("harness-setup", err.Error())
			return
		}
		s.Settle()
		s.Explore(true)
		var all []*proto.NotificationBatch
		subscribe := func(after int64, stopAfter int) *sub {
			sb := &sub{stop: stopAfter}
			sb.ctx, sb.cnl = context.WithCancel(context.Background())
			a := after
			lc.GetNotifications(sb.ctx, &proto.NotificationsRequest{Shard: 1, StartOffsetExclusive: &a}, sb)
			return sb
		}
		first := 0
		if reconnect {
			first = 1
		}
		s1 := subscribe(0, first)
		acked := make([]int64, writers)
		for w := 0; w < writers; w++ {
			w := w
			acked[w] = -1
			vsched.Go(func() {
				r, err := lc.WriteBlock(context.Background(), &proto.WriteRequest{Shard: oxh.I64(1), Puts: []*proto.PutRequest{{Key: fmt.Sprintf("k%d", w), Value: []byte("v")}}})
				if err == nil {
					acked[w] = r.Puts[0].Version.VersionId
				}
			})
		}
		s.Settle()
		all = append(all, s1.got...)
		if reconnect {
			last := int64(0)
			if len(all) > 0 {
				last = all[len(all)-1].Offset
			}
			s2 := subscribe(last, 0)
			s.Settle()
			all = append(all, s2.got...)
			s2.cnl()
		}
		s1.cnl()
		s.Explore(false)
		// ---- oracle: offsets 1..writers, each exactly once, in order, with the right key
		want := int64(1)
		for _, b := range all {
			if b.Offset != want {
				s.Fail("notification-gap-or-duplicate", fmt.Sprintf("subscriber received batch offset %d where %d was expected (received offsets %v)", b.Offset, want, offsets(all)))
				break
			}
			want++
		}
		if int(want-1) != writers {
			for w, o := range acked {
				if o >= want {
					s.Fail("notification-not-delivered", fmt.Sprintf("write of k%d was committed at offset %d but the subscriber (resumed=%v) only received offsets %v at quiescence", w, o, reconnect, offsets(all)))
					break
				}
			}
		}
		for _, b := range all {
			for k, n := range b.Notifications {
				if len(k) > 6 && k[:7] == "__oxia/" {
					s.Fail("internal-key-notified", k)
				}
				if n.Type != proto.NotificationType_KEY_CREATED || n.VersionId == nil || *n.VersionId != b.Offset {
					s.Fail("notification-content", fmt.Sprintf("batch %d: key %s type %v version %v", b.Offset, k, n.Type, n.VersionId))
				}
			}
			if len(b.Notifications) != 1 {
				s.Fail("notification-content", fmt.Sprintf("batch %d carries %d notifications, expected 1", b.Offset, len(b.Notifications)))
			}
		}
		s.Data = fmt.Sprint(offsets(all))
		_ = lc.Close()
	}
}

// ---- the client library's notification manager (oxia/notifications.go) over the real leader controller

// cliStream is the client end of one GetNotifications call: what the leader sends arrives in ch until the
// connection is lost (cut closed by the harness); whatever the leader sends after that is lost with it.
type cliStream struct {
	grpc.ClientStream
	ctx  context.Context
	cnl  context.CancelFunc
	ch   chan *proto.NotificationBatch
	cut  chan struct{}
	lost bool
	req  *proto.NotificationsRequest
}

func (c *cliStream) OnNext(b *proto.NotificationBatch) error {
	if c.lost {
		return nil
	}
	vsched.Send(c.ch)(b)
	return nil
}
func (c *cliStream) OnComplete(error) {}
func (c *cliStream) Recv() (*proto.NotificationBatch, error) {
	r := vsched.Select(false, vsched.RecvCase(c.ch), vsched.RecvCase(c.cut), vsched.RecvCase(c.ctx.Done()))
	switch r.I {
	case 0:
		return r.Val.(*proto.NotificationBatch), nil
	case 1:
		return nil, status.Error(codes.Unavailable, "transport is closing")
	}
	return nil, status.Error(codes.Canceled, "context canceled")
}
func (c *cliStream) drop() {
	c.lost = true
	vsched.Close(c.cut)
	c.cnl()
}

type cliRPC struct {
	proto.OxiaClientClient
	p *cliPool
}

func (r cliRPC) GetNotifications(ctx context.Context, in *proto.NotificationsRequest, _ ...grpc.CallOption) (proto.OxiaClient_GetNotificationsClient, error) {
	st := &cliStream{ch: make(chan *proto.NotificationBatch, 64), cut: make(chan struct{}), req: in}
	st.ctx, st.cnl = context.WithCancel(ctx)
	r.p.streams = append(r.p.streams, st)
	r.p.lc.GetNotifications(st.ctx, in, st)
	return st, nil
}

// cliPool: the leader is reached at once, or - while gate is set - only once the harness opens it.
type cliPool struct {
	rpc.ClientPool
	lc      server.LeaderController
	streams []*cliStream
	gate    chan struct{}
}

func (p *cliPool) GetClientRpc(string) (proto.OxiaClientClient, error) {
	if p.gate != nil {
		vsched.Select(false, vsched.RecvCase(p.gate))
	}
	return cliRPC{p: p}, nil
}
func (p *cliPool) Close() error { return nil }
func (p *cliPool) Clear(string) {}

type oneShard struct{}

func (oneShard) Close() error        { return nil }
func (oneShard) Get(string) int64    { return 1 }
func (oneShard) GetAll() []int64     { return []int64{1} }
func (oneShard) Leader(int64) string { return "n1" }

// clientReconnectBody: a client subscribes to a shard (preWrites committed requests before it does), its
// connection is lost before it has received anything, two writes are committed while it is away, and it
// reconnects once the leader is reachable again. It resumes from the last offset it saw (the position it was
// given when it subscribed): the two writes must reach the application, once each.
func clientReconnectBody(preWrites int) func(s *vsched.Sched) {
	return func(s *vsched.Sched) {
		s.Explore(false)
		env := oxc.NewEnv(s)
		net := oxc.NewNet()
		kvf := oxc.NewObsFactory(env.Dir)
		lc, err := server.NewLeaderController(server.Config{NotificationsRetentionTime: time.Hour}, "ns", 1, net, env.WalFactory("n1", 64*1024, true), kvf)
		if err == nil {
			_, err = lc.NewTerm(&proto.NewTermRequest{Namespace: "ns", Shard: 1, Term: 1, Options: &proto.NewTermOptions{EnableNotifications: true}})
		}
		if err == nil {
			_, err = lc.BecomeLeader(context.Background(), &proto.BecomeLeaderRequest{Namespace: "ns", Shard: 1, Term: 1, ReplicationFactor: 1, FollowerMaps: map[string]*proto.EntryId{}})
		}
		for i := 0; err == nil && i < preWrites; i++ {
			_, err = lc.WriteBlock(context.Background(), &proto.WriteRequest{Shard: oxh.I64(1), Puts: []*proto.PutRequest{{Key: fmt.Sprintf("pre%d", i), Value: []byte("x")}}})
		}
		if err != nil {
			s.Fail("harness-setup", err.Error())
			return
		}
		pool := &cliPool{lc: lc}
		ctx, cancel := context.WithCancel(context.Background())
		nm, err := oxia.VerifC17NewNotifications(ctx, pool, oneShard{})
		if err != nil {
			s.Fail("harness-setup", "client notifications: "+err.Error())
			return
		}
		s.Settle()
		s.Explore(true)
		pool.gate = make(chan struct{})
		pool.streams[0].drop()
		var keys []string
		for i := 0; i < 2; i++ {
			k := fmt.Sprintf("k%d", i)
			if _, err := lc.WriteBlock(context.Background(), &proto.WriteRequest{Shard: oxh.I64(1), Puts: []*proto.PutRequest{{Key: k, Value: []byte("v")}}}); err != nil {
				s.Fail("harness-setup", err.Error())
				return
			}
			keys = append(keys, k)
		}
		s.Settle()
		s.Sleep(5 * time.Second) // virtual time: the client's retry timer fires, it dials and waits for the leader
		s.Settle()
		vsched.Close(pool.gate)
		s.Settle()
		s.Explore(false)
		var got []string
		for {
			r := vsched.Select(true, vsched.RecvCase(nm.Ch()))
			if r.I != 0 || !r.Ok {
				break
			}
			got = append(got, r.Val.(*oxia.Notification).Key)
		}
		start := "none"
		if n := len(pool.streams); n > 1 && pool.streams[n-1].req.StartOffsetExclusive != nil {
			start = fmt.Sprint(*pool.streams[n-1].req.StartOffsetExclusive)
		}
		if fmt.Sprint(got) != fmt.Sprint(keys) {
			s.Fail("client-lost-notifications-across-reconnect", fmt.Sprintf("%d request(s) committed before the client subscribed; its connection was lost, %v were written, it reconnected (%d connection(s), resuming after offset %s): the application received %v", preWrites, keys, len(pool.streams), start, got))
		}
		s.Data = fmt.Sprintf("got=%v connections=%d resume=%s", got, len(pool.streams), start)
		cancel()
		s.Settle()
		_ = lc.Close()
	}
}

// gapBody: the log holds an entry that every replica refuses at apply time (a sequential put with
// fewer deltas than the existing keys of the prefix): that offset has no batch. Subscribers that
// start before it, live or resuming, must receive every other offset once, in order.
func gapBody() func(s *vsched.Sched) {
	return func(s *vsched.Sched) {
		s.Explore(false)
		env := oxc.NewEnv(s)
		net := oxc.NewNet()
		kvf := oxc.NewObsFactory(env.Dir)
		lc, err := server.NewLeaderController(server.Config{NotificationsRetentionTime: time.Hour}, "ns", 1, net, env.WalFactory("n1", 64*1024, true), kvf)
		if err == nil {
			_, err = lc.NewTerm(&proto.NewTermRequest{Namespace: "ns", Shard: 1, Term: 1, Options: &proto.NewTermOptions{EnableNotifications: true}})
		}
		if err == nil {
			_, err = lc.BecomeLeader(context.Background(), &proto.BecomeLeaderRequest{Namespace: "ns", Shard: 1, Term: 1, ReplicationFactor: 1, FollowerMaps: map[string]*proto.EntryId{}})
		}
		if err != nil {
			s.Fail("harness-setup", err.Error())
			return
		}
		w := func(req *proto.WriteRequest) error {
			_, err := lc.WriteBlock(context.Background(), req)
			return err
		}
		// offset 0: a key with two numeric parts under prefix "q"
		if err := w(&proto.WriteRequest{Shard: oxh.I64(1), Puts: []*proto.PutRequest{{Key: "q", Value: []byte("v"), PartitionKey: oxh.Str("q"), SequenceKeyDelta: []uint64{1, 1}}}}); err != nil {
			s.Fail("harness-setup", err.Error())
			return
		}
		s.Settle()
		s.Explore(true)
		live := &sub{}
		live.ctx, live.cnl = context.WithCancel(context.Background())
		a := int64(0)
		lc.GetNotifications(live.ctx, &proto.NotificationsRequest{Shard: 1, StartOffsetExclusive: &a}, live)
		refused := false
		vsched.Go(func() {
			// offset 1: refused by every replica (one delta, the prefix has two-part keys)
			if err := w(&proto.WriteRequest{Shard: oxh.I64(1), Puts: []*proto.PutRequest{{Key: "q", Value: []byte("v"), PartitionKey: oxh.Str("q"), SequenceKeyDelta: []uint64{1}}}}); err != nil {
				refused = true
			}
			// offsets 2 and 3
			_ = w(&proto.WriteRequest{Shard: oxh.I64(1), Puts: []*proto.PutRequest{{Key: "k2", Value: []byte("v")}}})
			_ = w(&proto.WriteRequest{Shard: oxh.I64(1), Puts: []*proto.PutRequest{{Key: "k3", Value: []byte("v")}}})
		})
		s.Settle()
		// a second subscriber resumes from offset 0 once everything is committed
		late := &sub{}
		late.ctx, late.cnl = context.WithCancel(context.Background())
		lc.GetNotifications(late.ctx, &proto.NotificationsRequest{Shard: 1, StartOffsetExclusive: &a}, late)
		s.Settle()
		live.cnl()
		late.cnl()
		s.Explore(false)
		if !refused {
			s.Fail("harness-setup", "the request meant to be refused at apply time was accepted")
			return
		}
		for name, sb := range map[string]*sub{"live": live, "resuming": late} {
			got := offsets(sb.got)
			if fmt.Sprint(got) != "[2 3]" {
				s.Fail("notification-gap-or-duplicate", fmt.Sprintf("%s subscriber positioned at offset 0, log = [0: applied, 1: refused by every replica, 2: applied, 3: applied]: received offsets %v, expected [2 3]", name, got))
			}
		}
		s.Data = fmt.Sprint(offsets(live.got), offsets(late.got))
		_ = lc.Close()
	}
}

// vclock reads the scheduler's virtual clock.
type vclock struct{ s *vsched.Sched }

func (c vclock) Now() time.Time { return c.s.Now() }

// trimBody: every stored batch is older than the retention time when a trimming round runs
// concurrently with a new commit. The batch of the new write is within retention and must
// still be delivered to a subscriber resuming from the last old offset.
func trimBody() func(s *vsched.Sched) {
	const retention = 10 * time.Second
	return func(s *vsched.Sched) {
		s.Explore(false)
		env := oxc.NewEnv(s)
		kvf := oxc.NewObsFactory(env.Dir)
		kvf.Yield = true
		// a retention far away for the DB's own trimmer: the harness runs the trimming rounds itself
		lc, err := server.NewLeaderController(server.Config{NotificationsRetentionTime: 100 * time.Hour}, "ns", 1, oxc.NewNet(), env.WalFactory("n1", 64*1024, true), kvf)
		if err == nil {
			_, err = lc.NewTerm(&proto.NewTermRequest{Namespace: "ns", Shard: 1, Term: 1, Options: &proto.NewTermOptions{EnableNotifications: true}})
		}
		if err == nil {
			_, err = lc.BecomeLeader(context.Background(), &proto.BecomeLeaderRequest{Namespace: "ns", Shard: 1, Term: 1, ReplicationFactor: 1, FollowerMaps: map[string]*proto.EntryId{}})
		}
		if err != nil {
			s.Fail("harness-setup", err.Error())
			return
		}
		for i := 0; i < 2; i++ {
			if _, err := lc.WriteBlock(context.Background(), &proto.WriteRequest{Shard: oxh.I64(1), Puts: []*proto.PutRequest{{Key: fmt.Sprintf("old%d", i), Value: []byte("x")}}}); err != nil {
				s.Fail("harness-setup", err.Error())
				return
			}
		}
		s.Sleep(retention + time.Second) // both batches are now older than the retention
		s.Settle()
		s.Explore(true)
		db := server.VerifLeaderDB(lc)
		acked := int64(-1)
		vsched.Go(func() {
			r, err := lc.WriteBlock(context.Background(), &proto.WriteRequest{Shard: oxh.I64(1), Puts: []*proto.PutRequest{{Key: "new", Value: []byte("v")}}})
			if err == nil {
				acked = r.Puts[0].Version.VersionId
			}
		})
		var terr error
		vsched.Go(func() { terr = kv.VerifTrimNotifications(db, retention, vclock{s}) })
		s.Settle()
		s.Explore(false)
		if terr != nil {
			s.Fail("trim-failed", terr.Error())
		}
		sb := &sub{}
		sb.ctx, sb.cnl = context.WithCancel(context.Background())
		after := int64(1)
		lc.GetNotifications(sb.ctx, &proto.NotificationsRequest{Shard: 1, StartOffsetExclusive: &after}, sb)
		s.Settle()
		sb.cnl()
		if acked >= 0 && (len(sb.got) != 1 || sb.got[0].Offset != acked) {
			s.Fail("notification-within-retention-lost", fmt.Sprintf("the write at offset %d was committed while a trimming round ran; a subscriber resuming after offset 1 received offsets %v", acked, offsets(sb.got)))
		}
		s.Data = fmt.Sprint("trim", offsets(sb.got))
		_ = lc.Close()
	}
}

func offsets(bs []*proto.NotificationBatch) []int64 {
	var o []int64
	for _, b := range bs {
		o = append(o, b.Offset)
	}
	return o
}

// ackAll: a follower that stores and acknowledges every entry.
type ackAll struct{}

func (ackAll) Replicate(stream proto.OxiaLogReplication_ReplicateServer) error {
	for {
		a, err := stream.Recv()
		if err != nil {
			return err
		}
		if err := stream.Send(&proto.Ack{Offset: a.Entry.Offset}); err != nil {
			return err
		}
	}
}
func (ackAll) SendSnapshot(proto.OxiaLogReplication_SendSnapshotServer) error {
	return fmt.Errorf("unexpected snapshot")
}
func (ackAll) Truncate(req *proto.TruncateRequest) (*proto.TruncateResponse, error) {
	return &proto.TruncateResponse{HeadEntryId: req.HeadEntryId}, nil
}

// firstSub: a subscriber that connects without a start offset. The first batch it is handed tells it where it
// is positioned; that position must not be ahead of what is committed at that moment (entries in the log that
// commit later would otherwise never be announced to it, and it cannot have read them either).
type firstSub struct {
	sub
	lc  server.LeaderController
	s   *vsched.Sched
	pos int64
}

func (f *firstSub) OnNext(b *proto.NotificationBatch) error {
	if len(f.got) == 0 {
		f.pos = b.Offset
		if _, _, commit, ok := server.VerifPeekTracker(f.lc); ok && b.Offset > commit {
			f.s.Fail("fresh-subscriber-positioned-beyond-commit-offset", fmt.Sprintf("a subscriber without a start offset is positioned on offset %d while the commit offset is %d: the batches of the entries in between will never reach it", b.Offset, commit))
		}
	}
	return f.sub.OnNext(b)
}

func freshSubscriberBody(writers int) func(s *vsched.Sched) {
	return func(s *vsched.Sched) {
		s.Explore(false)
		env := oxc.NewEnv(s)
		net := oxc.NewNet()
		net.Peers["f1"], net.Peers["f2"] = ackAll{}, ackAll{}
		kvf := oxc.NewObsFactory(env.Dir)
		lc, err := server.NewLeaderController(server.Config{NotificationsRetentionTime: time.Hour}, "ns", 1, net, env.WalFactory("n1", 64*1024, true), kvf)
		if err == nil {
			_, err = lc.NewTerm(&proto.NewTermRequest{Namespace: "ns", Shard: 1, Term: 1, Options: &proto.NewTermOptions{EnableNotifications: true}})
		}
		if err == nil {
			none := &proto.EntryId{Term: -1, Offset: -1}
			_, err = lc.BecomeLeader(context.Background(), &proto.BecomeLeaderRequest{Namespace: "ns", Shard: 1, Term: 1, ReplicationFactor: 3,
				FollowerMaps: map[string]*proto.EntryId{"f1": none, "f2": none}})
		}
		if err == nil {
			_, err = lc.WriteBlock(context.Background(), &proto.WriteRequest{Shard: oxh.I64(1), Puts: []*proto.PutRequest{{Key: "pre", Value: []byte("x")}}})
		}
		if err != nil {
			s.Fail("harness-setup", err.Error())
			return
		}
		s.Settle()
		s.Explore(true)
		acked := 0
		for w := 0; w < writers; w++ {
			w := w
			vsched.Go(func() {
				if _, err := lc.WriteBlock(context.Background(), &proto.WriteRequest{Shard: oxh.I64(1), Puts: []*proto.PutRequest{{Key: fmt.Sprintf("k%d", w), Value: []byte("v")}}}); err == nil {
					acked++
				}
			})
		}
		fs := &firstSub{lc: lc, s: s, pos: -2}
		fs.ctx, fs.cnl = context.WithCancel(context.Background())
		vsched.Go(func() { lc.GetNotifications(fs.ctx, &proto.NotificationsRequest{Shard: 1}, fs) })
		s.Settle()
		s.Explore(false)
		// everything after the position, up to the last committed write, in order
		want := fs.pos + 1
		for _, b := range fs.got[1:] {
			if b.Offset != want {
				s.Fail("notification-gap-or-duplicate", fmt.Sprintf("positioned on %d, the subscriber received batch offset %d where %d was expected (received %v)", fs.pos, b.Offset, want, offsets(fs.got)))
				break
			}
			want++
		}
		if len(fs.got) > 0 && acked == writers && want != int64(writers)+1 {
			s.Fail("notification-missing", fmt.Sprintf("positioned on %d, %d writes committed (offsets 1..%d), the subscriber received %v", fs.pos, writers, writers, offsets(fs.got)))
		}
		s.Data = fmt.Sprintf("pos=%d got=%v", fs.pos, offsets(fs.got))
		fs.cnl()
		_ = lc.Close()
	}
}

func scenarios(tier string) []sched.Scenario {
	cfg := vsched.Config{MaxSteps: 50000}
	d := 2
	out := []sched.Scenario{
		{Name: "1writer", Cfg: cfg, MaxDev: d, Body: body(1, false)},
		{Name: "2writers", Cfg: cfg, MaxDev: d, Body: body(2, false)},
		{Name: "2writers-reconnect", Cfg: cfg, MaxDev: d, Body: body(2, true)},
		{Name: "fresh-subscriber-vs-writes-in-flight", Cfg: cfg, MaxDev: d, Body: freshSubscriberBody(2)},
		{Name: "offset-without-batch", Cfg: cfg, MaxDev: d, Body: gapBody()},
		{Name: "client-reconnects-after-writes", Cfg: cfg, MaxDev: 1, Body: clientReconnectBody(1)},
		{Name: "client-reconnects-after-writes-new-shard", Cfg: cfg, MaxDev: 1, Body: clientReconnectBody(0)},
		{Name: "trim-round-vs-commit", Cfg: cfg, MaxDev: 3, Body: trimBody(), HorizonKey: "subscriber-spins-without-receiving"},
	}
	if tier == "thorough" {
		out[0].MaxDev = 3
		out = append(out, sched.Scenario{Name: "3writers-reconnect", Cfg: cfg, MaxDev: 2, Body: body(3, true)})
	}
	return out
}

func main() {
	replay := flag.String("replay", "", "replay file")
	flag.Parse()
	oxh.Quiet()
	su := sched.Suite{Property: "C17", Scenarios: scenarios, Stage2: os.Getenv("VERIF_STAGE2") != "",
		Budget: func(tier string) time.Duration {
			if tier == "thorough" {
				return 15 * time.Minute
			}
			return 60 * time.Second
		},
		Rule:   "every schedule with at most max_dev non-default scheduling choices of a notification subscriber (optionally disconnecting after its first batch and resuming from the last offset it saw) racing with 1-3 writers on a real RF=1 leader",
		Assume: []string{"sequentially consistent memory", "deviation-bounded schedules"}}
	os.Exit(sched.Main(su, *replay))
}
