// C05, protocol-event stage (node side): the term known to a node never decreases, also across restarts, crashes and snapshot transfers, for every sequence of follower protocol events up to a depth (lib/ffsm).
package main

import (
	"os"

	"verif/lib/ffsm"
)

func main() {
	os.Exit(ffsm.Main("C05", map[string]bool{"node-term-decreased": true, "stale-newterm-accepted": true, "restart-failed": true, "harness-setup": true, "panic": true}, ""))
}
