// C04: a fenced node makes no progress in older terms and reports its true head.
// E2 exploration of (a) a real leader with in-flight client writes and (b) a real
// follower with in-flight appends / pending WAL syncs, each raced against NewTerm(T+1).
package main

import (
	"context"
	"flag"
	"fmt"
	"os"
	"time"

	"github.com/oxia-db/oxia/proto"
	"github.com/oxia-db/oxia/server"
	"github.com/oxia-db/oxia/server/wal"
	"github.com/oxia-db/oxia/zzverif/vsched"

	"verif/lib/oxc"
	"verif/lib/oxh"
	"verif/lib/sched"
)

type acker struct{}

func (acker) Replicate(stream proto.OxiaLogReplication_ReplicateServer) error {
	for {
		a, err := stream.Recv()
		if err != nil {
			return err
		}
		if err := stream.Send(&proto.Ack{Offset: a.Entry.Offset}); err != nil {
			return err
		}
	}
}
func (acker) SendSnapshot(proto.OxiaLogReplication_SendSnapshotServer) error {
	return fmt.Errorf("unexpected snapshot")
}
func (acker) Truncate(req *proto.TruncateRequest) (*proto.TruncateResponse, error) {
	return &proto.TruncateResponse{HeadEntryId: req.HeadEntryId}, nil
}

func lastEntry(w wal.Wal) (term, offset int64) {
	_, appended, _ := wal.VerifPeekOffsets(w)
	if appended < 0 {
		return -1, -1
	}
	// make everything visible to readers, then read the last entry
	_ = w.Sync(context.Background())
	r, err := w.NewReverseReader()
	if err != nil || !r.HasNext() {
		return -1, -1
	}
	e, err := r.ReadNext()
	if err != nil {
		return -1, -1
	}
	return e.Term, e.Offset
}

// ---- (a) leader --------------------------------------------------------------

func leaderBody(writers int, syncData bool, preload int) func(s *vsched.Sched) {
	return func(s *vsched.Sched) {
		s.Explore(false)
		env := oxc.NewEnv(s)
		net := oxc.NewNet()
		kvf := oxc.NewObsFactory(env.Dir)
		lc, err := server.NewLeaderController(server.Config{NotificationsRetentionTime: time.Hour}, "ns", 1, net, env.WalFactory("n1", 64*1024, syncData), kvf)
		if err != nil {
			s.Fail("harness-setup", err.Error())
			return
		}
		fm := map[string]*proto.EntryId{}
		for _, n := range []string{"f1", "f2"} {
			net.Peers[n] = acker{}
			fm[n] = &proto.EntryId{Term: -1, Offset: -1}
		}
		_, err = lc.NewTerm(&proto.NewTermRequest{Namespace: "ns", Shard: 1, Term: 1, Options: &proto.NewTermOptions{EnableNotifications: true}})
		if err == nil {
			_, err = lc.BecomeLeader(context.Background(), &proto.BecomeLeaderRequest{Namespace: "ns", Shard: 1, Term: 1, ReplicationFactor: 3, FollowerMaps: fm})
		}
		if err != nil {
			s.Fail("harness-setup", err.Error())
			return
		}
		for i := 0; i < preload; i++ {
			if _, err := lc.WriteBlock(context.Background(), &proto.WriteRequest{Shard: oxh.I64(1), Puts: []*proto.PutRequest{{Key: fmt.Sprintf("p%d", i), Value: []byte("x")}}}); err != nil {
				s.Fail("harness-setup", err.Error())
				return
			}
		}
		s.Settle()
		s.Explore(true)
		type wr struct {
			done bool
			err  error
			ver  int64
		}
		res := make([]wr, writers)
		for w := 0; w < writers; w++ {
			w := w
			vsched.Go(func() {
				r, err := lc.WriteBlock(context.Background(), &proto.WriteRequest{Shard: oxh.I64(1), Puts: []*proto.PutRequest{{Key: fmt.Sprintf("k%d", w), Value: []byte("v")}}})
				res[w] = wr{done: true, err: err}
				if err == nil {
					res[w].ver = r.Puts[0].Version.VersionId
				}
			})
		}
		var ntResp *proto.NewTermResponse
		var ntErr error
		ntDone := false
		vsched.Go(func() {
			ntResp, ntErr = lc.NewTerm(&proto.NewTermRequest{Namespace: "ns", Shard: 1, Term: 2, Options: &proto.NewTermOptions{EnableNotifications: true}})
			ntDone = true
		})
		s.Settle()
		s.Explore(false)
		if !ntDone {
			s.Fail("newterm-stuck", "NewTerm(2) never returned")
			return
		}
		if ntErr != nil {
			s.Fail("newterm-failed", ntErr.Error())
			return
		}
		// a write issued after the fencing answer must be refused
		if _, err := lc.WriteBlock(context.Background(), &proto.WriteRequest{Shard: oxh.I64(1), Puts: []*proto.PutRequest{{Key: "late", Value: []byte("v")}}}); err == nil {
			s.Fail("write-accepted-after-fencing", "a client write succeeded on a node fenced in a newer term")
		}
		s.Settle()
		w := server.VerifLeaderWal(lc)
		lt, lo := lastEntry(w)
		h := ntResp.HeadEntryId
		if h.Offset != lo || (lo >= 0 && h.Term != lt) {
			s.Fail("reported-head-not-log-end", fmt.Sprintf("leader answered NewTerm(2) with head (term %d, offset %d) but its log ends at (term %d, offset %d)", h.Term, h.Offset, lt, lo))
		}
		nOK := 0
		for i, r := range res {
			if r.done && r.err == nil {
				nOK++
				// version id == offset for the first put of an entry
				if r.ver > h.Offset {
					s.Fail("acked-write-beyond-reported-head", fmt.Sprintf("write %d was acknowledged at offset %d but the node reported head offset %d when fenced", i, r.ver, h.Offset))
				}
			}
		}
		s.Data = fmt.Sprintf("head=%d ok=%d", h.Offset, nOK)
		_ = lc.Close()
	}
}

// ---- (b) follower ------------------------------------------------------------

func followerBody(nAppends int, syncData bool) func(s *vsched.Sched) {
	return followerBodyBreak(nAppends, syncData, false)
}

// breakStream: the leader's connection drops right after its last append was sent, so the
// follower's stream is (being) detached when the new-term request arrives.
func followerBodyBreak(nAppends int, syncData bool, breakStream bool) func(s *vsched.Sched) {
	return func(s *vsched.Sched) {
		s.Explore(false)
		env := oxc.NewEnv(s)
		net := oxc.NewNet()
		kvf := oxc.NewObsFactory(env.Dir)
		fc, err := server.NewFollowerController(server.Config{NotificationsRetentionTime: time.Hour}, "ns", 1, env.WalFactory("n2", 64*1024, syncData), kvf)
		if err != nil {
			s.Fail("harness-setup", err.Error())
			return
		}
		net.Peers["n2"] = fc
		if _, err := fc.NewTerm(&proto.NewTermRequest{Namespace: "ns", Shard: 1, Term: 1, Options: &proto.NewTermOptions{EnableNotifications: true}}); err != nil {
			s.Fail("harness-setup", err.Error())
			return
		}
		stream, err := net.GetReplicateStream(context.Background(), "n2", "ns", 1, 1)
		if err != nil {
			s.Fail("harness-setup", err.Error())
			return
		}
		s.Settle()
		s.Explore(true)
		var acks []int64
		vsched.Go(func() {
			for {
				a, err := stream.Recv()
				if err != nil {
					return
				}
				acks = append(acks, a.Offset)
			}
		})
		vsched.Go(func() {
			for i := 0; i < nAppends; i++ {
				le := &proto.LogEntry{Term: 1, Offset: int64(i), Value: entryValue(i), Timestamp: uint64(1000 + i)}
				if err := stream.Send(&proto.Append{Term: 1, Entry: le, CommitOffset: int64(i - 1)}); err != nil {
					return
				}
			}
			if breakStream {
				net.Streams[0].Break()
			}
		})
		var ntResp *proto.NewTermResponse
		var ntErr error
		ntDone := false
		vsched.Go(func() {
			ntResp, ntErr = fc.NewTerm(&proto.NewTermRequest{Namespace: "ns", Shard: 1, Term: 2, Options: &proto.NewTermOptions{EnableNotifications: true}})
			ntDone = true
		})
		s.Settle()
		s.Explore(false)
		if !ntDone {
			s.Fail("newterm-stuck", "NewTerm(2) never returned")
			return
		}
		if ntErr != nil {
			s.Fail("newterm-failed", ntErr.Error())
			return
		}
		h := ntResp.HeadEntryId
		w := server.VerifFollowerWal(fc)
		lt, lo := lastEntry(w)
		if h.Offset != lo || (lo >= 0 && h.Term != lt) {
			s.Fail("reported-head-not-log-end", fmt.Sprintf("follower answered NewTerm(2) with head (term %d, offset %d) but its log ends at (term %d, offset %d)", h.Term, h.Offset, lt, lo))
		}
		for _, a := range acks {
			if a > h.Offset {
				s.Fail("ack-beyond-reported-head", fmt.Sprintf("follower acknowledged offset %d to the term-1 leader although it reported head offset %d when fenced for term 2", a, h.Offset))
			}
		}
		// an append of the old term arriving now must not be stored
		if st2, err := net.GetReplicateStream(context.Background(), "n2", "ns", 1, 1); err == nil {
			_ = st2.Send(&proto.Append{Term: 1, Entry: &proto.LogEntry{Term: 1, Offset: lo + 1, Value: entryValue(99), Timestamp: 5}, CommitOffset: -1})
			s.Settle()
			_, lo2 := lastEntry(w)
			if lo2 != lo {
				s.Fail("old-term-append-stored", fmt.Sprintf("an append of term 1 was stored after the node was fenced for term 2 (log end %d -> %d)", lo, lo2))
			}
		}
		// ... nor may a re-sent entry of the old term (an offset the node already holds) be acknowledged
		if lo >= 0 {
			if st3, err := net.GetReplicateStream(context.Background(), "n2", "ns", 1, 1); err == nil {
				var late []int64
				vsched.Go(func() {
					for {
						a, err := st3.Recv()
						if err != nil {
							return
						}
						late = append(late, a.Offset)
					}
				})
				_ = st3.Send(&proto.Append{Term: 1, Entry: &proto.LogEntry{Term: 1, Offset: lo, Value: entryValue(int(lo)), Timestamp: uint64(1000 + lo)}, CommitOffset: -1})
				s.Settle()
				if len(late) > 0 {
					s.Fail("old-term-ack-after-fence", fmt.Sprintf("node fenced for term 2 acknowledged offsets %v on behalf of term 1", late))
				}
			}
		}
		s.Data = fmt.Sprintf("head=%d acks=%v", h.Offset, acks)
		_ = fc.Close()
	}
}

// followerTruncateRedelivered: the follower is fenced for term 2 and truncated by the new leader,
// which then replicates entries; the Truncate request is delivered a second time (a retry whose
// first answer was lost) at any moment. Whatever the follower answers, every offset it has
// acknowledged to the term-2 leader must still be in its log with the entry of that leader.
func followerTruncateRedelivered(syncData bool) func(s *vsched.Sched) {
	return func(s *vsched.Sched) {
		s.Explore(false)
		env := oxc.NewEnv(s)
		net := oxc.NewNet()
		kvf := oxc.NewObsFactory(env.Dir)
		fc, err := server.NewFollowerController(server.Config{NotificationsRetentionTime: time.Hour}, "ns", 1, env.WalFactory("n2", 64*1024, syncData), kvf)
		if err != nil {
			s.Fail("harness-setup", err.Error())
			return
		}
		net.Peers["n2"] = fc
		fail := func(err error) bool {
			if err != nil {
				s.Fail("harness-setup", err.Error())
				return true
			}
			return false
		}
		_, err = fc.NewTerm(&proto.NewTermRequest{Namespace: "ns", Shard: 1, Term: 1, Options: &proto.NewTermOptions{EnableNotifications: true}})
		if fail(err) {
			return
		}
		st1, err := net.GetReplicateStream(context.Background(), "n2", "ns", 1, 1)
		if fail(err) {
			return
		}
		for i := 0; i < 3; i++ {
			_ = st1.Send(&proto.Append{Term: 1, Entry: &proto.LogEntry{Term: 1, Offset: int64(i), Value: entryValue(i), Timestamp: uint64(1000 + i)}, CommitOffset: int64(i - 1)})
		}
		s.Settle()
		_, err = fc.NewTerm(&proto.NewTermRequest{Namespace: "ns", Shard: 1, Term: 2, Options: &proto.NewTermOptions{EnableNotifications: true}})
		if fail(err) {
			return
		}
		// the term-2 leader holds entries 0..1 of term 1 only: truncate to 1
		tr := &proto.TruncateRequest{Namespace: "ns", Shard: 1, Term: 2, HeadEntryId: &proto.EntryId{Term: 1, Offset: 1}}
		_, err = fc.Truncate(tr)
		if fail(err) {
			return
		}
		st2, err := net.GetReplicateStream(context.Background(), "n2", "ns", 1, 2)
		if fail(err) {
			return
		}
		s.Settle()
		s.Explore(true)
		var acks []int64
		vsched.Go(func() {
			for {
				a, err := st2.Recv()
				if err != nil {
					return
				}
				acks = append(acks, a.Offset)
			}
		})
		vsched.Go(func() {
			for i := 2; i < 4; i++ {
				if err := st2.Send(&proto.Append{Term: 2, Entry: &proto.LogEntry{Term: 2, Offset: int64(i), Value: entryValue(10 + i), Timestamp: uint64(2000 + i)}, CommitOffset: int64(i - 1)}); err != nil {
					return
				}
			}
		})
		var dupErr error
		vsched.Go(func() { _, dupErr = fc.Truncate(tr.CloneVT()) })
		s.Settle()
		s.Explore(false)
		w := server.VerifFollowerWal(fc)
		_, lo := lastEntry(w)
		for _, a := range acks {
			if a > lo {
				s.Fail("acked-entry-truncated", fmt.Sprintf("follower acknowledged offset %d to the term-2 leader, then a re-delivered Truncate(term 2, head 1) (answer: %v) cut its log back to %d", a, dupErr, lo))
				break
			}
			rd, err := w.NewReader(a - 1)
			if err == nil {
				if rd.HasNext() {
					if e, err := rd.ReadNext(); err == nil && (e.Offset != a || e.Term != 2) {
						s.Fail("acked-entry-replaced", fmt.Sprintf("offset %d acknowledged to the term-2 leader holds (term %d, offset %d)", a, e.Term, e.Offset))
					}
				}
				_ = rd.Close()
			}
		}
		s.Data = fmt.Sprintf("acks=%v last=%d dup=%v", acks, lo, dupErr != nil)
		_ = fc.Close()
	}
}

func entryValue(i int) []byte {
	lev := &proto.LogEntryValue{Value: &proto.LogEntryValue_Requests{Requests: &proto.WriteRequests{Writes: []*proto.WriteRequest{
		{Shard: oxh.I64(1), Puts: []*proto.PutRequest{{Key: fmt.Sprintf("k%d", i), Value: []byte("v")}}}}}}}
	b, _ := lev.MarshalVT()
	return b
}

func scenarios(tier string) []sched.Scenario {
	cfg := vsched.Config{MaxSteps: 20000}
	d := 2
	if tier == "thorough" {
		d = 3
	}
	out := []sched.Scenario{
		{Name: "follower-2appends-sync", Cfg: cfg, MaxDev: d, Body: followerBody(2, true)},
		{Name: "follower-2appends-nosync", Cfg: cfg, MaxDev: d, Body: followerBody(2, false)},
		{Name: "follower-2appends-stream-break", Cfg: cfg, MaxDev: d, Body: followerBodyBreak(2, true, true)},
		{Name: "follower-truncate-redelivered", Cfg: cfg, MaxDev: d, Body: followerTruncateRedelivered(true)},
		{Name: "leader-1writer-sync", Cfg: cfg, MaxDev: d, Body: leaderBody(1, true, 1)},
		{Name: "leader-2writers-sync", Cfg: cfg, MaxDev: 2, Body: leaderBody(2, true, 0)},
	}
	if tier == "thorough" {
		out = append(out, sched.Scenario{Name: "follower-3appends-sync", Cfg: cfg, MaxDev: 2, Body: followerBody(3, true)},
			sched.Scenario{Name: "leader-2writers-nosync", Cfg: cfg, MaxDev: 2, Body: leaderBody(2, false, 1)})
	}
	return out
}

func main() {
	replay := flag.String("replay", "", "replay file")
	flag.Parse()
	oxh.Quiet()
	su := sched.Suite{Property: "C04", Scenarios: scenarios,
		Budget: func(tier string) time.Duration {
			if tier == "thorough" {
				return 25 * time.Minute
			}
			return 100 * time.Second
		},
		Rule:   "every schedule with at most max_dev non-default scheduling choices of NewTerm(T+1) racing with in-flight client writes (leader) or in-flight appends and WAL syncs (follower) on the real controllers; non-trivial = deviates at least once from the default schedule",
		Assume: []string{"sequentially consistent memory", "peer side of the streams is scripted", "deviation-bounded schedules, not all interleavings"}}
	os.Exit(sched.Main(su, *replay))
}
