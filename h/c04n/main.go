// C04, protocol-event stage (whole node, both roles): a fenced node takes no client write and accepts nothing of an older term, for every sequence of node protocol events up to a depth (lib/nfsm).
package main

import (
	"os"

	"verif/lib/nfsm"
)

func main() {
	os.Exit(nfsm.Main("C04", map[string]bool{"write-accepted-by-non-leader": true, "reported-head-not-log-end": true, "stale-become-leader-accepted": true, "stale-newterm-accepted": true, "harness-setup": true, "panic": true}))
}
