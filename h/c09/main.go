// C09: the WAL is a faithful, contiguous, durable sequence.
// E1 explicit-state search of operation sequences on the real WAL against a list model.
package main

import (
	"context"
	"errors"
	"flag"
	"fmt"
	"io"
	"log/slog"
	"os"
	"path/filepath"
	"strings"
	"sync/atomic"
	"time"

	time2 "github.com/oxia-db/oxia/common/time"
	"github.com/oxia-db/oxia/proto"
	"github.com/oxia-db/oxia/server/wal"

	"verif/lib/ev"
	"verif/lib/seqx"
)

type commitProv struct{ v atomic.Int64 }

func (c *commitProv) CommitOffset() int64 { return c.v.Load() }

type mentry struct {
	off  int64
	gen  int
	size int // payload bytes
}

type config struct {
	name       string
	segSize    int32
	small, big int
	syncData   bool
	// preload: entries appended before the search starts (a non-initial state: many segments, or a large log)
	preload  int
	depth    int   // 0 = the tier's depth
	maxOff   int64 // 0 = 9
	thorough bool  // thorough tier only
	// preloadBig: the preloaded entries are large ones
	preloadBig bool
	// only: when non-nil, the operations enabled in this configuration
	only map[int]bool
}

const retentionMs = 10_000

type inst struct {
	cfg    config
	dir    string
	w      wal.Wal
	clock  *time2.MockedClock
	commit *commitProv
	// model
	entries  []mentry // appended entries (contiguous), entries[0].off == first appended
	synced   int64    // last visible offset, -1 if none
	first    int64    // reported first offset
	gens     map[int64]int
	lowDisk  int64 // lowest offset that may still physically exist (for reopen tolerance)
	everTrim bool
	broken   *ev.Violation
}

func tsOf(off int64) uint64 { return uint64(1_000_000 + 1000*off) }

func valueOf(off int64, gen int, size int) []byte {
	b := []byte(fmt.Sprintf("o%d.g%d.", off, gen))
	for len(b) < size {
		b = append(b, byte('a'+len(b)%26))
	}
	return b[:size]
}

func entryOf(e mentry) *proto.LogEntry {
	return &proto.LogEntry{Term: int64(e.gen + 1), Offset: e.off, Value: valueOf(e.off, e.gen, e.size), Timestamp: tsOf(e.off)}
}

var dirCounter atomic.Int64
var scratch string

func newInst(cfg config, worker int) *inst {
	d := filepath.Join(scratch, fmt.Sprintf("w%d-%d", worker, dirCounter.Add(1)))
	in := &inst{cfg: cfg, dir: d, clock: &time2.MockedClock{}, commit: &commitProv{}, synced: -1, first: -1, gens: map[int64]int{}, lowDisk: -1}
	in.commit.v.Store(-1)
	in.open()
	for i := 0; i < cfg.preload; i++ {
		op := opAppS
		if cfg.preloadBig {
			op = opAppL
		}
		if ok, v := in.Step(op); v != nil {
			// the preloaded state itself already disagrees with the model: report it at the first step
			v.Message = fmt.Sprintf("while building the start state (%d appends): %s", i+1, v.Message)
			in.broken = v
			break
		} else if !ok {
			panic("preload: append not enabled")
		}
	}
	return in
}

func (in *inst) open() {
	if err := in.tryOpen(); err != nil {
		panic(fmt.Sprintf("open failed: %v", err))
	}
}

func (in *inst) tryOpen() error {
	w, err := wal.VerifNewWal("ns", 1, &wal.FactoryOptions{BaseWalDir: in.dir, Retention: retentionMs * time.Millisecond,
		SegmentSize: in.cfg.segSize, SyncData: in.cfg.syncData}, in.commit, in.clock, time.Hour)
	if err != nil {
		return err
	}
	in.w = w
	return nil
}

func (in *inst) Close() {
	if in.w != nil {
		_ = in.w.Close()
	}
	_ = os.RemoveAll(in.dir)
}

func (in *inst) appended() int64 {
	if len(in.entries) == 0 {
		return -1
	}
	return in.entries[len(in.entries)-1].off
}

func (in *inst) at(off int64) *mentry {
	if len(in.entries) == 0 {
		return nil
	}
	i := off - in.entries[0].off
	if i < 0 || i >= int64(len(in.entries)) {
		return nil
	}
	return &in.entries[i]
}

const (
	opAppS = iota
	opAppL
	opAsyS
	opAsyL
	opSync
	opTruncAll
	opTrunc0
	opTrunc1
	opTrunc2
	opTrunc3
	opClear
	opReopen
	opJump
	opTrimMidC0
	opTrimMidC1
	opTrimMidC2
	opTrimAllC0
	opTrimAllC1
	opTrimAllC2
	opTrunc7 // far back: past whole read-only segments that are no longer in the segment cache
	opTruncBelowFirst
	nOps
)

var opNames = []string{"Append(small)", "Append(large)", "AppendAsync(small)", "AppendAsync(large)", "Sync",
	"TruncateLog(-1)", "TruncateLog(appended)", "TruncateLog(appended-1)", "TruncateLog(appended-2)", "TruncateLog(appended-3)",
	"Clear", "Close+Reopen", "Append@5-on-empty",
	"Trim(cutoff=ts(first+1),commit=first)", "Trim(cutoff=ts(first+1),commit=first+1)", "Trim(cutoff=ts(first+1),commit=last)",
	"Trim(cutoff=all,commit=first)", "Trim(cutoff=all,commit=first+1)", "Trim(cutoff=all,commit=last)", "TruncateLog(appended-7)", "TruncateLog(first-1)"}

func viol(key, msg string) *ev.Violation { return &ev.Violation{Key: key, Message: msg} }

func (in *inst) Step(op int) (bool, *ev.Violation) {
	if in.broken != nil {
		return true, in.broken
	}
	if in.cfg.only != nil && !in.cfg.only[op] {
		return false, nil
	}
	switch op {
	case opAppS, opAppL, opAsyS, opAsyL, opJump:
		size := in.cfg.small
		if op == opAppL || op == opAsyL {
			size = in.cfg.big
		}
		off := in.appended() + 1
		if op == opJump {
			if len(in.entries) != 0 || in.first != -1 {
				return false, nil
			}
			off = 5
		}
		maxOff := int64(9)
		if in.cfg.maxOff > 0 {
			maxOff = in.cfg.maxOff
		}
		if off > maxOff {
			return false, nil
		}
		e := mentry{off: off, gen: in.gens[off], size: size}
		in.gens[off]++
		var err error
		if op == opAsyS || op == opAsyL {
			err = in.w.AppendAsync(entryOf(e))
		} else {
			err = in.w.Append(entryOf(e))
		}
		if err != nil {
			return true, viol("append-rejected:"+classify(err), fmt.Sprintf("append of offset %d (model appended=%d) failed: %v", off, in.appended(), err))
		}
		if len(in.entries) == 0 {
			in.first = off
			if in.lowDisk == -1 {
				in.lowDisk = off
			}
		}
		in.entries = append(in.entries, e)
		if !(op == opAsyS || op == opAsyL) {
			in.synced = off
		}
	case opSync:
		if err := in.w.Sync(context.Background()); err != nil {
			return true, viol("sync-failed", err.Error())
		}
		in.synced = in.appended()
	case opTruncAll, opClear:
		var err error
		if op == opClear {
			err = in.w.Clear()
		} else {
			var r int64
			r, err = in.w.TruncateLog(-1)
			if err == nil && r != -1 {
				return true, viol("truncate-result", fmt.Sprintf("TruncateLog(-1) returned %d", r))
			}
		}
		if err != nil {
			return true, viol("clear-failed", err.Error())
		}
		in.entries = nil
		in.synced, in.first, in.lowDisk = -1, -1, -1
	case opTrunc0, opTrunc1, opTrunc2, opTrunc3, opTrunc7:
		k := int64(op - opTrunc0)
		if op == opTrunc7 {
			k = 7
		}
		if len(in.entries) == 0 {
			return false, nil
		}
		o := in.appended() - k
		if o < in.first {
			return false, nil
		}
		r, err := in.w.TruncateLog(o)
		if err != nil {
			return true, viol("truncate-failed:"+classify(err), fmt.Sprintf("TruncateLog(%d) first=%d appended=%d: %v", o, in.first, in.appended(), err))
		}
		if r != o {
			return true, viol("truncate-result", fmt.Sprintf("TruncateLog(%d) returned %d", o, r))
		}
		in.entries = in.entries[:o-in.entries[0].off+1]
		in.synced = o
	case opTruncBelowFirst:
		// A log that starts above 0 with nothing on disk below its first entry (a follower after a snapshot at
		// first-1), cut back to the entry in front of it: nothing is left, as after TruncateLog(-1).
		if len(in.entries) == 0 || in.first <= 0 || in.lowDisk != in.first {
			return false, nil
		}
		o := in.first - 1
		type res struct {
			r   int64
			err error
		}
		done := make(chan res, 1)
		w := in.w
		go func() {
			r, err := w.TruncateLog(o)
			done <- res{r, err}
		}()
		select {
		case x := <-done:
			if x.err != nil {
				return true, viol("truncate-failed:"+classify(x.err), fmt.Sprintf("TruncateLog(%d) first=%d appended=%d: %v", o, in.first, in.appended(), x.err))
			}
			if x.r != -1 {
				return true, viol("truncate-result", fmt.Sprintf("TruncateLog(%d) on a log holding %d..%d returned %d", o, in.first, in.appended(), x.r))
			}
		case <-time.After(30 * time.Second):
			// not a timing oracle: the call waits for a lock its own goroutine holds; the instance is lost
			in.w = nil
			in.broken = viol("truncate-does-not-return", fmt.Sprintf("TruncateLog(%d) on a log holding %d..%d has not returned after 30 seconds", o, in.first, in.appended()))
			return true, in.broken
		}
		in.entries = nil
		in.synced, in.first, in.lowDisk = -1, -1, -1
	case opReopen:
		if err := in.w.Close(); err != nil {
			return true, viol("close-failed", err.Error())
		}
		in.w = nil
		if err := in.tryOpen(); err != nil {
			// nothing but a clean close happened: the log must open again
			return true, viol("reopen-failed", fmt.Sprintf("the log does not open after a clean close: %v", err))
		}
		// a clean close keeps everything that was appended
		in.synced = in.appended()
		// entries below the logical first offset whose segment still exists may re-appear
		nf := in.w.FirstOffset()
		if len(in.entries) > 0 {
			if nf > in.first || nf < in.lowDisk {
				return true, viol("reopen-first-offset", fmt.Sprintf("after reopen FirstOffset=%d, expected in [%d,%d]", nf, in.lowDisk, in.first))
			}
			in.first = nf
		}
	default: // trims
		if op < opTrimMidC0 || op >= nOps {
			panic("bad op")
		}
		t := op - opTrimMidC0
		mid := t < 3
		csel := t % 3
		if in.synced < 0 || in.synced < in.first {
			return false, nil
		}
		nvis := in.synced - in.first + 1
		if nvis < 2 {
			return false, nil
		}
		var cutoff int64
		if mid {
			cutoff = int64(tsOf(in.first + 1))
		} else {
			cutoff = int64(tsOf(in.synced)) + 1
		}
		var c int64
		switch csel {
		case 0:
			c = in.first
		case 1:
			c = in.first + 1
		default:
			c = in.synced
		}
		in.commit.v.Store(c)
		in.clock.Set(cutoff + retentionMs)
		oldFirst := in.first
		if err := wal.VerifDoTrim(in.w); err != nil {
			return true, viol("trim-failed:"+classify(err), fmt.Sprintf("doTrim first=%d last=%d: %v", in.first, in.synced, err))
		}
		nf := in.w.FirstOffset()
		if nf < oldFirst {
			return true, viol("trim-first-decreased", fmt.Sprintf("first %d -> %d", oldFirst, nf))
		}
		// every removed entry must be older than the cutoff and not above the commit offset
		for o := oldFirst; o < nf; o++ {
			if int64(tsOf(o)) > cutoff {
				return true, viol("trim-removed-unexpired", fmt.Sprintf("offset %d (ts %d) removed with cutoff %d", o, tsOf(o), cutoff))
			}
			if o > c {
				return true, viol("trim-above-commit", fmt.Sprintf("offset %d removed with commit offset %d", o, c))
			}
		}
		if nf > c {
			// the entry at the commit offset itself must stay
			return true, viol("trim-above-commit", fmt.Sprintf("first offset %d beyond commit offset %d", nf, c))
		}
		if nf > in.synced {
			return true, viol("trim-removed-all", fmt.Sprintf("first offset %d beyond last %d", nf, in.synced))
		}
		in.first = nf
		in.everTrim = true
	}
	if v := in.observe(); v != nil {
		return true, v
	}
	return true, nil
}

func classify(err error) string {
	switch {
	case errors.Is(err, wal.ErrInvalidNextOffset):
		return "invalid-next-offset"
	case errors.Is(err, wal.ErrEntryNotFound):
		return "entry-not-found"
	}
	s := err.Error()
	if i := strings.LastIndex(s, ": "); i >= 0 {
		s = s[i+2:]
	}
	if len(s) > 40 {
		s = s[:40]
	}
	return s
}

func (in *inst) checkEntry(got *proto.LogEntry, off int64) string {
	m := in.at(off)
	if m == nil {
		return fmt.Sprintf("read returned offset %d which the model does not hold", off)
	}
	want := entryOf(*m)
	if got.Offset != want.Offset || got.Term != want.Term || got.Timestamp != want.Timestamp || string(got.Value) != string(want.Value) {
		return fmt.Sprintf("entry at %d differs: got (off=%d term=%d ts=%d val=%q) want (off=%d term=%d ts=%d val=%q)", off,
			got.Offset, got.Term, got.Timestamp, got.Value, want.Offset, want.Term, want.Timestamp, want.Value)
	}
	return ""
}

// observe compares the whole public read API with the model.
func (in *inst) observe() *ev.Violation {
	w := in.w
	wantLast := in.synced
	if got := w.LastOffset(); got != wantLast {
		return viol("last-offset", fmt.Sprintf("LastOffset=%d model=%d (appended=%d) [%s]", got, wantLast, in.appended(), wal.VerifDump(w)))
	}
	if got := wal.VerifAppendedOffset(w); got != in.appended() {
		return viol("appended-offset", fmt.Sprintf("appended offset=%d model=%d [%s]", got, in.appended(), wal.VerifDump(w)))
	}
	if got := w.FirstOffset(); got != in.first {
		return viol("first-offset", fmt.Sprintf("FirstOffset=%d model=%d [%s]", got, in.first, wal.VerifDump(w)))
	}
	// forward reads from every position
	if in.first >= 0 {
		for after := in.first - 1; after <= in.synced; after++ {
			r, err := w.NewReader(after)
			if err != nil {
				return viol("reader-open", fmt.Sprintf("NewReader(%d) first=%d last=%d: %v", after, in.first, in.synced, err))
			}
			next := after + 1
			for r.HasNext() {
				e, err := r.ReadNext()
				if err != nil {
					_ = r.Close()
					return viol("forward-read:"+classify(err), fmt.Sprintf("forward read at %d (first=%d last=%d): %v [%s]", next, in.first, in.synced, err, wal.VerifDump(w)))
				}
				if e.Offset != next {
					_ = r.Close()
					return viol("forward-order", fmt.Sprintf("forward reader returned offset %d, expected %d", e.Offset, next))
				}
				if s := in.checkEntry(e, next); s != "" {
					_ = r.Close()
					return viol("forward-content", s+" ["+wal.VerifDump(w)+"]")
				}
				next++
			}
			_ = r.Close()
			if next != in.synced+1 {
				return viol("forward-short", fmt.Sprintf("forward reader from %d stopped at %d, last=%d", after, next, in.synced))
			}
		}
		if in.first-2 >= -1 {
			if r, err := w.NewReader(in.first - 2); err == nil {
				_ = r.Close()
				return viol("reader-below-first", fmt.Sprintf("NewReader(%d) succeeded with first=%d", in.first-2, in.first))
			}
		}
	}
	// reverse read (only defined on a non-empty visible log)
	if in.synced >= 0 && in.synced >= in.first {
		r, err := w.NewReverseReader()
		if err != nil {
			return viol("reverse-open", err.Error())
		}
		next := in.synced
		for r.HasNext() {
			e, err := r.ReadNext()
			if err != nil {
				return viol("reverse-read:"+classify(err), fmt.Sprintf("reverse read at %d: %v", next, err))
			}
			if e.Offset != next {
				return viol("reverse-order", fmt.Sprintf("reverse reader returned %d expected %d", e.Offset, next))
			}
			if s := in.checkEntry(e, next); s != "" {
				return viol("reverse-content", s)
			}
			next--
		}
		_ = r.Close()
		if next != in.first-1 {
			return viol("reverse-short", fmt.Sprintf("reverse reader stopped at %d, first=%d", next, in.first))
		}
	}
	// appends at a wrong offset must be rejected and leave no trace
	if len(in.entries) > 0 {
		for _, off := range []int64{in.appended() + 2, in.appended(), in.appended() - 1} {
			if off < 0 {
				continue
			}
			err := w.AppendAsync(&proto.LogEntry{Term: 99, Offset: off, Value: []byte("bad"), Timestamp: 1})
			if err == nil {
				return viol("bad-append-accepted", fmt.Sprintf("append at %d accepted while appended=%d", off, in.appended()))
			}
		}
		if got := wal.VerifAppendedOffset(w); got != in.appended() || w.LastOffset() != in.synced {
			return viol("bad-append-effect", fmt.Sprintf("rejected append changed offsets: appended=%d last=%d", got, w.LastOffset()))
		}
	}
	return nil
}

func (in *inst) Key() string {
	var b strings.Builder
	fmt.Fprintf(&b, "f=%d s=%d low=%d|", in.first, in.synced, in.lowDisk)
	for _, e := range in.entries {
		fmt.Fprintf(&b, "%d.%d.%d,", e.off, e.gen, e.size)
	}
	b.WriteString("|g:")
	for o := int64(0); o < 12; o++ {
		fmt.Fprintf(&b, "%d,", in.gens[o])
	}
	b.WriteString("|" + wal.VerifDump(in.w))
	return b.String()
}

func depthOf(cfg config, def int, tier string) int {
	if cfg.depth > 0 {
		if tier == "thorough" {
			return cfg.depth + 2
		}
		return cfg.depth
	}
	return def
}

func recordSize(size int) int {
	e := entryOf(mentry{off: 5, gen: 1, size: size})
	b, _ := e.MarshalVT()
	return len(b) + 12
}

func main() {
	replay := flag.String("replay", "", "replay file")
	flag.Parse()
	slog.SetDefault(slog.New(slog.NewTextHandler(io.Discard, nil)))
	scratch = ev.Scratch("c09")
	defer os.RemoveAll(scratch)
	run := ev.NewRun("C09", "model_checking")
	small, big := 8, 40
	rs, rb := recordSize(small), recordSize(big)
	cfgs := []config{
		{name: "seg=2small,sync", segSize: int32(2*rs + 3), small: small, big: big, syncData: true},
		{name: "seg=1big+1small,nosync", segSize: int32(rb + rs + 3), small: small, big: big, syncData: false},
		{name: "seg=3small,nosync", segSize: int32(3*rs + 3), small: small, big: big, syncData: false},
	}
	depth := 6
	budget := 100 * time.Second
	if run.Tier == "thorough" {
		depth = 8
		budget = 25 * time.Minute
		cfgs = append(cfgs, config{name: "seg=1big,sync", segSize: int32(rb + 3), small: small, big: big, syncData: true})
	}
	// non-initial states: a log of 10 one-record segments (more read-only segments than the segment cache
	// holds; the next rollover creates the first segment whose base offset has two digits, so the order of
	// the segment files by name and by offset differ), and a log of large records in one big segment (a
	// truncation removes more than 64 KiB)
	cfgs = append(cfgs,
		config{name: "seg=1big,sync,preloaded10", segSize: int32(rb + 3), small: small, big: big, syncData: true, preload: 10, preloadBig: true, depth: 3, maxOff: 13},
		config{name: "seg=512KiB,records=40KiB,nosync,preloaded6", segSize: 512 * 1024, small: 40 * 1024, big: 40 * 1024, syncData: false, preload: 6, depth: 4, maxOff: 8,
			only: map[int]bool{opAppS: true, opAsyS: true, opSync: true, opTrunc1: true, opTrunc2: true, opTrunc3: true, opReopen: true}})
	if d := os.Getenv("VERIF_DEPTH"); d != "" {
		fmt.Sscanf(d, "%d", &depth)
	}
	if *replay != "" {
		os.Exit(doReplay(*replay, cfgs))
	}
	deadline := time.Now().Add(budget)
	for _, cfg := range cfgs {
		cfg := cfg
		spec := seqx.Spec{Name: "wal-seq", Config: cfg.name, NOps: nOps, OpName: func(i int) string { return opNames[i] },
			New: func(w int) seqx.Instance { return newInst(cfg, w) }, MaxDepth: depthOf(cfg, depth, run.Tier), Deadline: deadline}
		res := seqx.Explore(spec)
		seqx.Report(run, spec, res)
		run.Add("distinct_states", res.States)
	}
	run.Coverage["configs"] = len(cfgs)
	run.Coverage["max_depth"] = depth
	run.Sample(map[string]any{"config": cfgs[0].name, "ops": []string{opNames[opAppS], opAppS2(), opNames[opTrunc1], opNames[opAsyS], opNames[opReopen]}})
	run.Assume = []string{"timestamps are monotone in the offset (the leader stamps entries with its clock)",
		"after Close+Reopen entries below the logical first offset may re-appear while their segment file still exists; content must still match",
		"filesystem is /dev/shm; no crash (C10 covers crashes)"}
	// distinct_nontrivial = distinct canonical states reached (each is a different WAL content/layout)
	run.DistinctN(run.Get("distinct_states"))
	os.Exit(run.Finish(fmt.Sprintf("BFS over all operation sequences up to max_depth from a %d-operation alphabet per", nOps) + " (segment size, payload size, sync mode) configuration; a state is distinct when its canonical key (model entries, generations, segment layout, cache) differs"))
}

func opAppS2() string { return opNames[opAppL] }

func doReplay(path string, cfgs []config) int {
	var doc struct {
		First struct {
			Replay struct {
				Config  string `json:"config"`
				Indices []int  `json:"indices"`
			} `json:"replay"`
		} `json:"first"`
	}
	if err := ev.ReadJSON(path, &doc); err != nil {
		fmt.Println("cannot read replay:", err)
		return 2
	}
	for _, cfg := range cfgs {
		if cfg.name == doc.First.Replay.Config {
			cfg := cfg
			spec := seqx.Spec{Name: "wal-seq", Config: cfg.name, NOps: nOps, OpName: func(i int) string { return opNames[i] },
				New: func(w int) seqx.Instance { return newInst(cfg, w) }}
			v := seqx.Replay(spec, doc.First.Replay.Indices)
			if v != nil {
				fmt.Printf("VIOLATION property=C09 replay=%s\n  %s: %s\n", path, v.Key, v.Message)
				return 1
			}
			fmt.Println("replay passed")
			return 0
		}
	}
	fmt.Println("config not found")
	return 2
}
