// C05 (schedule stage, coordinator side): a term the coordinator has made durable stays durable. The
// shard controller stores the new term in the cluster status before it sends NewTerm; other parts of
// the coordinator rewrite the same status document (ConfigChanged does a compare-and-set of the whole
// status). Here the real coordinator.ConfigChanged (a namespace is removed: no shard is added) races
// with the status write of an election of another shard; every schedule of the two up to the deviation
// bound is run. At quiescence the status a restarted coordinator loads must hold the elected term.
package main

import (
	"flag"
	"fmt"
	"os"
	"time"

	"github.com/oxia-db/oxia/coordinator"
	"github.com/oxia-db/oxia/coordinator/metadata"
	"github.com/oxia-db/oxia/coordinator/model"
	"github.com/oxia-db/oxia/coordinator/resources"
	"github.com/oxia-db/oxia/coordinator/selectors/single"
	"github.com/oxia-db/oxia/zzverif/vsched"

	"verif/lib/oxh"
	"verif/lib/sched"
)

func srv(i int) model.Server {
	n := fmt.Sprintf("s%d", i)
	return model.Server{Name: &n, Public: n + ":6648", Internal: n + ":6649"}
}

func config(namespaces ...string) model.ClusterConfig {
	cfg := model.ClusterConfig{ServerMetadata: map[string]model.ServerMetadata{}}
	for _, n := range namespaces {
		cfg.Namespaces = append(cfg.Namespaces, model.NamespaceConfig{Name: n, InitialShardCount: 1, ReplicationFactor: 3})
	}
	for i := 1; i <= 3; i++ {
		cfg.Servers = append(cfg.Servers, srv(i))
	}
	return cfg
}

// body: elections = number of consecutive elections of ns1's shard whose status writes race with the
// configuration change; viaDelete: instead of ConfigChanged, the other writer is the removal of the metadata
// of a deleted shard (what a shard controller does once every ensemble member confirmed the deletion).
func body(elections int, viaDelete bool) func(s *vsched.Sched) {
	return func(s *vsched.Sched) {
		s.Explore(false)
		meta := metadata.NewMetadataProviderMemory()
		vc := coordinator.VerifNewCoordinator(meta, single.DefaultShardsRank)
		defer vc.Close()
		if _, _, p := vc.VerifConfigChanged(config("ns1", "ns2")); p != nil {
			s.Fail("harness-setup", fmt.Sprint(p))
			return
		}
		sr := vc.StatusResource()
		st := sr.Load()
		var shard int64 = -1
		for id := range st.Namespaces["ns1"].Shards {
			shard = id
		}
		if shard < 0 {
			s.Fail("harness-setup", "no shard in ns1")
			return
		}
		// the shard has a leader in term 4
		md := st.Namespaces["ns1"].Shards[shard].Clone()
		md.Term = 4
		md.Status = model.ShardStatusSteadyState
		l := md.Ensemble[0]
		md.Leader = &l
		sr.UpdateShardMetadata("ns1", shard, md)
		s.Settle()
		s.Explore(true)
		sent := int64(4)
		vsched.Go(func() {
			// what shardController.electLeader does before it sends NewTerm: term+1, no leader, stored
			for i := 0; i < elections; i++ {
				m := sr.Load().Namespaces["ns1"].Shards[shard].Clone()
				m.Term = sent + 1
				m.Status = model.ShardStatusElection
				m.Leader = nil
				sr.UpdateShardMetadata("ns1", shard, m)
				sent = m.Term // from here on NewTerm(sent) is on its way to the nodes
			}
		})
		if viaDelete {
			var other int64 = -1
			for id := range st.Namespaces["ns2"].Shards {
				other = id
			}
			vsched.Go(func() { sr.DeleteShardMetadata("ns2", other) })
		} else {
			vsched.Go(func() { vc.VerifRealConfigChanged(config("ns1")) })
		}
		s.Settle()
		s.Explore(false)
		// a restarted coordinator loads the status from the metadata store
		got := resources.NewStatusResource(meta).Load()
		ns, ok := got.Namespaces["ns1"]
		if !ok {
			s.Fail("shard-metadata-lost", "namespace ns1 is gone from the stored status")
			return
		}
		if t := ns.Shards[shard].Term; t < sent {
			s.Fail("durable-term-went-back", fmt.Sprintf("NewTerm(%d) was sent for shard %d after term %d had been stored; after a concurrent configuration change the stored status holds term %d: a restarted coordinator issues term %d again", sent, shard, sent, t, t+1))
		}
		_, ns2 := got.Namespaces["ns2"]
		del := ns2
		if viaDelete {
			if ns2 && len(got.Namespaces["ns2"].Shards) != 0 {
				s.Fail("config-change-lost", "the metadata of the deleted shard of ns2 is still stored")
			}
			ns2 = false
		}
		if ns2 {
			for _, m := range got.Namespaces["ns2"].Shards {
				del = del && m.Status == model.ShardStatusDeleting
			}
		}
		if ns2 && !del {
			s.Fail("config-change-lost", "namespace ns2 was removed from the configuration but its shards are not marked for deletion")
		}
		s.Data = fmt.Sprintf("term=%d ns2=%v", ns.Shards[shard].Term, ns2)
	}
}

func scenarios(tier string) []sched.Scenario {
	cfg := vsched.Config{MaxSteps: 100000}
	dev := 3
	if tier == "thorough" {
		dev = 5
	}
	return []sched.Scenario{
		{Name: "config-change-vs-election-status-write", Cfg: cfg, MaxDev: dev, Body: body(1, false)},
		{Name: "config-change-vs-two-election-status-writes", Cfg: cfg, MaxDev: dev, Body: body(2, false)},
		{Name: "shard-metadata-removal-vs-election-status-write", Cfg: cfg, MaxDev: dev, Body: body(1, true)},
		{Name: "shard-metadata-removal-vs-two-election-status-writes", Cfg: cfg, MaxDev: dev, Body: body(2, true)},
	}
}

func main() {
	replay := flag.String("replay", "", "replay file")
	flag.Parse()
	oxh.Quiet()
	su := sched.Suite{Property: "C05", Scenarios: scenarios, Stage2: os.Getenv("VERIF_STAGE2") != "",
		Budget: func(tier string) time.Duration {
			if tier == "thorough" {
				return 10 * time.Minute
			}
			return 40 * time.Second
		},
		Rule:   "every schedule with at most max_dev non-default scheduling choices of the real coordinator.ConfigChanged (a namespace removed), or of the removal of a deleted shard's metadata (StatusResource.DeleteShardMetadata), racing with one or two status writes of an election of another shard on the real status resource over the in-memory metadata provider",
		Assume: []string{"sequentially consistent memory", "deviation-bounded schedules", "the election is represented by its status write (UpdateShardMetadata with term+1), the step after which NewTerm is sent"}}
	os.Exit(sched.Main(su, *replay))
}
