// C08: the leader write pipeline is order-preserving and does not fail spuriously.
// The harness lives in lib/pipeh (shared with the schedule stage of C07).
package main

import (
	"os"

	"verif/lib/pipeh"
)

func main() { os.Exit(pipeh.Main("C08", false, nil, "")) }
