// C02, fine-grained stage: concurrent writers colliding on one key on a real RF=3 leader, every
// schedule of writers, WAL sync thread, follower cursors and ack receivers up to the deviation
// bound (the cluster stage h/c02 preempts only at coarse points). What a client can read from
// the leader must be the state the committed log produces: each writer gets the response of
// its own request, version ids follow the log order, and the leader's database equals the fold
// of the log (otherwise a read is served from a state that the next leader will not have).
package main

import (
	"os"

	"verif/lib/pipeh"
)

func main() {
	keep := map[string]bool{"leader-state-not-fold-of-log": true, "apply-out-of-order": true, "response-mismatch": true,
		"acked-write-missing": true, "duplicate-offset": true, "committed-entry-not-applied": true, "harness-setup": true}
	os.Exit(pipeh.Main("C02", os.Getenv("VERIF_STAGE2") != "", keep,
		"every schedule of 2-3 writers colliding on one key, the WAL sync thread, follower cursors and ack receivers with at most max_dev non-default scheduling choices on the real leader controller; at quiescence the leader's database must equal the fold of its committed log and every writer holds the response of its own request"))
}
