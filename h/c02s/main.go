// C02, fine-grained stage: concurrent writers colliding on one key on a real RF=3 leader, every
// schedule of writers, WAL sync thread, follower cursors and ack receivers up to the deviation
// bound (the cluster stage h/c02 preempts only at coarse points). What a client can read from
// the leader must be the state the committed log produces: each writer gets the response of
// its own request, version ids follow the log order, and the leader's database equals the fold
// of the log (otherwise a read is served from a state that the next leader will not have).
package main

import (
	"context"
	"fmt"
	"os"
	"time"

	"github.com/oxia-db/oxia/proto"
	"github.com/oxia-db/oxia/server"
	"github.com/oxia-db/oxia/server/kv"
	"github.com/oxia-db/oxia/zzverif/vsched"

	"verif/lib/oxc"
	"verif/lib/oxh"
	"verif/lib/pipeh"
	"verif/lib/sched"
)

// floorBody: a get with FLOOR comparison on a real RF=1 leader races with two committed writes. The database holds
// i and j (i < j < k). The writer puts k, then deletes j. The floor of k is j, then k, then k: the answer i was
// never true. The engine's calls are not instrumented; the point between getFloor's two looks at the database is a
// hook (kv.VerifFloorHook).
func floorBody() func(s *vsched.Sched) {
	return func(s *vsched.Sched) {
		s.Explore(false)
		env := oxc.NewEnv(s)
		kvf := oxc.NewObsFactory(env.Dir)
		lc, err := server.NewLeaderController(server.Config{NotificationsRetentionTime: time.Hour}, "ns", 1, oxc.NewNet(), env.WalFactory("n1", 64*1024, true), kvf)
		if err == nil {
			_, err = lc.NewTerm(&proto.NewTermRequest{Namespace: "ns", Shard: 1, Term: 1, Options: &proto.NewTermOptions{EnableNotifications: true}})
		}
		if err == nil {
			_, err = lc.BecomeLeader(context.Background(), &proto.BecomeLeaderRequest{Namespace: "ns", Shard: 1, Term: 1, ReplicationFactor: 1, FollowerMaps: map[string]*proto.EntryId{}})
		}
		if err == nil {
			_, err = lc.WriteBlock(context.Background(), &proto.WriteRequest{Shard: oxh.I64(1), Puts: []*proto.PutRequest{{Key: "i", Value: []byte("1")}, {Key: "j", Value: []byte("2")}}})
		}
		if err != nil {
			s.Fail("harness-setup", err.Error())
			return
		}
		kv.VerifFloorHook = func() { s.Step(77) }
		defer func() { kv.VerifFloorHook = nil }()
		s.Settle()
		s.Explore(true)
		vsched.Go(func() {
			_, _ = lc.WriteBlock(context.Background(), &proto.WriteRequest{Shard: oxh.I64(1), Puts: []*proto.PutRequest{{Key: "k", Value: []byte("3")}}})
			_, _ = lc.WriteBlock(context.Background(), &proto.WriteRequest{Shard: oxh.I64(1), Deletes: []*proto.DeleteRequest{{Key: "j"}}})
		})
		rd := &reader{}
		vsched.Go(func() {
			lc.Read(context.Background(), &proto.ReadRequest{Shard: oxh.I64(1), Gets: []*proto.GetRequest{{Key: "k", ComparisonType: proto.KeyComparisonType_FLOOR, IncludeValue: true}}}, rd)
		})
		s.Settle()
		s.Explore(false)
		switch {
		case !rd.done || rd.err != nil || len(rd.got) != 1:
			s.Fail("harness-setup", fmt.Sprintf("the read did not complete: done=%v err=%v answers=%d", rd.done, rd.err, len(rd.got)))
		case rd.got[0].Status != proto.Status_OK || (rd.got[0].GetKey() != "j" && rd.got[0].GetKey() != "k"):
			s.Fail("floor-get-answer-never-true", fmt.Sprintf("Get(FLOOR k) answered status %v key %q while put(k) and delete(j) were committed, in that order, on a database holding i and j: the floor of k was j, then k", rd.got[0].Status, rd.got[0].GetKey()))
		}
		if len(rd.got) == 1 {
			s.Data = "floor=" + rd.got[0].GetKey()
		}
		_ = lc.Close()
	}
}

type reader struct {
	got  []*proto.GetResponse
	done bool
	err  error
}

func (r *reader) OnNext(g *proto.GetResponse) error { r.got = append(r.got, g.CloneVT()); return nil }
func (r *reader) OnComplete(err error)              { r.done, r.err = true, err }

func main() {
	pipeh.ExtraLeader = func(tier string) []sched.Scenario {
		return []sched.Scenario{{Name: "floor-get-vs-put-and-delete", Cfg: vsched.Config{MaxSteps: 50000}, MaxDev: 3, Body: floorBody()}}
	}
	keep := map[string]bool{"leader-state-not-fold-of-log": true, "apply-out-of-order": true, "response-mismatch": true,
		"acked-write-missing": true, "duplicate-offset": true, "committed-entry-not-applied": true, "harness-setup": true, "floor-get-answer-never-true": true, "write-acknowledged-without-quorum": true}
	os.Exit(pipeh.Main("C02", os.Getenv("VERIF_STAGE2") != "", keep,
		"every schedule of 2-3 writers colliding on one key, the WAL sync thread, follower cursors and ack receivers with at most max_dev non-default scheduling choices on the real leader controller; at quiescence the leader's database must equal the fold of its committed log and every writer holds the response of its own request"))
}
