// C05, protocol-event stage (whole node, both roles): the term a node has answered for never goes back across role changes, restarts and crashes (lib/nfsm).
package main

import (
	"os"

	"verif/lib/nfsm"
)

func main() {
	os.Exit(nfsm.Main("C05", map[string]bool{"node-term-decreased": true, "stale-newterm-accepted": true, "stale-become-leader-accepted": true, "restart-failed": true, "harness-setup": true, "panic": true}))
}
