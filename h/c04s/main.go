// C04 (schedule stage): the head a node reports when it answers a new-term request stays the end of
// its log. A real follower controller holds a few acknowledged entries; one request of the deposed
// leader (an append on the open stream, a truncation, the start of a snapshot transfer) is in flight
// while the coordinator's NewTerm arrives. Every schedule of the two (and of the follower's own
// threads) up to the deviation bound is run; at quiescence the log must end exactly where the
// NewTerm answer said it ends, whichever of the two was served first.
package main

import (
	"context"
	"flag"
	"fmt"
	"os"
	"path/filepath"
	"time"

	time2 "github.com/oxia-db/oxia/common/time"
	"github.com/oxia-db/oxia/proto"
	"github.com/oxia-db/oxia/server"
	"github.com/oxia-db/oxia/server/kv"
	"github.com/oxia-db/oxia/server/wal"
	"github.com/oxia-db/oxia/zzverif/vsched"

	"verif/lib/oxc"
	"verif/lib/oxh"
	"verif/lib/sched"
)

const (
	ns    = "ns"
	shard = int64(1)
)

func entry(term, off int64) *proto.LogEntry {
	lev := &proto.LogEntryValue{Value: &proto.LogEntryValue_Requests{Requests: &proto.WriteRequests{Writes: []*proto.WriteRequest{
		{Shard: oxh.I64(shard), Puts: []*proto.PutRequest{{Key: fmt.Sprintf("k%d", off%2), Value: []byte(fmt.Sprintf("v%d", off))}}}}}}}
	b, _ := lev.MarshalVT()
	return &proto.LogEntry{Term: term, Offset: off, Value: b, Timestamp: uint64(1000 + off)}
}

// donorChunks builds the snapshot a leader of `term` holding entries 0..upTo would send.
func donorChunks(dir string, upTo, term int64) ([]*proto.SnapshotChunk, error) {
	pf, err := kv.NewPebbleKVFactory(&kv.FactoryOptions{DataDir: dir, CacheSizeMB: 1})
	if err != nil {
		return nil, err
	}
	defer pf.Close()
	db, err := kv.NewDB(ns, shard, pf, time.Hour, time2.SystemClock)
	if err != nil {
		return nil, err
	}
	defer db.Close()
	if err := db.UpdateTerm(term, kv.TermOptions{NotificationsEnabled: true}); err != nil {
		return nil, err
	}
	for o := int64(0); o <= upTo; o++ {
		lev := &proto.LogEntryValue{}
		_ = lev.UnmarshalVT(entry(term, o).Value)
		for _, w := range lev.GetRequests().GetWrites() {
			if _, err := db.ProcessWrite(w, o, uint64(1000+o), server.WrapperUpdateOperationCallback); err != nil {
				return nil, err
			}
		}
	}
	sn, err := db.Snapshot()
	if err != nil {
		return nil, err
	}
	defer sn.Close()
	var out []*proto.SnapshotChunk
	for ; sn.Valid(); sn.Next() {
		c, err := sn.Chunk()
		if err != nil {
			return nil, err
		}
		out = append(out, &proto.SnapshotChunk{Term: term, Name: c.Name(), Content: append([]byte{}, c.Content()...), ChunkIndex: c.Index(), ChunkCount: c.TotalCount()})
	}
	return out, nil
}

func walEnd(fc server.FollowerController) (term, off int64) {
	w := server.VerifFollowerWal(fc)
	lo := w.LastOffset()
	if lo < 0 {
		return -1, -1
	}
	rd, err := w.NewReverseReader()
	if err != nil {
		return -1, lo
	}
	defer rd.Close()
	if rd.HasNext() {
		if e, err := rd.ReadNext(); err == nil {
			return e.Term, e.Offset
		}
	}
	return -1, lo
}

const (
	inflightAppend = iota
	inflightTruncate
	inflightSnapshot
)

// body: a follower with n acknowledged entries of term 1; `what` of the old leader races with NewTerm.
func body(what int, n int64) func(s *vsched.Sched) {
	return func(s *vsched.Sched) {
		s.Explore(false)
		env := oxc.NewEnv(s)
		net := oxc.NewNet()
		kvf, err := kv.NewPebbleKVFactory(&kv.FactoryOptions{DataDir: filepath.Join(env.Dir, "n2", "db"), CacheSizeMB: 1})
		if err != nil {
			s.Fail("harness-setup", err.Error())
			return
		}
		walf := wal.NewWalFactory(&wal.FactoryOptions{BaseWalDir: filepath.Join(env.Dir, "n2", "wal"), Retention: time.Hour, SegmentSize: 64 * 1024, SyncData: true})
		fc, err := server.NewFollowerController(server.Config{NotificationsRetentionTime: time.Hour}, ns, shard, walf, kvf)
		if err != nil {
			s.Fail("harness-setup", err.Error())
			return
		}
		defer func() {
			_ = fc.Close()
			_ = walf.Close()
			_ = kvf.Close()
		}()
		net.Peers["n2"] = fc
		opts := &proto.NewTermOptions{EnableNotifications: true}
		if _, err := fc.NewTerm(&proto.NewTermRequest{Namespace: ns, Shard: shard, Term: 1, Options: opts}); err != nil {
			s.Fail("harness-setup", err.Error())
			return
		}
		stream, err := net.GetReplicateStream(context.Background(), "n2", ns, shard, 1)
		if err != nil {
			s.Fail("harness-setup", err.Error())
			return
		}
		var acks []int64
		vsched.Go(func() {
			for {
				a, err := stream.Recv()
				if err != nil {
					return
				}
				acks = append(acks, a.Offset)
			}
		})
		for o := int64(0); o < n; o++ {
			if err := stream.Send(&proto.Append{Term: 1, Entry: entry(1, o), CommitOffset: o - 1}); err != nil {
				s.Fail("harness-setup", err.Error())
				return
			}
		}
		s.Settle()
		if int64(len(acks)) != n {
			s.Fail("harness-setup", fmt.Sprintf("%d of %d entries acknowledged", len(acks), n))
			return
		}
		fenceTerm := int64(2)
		var chunks []*proto.SnapshotChunk
		switch what {
		case inflightTruncate:
			// a truncation is only served by a fenced node: the node is fenced at term 2, the leader of term 2
			// truncates while the coordinator already starts term 3
			if _, err := fc.NewTerm(&proto.NewTermRequest{Namespace: ns, Shard: shard, Term: 2, Options: opts}); err != nil {
				s.Fail("harness-setup", err.Error())
				return
			}
			s.Settle()
			fenceTerm = 3
		case inflightSnapshot:
			// the leader closes its replication stream before it sends a snapshot
			_ = stream.CloseSend()
			s.Settle()
			if chunks, err = donorChunks(filepath.Join(env.Dir, "donor"), n+1, 1); err != nil {
				s.Fail("harness-setup", "donor snapshot: "+err.Error())
				return
			}
		}
		ctx, cancel := context.WithCancel(context.Background())
		defer cancel()
		s.Explore(true)
		old := ""
		switch what {
		case inflightAppend:
			// already on the wire when the exploration starts
			if err := stream.Send(&proto.Append{Term: 1, Entry: entry(1, n), CommitOffset: n - 1}); err != nil {
				old = "append: " + err.Error()
			}
		case inflightTruncate:
			vsched.Go(func() {
				_, err := net.Truncate("n2", &proto.TruncateRequest{Namespace: ns, Shard: shard, Term: 2, HeadEntryId: &proto.EntryId{Term: 1, Offset: n - 2}})
				old = fmt.Sprintf("truncate: %v", err)
			})
		case inflightSnapshot:
			vsched.Go(func() {
				cl, err := net.SendSnapshot(ctx, "n2", ns, shard, 1)
				if err != nil {
					old = "snapshot: " + err.Error()
					return
				}
				for _, c := range chunks {
					if err := cl.Send(c); err != nil {
						break
					}
				}
				r, err := cl.CloseAndRecv()
				old = fmt.Sprintf("snapshot: %v %v", r.GetAckOffset(), err)
			})
		}
		var head *proto.EntryId
		var fenceErr error
		vsched.Go(func() {
			r, err := fc.NewTerm(&proto.NewTermRequest{Namespace: ns, Shard: shard, Term: fenceTerm, Options: opts})
			fenceErr = err
			if err == nil {
				head = r.HeadEntryId
			}
		})
		s.Settle()
		s.Explore(false)
		cancel()
		s.Settle()
		wt, wo := walEnd(fc)
		if fenceErr != nil {
			s.Fail("newterm-refused", fmt.Sprintf("NewTerm(%d) refused by a node in term %d: %v", fenceTerm, fenceTerm-1, fenceErr))
		} else if head.Offset != wo || (wo >= 0 && head.Term != wt) {
			s.Fail("head-changed-after-fence", fmt.Sprintf("NewTerm(%d) answered head (%d,%d); with no request of a term >= %d served since, the log now ends at (%d,%d) [old leader's request: %s]",
				fenceTerm, head.Term, head.Offset, fenceTerm, wt, wo, old))
		}
		for _, a := range acks[n:] {
			if head != nil && a > head.Offset {
				s.Fail("ack-beyond-reported-head", fmt.Sprintf("offset %d acknowledged to the term-1 leader, NewTerm(%d) reported head offset %d", a, fenceTerm, head.Offset))
			}
		}
		st, _ := fc.GetStatus(&proto.GetStatusRequest{Shard: shard})
		s.Data = fmt.Sprintf("head=%v end=(%d,%d) term=%d old=%s", head, wt, wo, st.GetTerm(), old)
	}
}

func scenarios(tier string) []sched.Scenario {
	cfg := vsched.Config{MaxSteps: 50000}
	dev := 2
	if tier == "thorough" {
		dev = 3
	}
	return []sched.Scenario{
		{Name: "append-in-flight-vs-newterm", Cfg: cfg, MaxDev: dev, Body: body(inflightAppend, 3)},
		{Name: "truncate-in-flight-vs-newterm", Cfg: cfg, MaxDev: dev, Body: body(inflightTruncate, 3)},
		{Name: "snapshot-start-vs-newterm", Cfg: cfg, MaxDev: dev, Body: body(inflightSnapshot, 3)},
	}
}

func main() {
	replay := flag.String("replay", "", "replay file")
	flag.Parse()
	oxh.Quiet()
	kv.VerifMemTableSize = 1 << 20
	kv.VerifNoAutoCompactions = true
	su := sched.Suite{Property: "C04", Scenarios: scenarios, Stage2: os.Getenv("VERIF_STAGE2") != "",
		Budget: func(tier string) time.Duration {
			if tier == "thorough" {
				return 15 * time.Minute
			}
			return 60 * time.Second
		},
		Rule:   "every schedule with at most max_dev non-default scheduling choices of one in-flight request of the deposed leader (append, truncation, start of a snapshot transfer) racing with NewTerm on a real follower controller holding three acknowledged entries",
		Assume: []string{"sequentially consistent memory", "deviation-bounded schedules", "the storage engine's background compactions are off (real directory, deterministic replay)"}}
	os.Exit(sched.Main(su, *replay))
}
