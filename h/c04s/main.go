// C04 (schedule stage): the head a node reports when it answers a new-term request stays the end of
// its log (lib/fsnap: one request of the deposed leader in flight while NewTerm arrives).
package main

import (
	"flag"
	"os"
	"time"

	"github.com/oxia-db/oxia/server/kv"

	"verif/lib/fsnap"
	"verif/lib/oxh"
	"verif/lib/sched"
)

func main() {
	replay := flag.String("replay", "", "replay file")
	flag.Parse()
	oxh.Quiet()
	kv.VerifMemTableSize = 1 << 20
	kv.VerifNoAutoCompactions = true
	su := sched.Suite{Property: "C04", Scenarios: fsnap.FencingScenarios, Stage2: os.Getenv("VERIF_STAGE2") != "",
		Budget: func(tier string) time.Duration {
			if tier == "thorough" {
				return 15 * time.Minute
			}
			return 60 * time.Second
		},
		Rule:   "every schedule with at most max_dev non-default scheduling choices of one in-flight request of the deposed leader (append, truncation, start of a snapshot transfer) racing with NewTerm on a real follower controller holding three acknowledged entries",
		Assume: []string{"sequentially consistent memory", "deviation-bounded schedules", "the storage engine's background compactions are off (real directory, deterministic replay)"}}
	os.Exit(sched.Main(su, *replay))
}
