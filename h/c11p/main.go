// C11, public read path stage: what Read, List and RangeScan send to a client is what the leader controller
// produced, however the result is cut into messages (lib/pubrpc).
package main

import (
	"os"

	"verif/lib/pubrpc"
)

func main() { os.Exit(pubrpc.Main("C11")) }
