// C18 (schedule stage): client and server agree on the shard map. A client that subscribes to the shard
// assignments of a storage node while the coordinator pushes a new map either receives that map or is cut
// off (and reconnects): it is never left connected with a superseded map. The real assignment dispatcher
// of the server, one or two subscribers whose Send is a scheduling point (a slow client), one or two
// pushes; every schedule up to the deviation bound.
package main

import (
	"context"
	"flag"
	"fmt"
	"os"
	"sort"
	"time"

	"github.com/oxia-db/oxia/proto"
	"github.com/oxia-db/oxia/server"
	"github.com/oxia-db/oxia/zzverif/vsched"

	"verif/lib/oxh"
	"verif/lib/sched"
)

func amap(first int64) *proto.ShardAssignments {
	mk := func(id int64, lo, hi uint32) *proto.ShardAssignment {
		return &proto.ShardAssignment{Shard: id, Leader: fmt.Sprintf("n%d:6648", id), ShardBoundaries: &proto.ShardAssignment_Int32HashRange{
			Int32HashRange: &proto.Int32HashRange{MinHashInclusive: lo, MaxHashInclusive: hi}}}
	}
	return &proto.ShardAssignments{Namespaces: map[string]*proto.NamespaceShardsAssignment{"default": {
		ShardKeyRouter: proto.ShardKeyRouter_XXHASH3,
		Assignments:    []*proto.ShardAssignment{mk(first, 0, 1<<31-1), mk(first+1, 1<<31, 1<<32-1)}}}}
}

func ids(a *proto.ShardAssignments) string {
	if a == nil {
		return "none"
	}
	var out []int64
	for _, x := range a.Namespaces["default"].GetAssignments() {
		out = append(out, x.Shard)
	}
	sort.Slice(out, func(i, j int) bool { return out[i] < out[j] })
	return fmt.Sprint(out)
}

func body(pushes, subscribers int) func(s *vsched.Sched) {
	return func(s *vsched.Sched) {
		s.Explore(false)
		d := server.VerifC18NewDispatcher()
		defer server.VerifC18CloseDispatcher(d)
		if err := server.VerifC18Push(d, amap(0)); err != nil {
			s.Fail("harness-setup", err.Error())
			return
		}
		ctx, cancel := context.WithCancel(context.Background())
		defer cancel()
		type sub struct {
			last     *proto.ShardAssignments
			n        int
			returned bool
			err      error
		}
		subs := make([]*sub, subscribers)
		s.Explore(true)
		for i := range subs {
			sb := &sub{}
			subs[i] = sb
			vsched.Go(func() {
				sb.err = server.VerifC18Subscribe(ctx, d, "default", func(a *proto.ShardAssignments) {
					s.Step(11) // the message is on its way to a slow client
					sb.last = a
					sb.n++
				})
				sb.returned = true
			})
		}
		current := amap(0)
		vsched.Go(func() {
			for p := 1; p <= pushes; p++ {
				m := amap(int64(2 * p))
				if err := server.VerifC18Push(d, m); err != nil {
					s.Fail("harness-setup", err.Error())
					return
				}
				current = m
			}
		})
		s.Settle()
		s.Explore(false)
		out := ""
		for i, sb := range subs {
			switch {
			case sb.returned:
				out += fmt.Sprintf(" sub%d=cut-off(%v)", i, sb.err) // the client reconnects and reads the current map
			case ids(sb.last) != ids(current):
				s.Fail("connected-client-holds-superseded-map", fmt.Sprintf("subscriber %d is still connected and nothing is in flight; the last map it was sent has shards %s, the node's current map has %s (%d messages received)", i, ids(sb.last), ids(current), sb.n))
			default:
				out += fmt.Sprintf(" sub%d=%s", i, ids(sb.last))
			}
		}
		s.Data = "current=" + ids(current) + out
		cancel()
		s.Settle()
	}
}

func scenarios(tier string) []sched.Scenario {
	cfg := vsched.Config{MaxSteps: 20000}
	dev := 4
	if tier == "thorough" {
		dev = 6
	}
	return []sched.Scenario{
		{Name: "subscribe-vs-push", Cfg: cfg, MaxDev: dev, Body: body(1, 1)},
		{Name: "subscribe-vs-two-pushes", Cfg: cfg, MaxDev: dev, Body: body(2, 1)},
		{Name: "two-subscribers-vs-push", Cfg: cfg, MaxDev: dev, Body: body(1, 2)},
	}
}

func main() {
	replay := flag.String("replay", "", "replay file")
	flag.Parse()
	oxh.Quiet()
	su := sched.Suite{Property: "C18", Scenarios: scenarios, Stage2: os.Getenv("VERIF_STAGE2") != "",
		Budget: func(tier string) time.Duration {
			if tier == "thorough" {
				return 10 * time.Minute
			}
			return 40 * time.Second
		},
		Rule:   "every schedule with at most max_dev non-default scheduling choices of one or two clients subscribing to the shard assignments of a node (real RegisterForUpdates, the client's Send being a scheduling point) racing with one or two pushes of a new map (real updateShardAssignment)",
		Assume: []string{"sequentially consistent memory", "deviation-bounded schedules", "a client that is cut off reconnects and reads the current map (sequential stage)"}}
	os.Exit(sched.Main(su, *replay))
}
