#!/usr/bin/env python3
"""Regenerates /verif/MANIFEST.json from the table below (one place to keep it valid)."""
import json, os, sys

ROOT = os.path.dirname(os.path.dirname(os.path.abspath(__file__)))
props = [json.loads(l) for l in open(os.path.join(ROOT, 'properties.jsonl'))]

SCHED_NOTE = ("Sequentially consistent interleavings only (data races are outside a cooperative scheduler); "
              "deviation-bounded, not all interleavings; the instrumentation is a mechanical source rewrite "
              "(sync/atomic/time/rand/backoff imports, go statements, channel operations, select, range over map/chan) "
              "validated by running the repository's own tests on the rewritten code in pass-through mode.")
CLUSTER_NOTE = ("Sequentially consistent interleavings, deviation-bounded at coarse points (locks/atomics inside a node are not "
                "preemption points in the cluster harness; the component harnesses of C03/C04/C08 cover those); gRPC replaced by "
                "in-process transports; one shard, <=4 nodes, one fault per scenario; virtual time.")
T_SCHED = "stateless model checking of the implementation (controlled cooperative scheduler, deviation-bounded DFS over schedules)"
T_FSM = "explicit-state model checking of the follower controller as a protocol state machine (all event sequences up to a depth replayed on the real controller against a list model)"
LEADER_FSM = " A leader-conformance stage replays every sequence of leader protocol events (new term; election with one of 9 ensemble shapes: followers level, one entry behind, empty, at the end of an older term, holding a longer uncommitted tail of an older term, down; client put; put and election while no follower answers; restart; crash) up to the depth from a two-term start state on a real leader controller against checking followers that verify every truncation, append and snapshot they are sent."
NODE_FSM = " A further stage searches the whole node as a protocol state machine across its roles (11 events: NewTerm next/same/stale, BecomeLeader current/stale, client puts and gets, appends while following, restart, crash; every sequence up to the depth on a real server with two scripted acknowledging followers): term monotone, stale requests refused, no write on a non-leader, database == fold of the node's own log, acknowledged writes readable with their value and version whenever the node leads."
T_SEQX = "explicit-state model checking of the implementation (BFS over operation sequences with state de-duplication against a reference model)"

# id -> dict(stages=[harness ids], level, text, ref, note, technique, engine)
C = {}
def add(pid, stages, level, text, ref, note, technique, engine):
    C[pid] = dict(stages=stages, level=level, text=text, ref=ref, note=note, technique=technique, engine=engine)

add('C01', ['C01', 'C01W', 'C01N'], 'exploration',
    "Stateless exploration of a real cluster (3-4 real server.Server nodes: shards director, leader/follower controllers, WAL, Pebble on a crash-simulating filesystem; the real coordinator ShardController with a real StatusResource over the memory metadata provider; in-process transports) under the cooperative scheduler: 2 concurrent client writers (two-operation requests, with secondary-index entries) plus one fault per scenario (leader crash, crash+restart, spurious failover, swap of a follower / of the leader, swap with unreachable members, coordinator crash mid-election, lost NewTerm / BecomeLeader answers, the answer of any one coordinator RPC lost (which one is enumerated), a replication connection dropping under any one message (which one is enumerated), BecomeLeader timing out on a partitioned candidate, rolling isolation over four terms, swap + restore from snapshot + the new node leading); every schedule with <=1 (thorough <=2) non-default coarse scheduling choices; every acknowledged write must be present on every node that becomes leader later and on the final leader after healing. WAL sync stage (lib/walh): on a real WAL with SyncData on, an appender, a thread calling Sync and the WAL's own group-sync thread under the cooperative scheduler, the flush of the segment being a scheduling point: the offset reported as synced, and every completed sync (what a follower acknowledges, what a leader counts as stored), is covered by a flush that started after the entry was appended.",
    "DESIGN.md §2.5, §3 C01", CLUSTER_NOTE, T_SCHED + " over real servers and coordinator with crash/fault injection", 'sched')
add('C02', ['C02', 'C02S', 'C02P', 'C02N', 'C02L'], 'exploration',
    "Stage 1: same cluster executions with clients issuing colliding puts and gets; invoke/return stamped by scheduler step; per-key linearizability decided by porcupine (unknown outcomes may take effect once or never); stale reads only from deposed leaders; no read may return a value that is absent from the final committed log. Stage 2: fine-grained schedules of writers colliding on one key on a real RF=3 leader: the state reads are served from equals the fold of the committed log, responses match their requests; and a get with FLOOR comparison racing with a put and a delete on a real RF=1 leader (the point between the engine's two looks at the database is a hook): the answer must have been the floor at some moment. Public read path stage (lib/pubrpc): range scans, lists and multi-gets over a fixed family of data sets around the limits of the message cutting (empty values, a value above the byte limit of a message in every position, more records than the count limit, empty tails) sent through the real public RPC handlers over a real leader controller: the messages put together are exactly the sorted reference, each value with its own key, a multi-get answered position by position.",
    "DESIGN.md §3 C02", CLUSTER_NOTE, T_SCHED + " + porcupine linearizability checking of every explored history", 'sched')
add('C03', ['C03', 'C03S', 'C03F', 'C03L'], 'exploration',
    "Stage 1: same cluster executions; at the instant a follower hands Ack(o) to a term-T stream its synced log must equal the term-T leader's log at every offset <= o (shadow logs recorded at the WAL seam); committed prefixes of all replicas are compared with the final leader at the end. Schedule stage on the leader (h/c03s): one election of a real leader controller against two checking followers from a preloaded two-term log (with and without an uncommitted tail; one follower empty and restored from a snapshot, or holding a longer tail of the older term), every schedule of BecomeLeader, follower cursors, snapshot sender and ack receivers up to the deviation bound; the followers check every truncation, append and snapshot and must end with exactly the leader's log. Stage 2: explicit-state search of the follower as a protocol state machine (every sequence of 14 protocol events - new-term requests, appends of current / stale terms, truncation and its re-delivery, complete / interrupted / stale-term snapshot transfers, restart, crash - up to the depth, on a real follower controller): acknowledged entries stay stored with their leader's entry, the database is the fold of what the node holds.",
    "DESIGN.md §3 C03, §7", CLUSTER_NOTE, T_SCHED + " + " + T_FSM, 'sched+fsm')
add('C04', ['C04', 'C04S', 'C04F', 'C04N'], 'exploration',
    "Stage 1: stateless exploration of NewTerm(T+1) racing with in-flight client writes on a real leader controller (RF=3, acknowledging scripted followers) and with in-flight appends and pending WAL syncs on a real follower controller: every schedule with <=2 (thorough <=3) non-default scheduling choices at every lock/atomic/channel point; reported head == end of the node's log at quiescence, no ack / acknowledged write beyond the reported head, old-term writes and appends refused after the answer. Schedule stage on the follower alone (h/c04s): one in-flight request of the deposed leader (append, truncation, start of a snapshot transfer) racing with NewTerm on a follower holding three acknowledged entries; whichever is served first, the log must end where the NewTerm answer said. Stage 2: explicit-state search of the follower as a protocol state machine (14 protocol events, see C03): no acknowledgement, append, truncation or snapshot of an older term changes a fenced node; the reported head is the end of its log.",
    "DESIGN.md §3 C04", SCHED_NOTE + " Peers are scripted; the director path is exercised by the cluster harness of C05.", T_SCHED + " + " + T_FSM, 'sched+fsm')
add('C05', ['C05', 'C05S', 'C05F', 'C05N'], 'exploration',
    "Cluster harness with election-safety monitors evaluated at every scheduling point and at every coordination RPC (scenarios as C01 plus lost BecomeLeader answer and coordinator crash right after BecomeLeader): at most one LEADER per term and at most one node told to lead a term; node terms never decrease (also across crash+restart on the crash-simulating FS); every NewTerm/BecomeLeader carries a term that is durable in the metadata store and not below any term sent before (also across coordinator crash+restart); BecomeLeader only after a fenced majority, to an ensemble member whose head is maximal among the fenced ensemble members, with followers from the stored ensemble only. Schedule stage on the coordinator (h/c05s): the real coordinator.ConfigChanged (compare-and-set of the whole status document) racing with the status writes of one or two elections of another shard, every schedule up to the deviation bound: the status a restarted coordinator loads holds the term that was stored before NewTerm was sent. Stage 2 (node side): explicit-state search of the follower as a protocol state machine (14 protocol events, see C03): the term a node has answered for never decreases across restarts, crashes and snapshot transfers.",
    "DESIGN.md §3 C05", CLUSTER_NOTE, T_SCHED + " over real servers and coordinator with crash/fault injection + " + T_FSM, 'sched+fsm')
add('C06', ['C06', 'C06S'], 'model_checking',
    "Stage 1: differential explicit-state search: every history of write requests (puts, conditional puts, deletes, range deletes below/above the threshold, session records, sequence puts, secondary indexes) up to the depth bound is applied through six routes (live, replay on a second DB, close+reopen at every split, crash on a strict in-memory FS + replay from the stored commit offset, snapshot with several chunk sizes + replay, real leader) and the full ordered dumps must be identical. Stage 2: schedule exploration of the real cluster (client cancellation, failed BecomeLeader, rolling isolation, crash+restart, spurious failover): at the end every replica's database equals the fold of the final leader's log up to the commit offset stored in that database.",
    "DESIGN.md §3 C06, §10", "Real kv.DB / Pebble; depth and alphabet bounded; differential oracle (no hand-written expected values). " + CLUSTER_NOTE, T_SEQX + ", differential between application routes + " + T_SCHED, 'seqx+sched')
add('C07', ['C07', 'C07S', 'C07F', 'C07N'], 'fault_enumeration',
    "For histories of writes interleaved with flush-inducing events, every filesystem-operation index of the run is a crash point on Pebble's strict in-memory FS: the reopened DB must equal the fold of entries 0..c for its stored commit offset c, terms acknowledged before the crash survive, replay from c+1 reaches the uncrashed state, and commit offsets are written exactly once in order. Stage 2: schedule exploration of the real leader write pipeline (2-3 writers, WAL sync thread, cursors, ack receivers): every batch commit of the commit-offset record seen at the kv.Factory seam is previous+1 and every committed entry is applied. Protocol-event stage on the follower (h/c07f, lib/ffsm): every sequence of 14 follower protocol events up to the depth from a preloaded state (two entries held, one applied): after every event the follower's database is the fold of the entries it holds up to the commit offset stored in it. The schedule stage also runs a real follower on a real directory whose apply round is in progress (plain, and with a slow read of one entry) when the next term starts and the new leader restores the node from a snapshot: the stored commit offset is not below what the node answered to the transfer and the database is the fold of the leader's log up to it.",
    "DESIGN.md §2.4 E3b, §3 C07", "Pebble's StrictMem semantics are the crash model; WAL side: everything appended survives or only synced entries survive.", "exhaustive crash-point enumeration over the real storage engine on a crash-simulating filesystem + " + T_SCHED + " + " + T_FSM, 'e3+sched+fsm')
add('C08', ['C08', 'C08L'], 'exploration',
    "Stateless exploration of the real leader controller (real WAL, real Pebble DB, real quorum tracker and follower cursors) with scripted followers: every schedule with <=2 (thorough <=3) non-default scheduling choices of 2-3 concurrent writers, the WAL sync thread, cursors and ack receivers; oracle on results, WAL contiguity, apply order, response identity, and commit/head offsets at every scheduling point. Leader-conformance stage (h/c08l, lib/lfsm): a real leader controller against checking followers, every sequence of leader protocol events (elections with followers that are level, behind, empty, diverged or down; writes with and without a quorum; restart; crash) up to the depth; after every event the commit offset is stored by the leader and at least one follower, no write completes and no leader is installed without a quorum.",
    "DESIGN.md §2.3, §3 C08", SCHED_NOTE + " Followers are scripted.", T_SCHED, 'sched')
add('C09', ['C09'], 'model_checking',
    "Explicit-state BFS over every operation sequence (append sync/async, sync, truncate at every distance, clear, reopen, jump-append, trim with 2 cutoffs x 3 commit offsets) up to depth 5 (quick) / 8 (thorough) on the real WAL for 3-4 segment/payload/sync configurations, each step compared with a list model through the full public read API plus white-box offsets.",
    "DESIGN.md §3 C09", "Real WAL code on tmpfs; list model in Go; depth and alphabet bounded as stated; timestamps monotone in the offset.", T_SEQX, 'seqx')
add('C10', ['C10', 'C10W'], 'fault_enumeration',
    "Enumeration of crash images (every subset of dirty pages, every torn-write prefix of the unsynced tail, index file absent/empty/every prefix, newest segment present/absent) and corruption images (every header byte x value set, length field boundary values, payload and index bytes, index truncations) of short WAL histories for both on-disk formats and every commit offset; each image is reopened and read through the real WAL. WAL sync stage (lib/walh): on a real WAL with SyncData on, an appender, a thread calling Sync and the WAL's own group-sync thread under the cooperative scheduler, the flush of the segment being a scheduling point: the offset reported as synced, and every completed sync (what a follower acknowledges, what a leader counts as stored), is covered by a flush that started after the entry was appended.",
    "DESIGN.md §2.4 E3a, §3 C10", "Images are built from real WAL runs on tmpfs; the durable image is what the code had msync'ed.", "exhaustive fault enumeration (crash images and byte corruptions) replayed against the real recovery code + stateless model checking of the WAL's group-sync thread (controlled cooperative scheduler, deviation-bounded DFS over schedules)", 'e3+sched')
add('C11', ['C11', 'C11P'], 'exploration',
    "Exhaustive input enumeration: comparator laws on all pairs and triples of a 6-symbol key universe up to length 3, the Pebble comparer contract on all pairs, and end-to-end reads (exact get, floor/ceiling/lower/higher, scans in both directions) on the real engine for every pair/triple of keys stored one per sstable block, after flush and after compaction, against a sorted reference; plus large hierarchical data sets. Public read path stage (lib/pubrpc): range scans, lists and multi-gets over a fixed family of data sets around the limits of the message cutting (empty values, a value above the byte limit of a message in every position, more records than the count limit, empty tails) sent through the real public RPC handlers over a real leader controller: the messages put together are exactly the sorted reference, each value with its own key, a multi-get answered position by position.",
    "DESIGN.md §3 C11", "Pebble's own correctness for a lawful comparer is trusted; key universe and data-set sizes bounded as stated.", "exhaustive enumeration of a bounded input universe against a sorted reference on the real storage engine", 'enum')
add('C12', ['C12'], 'model_checking',
    "Explicit-state BFS over sequences of write requests (puts, conditional puts/deletes with current/stale/absent expectations, range deletes incl. empty/inverted and around the 100-key threshold, composite requests) on a real kv.DB against a Go map model: per-operation status, version ids, modification counts, atomicity and read-your-writes inside a request.",
    "DESIGN.md §3 C12", "Real kv.DB on in-memory Pebble; alphabet, key set and depth bounded as stated.", T_SEQX, 'seqx')
add('C13', ['C13'], 'exploration',
    "Grammar of syntactically valid WriteRequests (including ones no client library builds), each sent through the real public write handlers to decide whether it reaches the log, then every accepted request alone and after every other one (thorough: triples of the sequence sub-grammar) applied on leader, follower and reopen routes plus end-to-end NewTerm/BecomeLeader and follower apply routes.",
    "DESIGN.md §3 C13", "Grammar-bounded; a typed invalid-request refusal that leaves no trace and does not stop any replica counts as a per-request status (the repository's tests pin those error returns).", "exhaustive enumeration of a request grammar (singles, ordered pairs, triples) replayed on the real apply routes", 'enum')
add('C14', ['C14', 'C14S'], 'model_checking',
    "Stage 1: explicit-state search of session/ownership rules on a real RF=1 leader (create/close sessions, ephemeral and plain puts, deletes, range deletes, re-election) against an ownership model incl. shadow keys. Stage 2: schedule exploration (virtual time) of session close/expiry racing with plain take-over puts, ephemeral puts under the same session, heartbeats and a re-election.",
    "DESIGN.md §3 C14", SCHED_NOTE, T_SEQX + " + " + T_SCHED, 'seqx+sched')
add('C15', ['C15'], 'model_checking',
    "Explicit-state BFS over writes with 0-2 secondary-index entries, overwrites, deletes and range deletes on a real leader/DB; after every step the raw index keys must equal the pairs declared by live records and every list / range-scan / comparison get on each index must agree with a sorted reference and stay inside the index.",
    "DESIGN.md §3 C15", "Real DB and the leader's index query functions; key sets and depth bounded.", T_SEQX, 'seqx')
add('C16', ['C16', 'C16S'], 'model_checking',
    "Stage 1: explicit-state search of sequence puts (several delta shapes, several per request, boundary deltas) mixed with plain puts/deletes against an arbitrary-precision model, on two replicas. Stage 2: schedule exploration of a GetSequenceUpdates subscriber racing with sequence writers on a real RF=1 leader: at quiescence the subscriber holds the highest generated key.",
    "DESIGN.md §3 C16", SCHED_NOTE, T_SEQX + " + " + T_SCHED, 'seqx+sched')
add('C17', ['C17', 'C17S'], 'model_checking',
    "Stage 1: explicit-state search of write histories with subscriber reads from every offset, replica reconnects and trimming rounds on a real kv.DB against a model diff. Stage 2: schedule exploration of a GetNotifications subscriber (with disconnect/resume) racing with writers on a real RF=1 leader: exactly one batch per committed request, in order, none lost at quiescence; and the client library's notification manager (per-shard manager, retry with backoff on virtual time, multiplexing) over the real leader controller: connection lost before the first batch, writes committed meanwhile, reconnect: every write reaches the application once.",
    "DESIGN.md §3 C17", SCHED_NOTE, T_SEQX + " + " + T_SCHED, 'seqx+sched')
add('C18', ['C18', 'C18S'], 'model_checking',
    "Explicit-state search over sequences of cluster-config changes through the real ApplyClusterChanges / assignment computation / client ShardManager.update code: every published namespace must partition [0, 2^32-1] exactly, shard ids unique and never reused, client routing agrees with the published owner at every range boundary; GenerateShards alone for every shard count up to the bound. Schedule stage (h/c18s): one or two clients subscribing to a node's shard assignments (real RegisterForUpdates, the client's Send a scheduling point) racing with one or two pushes of a new map, every schedule up to the deviation bound: a client that stays connected holds the node's current map once nothing is in flight, or it has been cut off.",
    "DESIGN.md §3 C18", "Real coordinator and client routing code; namespaces, servers and depth bounded.", T_SEQX + " + " + T_SCHED, 'seqx+sched')
add('C19', ['C19', 'C19S'], 'exploration',
    "Exhaustive enumeration of clusters (1-5 servers, zone/rack label assignments), anti-affinity policies, replication factors, start indexes and existing placements through the real ensemble selector, and of one real rebalance round per status with the emitted swaps applied in order through the real replace logic. Schedule stage on the cluster harness (h/c19s): the real coordinator ShardController swaps a node of a real 3+1-node cluster (follower or leader, reachable or not, with lost coordinator RPC answers as further choices), every schedule at coarse points up to the deviation bound: the stored ensemble is RF distinct servers whenever BecomeLeader is sent and at the end.",
    "DESIGN.md §3 C19", "Input universe bounded as stated; multi-label rules outside the oracle.", "exhaustive enumeration of a bounded configuration universe through the real selector and balancer + " + T_SCHED + " over real servers and the real coordinator ShardController", 'enum+sched')
add('C20', ['C20', 'C20S'], 'exploration',
    "Schedule exploration (virtual time) of the real client batcher, write/read batches, write-stream wrapper and multi-shard fan-out against fake executors/streams: every callback completes exactly once with its own result, multi-shard results are the sorted union. Second schedule stage (h/c20s): the real batcher with a recording batch, one or two adding threads, count limit, linger timer racing with the adds, calls that do not fit, then Close and calls added after Close has returned; the choice between ready select cases is a scheduling choice; every call answered exactly once, late calls with the shutting-down error.",
    "DESIGN.md §3 C20", SCHED_NOTE, T_SCHED, 'sched')

have = set(sys.argv[1:]) if len(sys.argv) > 1 else None
# a property is claimed when every stage harness exists on disk
def exists(h):
    return os.path.exists(os.path.join(ROOT, 'h', h.lower(), 'main.go'))

checks, na = [], []
engines = {}
for p in props:
    pid = p['id']
    c = C[pid]
    stages = [s for s in c['stages'] if exists(s)]
    disabled = os.path.exists(os.path.join(ROOT, 'h', pid.lower(), 'DISABLED'))
    if not stages or disabled or (have is not None and pid not in have):
        na.append({"property_id": pid, "reason": "check not registered yet in this session (harness under construction; see DESIGN.md §6)"})
        continue
    def cmd(tier):
        parts = []
        for i, s in enumerate(stages):
            pre = "VERIF_STAGE2=1 " if i > 0 else ""
            parts.append(f"{pre}./check {s} --tier {tier}")
        return " && ".join(parts)
    level = c['level']
    if stages != c['stages'] and len(stages) == 1 and stages[0].endswith('S'):
        level = 'exploration'
    checks.append({
        "property_id": pid,
        "quick_cmd": cmd('quick'),
        "thorough_cmd": cmd('thorough'),
        "evidence_file": f"/verif/evidence/{pid}.json",
        "replay_cmd_template": f"./check {stages[0]} --replay {{path}}",
        "engine": c['engine'],
        "level_claimed": {"category": level, "text": c['text'] + (NODE_FSM if any(x.endswith('N') for x in stages) else '') + (LEADER_FSM if any(x.endswith('L') for x in stages) else ''), "design_ref": c['ref']},
        "level_note": c['note'],
        "technique": c['technique'] + (" + explicit-state model checking of a whole storage node as a protocol state machine (all event sequences up to a depth replayed on the real server)" if any(x.endswith('N') for x in stages) else '') + (" + explicit-state model checking of the leader controller against checking followers (all leader event sequences up to a depth replayed on the real controller)" if any(x.endswith('L') for x in stages) else ''),
    })
    for e in c['engine'].split('+') + (['nfsm'] if any(x.endswith('N') for x in stages) else []) + (['lfsm'] if any(x.endswith('L') for x in stages) else []):
        engines.setdefault(e, []).append(pid)

ENG = {
    'seqx': ("/verif/lib/seqx", "explicit-state BFS over operation sequences of the real object with replay-from-scratch successors and canonical-state de-duplication"),
    'sched': ("/verif/lib/sched + /verif/shim + /verif/tools/vinst + /verif/lib/oxc", "source instrumenter (sync/atomic/time/chan/select/go -> shims), cooperative scheduler with virtual time, deviation-bounded stateless DFS sharded over worker processes, cluster harness of real servers and coordinator"),
    'fsm': ("/verif/lib/ffsm", "explicit-state search over follower protocol events: every event sequence up to a depth replayed from scratch on a real follower controller (under the cooperative scheduler's default schedule) against a list model"),
    'nfsm': ("/verif/lib/nfsm", "explicit-state search over node protocol events: every event sequence up to a depth replayed from scratch on a real server (director, leader and follower controllers) with scripted peers"),
    'lfsm': ("/verif/lib/lfsm", "explicit-state search over leader protocol events against checking followers that verify every message the real leader controller sends them"),
    'e3': ("/verif/h/c07, /verif/h/c10", "fault enumerators: Pebble strict-FS crash points, WAL crash/corruption images"),
    'enum': ("/verif/h/c11, /verif/h/c13, /verif/h/c19", "exhaustive enumeration of bounded input universes against reference models"),
}
m = {
    "version": 1,
    "setup_cmd": "./setup.sh",
    "hooks": {
        "guard": "verif",
        "enable": "go build -tags verif[,vsched] -overlay /verif/build/overlay-<id>.json (white-box files from /verif/overlay, exact-string patches from /verif/overlay/PATCHES.json and the instrumented rewrites are supplied through the overlay; nothing is committed to /repo for hooks)",
        "baseline_off_cmd": "cd /repo && GOFLAGS=-mod=mod go test -vet=off -count=1 -timeout 25m ./...",
        "source_commits": [],
        "add_only": True,
    },
    "engines": [{"name": k, "path": ENG[k][0], "serves_properties": sorted(v), "kind_free_text": ENG[k][1]} for k, v in sorted(engines.items())],
    "checks": checks,
    "not_applicable": na,
    "notes": "All checks rebuild from /repo's working tree via ./check <ID>. Two-stage checks run an explicit-state stage and a schedule-exploration stage; the second stage merges its coverage into the same evidence file. Genuine defects that were repaired are listed as fixed in /verif/known_findings.jsonl; recorded (unrepaired) ones in /verif/findings/<ID>.jsonl.",
}
json.dump(m, open(os.path.join(ROOT, 'MANIFEST.json'), 'w'), indent=1)
print("claimed:", [c['property_id'] for c in checks])
print("not claimed:", [n['property_id'] for n in na])
