#!/bin/bash
# finalize.sh: regenerate every evidence file from a full run of the registered quick commands and validate
# MANIFEST + evidence (schema, level == claimed level, counts). Run it on a quiet machine before the commit
# that is meant to be looked at: evidence files left behind by partial / stage-only / seeded runs are not valid records.
cd "$(dirname "$0")/.." || exit 2
python3 tools/mkmanifest.py > /dev/null || exit 2
tools/runall.sh quick | tee /dev/shm/finalize.$$.log
bad=$(grep -c -v "rc=0" /dev/shm/finalize.$$.log); rm -f /dev/shm/finalize.$$.log
python3-vt - <<'PY' || exit 1
import json,jsonschema,glob,sys
m=json.load(open('MANIFEST.json'))
jsonschema.validate(m,json.load(open('/root/.vp/MANIFEST.schema.json')))
sc=json.load(open('/root/.vp/EVIDENCE.schema.json'))
lv={c['property_id']:c['level_claimed']['category'] for c in m['checks']}
ok=True
for pid in lv:
    e=json.load(open('evidence/%s.json'%pid)); jsonschema.validate(e,sc)
    c=e['coverage']
    if e['level']!=lv[pid]: print('LEVEL MISMATCH',pid,e['level'],lv[pid]); ok=False
    if c.get('evaluations',1)<1 or c.get('distinct_nontrivial',2)<2: print('COUNTS',pid,c.get('evaluations'),c.get('distinct_nontrivial')); ok=False
    if e.get('violations',0)!=0: print('VIOLATIONS in evidence',pid); ok=False
print('manifest + evidence valid' if ok else 'PROBLEMS')
sys.exit(0 if ok else 1)
PY
[ "$bad" -eq 0 ] || { echo "$bad check(s) did not exit 0"; exit 1; }
