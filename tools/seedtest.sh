#!/bin/bash
# seedtest.sh <seed-name> <agent-worktree> <check ids...>
# 1. confirms the seeded change in a fresh scratch worktree of /repo HEAD (demo passes without, fails with; package tests pass);
# 2. stores it under /verif/seeded/<seed-name>/; 3. runs the given checks with the patch applied to /repo and undoes it.
set -u
export GOFLAGS=-mod=mod GOPROXY=off
name="$1"; wt="$2"; shift 2
out="$wt/SEED_OUT"
dst="/verif/seeded/$name"
mkdir -p "$dst"
cp "$out/patch.diff" "$out/meta.json" "$out/demo_cmd.txt" "$dst/" 2>/dev/null
for f in "$out"/*_test.go "$out"/*.go; do [ -f "$f" ] && cp "$f" "$dst/"; done
v="/tmp/v-$name"
git -C /repo worktree remove --force "$v" 2>/dev/null
base=$(git -C "$wt" rev-parse HEAD)
echo "base commit of the seeded change: $base" > "$dst/base.txt"
git -C /repo worktree add -q "$v" "$base" || exit 2
# place the demo files where the agent had them
(cd "$wt" && git status --short | grep '^??' | awk '{print $2}' | grep -v SEED_OUT) > "$dst/demo_files.txt"
while read -r f; do mkdir -p "$v/$(dirname "$f")"; cp -r "$wt/$f" "$v/$f"; done < "$dst/demo_files.txt"
demo=$(cat "$dst/demo_cmd.txt" | grep -v '^#' | grep go | head -1)
{
echo "== demo WITHOUT the change (must pass) =="
(cd "$v" && eval "$demo") 2>&1 | tail -5
echo "rc_without=${PIPESTATUS[0]}"
} > "$dst/verify.log"
(cd "$v" && eval "$demo") > /dev/null 2>&1; rc0=$?
if ! git -C "$v" apply "$dst/patch.diff"; then echo "PATCH DOES NOT APPLY to current HEAD" | tee -a "$dst/verify.log"; fi
(cd "$v" && go build ./... ) >> "$dst/verify.log" 2>&1; rcb=$?
(cd "$v" && eval "$demo") > "$dst/demo_with.log" 2>&1; rc1=$?
tail -8 "$dst/demo_with.log" >> "$dst/verify.log"
pkgs=$(git -C "$v" diff --name-only | xargs -n1 dirname | sort -u | sed 's|^|./|' | tr '\n' ' ')
demo_tests=$(grep -ho 'func Test[A-Za-z0-9_]*' $(sed "s|^|$v/|" "$dst/demo_files.txt") 2>/dev/null | sed 's/func //' | tr '\n' '|' | sed 's/|$//')
(cd "$v" && go test -count=1 ${demo_tests:+-skip "$demo_tests"} $pkgs) > "$dst/pkgtests_with.log" 2>&1; rct=$?
echo "verified at base $base (the /repo commit the seeding agent worked on)" >> "$dst/verify.log"
echo "summary: demo_without_rc=$rc0 build_rc=$rcb demo_with_rc=$rc1 package_tests_with_rc=$rct (packages: $pkgs)" | tee -a "$dst/verify.log"
git -C /repo worktree remove --force "$v"
# run the checks against the change. SEED_VIA_OVERLAY=1: leave /repo untouched (patched copies go
# through VERIF_EXTRA_OVERLAY) - needed while background runs are reading /repo.
if [ -n "${SEED_VIA_OVERLAY:-}" ]; then exec /verif/tools/seedov.sh "$name" "$@"; fi
if [ -n "$(git -C /repo status --short)" ]; then echo "/repo not clean, not applying" ; exit 2; fi
git -C /repo apply "$dst/patch.diff" || { echo "cannot apply to /repo"; exit 2; }
: > "$dst/checks.log"
for id in "$@"; do
  (cd /verif && eval "$(python3 -c "
import json,sys
m=json.load(open('/verif/MANIFEST.json'))
c=[c for c in m['checks'] if c['property_id']=='$id']
print(c[0]['quick_cmd'] if c else './check $id --tier quick')")") > "$dst/check-$id.log" 2>&1
  rc=$?
  echo "check $id rc=$rc $(grep -c '^VIOLATION' "$dst/check-$id.log") violation line(s): $(grep -A1 '^VIOLATION' "$dst/check-$id.log" | grep key= | head -3 | cut -c1-200 | tr '\n' ';')" | tee -a "$dst/checks.log"
done
git -C /repo checkout -- .
git -C /repo status --short
