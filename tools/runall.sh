#!/bin/bash
# runs every registered check (quick by default) and prints one summary line per property
cd "$(dirname "$0")/.." || exit 2
tier="${1:-quick}"
python3 - "$tier" <<'PY' > /dev/shm/runall.$$.list
import json,sys
m=json.load(open('MANIFEST.json'))
for c in m['checks']:
    print(c['property_id']+'\t'+(c['quick_cmd'] if sys.argv[1]=='quick' else c['thorough_cmd']))
PY
while IFS=$'\t' read -r id cmd; do
  s=$(date +%s)
  out=$(eval "$cmd" 2>&1); rc=$?
  e=$(date +%s)
  echo "$id rc=$rc $((e-s))s viol=$(echo "$out" | grep -c '^VIOLATION') known=$(echo "$out" | grep -c '^KNOWN-FINDING') $(echo "$out" | grep -o 'exhaustive=[a-z]*' | tr '\n' ' ')"
  [ $rc -ne 0 ] && echo "$out" | grep -A1 '^VIOLATION' | head -6
done < /dev/shm/runall.$$.list
rm -f /dev/shm/runall.$$.list
