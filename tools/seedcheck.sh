#!/bin/bash
# seedcheck.sh <seed-name> <check ids...>: applies seeded/<name>/patch.diff to /repo, runs the quick command of each check, undoes the patch.
set -u
export GOFLAGS=-mod=mod GOPROXY=off
name="$1"; shift
dst="/verif/seeded/$name"
if [ -n "$(git -C /repo status --short)" ]; then echo "/repo not clean"; exit 2; fi
git -C /repo apply "$dst/patch.diff" || { echo "cannot apply $name to /repo HEAD"; exit 2; }
: > "$dst/checks.log"
echo "checks run against /repo $(git -C /repo log --format=%h -n1) + patch" >> "$dst/checks.log"
for id in "$@"; do
  cmd=$(python3 -c "
import json
m=json.load(open('/verif/MANIFEST.json'))
c=[c for c in m['checks'] if c['property_id']=='$id']
print(c[0]['quick_cmd'] if c else './check $id --tier quick')")
  (cd /verif && eval "$cmd") > "$dst/check-$id.log" 2>&1; rc=$?
  echo "check $id rc=$rc $(grep -c '^VIOLATION' "$dst/check-$id.log") violation line(s): $(grep -A1 '^VIOLATION' "$dst/check-$id.log" | grep key= | head -3 | cut -c1-160 | tr '\n' ';')" | tee -a "$dst/checks.log"
done
git -C /repo checkout -- .
