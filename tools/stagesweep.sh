#!/bin/bash
# stagesweep.sh <tier> <stage ids...>: runs single stages (not whole properties) and prints one line each;
# for sweeping the stages that changed without paying for the others. Evidence written here is not kept.
cd "$(dirname "$0")/.." || exit 2
tier="$1"; shift
for id in "$@"; do
  s=$(date +%s)
  out=$(VERIF_STAGE2=1 ./check "$id" --tier "$tier" 2>&1); rc=$?
  e=$(date +%s)
  echo "$id rc=$rc $((e-s))s viol=$(echo "$out" | grep -c '^VIOLATION') known=$(echo "$out" | grep -c '^KNOWN-FINDING') $(echo "$out" | grep -o 'exhaustive=[a-z]*' | tr '\n' ' ')"
  [ $rc -ne 0 ] && echo "$out" | grep -A1 '^VIOLATION' | head -6
  [ $rc -ge 2 ] && echo "$out" | tail -5
done
