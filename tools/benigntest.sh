#!/bin/bash
# benigntest.sh <name> <agent-worktree>: stores a behaviour-preserving change (patch.diff + meta.json from the
# agent's SEED_OUT) under seeded/<name>/ and runs EVERY registered quick command with the change supplied as an
# overlay: every check must exit 0 (no alarm, no build failure) on code where the properties still hold.
set -u
V="${V:-/verif}"
name="$1"; wt="$2"
dst="$V/seeded/$name"
mkdir -p "$dst"
cp "$wt/SEED_OUT/patch.diff" "$wt/SEED_OUT/meta.json" "$dst/" 2>/dev/null
ids=$(python3 -c "
import json
print(' '.join(c['property_id'] for c in json.load(open('$V/MANIFEST.json'))['checks']))")
$V/tools/seedov.sh "$name" $ids | tee "$dst/benign-summary.log" | grep -v "rc=0 0 violation" 
echo "non-zero: $(grep -c -v 'rc=0 ' "$dst/benign-summary.log")"
