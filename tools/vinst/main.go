// vinst: mechanical source instrumenter for oxia. It rewrites the non-test files of the
// given packages so that every synchronisation, channel, timer, random and goroutine
// operation goes through the scheduler shims (github.com/oxia-db/oxia/zzverif/...), and
// writes the rewritten copies plus a go-build overlay map.
//
// usage: vinst -out <dir> [-overlay base.json] [-tags verif] <patterns...>
package main

import (
	"bytes"
	"encoding/json"
	"flag"
	"fmt"
	"go/ast"
	"go/constant"
	"go/printer"
	"go/token"
	"go/types"
	"os"
	"path/filepath"
	"sort"
	"strconv"
	"strings"

	"golang.org/x/tools/go/ast/astutil"
	"golang.org/x/tools/go/packages"
)

const shimBase = "github.com/oxia-db/oxia/zzverif/"

var importSwap = map[string][2]string{
	"sync":                           {"sync", shimBase + "vsync"},
	"sync/atomic":                    {"atomic", shimBase + "vatomic"},
	"time":                           {"time", shimBase + "vtime"},
	"math/rand":                      {"rand", shimBase + "vrand"},
	"github.com/cenkalti/backoff/v4": {"backoff", shimBase + "vbackoff"},
}

type stats struct {
	Files, Imports, Go, Send, Recv, Close, Select, RangeChan, RangeMap int
}

var st stats

func main() {
	out := flag.String("out", "", "output directory")
	base := flag.String("overlay", "", "base overlay json (files replaced/added before instrumentation)")
	tags := flag.String("tags", "verif", "build tags")
	shimDir := flag.String("shims", "/verif/shim", "directory with the shim packages")
	repo := flag.String("repo", "/repo", "repository root")
	flag.Parse()
	if *out == "" || flag.NArg() == 0 {
		fmt.Fprintln(os.Stderr, "usage: vinst -out dir patterns...")
		os.Exit(2)
	}
	ov := map[string][]byte{}
	replaced := map[string]string{}
	if *base != "" {
		b, err := os.ReadFile(*base)
		if err != nil {
			fatal(err)
		}
		var doc struct{ Replace map[string]string }
		if err := json.Unmarshal(b, &doc); err != nil {
			fatal(err)
		}
		for k, v := range doc.Replace {
			c, err := os.ReadFile(v)
			if err != nil {
				fatal(err)
			}
			ov[k] = c
			replaced[k] = v
		}
	}
	// the shim packages must be visible to the type checker too
	shimMap := map[string]string{}
	_ = filepath.Walk(*shimDir, func(p string, info os.FileInfo, err error) error {
		if err == nil && !info.IsDir() && strings.HasSuffix(p, ".go") {
			rel, _ := filepath.Rel(*shimDir, p)
			dst := filepath.Join(*repo, "zzverif", rel)
			c, _ := os.ReadFile(p)
			ov[dst] = c
			shimMap[dst] = p
		}
		return nil
	})
	cfg := &packages.Config{
		Mode: packages.NeedName | packages.NeedFiles | packages.NeedCompiledGoFiles | packages.NeedSyntax | packages.NeedTypes |
			packages.NeedTypesInfo | packages.NeedImports,
		Dir: *repo, Overlay: ov, BuildFlags: []string{"-tags=" + *tags},
		Env: append(os.Environ(), "GOFLAGS=-mod=mod", "GOPROXY=off"),
	}
	pkgs, err := packages.Load(cfg, flag.Args()...)
	if err != nil {
		fatal(err)
	}
	result := map[string]string{}
	for k, v := range shimMap {
		result[k] = v
	}
	bad := false
	sort.Slice(pkgs, func(i, j int) bool { return pkgs[i].PkgPath < pkgs[j].PkgPath })
	for _, p := range pkgs {
		if len(p.Errors) > 0 {
			for _, e := range p.Errors {
				fmt.Fprintln(os.Stderr, "vinst: type error:", e)
			}
			bad = true
			continue
		}
		if strings.Contains(p.PkgPath, "/zzverif/") || strings.HasSuffix(p.PkgPath, "/proto") {
			continue
		}
		for i, f := range p.Syntax {
			fn := p.CompiledGoFiles[i]
			if strings.HasSuffix(fn, "_test.go") || !strings.HasSuffix(fn, ".go") {
				continue
			}
			if isGenerated(f) {
				continue
			}
			r := &rewriter{pkg: p, file: f, fset: p.Fset}
			if !r.rewrite() {
				// untouched files keep their (possibly replaced) source
				if src, ok := replaced[fn]; ok {
					result[fn] = src
				}
				continue
			}
			st.Files++
			rel, _ := filepath.Rel(*repo, fn)
			dst := filepath.Join(*out, strings.ReplaceAll(rel, "/", "__"))
			var buf bytes.Buffer
			if err := printer.Fprint(&buf, p.Fset, f); err != nil {
				fatal(err)
			}
			if err := os.MkdirAll(*out, 0o755); err != nil {
				fatal(err)
			}
			if err := os.WriteFile(dst, buf.Bytes(), 0o644); err != nil {
				fatal(err)
			}
			result[fn] = dst
		}
	}
	if bad {
		os.Exit(2)
	}
	// files that were replaced by the base overlay but belong to packages we did not load
	for k, v := range replaced {
		if _, ok := result[k]; !ok {
			result[k] = v
		}
	}
	b, _ := json.MarshalIndent(result, "", " ")
	if err := os.WriteFile(filepath.Join(*out, "map.json"), b, 0o644); err != nil {
		fatal(err)
	}
	sb, _ := json.Marshal(st)
	_ = os.WriteFile(filepath.Join(*out, "stats.json"), sb, 0o644)
	fmt.Fprintf(os.Stderr, "vinst: %s\n", sb)
}

func fatal(err error) {
	fmt.Fprintln(os.Stderr, "vinst:", err)
	os.Exit(2)
}

func isGenerated(f *ast.File) bool {
	for _, cg := range f.Comments {
		if cg.Pos() > f.Package {
			break
		}
		if strings.Contains(cg.Text(), "Code generated") {
			return true
		}
	}
	return false
}

type rewriter struct {
	pkg     *packages.Package
	file    *ast.File
	fset    *token.FileSet
	usedVS  bool
	counter int
	skip    map[ast.Node]bool // receive expressions handled by an enclosing construct
	chanRng map[*ast.RangeStmt]bool
	mapRng  map[*ast.RangeStmt]bool
	changed bool
	ours    map[*ast.BlockStmt]bool
}

func (r *rewriter) vs(name string) ast.Expr {
	r.usedVS = true
	return &ast.SelectorExpr{X: ast.NewIdent("__vs"), Sel: ast.NewIdent(name)}
}

func (r *rewriter) tmp(prefix string) *ast.Ident {
	r.counter++
	return ast.NewIdent(fmt.Sprintf("__%s%d", prefix, r.counter))
}

func call(fun ast.Expr, args ...ast.Expr) *ast.CallExpr { return &ast.CallExpr{Fun: fun, Args: args} }

func define(lhs ast.Expr, rhs ast.Expr) ast.Stmt {
	return &ast.AssignStmt{Lhs: []ast.Expr{lhs}, Tok: token.DEFINE, Rhs: []ast.Expr{rhs}}
}

func unparen(e ast.Expr) ast.Expr {
	for {
		p, ok := e.(*ast.ParenExpr)
		if !ok {
			return e
		}
		e = p.X
	}
}

func isRecv(e ast.Expr) (*ast.UnaryExpr, bool) {
	u, ok := unparen(e).(*ast.UnaryExpr)
	if ok && u.Op == token.ARROW {
		return u, true
	}
	return nil, false
}

func (r *rewriter) typeOf(e ast.Expr) types.Type { return r.pkg.TypesInfo.TypeOf(e) }

func (r *rewriter) rewrite() bool {
	f := r.file
	r.skip = map[ast.Node]bool{}
	r.chanRng = map[*ast.RangeStmt]bool{}
	r.mapRng = map[*ast.RangeStmt]bool{}
	r.ours = map[*ast.BlockStmt]bool{}
	// 1. imports
	for _, im := range f.Imports {
		p, _ := strconv.Unquote(im.Path.Value)
		if sw, ok := importSwap[p]; ok {
			if im.Name == nil {
				im.Name = ast.NewIdent(sw[0])
			}
			im.Path.Value = strconv.Quote(sw[1])
			im.Path.ValuePos = token.NoPos
			st.Imports++
			r.changed = true
		}
	}
	// 2. statements / expressions
	pre := func(c *astutil.Cursor) bool {
		switch n := c.Node().(type) {
		case *ast.SelectStmt:
			for _, cl := range n.Body.List {
				cc := cl.(*ast.CommClause)
				switch s := cc.Comm.(type) {
				case *ast.SendStmt:
					r.skip[s] = true
				case *ast.ExprStmt:
					if u, ok := isRecv(s.X); ok {
						r.skip[u] = true
					}
				case *ast.AssignStmt:
					if u, ok := isRecv(s.Rhs[0]); ok {
						r.skip[u] = true
					}
					r.skip[s] = true
				}
			}
		case *ast.AssignStmt:
			if len(n.Lhs) == 2 && len(n.Rhs) == 1 && !r.skip[n] {
				if u, ok := isRecv(n.Rhs[0]); ok {
					r.skip[u] = true
					n.Rhs[0] = call(r.vs("Recv2"), u.X)
					st.Recv++
					r.changed = true
				}
			}
		case *ast.ValueSpec:
			if len(n.Names) == 2 && len(n.Values) == 1 {
				if u, ok := isRecv(n.Values[0]); ok {
					r.skip[u] = true
					n.Values[0] = call(r.vs("Recv2"), u.X)
					st.Recv++
					r.changed = true
				}
			}
		case *ast.RangeStmt:
			if t := r.typeOf(n.X); t != nil {
				switch t.Underlying().(type) {
				case *types.Chan:
					r.chanRng[n] = true
				case *types.Map:
					r.mapRng[n] = true
				}
			}
		}
		return true
	}
	post := func(c *astutil.Cursor) bool {
		switch n := c.Node().(type) {
		case *ast.UnaryExpr:
			if n.Op == token.ARROW && !r.skip[n] {
				c.Replace(call(r.vs("Recv"), n.X))
				st.Recv++
				r.changed = true
			}
		case *ast.SendStmt:
			if !r.skip[n] {
				c.Replace(&ast.ExprStmt{X: call(call(r.vs("Send"), n.Chan), n.Value)})
				st.Send++
				r.changed = true
			}
		case *ast.CallExpr:
			if id, ok := n.Fun.(*ast.Ident); ok && id.Name == "close" && len(n.Args) == 1 {
				if _, isBuiltin := r.pkg.TypesInfo.Uses[id].(*types.Builtin); isBuiltin {
					n.Fun = r.vs("Close")
					st.Close++
					r.changed = true
				}
			}
		case *ast.GoStmt:
			c.Replace(r.rewriteGo(n))
			st.Go++
			r.changed = true
		case *ast.SelectStmt:
			c.Replace(r.rewriteSelect(n, nil))
			st.Select++
			r.changed = true
		case *ast.LabeledStmt:
			// a labeled select/range became a block: move the label onto the last statement inside
			if b, ok := n.Stmt.(*ast.BlockStmt); ok && r.ours[b] && len(b.List) > 0 {
				b.List[len(b.List)-1] = &ast.LabeledStmt{Label: n.Label, Stmt: b.List[len(b.List)-1]}
				c.Replace(b)
			}
		case *ast.RangeStmt:
			if r.chanRng[n] {
				c.Replace(r.rewriteRangeChan(n))
				st.RangeChan++
				r.changed = true
			} else if r.mapRng[n] {
				c.Replace(r.rewriteRangeMap(n))
				st.RangeMap++
				r.changed = true
			}
		}
		return true
	}
	astutil.Apply(f, pre, post)
	if !r.changed {
		return false
	}
	if r.usedVS {
		astutil.AddNamedImport(r.fset, f, "__vs", shimBase+"vsched")
	}
	// keep only the comments in front of the package clause (build constraints, licence)
	var keep []*ast.CommentGroup
	for _, cg := range f.Comments {
		if cg.End() < f.Package {
			keep = append(keep, cg)
		}
	}
	f.Comments = keep
	return true
}

func (r *rewriter) isConstOrNil(e ast.Expr) bool {
	tv, ok := r.pkg.TypesInfo.Types[e]
	if !ok {
		return false
	}
	if tv.Value != nil && tv.Value.Kind() != constant.Unknown {
		return true
	}
	return tv.IsNil()
}

func (r *rewriter) rewriteGo(g *ast.GoStmt) ast.Stmt {
	callx := g.Call
	var stmts []ast.Stmt
	fun := callx.Fun
	switch f := unparen(fun).(type) {
	case *ast.FuncLit:
		// keep
	case *ast.Ident:
		_ = f
	case *ast.SelectorExpr:
		// package-qualified function: keep; method value: bind now
		if id, ok := f.X.(*ast.Ident); ok {
			if _, isPkg := r.pkg.TypesInfo.Uses[id].(*types.PkgName); isPkg {
				break
			}
		}
		t := r.tmp("gf")
		stmts = append(stmts, define(t, fun))
		fun = t
	default:
		t := r.tmp("gf")
		stmts = append(stmts, define(t, fun))
		fun = t
	}
	var args []ast.Expr
	for _, a := range callx.Args {
		if r.isConstOrNil(a) {
			args = append(args, a)
			continue
		}
		if _, isLit := unparen(a).(*ast.FuncLit); isLit {
			args = append(args, a)
			continue
		}
		t := r.tmp("ga")
		stmts = append(stmts, define(t, a))
		args = append(args, t)
	}
	inner := &ast.CallExpr{Fun: fun, Args: args, Ellipsis: callx.Ellipsis}
	if callx.Ellipsis != token.NoPos {
		inner.Ellipsis = 1
	}
	body := &ast.BlockStmt{List: []ast.Stmt{&ast.ExprStmt{X: inner}}}
	lit := &ast.FuncLit{Type: &ast.FuncType{Params: &ast.FieldList{}}, Body: body}
	if fl, ok := unparen(callx.Fun).(*ast.FuncLit); ok && len(callx.Args) == 0 && fl.Type.Results == nil && (fl.Type.Params == nil || len(fl.Type.Params.List) == 0) {
		lit = fl
	}
	stmts = append(stmts, &ast.ExprStmt{X: call(r.vs("Go"), lit)})
	if len(stmts) == 1 {
		return stmts[0]
	}
	return &ast.BlockStmt{List: stmts}
}

func (r *rewriter) rewriteSelect(s *ast.SelectStmt, label *ast.Ident) ast.Stmt {
	r.counter++
	id := r.counter
	selVar := ast.NewIdent(fmt.Sprintf("__sel%d", id))
	var pre []ast.Stmt
	var caseArgs []ast.Expr
	hasDefault := false
	var clauses []ast.Stmt
	idx := 0
	for _, cl := range s.Body.List {
		cc := cl.(*ast.CommClause)
		if cc.Comm == nil {
			hasDefault = true
			clauses = append(clauses, &ast.CaseClause{List: []ast.Expr{&ast.UnaryExpr{Op: token.SUB, X: &ast.BasicLit{Kind: token.INT, Value: "1"}}}, Body: cc.Body})
			continue
		}
		cv := ast.NewIdent(fmt.Sprintf("__sel%d_c%d", id, idx))
		var body []ast.Stmt
		switch cm := cc.Comm.(type) {
		case *ast.SendStmt:
			vv := ast.NewIdent(fmt.Sprintf("__sel%d_v%d", id, idx))
			pre = append(pre, define(cv, cm.Chan))
			if r.isConstOrNil(cm.Value) {
				caseArgs = append(caseArgs, call(r.vs("SendCase"), cv, cm.Value))
			} else {
				pre = append(pre, define(vv, cm.Value))
				caseArgs = append(caseArgs, call(r.vs("SendCase"), cv, vv))
			}
		case *ast.ExprStmt:
			u, _ := isRecv(cm.X)
			pre = append(pre, define(cv, u.X))
			caseArgs = append(caseArgs, call(r.vs("RecvCase"), cv))
		case *ast.AssignStmt:
			u, _ := isRecv(cm.Rhs[0])
			pre = append(pre, define(cv, u.X))
			caseArgs = append(caseArgs, call(r.vs("RecvCase"), cv))
			val := call(r.vs("SelRecv"), selVar, cv)
			if len(cm.Lhs) == 1 {
				body = append(body, &ast.AssignStmt{Lhs: cm.Lhs, Tok: cm.Tok, Rhs: []ast.Expr{val}})
			} else {
				body = append(body, &ast.AssignStmt{Lhs: cm.Lhs, Tok: cm.Tok, Rhs: []ast.Expr{val, &ast.SelectorExpr{X: selVar, Sel: ast.NewIdent("Ok")}}})
			}
			if cm.Tok == token.DEFINE {
				// silence "declared and not used"
				for _, l := range cm.Lhs {
					if idn, ok := l.(*ast.Ident); ok && idn.Name != "_" {
						body = append(body, &ast.AssignStmt{Lhs: []ast.Expr{ast.NewIdent("_")}, Tok: token.ASSIGN, Rhs: []ast.Expr{ast.NewIdent(idn.Name)}})
					}
				}
			}
		}
		body = append(body, cc.Body...)
		clauses = append(clauses, &ast.CaseClause{List: []ast.Expr{&ast.BasicLit{Kind: token.INT, Value: strconv.Itoa(idx)}}, Body: body})
		idx++
	}
	{
		clauses = append(clauses, &ast.CaseClause{List: nil, Body: []ast.Stmt{&ast.ExprStmt{X: call(ast.NewIdent("panic"), &ast.BasicLit{Kind: token.STRING, Value: `"vsched: unreachable select branch"`})}}})
	}
	hd := "false"
	if hasDefault {
		hd = "true"
	}
	args := append([]ast.Expr{ast.NewIdent(hd)}, caseArgs...)
	pre = append(pre, define(selVar, call(r.vs("Select"), args...)))
	sw := &ast.SwitchStmt{Tag: &ast.SelectorExpr{X: selVar, Sel: ast.NewIdent("I")}, Body: &ast.BlockStmt{List: clauses}}
	pre = append(pre, sw)
	blk := &ast.BlockStmt{List: pre}
	r.ours[blk] = true
	return blk
}

func (r *rewriter) rewriteRangeChan(n *ast.RangeStmt) ast.Stmt {
	v := r.tmp("rv")
	ok := r.tmp("rok")
	var body []ast.Stmt
	body = append(body, &ast.AssignStmt{Lhs: []ast.Expr{v, ok}, Tok: token.DEFINE, Rhs: []ast.Expr{call(r.vs("Recv2"), n.X)}})
	body = append(body, &ast.IfStmt{Cond: &ast.UnaryExpr{Op: token.NOT, X: ok}, Body: &ast.BlockStmt{List: []ast.Stmt{&ast.BranchStmt{Tok: token.BREAK}}}})
	if n.Key != nil {
		if id, isId := n.Key.(*ast.Ident); !isId || id.Name != "_" {
			body = append(body, &ast.AssignStmt{Lhs: []ast.Expr{n.Key}, Tok: n.Tok, Rhs: []ast.Expr{v}})
			if n.Tok == token.DEFINE {
				body = append(body, &ast.AssignStmt{Lhs: []ast.Expr{ast.NewIdent("_")}, Tok: token.ASSIGN, Rhs: []ast.Expr{n.Key}})
			}
		} else {
			body = append(body, &ast.AssignStmt{Lhs: []ast.Expr{ast.NewIdent("_")}, Tok: token.ASSIGN, Rhs: []ast.Expr{v}})
		}
	} else {
		body = append(body, &ast.AssignStmt{Lhs: []ast.Expr{ast.NewIdent("_")}, Tok: token.ASSIGN, Rhs: []ast.Expr{v}})
	}
	body = append(body, n.Body.List...)
	return &ast.ForStmt{Body: &ast.BlockStmt{List: body}}
}

func (r *rewriter) rewriteRangeMap(n *ast.RangeStmt) ast.Stmt {
	m := r.tmp("rm")
	k := r.tmp("rk")
	v := r.tmp("rv")
	ok := r.tmp("rok")
	var body []ast.Stmt
	body = append(body, &ast.AssignStmt{Lhs: []ast.Expr{v, ok}, Tok: token.DEFINE, Rhs: []ast.Expr{&ast.IndexExpr{X: m, Index: k}}})
	body = append(body, &ast.IfStmt{Cond: &ast.UnaryExpr{Op: token.NOT, X: ok}, Body: &ast.BlockStmt{List: []ast.Stmt{&ast.BranchStmt{Tok: token.CONTINUE}}}})
	body = append(body, &ast.AssignStmt{Lhs: []ast.Expr{ast.NewIdent("_")}, Tok: token.ASSIGN, Rhs: []ast.Expr{v}})
	isBlank := func(e ast.Expr) bool {
		if e == nil {
			return true
		}
		id, ok := e.(*ast.Ident)
		return ok && id.Name == "_"
	}
	if !isBlank(n.Key) {
		body = append(body, &ast.AssignStmt{Lhs: []ast.Expr{n.Key}, Tok: n.Tok, Rhs: []ast.Expr{k}})
		if n.Tok == token.DEFINE {
			body = append(body, &ast.AssignStmt{Lhs: []ast.Expr{ast.NewIdent("_")}, Tok: token.ASSIGN, Rhs: []ast.Expr{n.Key}})
		}
	}
	if !isBlank(n.Value) {
		body = append(body, &ast.AssignStmt{Lhs: []ast.Expr{n.Value}, Tok: n.Tok, Rhs: []ast.Expr{v}})
		if n.Tok == token.DEFINE {
			body = append(body, &ast.AssignStmt{Lhs: []ast.Expr{ast.NewIdent("_")}, Tok: token.ASSIGN, Rhs: []ast.Expr{n.Value}})
		}
	}
	body = append(body, n.Body.List...)
	loop := &ast.RangeStmt{Key: ast.NewIdent("_"), Value: k, Tok: token.DEFINE, X: call(r.vs("SortedKeys"), m), Body: &ast.BlockStmt{List: body}}
	blk := &ast.BlockStmt{List: []ast.Stmt{define(m, n.X), loop}}
	r.ours[blk] = true
	return blk
}
