#!/bin/bash
# benignbuild.sh <name> <worktree>: store a behaviour-preserving change under seeded/<name>/ and
# build every harness against /repo + that change (overlay); prints the harnesses that do not build.
set -u
V="${V:-/verif}"
export GOFLAGS=-mod=mod GOPROXY=off
name="$1"; wt="$2"; dst="$V/seeded/$name"; mkdir -p "$dst"
[ -f "$wt/SEED_OUT/patch.diff" ] && cp "$wt/SEED_OUT/patch.diff" "$wt/SEED_OUT/meta.json" "$dst/"
tmp="/dev/shm/seedov-$name"; rm -rf "$tmp"; mkdir -p "$tmp"
python3 - "$dst/patch.diff" "$tmp" <<'PY' || exit 2
import sys,re,os,shutil,json,subprocess
patch,tmp=sys.argv[1],sys.argv[2]
files=[]
for l in open(patch):
    m=re.match(r'^\+\+\+ b/(.*)$',l.rstrip('\n'))
    if m: files.append(m.group(1))
    m=re.match(r'^--- a/(.*)$',l.rstrip('\n'))
    if m and m.group(1) not in files: files.append(m.group(1))
for f in files:
    os.makedirs(os.path.dirname(os.path.join(tmp,f)) or tmp,exist_ok=True)
    if os.path.exists('/repo/'+f): shutil.copy('/repo/'+f,os.path.join(tmp,f))
r=subprocess.run(['patch','-p1','-s','-d',tmp,'-i',patch])
if r.returncode!=0: sys.exit('patch does not apply to /repo HEAD')
mp={}
for f in files:
    p=os.path.join(tmp,f)
    mp['/repo/'+f]=p if os.path.exists(p) else ''
json.dump(mp,open(os.path.join(tmp,'map.json'),'w'))
PY
: > "$dst/build.log"
for h in $V/h/*/; do
  id=$(basename "$h" | tr a-z A-Z)
  if ! (cd $V && VERIF_BUILD_ONLY=1 VERIF_EXTRA_OVERLAY="$tmp/map.json" ./check "$id") > "$dst/build-$id.log" 2>&1; then
    echo "BUILD FAIL $id: $(grep -m3 -E '\.go:[0-9]+' "$dst/build-$id.log" | cut -c1-200 | tr '\n' ';')" | tee -a "$dst/build.log"
  else rm -f "$dst/build-$id.log"; fi
done
rm -rf "$tmp"
echo "done $name: $(grep -c FAIL "$dst/build.log") harness(es) do not build"
