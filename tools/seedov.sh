#!/bin/bash
# seedov.sh <seed-name> <check ids...>: like seedcheck.sh but leaves /repo untouched: the patched
# files are copies supplied through VERIF_EXTRA_OVERLAY (usable while background runs read /repo).
set -u
V="${V:-/verif}"
export GOFLAGS=-mod=mod GOPROXY=off
name="$1"; shift
dst="$V/seeded/$name"
tmp="/dev/shm/seedov-$name"
rm -rf "$tmp"; mkdir -p "$tmp"
python3 - "$dst/patch.diff" "$tmp" <<'PY' || exit 2
import sys,re,os,shutil,json,subprocess
patch,tmp=sys.argv[1],sys.argv[2]
files=[]
for l in open(patch):
    m=re.match(r'^\+\+\+ b/(.*)$',l.rstrip('\n'))
    if m: files.append(m.group(1))
    m=re.match(r'^--- a/(.*)$',l.rstrip('\n'))
    if m and m.group(1) not in files: files.append(m.group(1))
for f in files:
    os.makedirs(os.path.dirname(os.path.join(tmp,f)) or tmp,exist_ok=True)
    if os.path.exists('/repo/'+f): shutil.copy('/repo/'+f,os.path.join(tmp,f))
r=subprocess.run(['patch','-p1','-s','-d',tmp,'-i',patch])
if r.returncode!=0: sys.exit('patch does not apply to /repo HEAD')
mp={}
for f in files:
    p=os.path.join(tmp,f)
    mp['/repo/'+f]=p if os.path.exists(p) else ''
json.dump(mp,open(os.path.join(tmp,'map.json'),'w'))
PY
log="$dst/checks-overlay.log"
: > "$log"
echo "checks run against /repo $(git -C /repo log --format=%h -n1) + patch supplied as overlay" >> "$log"
for id in "$@"; do
  cmd=$(python3 -c "
import json
m=json.load(open('$V/MANIFEST.json'))
c=[c for c in m['checks'] if c['property_id']=='$id']
print(c[0]['quick_cmd'] if c else './check $id --tier quick')")
  (cd $V && VERIF_EXTRA_OVERLAY="$tmp/map.json" eval "$cmd") > "$dst/check-$id.log" 2>&1; rc=$?
  echo "check $id rc=$rc $(grep -c '^VIOLATION' "$dst/check-$id.log") violation line(s): $(grep -A1 '^VIOLATION' "$dst/check-$id.log" | grep key= | head -3 | cut -c1-160 | tr '\n' ';')" | tee -a "$log"
done
rm -rf "$tmp"
# the runs above rewrote evidence files with what they saw on the seeded tree: put the committed ones back
for id in "$@"; do git -C $V checkout -q -- "evidence/${id:0:3}.json" 2>/dev/null; done
git -C $V checkout -q -- replays 2>/dev/null
