#!/bin/bash
# MANIFEST.setup_cmd: build every registered harness once (warms the Go build cache), from files on disk only.
set -u
ROOT="$(cd "$(dirname "$0")" && pwd)"
cd "$ROOT" || exit 2
export VERIF_ROOT="$ROOT"
export GOFLAGS=-mod=mod GOPROXY=off
mkdir -p build/bin evidence replays
cp /repo/go.sum go.sum
ids=$(python3 -c "
import json
import re
ids=set()
for c in json.load(open('MANIFEST.json'))['checks']:
    ids.update(x.lower() for x in re.findall(r'\./check (\w+)', c['quick_cmd']))
print(' '.join(sorted(ids)))")
rc=0
(cd tools/vinst && go build -o "$ROOT/build/bin/vinst" .) || rc=2
for id in $ids; do
  OV="build/overlay-$id.json"
  EXTRA=()
  if [ -f "h/$id/INSTRUMENT" ]; then
    ./lib/build_inst.sh "$id" || { rc=2; continue; }
    EXTRA+=("build/inst-$id/map.json")
  fi
  python3 lib/mkoverlay.py --harness "$id" --out-dir "$ROOT/build/rw-$id" "${EXTRA[@]}" > "$OV" || { rc=2; continue; }
  TAGS=verif
  [ -f "h/$id/TAGS" ] && TAGS="verif,$(cat h/$id/TAGS)"
  go build -tags "$TAGS" -overlay "$OV" -o "build/bin/$id" "./h/$id" || rc=2
done
exit $rc
