#!/bin/bash
# MANIFEST.setup_cmd: build every harness once (warms the Go build cache) from files on disk only.
set -u
cd /verif || exit 2
export GOFLAGS=-mod=mod GOPROXY=off
mkdir -p build/bin evidence replays
cp /repo/go.sum go.sum
python3 lib/mkoverlay.py > build/overlay-setup.json || exit 2
rc=0
go build -tags verif -overlay build/overlay-setup.json -o build/bin/ $(ls -d h/*/ | grep -v -f <(ls h/*/INSTRUMENT 2>/dev/null | xargs -r -n1 dirname | sed 's|$|/|') | sed 's|^|./|') || rc=2
for d in $(ls h/*/INSTRUMENT 2>/dev/null | xargs -r -n1 dirname); do
  id=$(basename "$d")
  ./lib/build_inst.sh "$id" || rc=2
done
exit $rc
