//go:build verif

package coordinator

import (
	"github.com/oxia-db/oxia/coordinator/controllers"
	"github.com/oxia-db/oxia/coordinator/model"
)

// White-box access for the C05 schedule stage (h/c05s): the *real* coordinator.ConfigChanged on a
// VerifCoordinator (zz_verif_c18.go). Node controllers are stubs (no health-check threads); the
// harness only submits configurations that add no shard, so no shard controller is created either.

type verifStubNode struct{ st controllers.NodeStatus }

func (*verifStubNode) Close() error                         { return nil }
func (n *verifStubNode) Status() controllers.NodeStatus     { return n.st }
func (n *verifStubNode) SetStatus(s controllers.NodeStatus) { n.st = s }

// VerifRealConfigChanged does what the cluster-config resource does on a change notification (reload,
// rebuild the indexes) and then calls the real listener.
func (v *VerifCoordinator) VerifRealConfigChanged(cfg model.ClusterConfig) {
	for _, sa := range cfg.Servers {
		if _, ok := v.c.nodeControllers[sa.GetIdentifier()]; !ok {
			v.c.nodeControllers[sa.GetIdentifier()] = &verifStubNode{}
		}
	}
	v.VerifSetConfig(cfg)
	v.c.ConfigChanged(&cfg)
}
