//go:build verif

package coordinator

import (
	"context"
	"fmt"
	"log/slog"

	"github.com/oxia-db/oxia/common/concurrent"
	"github.com/oxia-db/oxia/coordinator/balancer"
	"github.com/oxia-db/oxia/coordinator/controllers"
	"github.com/oxia-db/oxia/coordinator/metadata"
	"github.com/oxia-db/oxia/coordinator/model"
	"github.com/oxia-db/oxia/coordinator/resources"
	"github.com/oxia-db/oxia/coordinator/selectors"
	"github.com/oxia-db/oxia/coordinator/selectors/ensemble"
	"github.com/oxia-db/oxia/coordinator/utils"
	"github.com/oxia-db/oxia/proto"
)

// White-box access for the /verif C18/C19 harnesses (added through `go build -overlay`).
//
// VerifCoordinator is a real `coordinator` value without node controllers, shard
// controllers, RPC and background goroutines. Everything that decides the shard map is
// the repository's code: utils.ApplyClusterChanges, coordinator.selectNewEnsemble (real
// ensemble selector, real ClusterConfigResource), the real StatusResource on the
// in-memory metadata provider, coordinator.computeNewAssignments, coordinator.ShardDeleted.
// The only stub is the LoadBalancer, of which selectNewEnsemble uses LoadRatioAlgorithm() only.

type verifLB struct{ algo selectors.LoadRatioAlgorithm }

func (*verifLB) Close() error                     { return nil }
func (*verifLB) Trigger()                         {}
func (*verifLB) Action() <-chan balancer.Action   { return nil }
func (*verifLB) IsBalanced() bool                 { return true }
func (l *verifLB) LoadRatioAlgorithm() selectors.LoadRatioAlgorithm { return l.algo }

type VerifCoordinator struct {
	c *coordinator
	// SupplierErrors counts ensemble selections that returned an error during the last VerifConfigChanged.
	SupplierErrors int
	SupplierCalls  int
	LastSupplierErr error
	// SupplierErrNS: namespace -> number of failed ensemble selections during the last VerifConfigChanged.
	SupplierErrNS map[string]int
}

func VerifNewCoordinator(meta metadata.Provider, algo selectors.LoadRatioAlgorithm) *VerifCoordinator {
	c := &coordinator{
		Logger:           slog.Default(),
		ensembleSelector: ensemble.NewSelector(),
		shardControllers: map[int64]controllers.ShardController{},
		nodeControllers:  map[string]controllers.NodeController{},
		drainingNodes:    map[string]controllers.NodeController{},
		statusResource:   resources.NewStatusResource(meta),
		loadBalancer:     &verifLB{algo: algo},
	}
	c.ctx, c.cancel = context.WithCancel(context.Background())
	c.assignmentsChanged = concurrent.NewConditionContext(c)
	return &VerifCoordinator{c: c}
}

func (v *VerifCoordinator) Close() { v.c.cancel() }

func (v *VerifCoordinator) StatusResource() resources.StatusResource { return v.c.statusResource }
func (v *VerifCoordinator) ConfigResource() resources.ClusterConfigResource {
	return v.c.configResource
}

// VerifSetConfig does what the cluster-config resource does on a change notification: the
// config is reloaded from the provider and the node / namespace indexes are rebuilt.
func (v *VerifCoordinator) VerifSetConfig(cfg model.ClusterConfig) {
	if v.c.configResource != nil {
		_ = v.c.configResource.Close()
	}
	cc := cfg
	v.c.configResource = resources.NewClusterConfigResource(v.c.ctx, func() (model.ClusterConfig, error) { return cc, nil }, nil, nil)
	v.c.configResource.Load()
}

// VerifConfigChanged is coordinator.ConfigChanged minus node/shard controller management:
// compare-and-set of ApplyClusterChanges(newConfig, status, c.selectNewEnsemble) followed by
// computeNewAssignments. A panic raised by the real code is returned, not propagated.
func (v *VerifCoordinator) VerifConfigChanged(cfg model.ClusterConfig) (shardsToAdd map[int64]string, shardsToDelete []int64, panicked any) {
	defer func() {
		if r := recover(); r != nil {
			panicked = r
		}
	}()
	v.VerifSetConfig(cfg)
	c := v.c
	newConfig := c.configResource.Load()
	v.SupplierErrors, v.SupplierCalls, v.LastSupplierErr = 0, 0, nil
	v.SupplierErrNS = map[string]int{}
	supplier := func(ns *model.NamespaceConfig, st *model.ClusterStatus) ([]model.Server, error) {
		v.SupplierCalls++
		e, err := c.selectNewEnsemble(ns, st)
		if err != nil {
			v.SupplierErrors++
			v.SupplierErrNS[ns.Name]++
			v.LastSupplierErr = err
		}
		return e, err
	}
	c.Lock()
	defer c.Unlock()
	currentStatus, version := c.statusResource.LoadWithVersion()
	var clusterStatus *model.ClusterStatus
	for {
		clusterStatus, shardsToAdd, shardsToDelete = utils.ApplyClusterChanges(newConfig, currentStatus, supplier)
		if !c.statusResource.Swap(clusterStatus, version) {
			currentStatus, version = c.statusResource.LoadWithVersion()
			continue
		}
		break
	}
	c.computeNewAssignments()
	return shardsToAdd, shardsToDelete, nil
}

// VerifShardDeleted is what shardController.deleteShard does once every ensemble member
// acknowledged the deletion: DeleteShardMetadata + the coordinator's ShardDeleted listener.
func (v *VerifCoordinator) VerifShardDeleted(namespace string, shard int64) {
	v.c.statusResource.DeleteShardMetadata(namespace, shard)
	v.c.ShardDeleted(shard)
}

// VerifLeaderElected stores the metadata a shard controller writes after an election and
// fires the coordinator's LeaderElected listener.
func (v *VerifCoordinator) VerifLeaderElected(namespace string, shard int64, md model.ShardMetadata) {
	v.c.statusResource.UpdateShardMetadata(namespace, shard, md)
	var leader model.Server
	if md.Leader != nil {
		leader = *md.Leader
	}
	v.c.LeaderElected(shard, leader, nil)
}

func (v *VerifCoordinator) VerifAssignments() *proto.ShardAssignments { return v.c.assignments }

// VerifSelectNewEnsemble calls the real coordinator.selectNewEnsemble; a panic is returned as error text.
func (v *VerifCoordinator) VerifSelectNewEnsemble(ns *model.NamespaceConfig, editing *model.ClusterStatus) (esm []model.Server, err error, panicked any) {
	defer func() {
		if r := recover(); r != nil {
			panicked = fmt.Sprint(r)
		}
	}()
	esm, err = v.c.selectNewEnsemble(ns, editing)
	return esm, err, nil
}
