//go:build verif

package balancer

import (
	"context"
	"fmt"
	"log/slog"
	"sync"
	"time"

	"github.com/oxia-db/oxia/coordinator/resources"
	"github.com/oxia-db/oxia/coordinator/selectors"
	"github.com/oxia-db/oxia/coordinator/selectors/single"
)

// White-box access for the /verif C19 harness: a real nodeBasedBalancer (real single-server
// selector chain, real rebalanceEnsemble / cleanDeletedNode / balanceHighestNode / swapShard)
// without the background ticker and notifier goroutines.

type VerifC19Balancer struct {
	r   *nodeBasedBalancer
	lim *verifC19LogLimit
}

// verifC19LogLimit is an slog handler that discards everything and panics once more than
// `max` error records were logged: rebalanceEnsemble logs an error on every failed swap
// attempt, so a round that never terminates is turned into a panic the harness can observe.
type verifC19LogLimit struct {
	mu  sync.Mutex
	n   int
	max int
}

type VerifC19Livelock struct{ Errors int }

func (h *verifC19LogLimit) Enabled(_ context.Context, l slog.Level) bool { return l >= slog.LevelError }
func (h *verifC19LogLimit) Handle(context.Context, slog.Record) error {
	h.mu.Lock()
	h.n++
	n, max := h.n, h.max
	h.mu.Unlock()
	if n > max {
		panic(VerifC19Livelock{Errors: n})
	}
	return nil
}
func (h *verifC19LogLimit) WithAttrs([]slog.Attr) slog.Handler { return h }
func (h *verifC19LogLimit) WithGroup(string) slog.Handler      { return h }

func VerifC19NewBalancer(status resources.StatusResource, config resources.ClusterConfigResource, algo selectors.LoadRatioAlgorithm) *VerifC19Balancer {
	ctx, cancel := context.WithCancel(context.Background())
	lim := &verifC19LogLimit{max: 60}
	nb := &nodeBasedBalancer{
		WaitGroup:          &sync.WaitGroup{},
		Logger:             slog.New(lim),
		scheduleInterval:   time.Hour,
		quarantineTime:     time.Hour,
		ctx:                ctx,
		cancel:             cancel,
		actionCh:           make(chan Action, 1000),
		statusResource:     status,
		configResource:     config,
		selector:           single.NewSelector(),
		loadRatioAlgorithm: algo,
		triggerCh:          make(chan struct{}, 1),
	}
	return &VerifC19Balancer{r: nb, lim: lim}
}

func (v *VerifC19Balancer) Close() { v.r.cancel() }

// SetLivelockThreshold: number of error records after which a round is declared never-ending
// (default 60). A terminating round logs at most one error per shard on a deleted node plus one;
// an error inside balanceHighestNode is retried without any state change, i.e. forever.
func (v *VerifC19Balancer) SetLivelockThreshold(n int) {
	v.lim.mu.Lock()
	v.lim.max = n
	v.lim.mu.Unlock()
}

// Reset makes the balancer as good as new (no quarantined node, error-log counter at zero) and
// points it at the given resources / load-ratio algorithm.
func (v *VerifC19Balancer) Reset(status resources.StatusResource, config resources.ClusterConfigResource, algo selectors.LoadRatioAlgorithm) {
	v.r.statusResource = status
	v.r.configResource = config
	v.r.loadRatioAlgorithm = algo
	v.r.quarantineNodeMap = sync.Map{}
	v.lim.mu.Lock()
	v.lim.n = 0
	v.lim.mu.Unlock()
}

type VerifC19Round struct {
	Actions     []*SwapNodeAction // in emission order
	Panicked    string            // non-empty if rebalanceEnsemble panicked
	Livelock    bool              // the round kept failing the same swap (more than 60 error records)
	ErrorLogs   int
	Quarantined []string
}

// VerifC19Rebalance runs one real rebalanceEnsemble round. Actions are taken from the action
// channel in emission order and acknowledged immediately (the coordinator's action worker
// handles them one at a time in that order; the round itself only waits for the acknowledgements).
func (v *VerifC19Balancer) VerifC19Rebalance() VerifC19Round {
	r := v.r
	var out VerifC19Round
	done := make(chan struct{})
	go func() {
		defer close(done)
		defer func() {
			if p := recover(); p != nil {
				if l, ok := p.(VerifC19Livelock); ok {
					out.Livelock = true
					_ = l
				} else {
					out.Panicked = fmt.Sprint(p)
				}
			}
		}()
		r.rebalanceEnsemble()
	}()
	take := func(a Action) {
		sa := a.(*SwapNodeAction)
		out.Actions = append(out.Actions, sa)
		sa.Done()
	}
loop:
	for {
		select {
		case a := <-r.actionCh:
			take(a)
		case <-done:
			break loop
		}
	}
	for {
		select {
		case a := <-r.actionCh:
			take(a)
			continue
		default:
		}
		break
	}
	v.lim.mu.Lock()
	out.ErrorLogs = v.lim.n
	v.lim.mu.Unlock()
	r.quarantineNodeMap.Range(func(k, _ any) bool { out.Quarantined = append(out.Quarantined, k.(string)); return true })
	return out
}
