//go:build verif

package controllers

import "github.com/oxia-db/oxia/coordinator/model"

// VerifC19SwapEnsemble performs the metadata part of shardController.swapNode (the statements
// executed under shardMetadataMutex) on a copy of the shard metadata, using the real replaceInList.
func VerifC19SwapEnsemble(md model.ShardMetadata, from, to model.Server) model.ShardMetadata {
	s := &shardController{shardMetadata: md.Clone()}
	s.shardMetadataMutex.Lock()
	s.shardMetadata.RemovedNodes = append(s.shardMetadata.RemovedNodes, from)
	s.shardMetadata.Ensemble = replaceInList(s.shardMetadata.Ensemble, from, to)
	s.shardMetadataMutex.Unlock()
	return s.shardMetadata
}
