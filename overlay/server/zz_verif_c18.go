//go:build verif

package server

import (
	"context"
	"log/slog"

	"google.golang.org/grpc/health"
	"google.golang.org/grpc/metadata"

	"github.com/oxia-db/oxia/proto"
)

// White-box access to the server-side assignment dispatcher for the /verif C18 harness.
// A real shardAssignmentDispatcher without the metrics gauge (the gauge registration is
// process-global and irrelevant to routing).

var verifC18Health = health.NewServer()

// VerifC18Authority is the :authority header of the fake client stream (standalone mode rewrites leaders with it).
const VerifC18Authority = "verif-authority:6648"

func VerifC18NewDispatcher() ShardAssignmentsDispatcher {
	s := &shardAssignmentDispatcher{
		healthServer: verifC18Health,
		clients:      make(map[int64]chan *proto.ShardAssignments),
		log:          slog.Default(),
	}
	s.ctx, s.cancel = context.WithCancel(context.Background())
	return s
}

// VerifC18Push = what PushShardAssignments does for every message received from the coordinator.
func VerifC18Push(d ShardAssignmentsDispatcher, a *proto.ShardAssignments) error {
	return d.(*shardAssignmentDispatcher).updateShardAssignment(a)
}

func VerifC18CloseDispatcher(d ShardAssignmentsDispatcher) {
	d.(*shardAssignmentDispatcher).cancel()
}

type verifC18Client struct {
	ctx    context.Context
	cancel context.CancelFunc
	got    []*proto.ShardAssignments
}

func (c *verifC18Client) Send(a *proto.ShardAssignments) error {
	c.got = append(c.got, a)
	c.cancel() // the client goes away right after the initial assignments
	return nil
}
func (c *verifC18Client) Context() context.Context { return c.ctx }

// VerifC18Register runs the real RegisterForUpdates for a client that disconnects after the
// first message and returns what was sent to it.
func VerifC18Register(d ShardAssignmentsDispatcher, namespace string) (*proto.ShardAssignments, error) {
	c := &verifC18Client{}
	c.ctx, c.cancel = context.WithCancel(metadata.NewIncomingContext(context.Background(), metadata.Pairs(":authority", VerifC18Authority)))
	defer c.cancel()
	err := d.RegisterForUpdates(&proto.ShardAssignmentsRequest{Namespace: namespace}, c)
	if err != nil {
		return nil, err
	}
	if len(c.got) == 0 {
		return nil, nil
	}
	return c.got[0], nil
}

type verifC18Subscriber struct {
	ctx   context.Context
	onMap func(*proto.ShardAssignments)
}

func (c *verifC18Subscriber) Send(a *proto.ShardAssignments) error {
	c.onMap(a)
	return nil
}
func (c *verifC18Subscriber) Context() context.Context { return c.ctx }

// VerifC18Subscribe runs the real RegisterForUpdates for a client that stays connected until ctx ends; every
// map sent to the client is handed to onMap (which may block: a slow client). Returns what the handler returns.
func VerifC18Subscribe(ctx context.Context, d ShardAssignmentsDispatcher, namespace string, onMap func(*proto.ShardAssignments)) error {
	c := &verifC18Subscriber{onMap: onMap}
	c.ctx = metadata.NewIncomingContext(ctx, metadata.Pairs(":authority", VerifC18Authority))
	return d.RegisterForUpdates(&proto.ShardAssignmentsRequest{Namespace: namespace}, c)
}
