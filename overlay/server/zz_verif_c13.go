//go:build verif

package server

import (
	"context"
	"io"
	"log/slog"
	"strconv"

	"google.golang.org/grpc"
	"google.golang.org/grpc/metadata"

	"github.com/oxia-db/oxia/common/constant"
	"github.com/oxia-db/oxia/proto"
)

// White-box entry points for the C13 harness: the *real* public RPC handlers (no network), so that the harness
// learns from the code under test which client requests are accepted into the log. If validation is ever added
// to publicRpcServer.Write / WriteStream, rejected requests drop out of the C13 grammar by themselves.

type verifC13Director struct {
	ShardsDirector
	lc LeaderController
}

func (d verifC13Director) GetLeader(int64) (LeaderController, error) { return d.lc, nil }

// VerifC13PublicWrite runs the unary Write handler of the public RPC server against lc.
func VerifC13PublicWrite(ctx context.Context, lc LeaderController, req *proto.WriteRequest) (*proto.WriteResponse, error) {
	s := &publicRpcServer{shardsDirector: verifC13Director{lc: lc}, log: slog.Default()}
	return s.Write(ctx, req)
}

type verifC13Stream struct {
	grpc.ServerStream
	ctx  context.Context
	reqs []*proto.WriteRequest
	resp chan *proto.WriteResponse
}

func (s *verifC13Stream) Context() context.Context { return s.ctx }
func (s *verifC13Stream) Send(r *proto.WriteResponse) error {
	s.resp <- r
	return nil
}
func (s *verifC13Stream) Recv() (*proto.WriteRequest, error) {
	if len(s.reqs) == 0 {
		// the client keeps its stream open until it has its answer
		<-s.ctx.Done()
		return nil, s.ctx.Err()
	}
	r := s.reqs[0]
	s.reqs = s.reqs[1:]
	return r, nil
}

// VerifC13PublicWriteStream feeds one request through the WriteStream handler (shard and namespace in the
// call metadata, as a client sends them) and waits for its response or its error.
func VerifC13PublicWriteStream(ctx context.Context, lc LeaderController, req *proto.WriteRequest) (*proto.WriteResponse, error) {
	s := &publicRpcServer{shardsDirector: verifC13Director{lc: lc}, log: slog.Default()}
	sctx, cancel := context.WithCancel(ctx)
	defer cancel()
	sctx = metadata.NewIncomingContext(sctx, metadata.Pairs(
		constant.MetadataShardId, strconv.FormatInt(lc.ShardID(), 10),
		constant.MetadataNamespace, lc.Namespace()))
	st := &verifC13Stream{ctx: sctx, reqs: []*proto.WriteRequest{req}, resp: make(chan *proto.WriteResponse, 1)}
	finished := make(chan error, 1)
	go func() { finished <- s.WriteStream(st) }()
	// RF=1: the write callback runs synchronously or from the WAL sync goroutine - wait for either outcome
	for {
		select {
		case r := <-st.resp:
			return r, nil
		case <-ctx.Done():
			return nil, ctx.Err()
		case err := <-finished:
			if err == nil {
				err = io.ErrUnexpectedEOF // the handler ended although the stream is still open
			}
			return nil, err
		}
	}
}
