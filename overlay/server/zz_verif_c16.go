//go:build verif

package server

import (
	"context"
	"log/slog"

	"google.golang.org/grpc"

	"github.com/oxia-db/oxia/proto"
)

// White-box entry point for the C16 harnesses: the *real* GetSequenceUpdates handler of the public RPC
// server (no network), so that what a subscriber observes includes whatever the handler does between the
// database's sequence waiter and the client stream.

type verifC16Director struct {
	ShardsDirector
	lc LeaderController
}

func (d verifC16Director) GetLeader(int64) (LeaderController, error) { return d.lc, nil }

type verifC16Stream struct {
	grpc.ServerStream
	ctx   context.Context
	onKey func(string)
}

func (s *verifC16Stream) Context() context.Context { return s.ctx }
func (s *verifC16Stream) Send(r *proto.GetSequenceUpdatesResponse) error {
	s.onKey(r.HighestSequenceKey)
	return nil
}

// VerifC16PublicSequenceUpdates serves one subscription with the public handler; it returns when the handler
// does (the context is the client's stream context).
func VerifC16PublicSequenceUpdates(ctx context.Context, lc LeaderController, req *proto.GetSequenceUpdatesRequest, onKey func(string)) error {
	s := &publicRpcServer{shardsDirector: verifC16Director{lc: lc}, log: slog.Default()}
	return s.GetSequenceUpdates(req, &verifC16Stream{ctx: ctx, onKey: onKey})
}
