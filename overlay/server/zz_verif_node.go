//go:build verif

package server

import (
	"crypto/tls"

	"google.golang.org/grpc"
	"google.golang.org/grpc/health"

	"github.com/oxia-db/oxia/common/rpc"
	"github.com/oxia-db/oxia/server/auth"
	"github.com/oxia-db/oxia/server/kv"
	"github.com/oxia-db/oxia/server/wal"
)

// VerifNewServer repeats the constructor sequence of NewWithGrpcProvider with
// harness-chosen storage factories and no network listeners. The promoted methods of
// the returned Server (NewTerm, BecomeLeader, AddFollower, Truncate, Replicate,
// SendSnapshot, GetStatus, DeleteShard, Write, Read, List, ...) are the RPC entry points.
func VerifNewServer(config Config, walFactory wal.Factory, kvFactory kv.Factory, repl ReplicationRpcProvider) (*Server, error) {
	s := &Server{
		replicationRpcProvider: repl,
		walFactory:             walFactory,
		kvFactory:              kvFactory,
		healthServer:           health.NewServer(),
	}
	s.shardsDirector = NewShardsDirector(config, s.walFactory, s.kvFactory, repl)
	s.shardAssignmentDispatcher = NewShardAssignmentDispatcher(s.healthServer)
	var err error
	if s.internalRpcServer, err = newInternalRpcServer(verifNoGrpc{}, "", s.shardsDirector, s.shardAssignmentDispatcher,
		s.healthServer, nil); err != nil {
		return nil, err
	}
	if s.publicRpcServer, err = newPublicRpcServer(verifNoGrpc{}, "", s.shardsDirector, s.shardAssignmentDispatcher, nil,
		&auth.Disabled); err != nil {
		return nil, err
	}
	return s, nil
}

type verifNoGrpc struct{}

func (verifNoGrpc) StartGrpcServer(string, string, func(grpc.ServiceRegistrar), *tls.Config, *auth.Options) (rpc.GrpcServer, error) {
	return verifNoServer{}, nil
}

type verifNoServer struct{}

func (verifNoServer) Close() error { return nil }
func (verifNoServer) Port() int    { return 0 }

// VerifDirector exposes the shard director of a server.
func VerifDirector(s *Server) ShardsDirector { return s.shardsDirector }

// VerifControllers returns the controllers currently hosted for a shard (nil if none),
// read without locks (monitors run while holding the scheduler token).
func VerifControllers(s *Server, shard int64) (LeaderController, FollowerController) {
	d := s.shardsDirector.(*shardsDirector)
	return d.leaders[shard], d.followers[shard]
}
