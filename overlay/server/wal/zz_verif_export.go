//go:build verif

package wal

import (
	"fmt"
	"time"

	time2 "github.com/oxia-db/oxia/common/time"
)

// White-box access for the /verif harnesses. Added through `go build -overlay`;
// never part of the repository.

func VerifNewWal(namespace string, shard int64, options *FactoryOptions, cop CommitOffsetProvider,
	clock time2.Clock, trimInterval time.Duration) (Wal, error) {
	return newWal(namespace, shard, options, cop, clock, trimInterval)
}

func VerifDoTrim(w Wal) error { return w.(*wal).trimmer.(*trimmer).doTrim() }

func VerifAppendedOffset(w Wal) int64 { return w.(*wal).lastAppendedOffset.Load() }

func VerifWalPath(w Wal) string { return w.(*wal).walPath }

// VerifDump renders the hidden layout state (segments known / cached).
func VerifDump(w Wal) string {
	t := w.(*wal)
	t.RLock()
	defer t.RUnlock()
	g := t.readOnlySegments.(*readOnlySegmentsGroup)
	g.Lock()
	defer g.Unlock()
	return fmt.Sprintf("cur=%d/%d all=%v open=%v first=%d app=%d syn=%d", t.currentSegment.BaseOffset(),
		t.currentSegment.LastOffset(), g.allSegments.Keys(), g.openSegments.Keys(),
		t.firstOffset.Load(), t.lastAppendedOffset.Load(), t.lastSyncedOffset.Load())
}

// VerifForceClose releases the mappings of a WAL whose owner goroutines are gone
// (post-mortem clean-up of an explored execution). Errors are ignored.
func VerifForceClose(w Wal) {
	defer func() { _ = recover() }()
	t := w.(*wal)
	if t.ctx != nil && t.isClosed() {
		// already closed by its owner: closing the current segment a second time would hand its index
		// buffer to the codec's buffer pool twice, and two segments of a later execution would share it
		return
	}
	if t.cancel != nil {
		t.cancel()
	}
	if t.currentSegment != nil {
		_ = t.currentSegment.Close()
	}
	if t.readOnlySegments != nil {
		_ = t.readOnlySegments.Close()
	}
}
