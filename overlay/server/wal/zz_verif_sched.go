//go:build verif && vsched

package wal

// VerifPeekOffsets returns (first, appended, synced) without scheduling points.
func VerifPeekOffsets(w Wal) (first, appended, synced int64) {
	t := w.(*wal)
	return t.firstOffset.Peek(), t.lastAppendedOffset.Peek(), t.lastSyncedOffset.Peek()
}
