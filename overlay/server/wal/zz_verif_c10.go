//go:build verif

package wal

// White-box access for the C10 harness (/verif/h/c10). Added through `go build -overlay`;
// never part of the repository.

// verifC10Seg wraps the current read-write segment so that the harness observes every
// Flush (msync) the WAL issues through the ReadWriteSegment interface: the durable image of a
// segment file is its content at the last observed Flush.
type verifC10Seg struct {
	ReadWriteSegment
	onFlush func(baseOffset int64)
}

func (s *verifC10Seg) Flush() error {
	err := s.ReadWriteSegment.Flush()
	if err == nil {
		s.onFlush(s.ReadWriteSegment.BaseOffset())
	}
	return err
}

// VerifC10WrapCurrent makes sure the WAL's current segment is wrapped (a rollover installs a new,
// unwrapped one). Call it after every append and before every Sync.
func VerifC10WrapCurrent(w Wal, onFlush func(baseOffset int64)) {
	t := w.(*wal)
	t.Lock()
	defer t.Unlock()
	if _, ok := t.currentSegment.(*verifC10Seg); !ok {
		t.currentSegment = &verifC10Seg{ReadWriteSegment: t.currentSegment, onFlush: onFlush}
	}
}

// VerifC10CurrentBase returns the base offset of the current segment.
func VerifC10CurrentBase(w Wal) int64 {
	t := w.(*wal)
	t.RLock()
	defer t.RUnlock()
	return t.currentSegment.BaseOffset()
}

// verifC10FlushSeg lets a scheduler harness observe the start and the end of every Flush of the current
// segment (what an msync guarantees is the content at its start).
type verifC10FlushSeg struct {
	ReadWriteSegment
	before, after func()
}

func (s *verifC10FlushSeg) Flush() error {
	s.before()
	err := s.ReadWriteSegment.Flush()
	if err == nil {
		s.after()
	}
	return err
}

// VerifC10ObserveFlush wraps the WAL's current segment (no rollover is expected afterwards).
func VerifC10ObserveFlush(w Wal, before, after func()) {
	t := w.(*wal)
	t.Lock()
	defer t.Unlock()
	t.currentSegment = &verifC10FlushSeg{ReadWriteSegment: t.currentSegment, before: before, after: after}
}
