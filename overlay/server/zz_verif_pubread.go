//go:build verif

package server

import (
	"context"
	"log/slog"

	"google.golang.org/grpc"

	"github.com/oxia-db/oxia/proto"
)

// White-box entry points for the public read path (lib/pubrpc): the *real* Read / List / RangeScan handlers of
// the public RPC server (no network) over a leader controller, with a stream that records every message.

type verifPubDirector struct {
	ShardsDirector
	lc LeaderController
}

func (d verifPubDirector) GetLeader(int64) (LeaderController, error) { return d.lc, nil }

// (a message is copied when it is sent, as a real stream serialises it: the server reuses pooled objects)
type verifPubStream[T interface{ CloneVT() T }] struct {
	grpc.ServerStream
	ctx  context.Context
	msgs []T
}

func (s *verifPubStream[T]) Context() context.Context { return s.ctx }
func (s *verifPubStream[T]) Send(m T) error {
	s.msgs = append(s.msgs, m.CloneVT())
	return nil
}

func verifPubServer(lc LeaderController) *publicRpcServer {
	return &publicRpcServer{shardsDirector: verifPubDirector{lc: lc}, log: slog.Default()}
}

// VerifPublicRead returns the messages the Read handler sends for req.
func VerifPublicRead(ctx context.Context, lc LeaderController, req *proto.ReadRequest) ([]*proto.ReadResponse, error) {
	st := &verifPubStream[*proto.ReadResponse]{ctx: ctx}
	err := verifPubServer(lc).Read(req, st)
	return st.msgs, err
}

// VerifPublicList returns the messages the List handler sends for req.
func VerifPublicList(ctx context.Context, lc LeaderController, req *proto.ListRequest) ([]*proto.ListResponse, error) {
	st := &verifPubStream[*proto.ListResponse]{ctx: ctx}
	err := verifPubServer(lc).List(req, st)
	return st.msgs, err
}

// VerifPublicRangeScan returns the messages the RangeScan handler sends for req.
func VerifPublicRangeScan(ctx context.Context, lc LeaderController, req *proto.RangeScanRequest) ([]*proto.RangeScanResponse, error) {
	st := &verifPubStream[*proto.RangeScanResponse]{ctx: ctx}
	err := verifPubServer(lc).RangeScan(req, st)
	return st.msgs, err
}
