//go:build verif

package server

import (
	"github.com/oxia-db/oxia/server/kv"
	"github.com/oxia-db/oxia/server/wal"
)

// White-box access for the C06/C07 harnesses: the database and the WAL a leader controller owns.

func VerifC06LeaderDB(lc LeaderController) kv.DB { return lc.(*leaderController).db }

func VerifC06LeaderWal(lc LeaderController) wal.Wal { return lc.(*leaderController).wal }
