//go:build verif

package server

import "sort"

// VerifLiveSessionIds returns the ids of the sessions the leader's current session manager
// holds in memory (C14 harness: compared with the model without sending heartbeats).
func VerifLiveSessionIds(l LeaderController) []int64 {
	sm, ok := l.(*leaderController).sessionManager.(*sessionManager)
	if !ok {
		return nil
	}
	// no sm lock: only called by the sequential harness between operations
	var out []int64
	for _, k := range sm.sessions.Keys() {
		out = append(out, int64(k))
	}
	sort.Slice(out, func(i, j int) bool { return out[i] < out[j] })
	return out
}
