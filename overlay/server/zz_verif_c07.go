//go:build verif

package server

import (
	"github.com/oxia-db/oxia/server/kv"
	"github.com/oxia-db/oxia/server/wal"
)

// White-box access for the C07 harness: the database and the WAL a follower controller owns.

func VerifC07FollowerDB(fc FollowerController) kv.DB { return fc.(*followerController).db }

func VerifC07FollowerWal(fc FollowerController) wal.Wal { return fc.(*followerController).wal }
