//go:build verif && vsched

package server

// Non-scheduling reads of internal state for monitors that run at every scheduling
// point (only in instrumented builds, where the atomics are vatomic types).

// VerifPeekTracker returns (next, head, commit) of the leader's quorum tracker without
// creating scheduling points; ok=false when the node has no tracker.
func VerifPeekTracker(l LeaderController) (next, head, commit int64, ok bool) {
	q, _ := l.(*leaderController).quorumAckTracker.(*quorumAckTracker)
	if q == nil {
		return 0, 0, 0, false
	}
	return q.nextOffset.Peek(), q.headOffset.Peek(), q.commitOffset.Peek(), true
}

func VerifPeekLeader(l LeaderController) (term int64, status int32) {
	lc := l.(*leaderController)
	return lc.term, int32(lc.status)
}

func VerifPeekFollower(f FollowerController) (term int64, status int32, commit int64) {
	fc := f.(*followerController)
	return fc.term, int32(fc.status), fc.commitOffset.Peek()
}
