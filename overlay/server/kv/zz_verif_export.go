//go:build verif

package kv

import (
	"context"
	"log/slog"
	"time"

	time2 "github.com/oxia-db/oxia/common/time"

	"github.com/cockroachdb/pebble"
	"github.com/cockroachdb/pebble/vfs"
)

// White-box access for the /verif harnesses (added through `go build -overlay`).

// VerifFSHook, when set, chooses the filesystem Pebble runs on (crash-simulating
// StrictMem etc.). dbPath is the directory of the shard's database.
var VerifFSHook func(dataDir string, inMemory bool, def vfs.FS) vfs.FS

func verifFS(f *PebbleFactory, def vfs.FS) vfs.FS {
	if VerifFSHook != nil {
		return VerifFSHook(f.dataDir, f.options.InMemory, def)
	}
	return def
}

// VerifPebble exposes the engine handle (manual flush/compaction, sstable properties).
func VerifPebble(k KV) *pebble.DB { return k.(*Pebble).db }

// VerifKV returns the KV under a DB.
func VerifKV(d DB) KV { return d.(*db).kv }

func VerifVersionIdTracker(d DB) int64 { return d.(*db).versionIdTracker.Load() }

// VerifTrimNotifications runs one trimming round of the notifications trimmer synchronously.
// (the trimmer object the tracker starts is not retained anywhere, so an identical
// one is built here without its ticker goroutine.)
func VerifTrimNotifications(d DB, retention time.Duration, clock time2.Clock) error {
	t := &notificationsTrimmer{ctx: context.Background(), kv: d.(*db).kv,
		notificationsRetentionTime: retention, clock: clock, log: slog.Default()}
	return t.trimNotifications()
}

// VerifMemTableSize, when non-zero, replaces Pebble's 32 MiB memtable (harnesses open
// thousands of short-lived databases).
var VerifMemTableSize uint64

func verifMemTableSize(def uint64) uint64 {
	if VerifMemTableSize != 0 {
		return VerifMemTableSize
	}
	return def
}

// VerifNoAutoCompactions switches Pebble's background compactions off (they are real-time
// background work: on a real directory the set of files a checkpoint holds would depend on
// whether a compaction has finished, which a deterministic replay cannot tolerate). The
// write stall that protects a database with too many level-0 files is lifted with it (a stalled
// write would wait for a compaction that never comes).
var VerifNoAutoCompactions bool

func verifL0Stop() int {
	if VerifNoAutoCompactions {
		return 1 << 20
	}
	return 0
}

// VerifFloorHook, when set, is called by getFloor between its search for the key itself and its search for the
// closest key below it (a scheduling point for the C02 schedule stage: the engine's own calls are not instrumented).
var VerifFloorHook func()

func verifFloorPoint() {
	if h := VerifFloorHook; h != nil {
		h()
	}
}
