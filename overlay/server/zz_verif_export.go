//go:build verif

package server

import (
	"github.com/oxia-db/oxia/server/kv"
	"github.com/oxia-db/oxia/server/wal"
)

// White-box access for the /verif harnesses (added through `go build -overlay`).

func VerifLeaderWal(l LeaderController) wal.Wal { return l.(*leaderController).wal }
func VerifLeaderDB(l LeaderController) kv.DB    { return l.(*leaderController).db }
func VerifLeaderTracker(l LeaderController) QuorumAckTracker {
	return l.(*leaderController).quorumAckTracker
}
func VerifFollowerWal(f FollowerController) wal.Wal { return f.(*followerController).wal }
func VerifFollowerDB(f FollowerController) kv.DB    { return f.(*followerController).db }
