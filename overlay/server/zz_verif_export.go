//go:build verif

package server

import (
	"github.com/oxia-db/oxia/common/rpc"
	"github.com/oxia-db/oxia/server/kv"
	"github.com/oxia-db/oxia/server/wal"
)

// White-box access for the /verif harnesses (added through `go build -overlay`).

func VerifLeaderWal(l LeaderController) wal.Wal { return l.(*leaderController).wal }
func VerifLeaderDB(l LeaderController) kv.DB    { return l.(*leaderController).db }
func VerifLeaderTracker(l LeaderController) QuorumAckTracker {
	return l.(*leaderController).quorumAckTracker
}
func VerifFollowerWal(f FollowerController) wal.Wal { return f.(*followerController).wal }
func VerifFollowerDB(f FollowerController) kv.DB    { return f.(*followerController).db }

// VerifReplicationProvider is the real replication RPC provider (the code that attaches namespace, shard and
// term to the streams a leader opens) over a client pool supplied by the harness.
func VerifReplicationProvider(pool rpc.ClientPool) ReplicationRpcProvider {
	return &replicationRpcProvider{pool: pool}
}
