//go:build verif

package oxia

// White-box constructor for the C11 harness: ResultAndChannel has only unexported fields.
func VerifC11ResultAndChannel(key string) *ResultAndChannel {
	return &ResultAndChannel{gr: GetResult{Key: key}}
}
