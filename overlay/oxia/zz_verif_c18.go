//go:build verif

package oxia

import "github.com/oxia-db/oxia/oxia/internal"

// Re-exports for the /verif C18 harness (oxia/internal cannot be imported from outside /repo/oxia).
type VerifC18ShardManager = internal.VerifSM
type VerifC18Shard = internal.VerifShard

func VerifC18NewShardManager(namespace string) *VerifC18ShardManager {
	return internal.VerifNewSM(namespace)
}

// VerifC18RecordRoute: the shard the client library sends a per-record operation (put / get / delete) on `key`
// with the given partition key to; VerifC18RangeRoute: the shard it sends List / RangeScan / DeleteRange with
// that partition key to. Both run the real routing helper of a clientImpl over the given shard manager.
func VerifC18RecordRoute(sm *VerifC18ShardManager, key string, partitionKey string) (id int64, ok bool) {
	defer func() {
		if r := recover(); r != nil {
			id, ok = -1, false
		}
	}()
	c := &clientImpl{shardManager: sm.Impl()}
	return c.getShardForKey(key, newGetOptions([]GetOption{PartitionKey(partitionKey)})), true
}

func VerifC18RangeRoute(sm *VerifC18ShardManager, partitionKey string) (id int64, ok bool) {
	defer func() {
		if r := recover(); r != nil {
			id, ok = -1, false
		}
	}()
	c := &clientImpl{shardManager: sm.Impl()}
	o := newListOptions([]ListOption{PartitionKey(partitionKey)})
	if o.partitionKey == nil {
		return -1, false // List would fan out to every shard
	}
	return c.getShardForKey("", o), true
}
