//go:build verif

package oxia

import "github.com/oxia-db/oxia/oxia/internal"

// Re-exports for the /verif C18 harness (oxia/internal cannot be imported from outside /repo/oxia).
type VerifC18ShardManager = internal.VerifSM
type VerifC18Shard = internal.VerifShard

func VerifC18NewShardManager(namespace string) *VerifC18ShardManager {
	return internal.VerifNewSM(namespace)
}
