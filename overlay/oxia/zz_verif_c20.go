//go:build verif

package oxia

import (
	"context"
	"io"
	"time"

	"github.com/oxia-db/oxia/common/rpc"
	commonbatch "github.com/oxia-db/oxia/oxia/batch"
	"github.com/oxia-db/oxia/oxia/internal"
	"github.com/oxia-db/oxia/oxia/internal/batch"
	"github.com/oxia-db/oxia/oxia/internal/metrics"
	"github.com/oxia-db/oxia/oxia/internal/model"
	"github.com/oxia-db/oxia/proto"
)

// White-box construction of the async client for the /verif C20 harness
// (github.com/oxia-db/oxia/oxia/internal cannot be imported from outside /repo/oxia).
// VerifC20NewClient mirrors NewAsyncClient line by line, except that the shard manager
// and the executor are supplied by the caller (no network) and that maxBatchSize, which
// has no public option, can be chosen.

// VerifC20Executor has the method set of internal.Executor.
type VerifC20Executor interface {
	ExecuteWrite(ctx context.Context, request *proto.WriteRequest) (*proto.WriteResponse, error)
	ExecuteRead(ctx context.Context, request *proto.ReadRequest) (proto.OxiaClient_ReadClient, error)
	ExecuteList(ctx context.Context, request *proto.ListRequest) (proto.OxiaClient_ListClient, error)
	ExecuteRangeScan(ctx context.Context, request *proto.RangeScanRequest) (proto.OxiaClient_RangeScanClient, error)
}

// VerifC20ShardManager has the method set of internal.ShardManager.
type VerifC20ShardManager interface {
	io.Closer
	Get(key string) int64
	GetAll() []int64
	Leader(shardId int64) string
}

type VerifC20Options struct {
	Linger              time.Duration
	MaxRequestsPerBatch int
	MaxBatchSize        int // 0: DefaultMaxBatchSize
	RequestTimeout      time.Duration
	// OnCallbackPanic, if set, receives panics raised inside the completion callbacks
	// that the client hands to the batchers (op = put|delete|delete_range|get). The
	// callbacks are decorated with a recover() frame only (the same way
	// metrics.DecoratePut decorates them); batchers, batches and their goroutines are
	// the real ones. Without it such a panic unwinds the batcher goroutine.
	OnCallbackPanic func(op string, v any)
}

func VerifC20NewClient(o VerifC20Options, sm VerifC20ShardManager, ex VerifC20Executor) AsyncClient {
	options, err := newClientOptions("verif-c20:0",
		WithBatchLinger(o.Linger),
		WithMaxRequestsPerBatch(o.MaxRequestsPerBatch),
		WithRequestTimeout(o.RequestTimeout),
		WithIdentity("verif-c20"))
	if err != nil {
		panic(err)
	}
	if o.MaxBatchSize > 0 {
		options.maxBatchSize = o.MaxBatchSize
	}
	var shardManager internal.ShardManager = sm
	var executor internal.Executor = ex

	wrap := func(b commonbatch.Batcher) commonbatch.Batcher {
		if o.OnCallbackPanic == nil {
			return b
		}
		return &verifC20Batcher{Batcher: b, onPanic: o.OnCallbackPanic}
	}

	ctx, cancel := context.WithCancel(context.Background())
	batcherFactory := batch.NewBatcherFactory(
		executor,
		options.namespace,
		options.batchLinger,
		options.maxRequestsPerBatch,
		metrics.NewMetrics(options.meterProvider),
		options.requestTimeout)
	c := &clientImpl{
		options:      options,
		shardManager: shardManager,
		writeBatchManager: batch.NewManager(ctx, func(ctx context.Context, shard *int64) commonbatch.Batcher {
			return wrap(batcherFactory.NewWriteBatcher(ctx, shard, options.maxBatchSize))
		}),
		readBatchManager: batch.NewManager(ctx, func(ctx context.Context, shard *int64) commonbatch.Batcher {
			return wrap(batcherFactory.NewReadBatcher(ctx, shard))
		}),
		executor: executor,
	}
	c.ctx, c.cancel = ctx, cancel
	c.sessions = newSessions(c.ctx, c.shardManager, c.clientPool, c.options)
	return c
}

// VerifC20NewRealExecutor is internal.NewExecutor (the real executorImpl with its
// per-shard write-stream wrappers) over a caller-supplied connection pool.
func VerifC20NewRealExecutor(ctx context.Context, namespace string, pool rpc.ClientPool, sm VerifC20ShardManager) VerifC20Executor {
	return internal.NewExecutor(ctx, namespace, pool, sm, "verif-c20:0")
}

// Re-exports of the write-stream wrapper (see overlay/oxia/internal/zz_verif_c20.go).
type VerifC20StreamWrapper = internal.VerifC20SW

func VerifC20NewStreamWrapper(shard int64, stream proto.OxiaClient_WriteStreamClient, onPanic func(where string, v any)) *VerifC20StreamWrapper {
	return internal.VerifC20NewStreamWrapper(shard, stream, onPanic)
}

type verifC20Batcher struct {
	commonbatch.Batcher
	onPanic func(op string, v any)
}

func (w *verifC20Batcher) guard(op string) {
	if r := recover(); r != nil {
		w.onPanic(op, r)
	}
}

func (w *verifC20Batcher) Add(call any) {
	switch c := call.(type) {
	case model.PutCall:
		cb := c.Callback
		c.Callback = func(r *proto.PutResponse, err error) {
			defer w.guard("put")
			cb(r, err)
		}
		call = c
	case model.DeleteCall:
		cb := c.Callback
		c.Callback = func(r *proto.DeleteResponse, err error) {
			defer w.guard("delete")
			cb(r, err)
		}
		call = c
	case model.DeleteRangeCall:
		cb := c.Callback
		c.Callback = func(r *proto.DeleteRangeResponse, err error) {
			defer w.guard("delete_range")
			cb(r, err)
		}
		call = c
	case model.GetCall:
		cb := c.Callback
		c.Callback = func(r *proto.GetResponse, err error) {
			defer w.guard("get")
			cb(r, err)
		}
		call = c
	}
	w.Batcher.Add(call)
}
