//go:build verif

package oxia

import (
	"context"
	"io"

	"github.com/oxia-db/oxia/common/rpc"
)

// White-box construction of the client's notification manager for the /verif C17 client scenario: the
// real newNotifications (one manager per shard, reconnect with backoff, multiplexing) over a client pool and
// a shard manager supplied by the harness (no network).

// VerifC17ShardManager has the method set of internal.ShardManager.
type VerifC17ShardManager interface {
	io.Closer
	Get(key string) int64
	GetAll() []int64
	Leader(shardId int64) string
}

func VerifC17NewNotifications(ctx context.Context, pool rpc.ClientPool, sm VerifC17ShardManager) (Notifications, error) {
	options, err := newClientOptions("verif-c17:0", WithIdentity("verif-c17"))
	if err != nil {
		return nil, err
	}
	return newNotifications(ctx, options, pool, sm)
}
