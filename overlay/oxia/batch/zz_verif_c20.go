//go:build verif

package batch

// White-box access for the /verif C20 schedule stage: the length of a batcher's call queue is
// GOMAXPROCS of the process, which would make the explored schedules depend on the machine.
func VerifC20SetQueueLength(n int) { batcherChannelBufferSize = n }
