//go:build verif

package internal

import (
	"context"

	"github.com/oxia-db/oxia/proto"
)

// White-box access to the write-stream wrapper for the /verif C20 harness.
//
// VerifC20NewStreamWrapper(shard, stream, nil) is exactly newStreamWrapper. With a
// non-nil onPanic the two service goroutines of the wrapper are started with an
// additional recover() frame at their top (nothing else differs from
// newStreamWrapper): a panic inside handleResponses / handleStreamClosed is handed to
// the harness, which classifies it by goroutine and message instead of receiving the
// explorer's catch-all key "panic".

type VerifC20SW struct{ sw *streamWrapper }

func VerifC20NewStreamWrapper(shard int64, stream proto.OxiaClient_WriteStreamClient, onPanic func(where string, v any)) *VerifC20SW {
	if onPanic == nil {
		return &VerifC20SW{sw: newStreamWrapper(shard, stream)}
	}
	sw := &streamWrapper{stream: stream}
	go verifC20Guard("handle-response", onPanic, sw.handleResponses)
	go verifC20Guard("handle-stream-closed", onPanic, sw.handleStreamClosed)
	return &VerifC20SW{sw: sw}
}

func verifC20Guard(where string, onPanic func(where string, v any), f func()) {
	defer func() {
		if r := recover(); r != nil {
			onPanic(where, r)
		}
	}()
	f()
}

func (v *VerifC20SW) Send(ctx context.Context, req *proto.WriteRequest) (*proto.WriteResponse, error) {
	return v.sw.Send(ctx, req)
}

func (v *VerifC20SW) Failed() bool { return v.sw.failed.Load() }
