//go:build verif

package internal

import (
	"context"
	"log/slog"
	"sort"

	"github.com/oxia-db/oxia/common/concurrent"
	"github.com/oxia-db/oxia/proto"
)

// White-box access to the client shard manager for the /verif C18 harness: a real
// shardManagerImpl with the real shard strategy, without the network receive loop.
// VerifReceive runs the body of shardManagerImpl.receive for one response.

type VerifSM struct{ s *shardManagerImpl }

func VerifNewSM(namespace string) *VerifSM {
	sm := &shardManagerImpl{
		namespace:     namespace,
		shardStrategy: NewShardStrategy(),
		shards:        make(map[int64]Shard),
		logger:        slog.Default(),
	}
	sm.updatedWg = concurrent.NewWaitGroup(1)
	sm.ctx, sm.cancel = context.WithCancel(context.Background())
	return &VerifSM{s: sm}
}

func (v *VerifSM) Close() { _ = v.s.Close() }

// Impl is the shard manager itself (for a client built over it).
func (v *VerifSM) Impl() ShardManager { return v.s }

// VerifReceive = one iteration of the loop in shardManagerImpl.receive. found=false is the
// "namespace not found in shards assignments" error path (no update applied).
func (v *VerifSM) VerifReceive(response *proto.ShardAssignments) (found bool) {
	s := v.s
	assignments, ok := response.Namespaces[s.namespace]
	if !ok {
		return false
	}
	shards := make([]Shard, len(assignments.Assignments))
	for i, assignment := range assignments.Assignments {
		shards[i] = toShard(assignment)
	}
	s.update(shards)
	return true
}

// Get calls the real ShardManager.Get; the "shard not found" panic is reported as ok=false.
func (v *VerifSM) Get(key string) (id int64, ok bool) {
	defer func() {
		if r := recover(); r != nil {
			id, ok = -1, false
		}
	}()
	return v.s.Get(key), true
}

// OwnersOfHash evaluates the real shard-strategy predicate for a given hash code on every
// shard the manager holds (Get returns the first match in map order; more than one owner
// makes it nondeterministic, none makes it panic).
func (v *VerifSM) OwnersOfHash(code uint32) []int64 {
	st := &shardStrategyImpl{hashFunc: func(string) uint32 { return code }}
	pred := st.Get("")
	v.s.RLock()
	defer v.s.RUnlock()
	var out []int64
	for _, sh := range v.s.shards {
		if pred(sh) {
			out = append(out, sh.Id)
		}
	}
	sort.Slice(out, func(i, j int) bool { return out[i] < out[j] })
	return out
}

type VerifShard struct {
	Id       int64
	Min, Max uint32
	Leader   string
}

func (v *VerifSM) Shards() []VerifShard {
	v.s.RLock()
	defer v.s.RUnlock()
	out := make([]VerifShard, 0, len(v.s.shards))
	for _, sh := range v.s.shards {
		out = append(out, VerifShard{Id: sh.Id, Min: sh.HashRange.MinInclusive, Max: sh.HashRange.MaxInclusive, Leader: sh.Leader})
	}
	sort.Slice(out, func(i, j int) bool { return out[i].Id < out[j].Id })
	return out
}
