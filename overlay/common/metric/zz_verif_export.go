//go:build verif

package metric

import "go.opentelemetry.io/otel/metric/noop"

// VerifUseNoopMeter replaces the package meter by OpenTelemetry's no-op meter. Harnesses that create
// many short-lived databases call it once at start: registering and unregistering ~60 gauge callbacks
// per database serialises on the SDK pipeline mutex and dominates the run time. Metrics are
// observability only; no code under test reads them. (Shared file: do not duplicate this function.)
func VerifUseNoopMeter() { meter = noop.NewMeterProvider().Meter("oxia") }
