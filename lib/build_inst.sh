#!/bin/bash
# build_inst.sh <id>: instrument the repo packages for scheduler harness <id>.
# Output: build/inst-<id>/map.json (overlay fragment: rewritten files + shim packages).
set -u
ROOT="${VERIF_ROOT:-/verif}"
cd "$ROOT" || exit 2
export GOFLAGS=-mod=mod GOPROXY=off
id="$1"
out="$ROOT/build/inst-$id"
mkdir -p "$out" build/bin
if [ ! -x build/bin/vinst ] || [ tools/vinst/main.go -nt build/bin/vinst ]; then
  (cd tools/vinst && go build -o "$ROOT/build/bin/vinst" .) || exit 2
fi
EXTRA=()
[ -n "${VERIF_EXTRA_OVERLAY:-}" ] && EXTRA+=("$VERIF_EXTRA_OVERLAY")
python3 lib/mkoverlay.py --harness "$id" --out-dir "$ROOT/build/rw-$id" "${EXTRA[@]}" > "$out/base.json" || exit 2
rm -f "$out"/*.go
PKGS="./common/... ./server/... ./coordinator/... ./oxia/..."
[ -f "h/$id/INSTRUMENT" ] && [ -s "h/$id/INSTRUMENT" ] && PKGS=$(cat "h/$id/INSTRUMENT")
build/bin/vinst -shims "$ROOT/shim" -out "$out" -overlay "$out/base.json" $PKGS 2> "$out/vinst.log" || { cat "$out/vinst.log" >&2; exit 2; }
